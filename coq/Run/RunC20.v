(* Correspondence evaluator for C20: evaluates the panic-monad models of Misc/Panics*.v on
   the structured inputs the harness ran through the real Helm entry points, and reports
   the indices where the Ok/Err/Panic classification (and the cheap projected result)
   differs.  Third-party verdicts (semver validity / constraint checks, record decoding)
   are supplied with the case as data. *)
From Coq Require Import List String Ascii Bool Arith ZArith.
From Helm Require Import Common.Assoc Common.Strs Values.Tree Values.Coalesce
  Misc.Panics Misc.PanicsStorage Misc.PanicsDeps Misc.PanicsIndex Misc.PanicsSort Misc.PanicsSchema
  Misc.PanicsStrvalsLex Misc.PanicsStrvals Misc.PanicsRec Misc.PanicsGate Misc.PanicsCoalesce Misc.PanicsSmall Gen.C20Tables.
Import ListNotations.
Local Open Scope string_scope.

(* ---------- helpers ---------- *)
Fixpoint list_eqb {A : Type} (f : A -> A -> bool) (l1 l2 : list A) : bool :=
  match l1, l2 with
  | [], [] => true
  | a :: t1, b :: t2 => f a b && list_eqb f t1 t2
  | _, _ => false
  end.

Definition pair_eqb {A B : Type} (f : A -> A -> bool) (g : B -> B -> bool) (x y : A * B) : bool :=
  f (fst x) (fst y) && g (snd x) (snd y).

Definition mem_str (s : string) (l : list string) : bool := existsb (String.eqb s) l.

(* insertion sort of (name, version) pairs: by name (byte order), then version *)
Definition nv_le (a b : string * Z) : bool :=
  if String.eqb (fst a) (fst b) then Z.leb (snd a) (snd b) else str_ltb (fst a) (fst b).
Fixpoint nv_insert (x : string * Z) (l : list (string * Z)) : list (string * Z) :=
  match l with
  | [] => [x]
  | y :: t => if nv_le x y then x :: l else y :: nv_insert x t
  end.
Definition nv_sort (l : list (string * Z)) : list (string * Z) := fold_right nv_insert [] l.

Fixpoint str_insert (x : string) (l : list string) : list string :=
  match l with
  | [] => [x]
  | y :: t => if str_ltb y x then y :: str_insert x t else x :: l
  end.
Definition str_sort (l : list string) : list string := fold_right str_insert [] l.

Definition is_space (c : ascii) : bool :=
  let n := nat_of_ascii c in (Nat.eqb n 32) || (Nat.leb 9 n && Nat.leb n 13).
Fixpoint ltrim (s : string) : string :=
  match s with
  | String c t => if is_space c then ltrim t else s
  | EmptyString => EmptyString
  end.
Fixpoint srev_aux (s acc : string) : string :=
  match s with EmptyString => acc | String c t => srev_aux t (String c acc) end.
Definition srev (s : string) : string := srev_aux s EmptyString.
Definition trim_space (s : string) : string := srev (ltrim (srev (ltrim s))).

(* ---------- storage ---------- *)
Inductive sop :=
| SGet (key : string)
| SList
| SQuery (q : list (string * string))
| SListDeployed
| SListUninstalled
| SDeployed (name : string)
| SLast (name : string)
| SHistory (name : string).

(* observed: classification and the (name, revision) of every release returned, sorted *)
Record sobs := mkSobs { sb_cls : cls; sb_rels : list (string * Z) }.

Definition st_empty : option srel := None.
Definition st_dec (b : option srel) : option srel := decode_release (fun x => x) b.
Fixpoint no_space (s : string) : bool :=
  match s with EmptyString => true | String c t => negb (is_space c) && no_space t end.
Definition st_valid_label (s : string) : bool := no_space s.

(* Reverse(SortByRevision): highest revision first *)
Definition st_rev_sort (l : list srel) : list srel :=
  fold_right (fun r acc =>
                (fix ins (l : list srel) : list srel :=
                   match l with
                   | [] => [r]
                   | y :: t => if Z.leb (sr_version y) (sr_version r) then r :: l else y :: ins t
                   end) acc) [] l.

Definition st_run (st : list (sobj (option srel))) (op : sop) : res (list srel) :=
  let D := option srel in
  match op with
  | SGet key => r <- drv_get D st_empty st_dec (fun _ => false) st key ;; Ok [r]
  | SList => drv_list D st_empty st_dec st (fun _ => Ok true)
  | SQuery q => drv_query D st_empty st_dec st_valid_label st q
  | SListDeployed => list_deployed D st_empty st_dec st
  | SListUninstalled => list_uninstalled D st_empty st_dec st
  | SDeployed name => r <- deployed D st_empty st_dec st_valid_label st_rev_sort st name ;; Ok [r]
  | SLast name => r <- last D st_empty st_dec st_valid_label st_rev_sort st name ;; Ok [r]
  | SHistory name => history D st_empty st_dec st_valid_label st name
  end.

Definition st_proj (r : res (list srel)) : sobs :=
  match r with
  | Ok l => mkSobs COk (nv_sort (map (fun r => (sr_name r, sr_version r)) l))
  | Err => mkSobs CErr []
  | Panic _ => mkSobs CPanic []
  end.

Definition sobs_eqb (a b : sobs) : bool :=
  cls_eqb (sb_cls a) (sb_cls b) &&
  list_eqb (pair_eqb String.eqb Z.eqb) (sb_rels a) (sb_rels b).

(* ---------- charts: dependencies and import-values ---------- *)
Fixpoint to_cchart (c : PanicsDeps.chart) : Coalesce.chart :=
  match c with
  | Chart md vals subs =>
      mkChart (match md with Some m => m_name m | None => EmptyString end) vals
              ((fix go (l : list PanicsDeps.chart) : list Coalesce.chart :=
                  match l with [] => [] | x :: t => to_cchart x :: go t end) subs)
  end.

(* projection of a processed chart: per chart its name, the names of the dependencies left in
   its metadata with their rewritten import-values pairs, and the loaded subcharts *)
Inductive ptree := PT (name : string) (deps : list (string * list (string * string))) (subs : list ptree).

Definition iv_pairs (l : list val) : list (string * string) :=
  flat_map (fun v => match v with
                     | VMap m => match mget "child" m, mget "parent" m with
                                 | Some (VStr c), Some (VStr p) => [(c, p)]
                                 | _, _ => []
                                 end
                     | _ => []
                     end) l.

Fixpoint proj_chart (c : PanicsDeps.chart) : ptree :=
  match c with
  | Chart md _ subs =>
      PT (match md with Some m => m_name m | None => EmptyString end)
         (match md with
          | Some m => match m_deps m with
                      | Some ds => flat_map (fun d => match d with
                                                      | Some d => [(d_name d, iv_pairs (d_imports d))]
                                                      | None => []
                                                      end) ds
                      | None => []
                      end
          | None => []
          end)
         ((fix go (l : list PanicsDeps.chart) : list ptree :=
             match l with [] => [] | x :: t => proj_chart x :: go t end) subs)
  end.

Fixpoint ptree_eqb (a b : ptree) {struct a} : bool :=
  match a, b with
  | PT n1 d1 s1, PT n2 d2 s2 =>
      String.eqb n1 n2 &&
      list_eqb (pair_eqb String.eqb (list_eqb (pair_eqb String.eqb String.eqb))) d1 d2 &&
      (fix go (l1 l2 : list ptree) : bool :=
         match l1, l2 with
         | [], [] => true
         | x :: t1, y :: t2 => ptree_eqb x y && go t1 t2
         | _, _ => false
         end) s1 s2
  end.

Definition alias_char_ok (c : ascii) : bool :=
  let n := nat_of_ascii c in
  (Nat.leb 48 n && Nat.leb n 57) || (Nat.leb 65 n && Nat.leb n 90) || (Nat.leb 97 n && Nat.leb n 122)
  || Nat.eqb n 95 || Nat.eqb n 45.
Fixpoint all_chars (f : ascii -> bool) (s : string) : bool :=
  match s with EmptyString => true | String c t => f c && all_chars f t end.
(* aliasNameFormat = ^[a-zA-Z0-9_-]+$ *)
Definition alias_ok (s : string) : bool := negb (String.eqb s EmptyString) && all_chars alias_char_ok s.

Definition no_slash (s : string) : bool := all_chars (fun c => negb (Ascii.eqb c "/"%char)) s.

Record chart_oracle := mkCO {
  co_semver_ok : list string;                       (* version strings semver.NewVersion accepts *)
  co_compat : list (string * string)                (* (constraint, version) pairs IsCompatibleRange accepts *)
}.

Definition co_compat_b (o : chart_oracle) (c v : string) : bool :=
  existsb (fun p => String.eqb (fst p) c && String.eqb (snd p) v) (co_compat o).

(* metadata.go Validate, the scalar part: name present and equal to its base name, version a semver *)
Definition scalars_ok (o : chart_oracle) (m : meta) : bool :=
  negb (String.eqb (m_name m) EmptyString) && no_slash (m_name m) &&
  negb (String.eqb (m_name m) ".") && negb (String.eqb (m_name m) "..") &&
  mem_str (m_version m) (co_semver_ok o).

Definition chart_run (o : chart_oracle) (c : PanicsDeps.chart) (v : vmap) : res PanicsDeps.chart :=
  load_and_process (co_compat_b o)
    (fun c v => coalesce_values_root (to_cchart c) v)
    (fun c => merge_values_root (to_cchart c) [])
    merge_tables_pub trim_space (scalars_ok o) alias_ok c v.

Record cobs := mkCobs { cb_cls : cls; cb_tree : option ptree }.

Definition cobs_eqb (a b : cobs) : bool :=
  cls_eqb (cb_cls a) (cb_cls b) &&
  match cb_tree a, cb_tree b with
  | Some x, Some y => ptree_eqb x y
  | None, None => true
  | _, _ => false
  end.

Definition chart_proj (r : res PanicsDeps.chart) : cobs :=
  match r with
  | Ok c => mkCobs COk (Some (proj_chart c))
  | Err => mkCobs CErr None
  | Panic _ => mkCobs CPanic None
  end.

(* ---------- index ---------- *)
Record index_oracle := mkIO {
  io_semver_ok : list string;
  io_constraints_ok : list string;                   (* constraint strings NewConstraint accepts *)
  io_check : list (string * string)                  (* (constraint, version) pairs Check accepts *)
}.

(* Metadata.Validate on an index entry: name, version, and — for the parts of the metadata the
   model does not carry (type, maintainers, dependencies) — the verdict known by construction
   of the generated entry, given as the list [bad_rest] of (name, version) *)
Definition io_validate (o : index_oracle) (bad_rest : list (string * string)) (m : imeta) : bool :=
  negb (String.eqb (im_name m) EmptyString) && no_slash (im_name m) &&
  mem_str (im_version m) (io_semver_ok o) &&
  negb (existsb (fun p => String.eqb (fst p) (im_name m) && String.eqb (snd p) (im_version m)) bad_rest).

Inductive iquery := IGet (name version : string).

Definition ileft := list (string * list string).

(* observed: load classification; when Ok the surviving versions per name (sorted) and per
   query the classification; the same again after merging a second loaded index into it *)
Record iobs := mkIobs {
  ib_cls : cls;
  ib_left : ileft;
  ib_gets : list cls;
  ib_merge : option (cls * ileft * list cls);
  ib_search : option (cls * nat * nat)     (* search.Index.AddRepo: class, entries for all=false / all=true *)
}.

Definition entry_ver (e : centry) : string :=
  match e with Some (Some m) => im_version m | _ => "<nil>" end.

Fixpoint kv_insert {A : Type} (x : string * A) (l : list (string * A)) : list (string * A) :=
  match l with
  | [] => [x]
  | y :: t => if str_ltb (fst y) (fst x) then y :: kv_insert x t else x :: l
  end.
Definition kv_sort {A : Type} (l : list (string * A)) : list (string * A) := fold_right kv_insert [] l.

Fixpoint nodup_str (l : list string) : list string :=
  match l with
  | [] => []
  | x :: t => if mem_str x t then nodup_str t else x :: nodup_str t
  end.

(* AddRepo twice (newest only / all versions): the number of keys in the search index *)
Definition search_of (idx : rawindex) : cls * nat * nat :=
  match add_repo (fun l => l) true (fun _ => false) false "repo" idx,
        add_repo (fun l => l) true (fun _ => false) true "repo" idx with
  | Ok k1, Ok k2 => (COk, List.length (nodup_str k1), List.length (nodup_str k2))
  | Panic _, _ | _, Panic _ => (CPanic, 0, 0)
  | _, _ => (CErr, 0, 0)
  end.

Definition left_of (idx : rawindex) : ileft :=
  kv_sort (map (fun ne => (fst ne, str_sort (map entry_ver (snd ne)))) (entries_of idx)).

Section IndexRun.
  Variable o : index_oracle.
  Definition io_parse (s : string) : option string := if mem_str s (io_constraints_ok o) then Some s else None.
  Definition io_chk (c v : string) : bool :=
    existsb (fun p => String.eqb (fst p) c && String.eqb (snd p) v) (io_check o).
  Definition io_get (idx : rawindex) (q : iquery) : cls :=
    match q with
    | IGet name version =>
        classify (get (fun v => mem_str v (io_semver_ok o)) string io_parse io_chk idx name version)
    end.

  Definition index_run (bad_rest : list (string * string)) (r : rawindex) (qs : list iquery)
             (mg : option (list (string * string) * rawindex)) : iobs :=
    match load_index (io_validate o bad_rest) (fun l => l) true r with
    | Ok idx =>
        let m := match mg with
                 | None => Ok None
                 | Some (bad2, r2) =>
                     match load_index (io_validate o bad2) (fun l => l) true r2 with
                     | Ok other =>
                         match merge (fun v => mem_str v (io_semver_ok o)) string io_parse io_chk true idx other with
                         | Ok idx' => Ok (Some (COk, left_of idx', map (io_get idx') qs))
                         | Err => Ok (Some (CErr, [], []))
                         | Panic w => Panic w
                         end
                     | Err => Ok (Some (CErr, [], []))
                     | Panic w => Panic w
                     end
                 end in
        match m with
        | Ok mo => mkIobs COk (left_of idx) (map (io_get idx) qs) mo (Some (search_of idx))
        | _ => mkIobs CPanic (left_of idx) (map (io_get idx) qs) None (Some (search_of idx))
        end
    | Err => mkIobs CErr [] [] None None
    | Panic _ => mkIobs CPanic [] [] None None
    end.
End IndexRun.

Definition ileft_eqb : ileft -> ileft -> bool := list_eqb (pair_eqb String.eqb (list_eqb String.eqb)).

Definition iobs_eqb (a b : iobs) : bool :=
  cls_eqb (ib_cls a) (ib_cls b) &&
  ileft_eqb (ib_left a) (ib_left b) &&
  list_eqb cls_eqb (ib_gets a) (ib_gets b) &&
  match ib_merge a, ib_merge b with
  | None, None => true
  | Some (c1, l1, g1), Some (c2, l2, g2) => cls_eqb c1 c2 && ileft_eqb l1 l2 && list_eqb cls_eqb g1 g2
  | _, _ => false
  end &&
  match ib_search a, ib_search b with
  | None, None => true
  | Some (c1, n1, m1), Some (c2, n2, m2) => cls_eqb c1 c2 && Nat.eqb n1 n2 && Nat.eqb m1 m2
  | _, _ => false
  end.

(* ---------- manifests ---------- *)
Definition is_digit (c : ascii) : bool := let n := nat_of_ascii c in Nat.leb 48 n && Nat.leb n 57.
Fixpoint digits_val (s : string) (acc : Z) : option Z :=
  match s with
  | EmptyString => Some acc
  | String c t => if is_digit c then digits_val t (acc * 10 + Z.of_nat (nat_of_ascii c - 48))%Z else None
  end.
(* strconv.Atoi: optional sign, at least one digit, value within int64 *)
Definition atoi_z (s : string) : option Z :=
  let '(neg, body) := match s with
                      | String "-"%char t => (true, t)
                      | String "+"%char t => (false, t)
                      | _ => (false, s)
                      end in
  match body with
  | EmptyString => None
  | _ => match digits_val body 0%Z with
         | Some n => let v := if neg then (- n)%Z else n in
                     if Z.leb (-9223372036854775808) v && Z.leb v 9223372036854775807 then Some v else None
         | None => None
         end
  end.

Definition lower_char (c : ascii) : ascii :=
  let n := nat_of_ascii c in if Nat.leb 65 n && Nat.leb n 90 then ascii_of_nat (n + 32) else c.
Fixpoint lower (s : string) : string :=
  match s with EmptyString => EmptyString | String c t => String (lower_char c) (lower t) end.
Definition norm_item (s : string) : string := lower (trim_space s).

(* observed: class, hooks as (name, weight, events) in name order, number of generic manifests *)
Record mobs := mkMobs { mb_cls : cls; mb_hooks : list (string * Z * list string); mb_generic : nat }.

Fixpoint hk_insert (x : string * Z * list string) (l : list (string * Z * list string)) :=
  match l with
  | [] => [x]
  | y :: t => if str_ltb (fst (fst y)) (fst (fst x)) then y :: hk_insert x t else x :: l
  end.

Definition man_run (fs : list mfile) : mobs :=
  match sort_manifests atoi_z norm_item (fun e => aget e hook_events) (fun l => l) (fun l => l) true fs with
  | Ok (hs, gs) => mkMobs COk (fold_right hk_insert [] (map (fun h => (hk_name h, hk_weight h, hk_events h)) hs)) (List.length gs)
  | Err => mkMobs CErr [] 0
  | Panic _ => mkMobs CPanic [] 0
  end.

Definition mobs_eqb (a b : mobs) : bool :=
  cls_eqb (mb_cls a) (mb_cls b) &&
  list_eqb (pair_eqb (pair_eqb String.eqb Z.eqb) (list_eqb String.eqb)) (mb_hooks a) (mb_hooks b) &&
  Nat.eqb (mb_generic a) (mb_generic b).

(* ---------- schema walk ---------- *)
(* a schema is represented by the verdict of the JSON-schema library on the values it is
   applied to — here: the set of keys it requires (library semantics reduced to `required`) *)
Definition sch := list string.
Definition sch_validate (s : sch) (values : vmap) : res bool :=
  Ok (forallb (fun k => mhas k values) s).

(* ToRenderValues: CoalesceValues (on the chart tree with each chart's own values.yaml, given
   as a Coalesce.chart), then ValidateAgainstSchema.  Class only. *)
Definition schema_run (direct : bool) (c : schart sch) (cc : Coalesce.chart) (v : vmap) : cls :=
  if direct then
    match validate_schema sch sch_validate true c v with
    | Ok true => COk | Ok false => CErr | Err => CErr | Panic _ => CPanic
    end
  else
    (* CoalesceValues in the panic monad (Misc/PanicsCoalesce.v; proved equal to the shared
       model Values/Coalesce.v): a type assertion of coalesce.go that fired would show here *)
    match coalesce_values_p cc v with
    | Err => CErr
    | Panic _ => CPanic
    | Ok cv =>
        match validate_schema sch sch_validate true c cv with
        | Ok true => COk | Ok false => CErr | Err => CErr | Panic _ => CPanic
        end
    end.

(* ---------- strvals ---------- *)
Definition strvals_run (m : pmode) (input : string) : cls :=
  match PanicsStrvals.parse (mkCfg m [] []) true strvals_max_index (Z.to_nat strvals_max_nested_name_level)
                            (2 ^ 40)%Z true [] input with
  | Ret (Ok _) => COk
  | Ret Err => CErr
  | Ret (Panic _) => CPanic
  | Fatal => CPanic
  end.

(* ---------- include / tpl / template programs ---------- *)
(* [rep] nested calls of one kind around the body; a tpl node with [vary] hands tpl a different
   text at every level (the flag means nothing for include and template) *)
Inductive rprog := RCall (k : kind) (n : string) (vary : bool) (rep : nat) (body : list rprog).

Fixpoint rexpand (p : rprog) : list call :=
  match p with
  | RCall k n vary rep body =>
      nest k (fun i => if vary && kind_eqb k KTpl then n ++ "#" ++ nat_str i else n) rep
           ((fix go (l : list rprog) : list call :=
               match l with [] => [] | x :: t => (rexpand x ++ go t)%list end) body)
  end.

(* observed: ok with the number of calls entered, or err *)
Definition rec_run (prog : list rprog) (defined : list string) : cls * Z :=
  match run_calls engine_cfg (fun n => mem_str n defined) (flat_map rexpand prog) rinit 0%Z with
  | Some (_, n) => (COk, n)
  | None => (CErr, 0%Z)
  end.

Definition rec_eqb (a b : cls * Z) : bool := cls_eqb (fst a) (fst b) && Z.eqb (snd a) (snd b).

(* ---------- chart directories: which files LoadDir reads ---------- *)
Definition dir_run (nodes : list node) : cls * list string :=
  match walk_nodes gate_not_regular "" nodes with
  | Some names => (COk, str_sort names)
  | None => (CErr, [])
  end.

Definition dir_eqb (a b : cls * list string) : bool :=
  cls_eqb (fst a) (fst b) && list_eqb String.eqb (snd a) (snd b).

(* ---------- plugin.yaml -> LoadDir -> PrepareCommand ---------- *)
Definition plugin_run (goos goarch : string) (md : option pmeta) (extra : list string)
  : cls * option (string * list string) :=
  match load_and_prepare eq_fold_ascii goos goarch (fun s => s) split_space_s alias_ok md extra with
  | Ok r => (COk, Some r)
  | Err => (CErr, None)
  | Panic _ => (CPanic, None)
  end.

Definition plugin_eqb (a b : cls * option (string * list string)) : bool :=
  cls_eqb (fst a) (fst b) &&
  match snd a, snd b with
  | None, None => true
  | Some (m1, a1), Some (m2, a2) => String.eqb m1 m2 && list_eqb String.eqb a1 a2
  | _, _ => false
  end.

(* ---------- provenance: parseMessageBlock ---------- *)
Definition prov_verdict (tbl : list (string * (bool * bool))) (second : bool) (p : string) : bool :=
  match aget p tbl with
  | Some v => if second then snd v else fst v
  | None => false
  end.

Definition provmsg_run (data : string) (tbl : list (string * (bool * bool))) : cls :=
  classify (parse_message_block string (prov_verdict tbl false) (prov_verdict tbl true) 2
              (split_sep (String (ascii_of_nat 10) ("..." ++ String (ascii_of_nat 10) EmptyString)) data)).

(* ---------- cases ---------- *)
Inductive case :=
| CStorage (st : list (sobj (option srel))) (ops : list sop) (obs : list sobs)
| CChart (o : chart_oracle) (c : PanicsDeps.chart) (v : vmap) (obs : cobs)
| CIndex (o : index_oracle) (bad_rest : list (string * string)) (r : rawindex) (qs : list iquery)
         (mg : option (list (string * string) * rawindex)) (obs : iobs)
| CManifest (fs : list mfile) (obs : mobs)
| CSchema (direct : bool) (c : schart sch) (cc : Coalesce.chart) (v : vmap) (obs : cls)
| CStrvals (m : pmode) (input : string) (obs : cls)
| CRec (prog : list rprog) (defined : list string) (obs : cls * Z)
| CDir (nodes : list node) (obs : cls * list string)
| CPlugin (goos goarch : string) (md : option pmeta) (extra : list string) (obs : cls * option (string * list string))
| CProvMsg (data : string) (tbl : list (string * (bool * bool))) (obs : cls)
| CExplore (obs : cls).          (* raw / mutated input on the real code only: nothing to compare,
                                    the runtime oracle judges it *)

Definition case_ok (c : case) : bool :=
  match c with
  | CStorage st ops obs => list_eqb sobs_eqb (map (fun op => st_proj (st_run st op)) ops) obs
  | CChart o c v obs => cobs_eqb (chart_proj (chart_run o c v)) obs
  | CIndex o bad r qs mg obs => iobs_eqb (index_run o bad r qs mg) obs
  | CManifest fs obs => mobs_eqb (man_run fs) obs
  | CSchema direct c cc v obs => cls_eqb (schema_run direct c cc v) obs
  | CStrvals m input obs => cls_eqb (strvals_run m input) obs
  | CRec prog defined obs => rec_eqb (rec_run prog defined) obs
  | CDir nodes obs => dir_eqb (dir_run nodes) obs
  | CPlugin goos goarch md extra obs => plugin_eqb (plugin_run goos goarch md extra) obs
  | CProvMsg data tbl obs => cls_eqb (provmsg_run data tbl) obs
  | CExplore _ => true
  end.

Fixpoint mismatches_from (i : nat) (cs : list case) : list nat :=
  match cs with
  | [] => []
  | c :: t => if case_ok c then mismatches_from (S i) t else i :: mismatches_from (S i) t
  end.

Definition mismatches := mismatches_from 0.

(* Correspondence evaluator for C18.  A case carries an index file (as decoded), the
   constraint tables computed by the real Masterminds/semver library, and what the real Helm
   functions returned; [mismatches] reports the cases where the models of Misc/Semver.v,
   Misc/Constraint.v and Misc/Index.v disagree with those observations.

   Compared observables:
   - load: error class, or per chart name the loaded records — the same multiset as the
     model's and position-wise in the same precedence class (sort.Sort is unstable and build
     metadata is ignored, so the order inside a class is not an observable);
   - Get / tag match: run on the OBSERVED loaded list (that is Get's input), compared exactly;
     the constraint semantics is the MODEL's (Constraint.cvalid / Constraint.sat); the same
     queries are evaluated a second time with the library's tables as a cross-check;
   - constraint language: NewConstraint ok / Check of the library against cvalid / sat of the
     model, for every cell of the tables and for the generated (constraint, versions) pairs;
   - Resolve: locked versions position-wise in the same precedence class as the model's and
     each a real candidate of the index;
   - parse/compare: fields of semver.NewVersion and the result of Version.Compare;
   - OCI tag listings (registry stub serving pages): Client.Tags against Tags.client_tags on the
     pages (same strings as a multiset, position-wise the same precedence class);
     ValidateReference, GetTagMatchingVersionOrConstraint and Resolve (one OCI dependency) on
     the OBSERVED tag list, compared exactly. *)
From Coq Require Import List String Ascii Bool NArith.
From Helm Require Import Misc.Semver Misc.Constraint Misc.Index Misc.Tags.
Import ListNotations.
Local Open Scope string_scope.

Inductive load_obs := OLErr (e : load_err) | OLErrOther | OLPanic | OLOk (idx : list (string * list entry)).
Inductive get_obs := OGNoName | OGNoVersion | OGErr | OGPanic | OGOk (e : entry).
Inductive tag_obs := OTErr | OTPanic | OTOk (t : string).
Inductive res_obs := ORErr | ORPanic | OROk (vs : list string).

(* one version string as the library parsed it: major, minor, patch, identifiers of
   Prerelease(), Metadata() *)
Record ver_obs := mkVO { vo_s : string; vo_parsed : option (N * N * N * list string * string) }.
Inductive vr_obs := OVOk (t : string) | OVErr | OVPanic.

(* one paged listing: the pages as served, what Client.Tags returned (None = error), and per
   version argument the answers of ValidateReference and of the tag match on those tags *)
Record oci_obs := mkOci {
  o_pages : list (list string);
  o_tags : option (list string);
  o_qs : list (string * vr_obs * tag_obs * res_obs)    (* + Resolve of one OCI dependency *)
}.

Record cmp_obs := mkCmp { cm_a : ver_obs; cm_b : ver_obs; cm_cmp : option comparison }.

Record case := mkCase {
  c_file : index_file;
  c_cvalid : list (string * bool);                    (* NewConstraint(c) succeeded *)
  c_sat : list (string * list (string * bool));       (* c -> version string -> Check *)
  c_load : load_obs;
  c_gets : list (string * string * get_obs);
  c_tags : list (list string * string * tag_obs);
  c_res : list (list dep * res_obs);
  c_cmps : list cmp_obs;
  c_cvers : list string;                              (* shared version list of c_cfix *)
  c_cfix : list (string * option string);             (* c -> None (NewConstraint failed) | Check bits *)
  c_cpairs : list (string * list string * option string);  (* the same with own version lists *)
  c_oci : list oci_obs
}.

(* ---- tables ---- *)

Definition tbl_cvalid (t : list (string * bool)) (c : string) : bool :=
  match assoc c t with Some b => b | None => false end.

Definition tbl_sat (t : list (string * list (string * bool))) (c : string) (v : version) : bool :=
  match assoc c t with
  | Some row => match assoc (vorig v) row with Some b => b | None => false end
  | None => false
  end.

(* ---- equality tests ---- *)

Fixpoint list_eqb {A : Type} (f : A -> A -> bool) (l1 l2 : list A) : bool :=
  match l1, l2 with
  | [], [] => true
  | a :: t1, b :: t2 => f a b && list_eqb f t1 t2
  | _, _ => false
  end.

Definition entry_eqb (a b : entry) : bool :=
  String.eqb (ename a) (ename b) && String.eqb (eversion a) (eversion b) &&
  String.eqb (eapi a) (eapi b) && String.eqb (etype a) (etype b) &&
  list_eqb String.eqb (eurls a) (eurls b) && String.eqb (edigest a) (edigest b).

Definition count_entry (e : entry) (l : list entry) : nat :=
  List.length (filter (entry_eqb e) l).

Definition same_multiset (l1 l2 : list entry) : bool :=
  Nat.eqb (List.length l1) (List.length l2) &&
  forallb (fun e => Nat.eqb (count_entry e l1) (count_entry e l2)) l1.

Definition same_prec (s1 s2 : string) : bool :=
  match parse_version s1, parse_version s2 with
  | Some a, Some b => veqb a b
  | _, _ => false
  end.

Definition load_err_eqb (a b : load_err) : bool :=
  match a, b with
  | EEmpty, EEmpty | EUnmarshal, EUnmarshal | ENoAPI, ENoAPI => true
  | _, _ => false
  end.

Definition versions_agree (m o : list entry) : bool :=
  same_multiset m o && list_eqb same_prec (map eversion m) (map eversion o).

Definition idx_agree (m o : list (string * list entry)) : bool :=
  list_eqb (fun a b => String.eqb (fst a) (fst b) && versions_agree (snd a) (snd b)) m o.

(* ---- the parts of one case ---- *)

Definition load_ok (c : case) : bool :=
  match load_index isort (c_file c), c_load c with
  | LErr e, OLErr e' => load_err_eqb e e'
  | LPanic, OLPanic => true
  | LOk m, OLOk o => idx_agree m o
  | _, _ => false
  end.

Definition get_agree (m : get_result) (o : get_obs) : bool :=
  match m, o with
  | GErrNoName, OGNoName => true
  | GErrNoVersion, OGNoVersion => true
  | GErrConstraint, OGErr => true
  | GErrNotFound, OGErr => true
  | GOk e, OGOk e' => entry_eqb e e'
  | _, _ => false
  end.

Definition gets_ok (c : case) : bool :=
  match c_load c with
  | OLOk o =>
      forallb (fun q => let '(n, v, ob) := q in
                        get_agree (get cvalid sat o n v) ob &&
                        get_agree (get (tbl_cvalid (c_cvalid c)) (tbl_sat (c_sat c)) o n v) ob)
              (c_gets c)
  | _ => match c_gets c with [] => true | _ => false end
  end.

Definition tag_agree (m : tag_result) (o : tag_obs) : bool :=
  match m, o with
  | TErrConstraint, OTErr => true
  | TErrNotFound, OTErr => true
  | TOk t, OTOk t' => String.eqb t t'
  | _, _ => false
  end.

Definition tags_ok (c : case) : bool :=
  forallb (fun q => let '(tags, v, ob) := q in
                    tag_agree (tag_match cvalid sat tags v) ob &&
                    tag_agree (tag_match (tbl_cvalid (c_cvalid c)) (tbl_sat (c_sat c)) tags v) ob)
          (c_tags c).

(* an observed lock version is a real candidate of the loaded index *)
Definition is_candidate (sat : string -> version -> bool) (lr : load_result) (d : dep) (s : string) : bool :=
  match lr with
  | LOk idx =>
      match assoc (dname d) idx with
      | Some vs => existsb (fun e => String.eqb (eversion e) s &&
                                     dep_candidate sat (dconstraint d) e) vs
      | None => false
      end
  | _ => false
  end.

Fixpoint locks_agree (sat : string -> version -> bool) (lr : load_result) (ds : list dep)
         (m o : list string) : bool :=
  match ds, m, o with
  | [], [], [] => true
  | d :: dt, a :: mt, b :: ot => same_prec a b && is_candidate sat lr d b && locks_agree sat lr dt mt ot
  | _, _, _ => false
  end.

Definition res_agree (cv : string -> bool) (st : string -> version -> bool) (lr : load_result)
           (ds : list dep) (ob : res_obs) : bool :=
  match resolve cv st lr ds, ob with
  | None, ORErr => true
  | Some m, OROk o => locks_agree st lr ds m o
  | _, _ => false
  end.

Definition res_ok (c : case) : bool :=
  let lr := load_index isort (c_file c) in
  forallb (fun q => let '(ds, ob) := q in
                    res_agree cvalid sat lr ds ob &&
                    res_agree (tbl_cvalid (c_cvalid c)) (tbl_sat (c_sat c)) lr ds ob)
          (c_res c).

Definition parse_agree (o : ver_obs) : bool :=
  match parse_version (vo_s o), vo_parsed o with
  | None, None => true
  | Some v, Some (ma, mi, pa, pre, meta) =>
      N.eqb (vmajor v) ma && N.eqb (vminor v) mi && N.eqb (vpatch v) pa &&
      list_eqb String.eqb (map show_ident (vpre v)) pre && String.eqb (vmeta v) meta &&
      String.eqb (vorig v) (vo_s o)
  | _, _ => false
  end.

Definition comparison_eqb (a b : comparison) : bool :=
  match a, b with Eq, Eq | Lt, Lt | Gt, Gt => true | _, _ => false end.

Definition cmp_ok (o : cmp_obs) : bool :=
  parse_agree (cm_a o) && parse_agree (cm_b o) &&
  match parse_version (vo_s (cm_a o)), parse_version (vo_s (cm_b o)), cm_cmp o with
  | Some a, Some b, Some r => comparison_eqb (vcompare a b) r
  | Some _, Some _, None => false
  | _, _, None => true
  | _, _, Some _ => false
  end.

(* the hypothesis of C18_get_best on "*": the library's Check agrees with "is a release" *)
Definition star_ok (c : case) : bool :=
  match assoc "*" (c_sat c) with
  | None => true
  | Some row =>
      forallb (fun p => match parse_version (fst p) with
                        | Some v => Bool.eqb (snd p) (is_stable v)
                        | None => true
                        end) row
  end.

(* ---- the constraint language: library vs model ---- *)

(* Check of a parsed constraint against parsed versions, printed as the harness prints it *)
Fixpoint check_bits (cs : list (list constr)) (pvs : list (option version)) : string :=
  match pvs with
  | [] => EmptyString
  | Some v :: t => String (if constraints_check cs v then "1" else "0")%char (check_bits cs t)
  | None :: t => String "-"%char (check_bits cs t)
  end.

Definition cpair_ok (c : string) (pvs : list (option version)) (o : option string) : bool :=
  match new_constraint c, o with
  | None, None => true
  | Some cs, Some bits => String.eqb (check_bits cs pvs) bits
  | _, _ => false
  end.

(* every cell of the tables the queries use *)
Definition ctables_ok (c : case) : bool :=
  forallb (fun p => Bool.eqb (cvalid (fst p)) (snd p)) (c_cvalid c) &&
  forallb (fun r => match new_constraint (fst r) with
                    | None => false
                    | Some cs =>
                        forallb (fun p => match parse_version (fst p) with
                                          | Some v => Bool.eqb (constraints_check cs v) (snd p)
                                          | None => false
                                          end) (snd r)
                    end) (c_sat c).

Definition cpairs_ok (c : case) : bool :=
  let shared := map parse_version (c_cvers c) in
  forallb (fun p => cpair_ok (fst p) shared (snd p)) (c_cfix c) &&
  forallb (fun q => let '(k, vs, o) := q in cpair_ok k (map parse_version vs) o) (c_cpairs c).

(* ---- OCI tag listings ---- *)

Definition count_str (s : string) (l : list string) : nat := List.length (filter (String.eqb s) l).

Definition same_str_multiset (l1 l2 : list string) : bool :=
  Nat.eqb (List.length l1) (List.length l2) &&
  forallb (fun s => Nat.eqb (count_str s l1) (count_str s l2)) l1.

Definition same_sprec (a b : string) : bool :=
  match strict_parse a, strict_parse b with
  | Some x, Some y => match scompare x y with Eq => true | _ => false end
  | _, _ => false
  end.

Definition tag_lists_agree (m o : list string) : bool :=
  same_str_multiset m o && list_eqb same_sprec m o.

Definition vr_agree (m : vr_result) (o : vr_obs) : bool :=
  match m, o with
  | VROk t, OVOk t' => String.eqb t t'
  | VRErrNoTags, OVErr | VRErrConstraint, OVErr | VRErrNotFound, OVErr => true
  | _, _ => false
  end.

Definition oci_ok (q : oci_obs) : bool :=
  match o_tags q with
  | None => false                                  (* the stub's listing is always well-formed *)
  | Some obs_tags =>
      tag_lists_agree (client_tags sisort (o_pages q)) obs_tags &&
      forallb (fun x => let '(v, vr, tm, rs) := x in
                        vr_agree (validate_reference_tags cvalid sat obs_tags v) vr &&
                        tag_agree (tag_match cvalid sat obs_tags v) tm &&
                        match resolve_oci_tags cvalid sat obs_tags v, rs with
                        | DLocked t, OROk [t'] => String.eqb t t'
                        | DFail, ORErr | DMissing, ORErr => true
                        | _, _ => false
                        end)
              (o_qs q)
  end.

Definition case_ok (c : case) : bool :=
  load_ok c && gets_ok c && tags_ok c && res_ok c && forallb cmp_ok (c_cmps c) && star_ok c &&
  ctables_ok c && cpairs_ok c && forallb oci_ok (c_oci c).

Fixpoint mismatches_from (i : nat) (cs : list case) : list nat :=
  match cs with
  | [] => []
  | c :: t => if case_ok c then mismatches_from (S i) t else i :: mismatches_from (S i) t
  end.

Definition mismatches := mismatches_from 0.

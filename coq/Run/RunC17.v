(* Correspondence evaluator for C17: evaluates the provenance model (Misc/Prov.v) on what the
   harness ran through the real Signatory.Verify / downloader.VerifyChart / DownloadTo /
   LocateChart.  Library results (clearsign.Decode, CheckDetachedSignature, SHA-256, YAML)
   come with the case as tables; canon and the "\n...\n" split are computed by the model
   and must reproduce the library's Bytes and bytes.Split. *)
From Coq Require Import List String Ascii Bool.
From Helm Require Import Common.Assoc Misc.Prov Misc.ProvTrust Misc.ProvFiles Misc.ProvYaml.
Import ListNotations.
Local Open Scope string_scope.

(* library results for one provenance file *)
Record ptab := mkTab {
  t_decode : option (string * string);   (* clearsign.Decode: (Plaintext, Bytes); None = no block.
                                            Both are elided ("") when the signature check fails for
                                            every keyring of the group: the model never reads them then *)
  t_parts : option (nat * nat);          (* lengths of bytes.Split(Plaintext, "\n...\n")[0] and [1]; None if fewer than two parts *)
  t_meta_ok : bool;                      (* yaml.Unmarshal(part0, &Metadata) == nil *)
  t_sums : option (list (string * string));    (* SumCollection.Files of part1, key-sorted *)
  t_p1 : option string }.                (* part 1 itself where Plaintext is elided (only compared with the sums parser) *)

Definition t_part0 (tb : ptab) : string :=
  match t_decode tb, t_parts tb with
  | Some (pt, _), Some (n0, _) => substring 0 n0 pt
  | _, _ => ""
  end.
Definition t_part1 (tb : ptab) : string :=
  match t_decode tb, t_parts tb with
  | Some (pt, _), Some (n0, n1) => substring (n0 + 5) n1 pt
  | _, _ => ""
  end.

(* Digests are opaque to the model (sha256 is a Section variable): the harness renames every
   64-digit hex digest of a case injectively to a short token "#n" (in v_sha, in the values
   of t_sums and in the observed FileHash) to keep the shards small. *)

(* one verification: keyring verdict, archive digest, names; observed results *)
Record vcheck := mkCheck {
  v_name : string;              (* filepath.Base(chartpath) *)
  v_sha : string;               (* hex SHA-256 of the archive bytes *)
  v_sig_ok : bool;              (* CheckDetachedSignature(this keyring, Bytes, body) == nil *)
  v_kr_loads : bool;            (* the keyring file parses *)
  v_obs : option string;        (* Signatory.Verify: Some FileHash / None = error *)
  v_obs_vc : option string }.   (* downloader.VerifyChart *)

Inductive dkind :=
| DDownload (st : nat)                  (* 0 never 1 if-possible 2 always 3 later *)
| DLocateLocal (verify_flag : bool)
| DLocateRemote (verify_flag : bool)
| DPull (verify_flag verify_later : bool)
| DManager (st : nat)                   (* downloader.Manager{Verify: st}.Update, one dependency *)
| DDepUpdate (verify_flag : bool)       (* helm dependency update [--verify] *)
| DDepBuild (verify_flag : bool).       (* helm dependency build [--verify] from a lock file *)

Record dcheck := mkDl {
  d_kind : dkind;
  d_chart_ok : bool; d_prov_ok : bool;   (* archive / provenance request answered *)
  d_chk : vcheck;                        (* v_obs / v_obs_vc unused here *)
  d_err : bool;                          (* observed: the entry point returned an error *)
  d_hash : option string }.              (* observed FileHash of the returned Verification (DownloadTo only) *)

(* what the real ClearSign produced for an archive signed under file name s_name: the parsed
   `files:` map of its block.  The model's message_block lists exactly
   name |-> "sha256:" ++ sha256 archive  (Prov.message_block). *)
Record sgn := mkSign { s_name : string; s_sha : string; s_sums : option (list (string * string)) }.

Definition sign_ok (x : sgn) : bool :=
  match s_sums x with
  | Some [(k, v)] => String.eqb k (s_name x) && String.eqb v ("sha256:" ++ s_sha x)
  | _ => false
  end.

(* a Signatory built by hand / NewFromFiles / NewFromKeyring (keys: 0 = A, 1 = B) *)
Inductive sctor :=
| SHand (entity : option nat)            (* &Signatory{Entity, KeyRing} *)
| SFiles (keyfile : option nat)          (* NewFromFiles(keyfile, ring); None = not a key file *)
| SKeyring (id : string).                (* NewFromKeyring(ring, id) *)

Record scheck := mkSig {
  g_ctor : sctor;
  g_ring : option (list (nat * list string));   (* entities of the keyring file in order with their identity names; None = does not load *)
  g_chk : vcheck;                        (* v_sig_ok = CheckDetachedSignature with the KeyRing ALONE; v_obs = Signatory.Verify; v_obs_vc unused *)
  g_ctor_err : bool;                     (* observed: the constructor returned an error *)
  g_entity : option nat }.               (* observed: Signatory.Entity *)

(* the file layer: state of the archive path and of the provenance path
   (0 regular file, 1 missing, 2 directory, 3 opens but cannot be read) *)
Record fcheck := mkFile { fc_chart : nat; fc_prov : nat; fc_chk : vcheck }.

Record case := mkCase {
  k_tab : ptab; k_checks : list vcheck;          (* the signed pair and its archive / name / keyring mutants *)
  k_provs : list (option ptab * vcheck);         (* provenance-file mutants; None = same library results as k_tab *)
  k_dls : list (option ptab * dcheck);           (* None = the provenance file served has the library results of k_tab *)
  k_signs : list sgn;
  k_sigs : list (option ptab * scheck);
  k_files : list (option ptab * fcheck);
  k_toks : list (string * string) }.             (* token |-> hex digest, for the tokens used in sums tables *)

Section Run.
  Variable tb : ptab.
  (* keyring := the verdict of the real signature check with that keyring *)
  Definition r_decode (_ : string) : option (string * unit) :=
    match t_decode tb with Some (pt, _) => Some (pt, tt) | None => None end.
  Definition r_check (kr : bool) (bytes : string) (_ : unit) : option unit :=
    match t_decode tb with
    | Some (_, b) => if kr && String.eqb bytes b then Some tt else None
    | None => None
    end.
  Definition r_sha (a : string) : string := a.     (* the archive is represented by its digest *)
  Definition r_meta (p : string) : bool := String.eqb p (t_part0 tb) && t_meta_ok tb.
  Definition r_sums (p : string) : option (list (string * string)) :=
    if String.eqb p (t_part1 tb) then t_sums tb else None.

  Definition m_verify (kr : bool) (name sha : string) : vres unit :=
    verify bool unit unit r_decode r_check r_sha r_meta r_sums kr "" name sha.
  Definition m_verify_chart (kr_loads kr : bool) (name sha : string) : vres unit :=
    verify_chart bool unit unit r_decode r_check r_sha r_meta r_sums false
                 (if kr_loads then Some kr else None) (Some "") name sha.

  Definition res_hash (v : vres unit) : option string :=
    match v with VOk _ h => Some h | VErr _ => None end.

  Definition opt_eqb (a b : option string) : bool :=
    match a, b with
    | None, None => true
    | Some x, Some y => String.eqb x y
    | _, _ => false
    end.

  Definition check_ok (v : vcheck) : bool :=
    opt_eqb (res_hash (m_verify (v_sig_ok v) (v_name v) (v_sha v))) (v_obs v)
    && opt_eqb (res_hash (m_verify_chart (v_kr_loads v) (v_sig_ok v) (v_name v) (v_sha v))) (v_obs_vc v).

  Definition strat (n : nat) : strategy :=
    match n with 0 => VerifyNever | 1 => VerifyIfPossible | 2 => VerifyAlways | _ => VerifyLater end.

  Definition m_download (st : strategy) (d : dcheck) : dres :=
    let v := d_chk d in
    download_to bool unit unit r_decode r_check r_sha r_meta r_sums st
                (if v_kr_loads v then Some (v_sig_ok v) else None)
                (if d_chart_ok d then Some (v_sha v) else None)
                (if d_prov_ok d then Some "" else None) (v_name v).

  Definition dl_ok (d : dcheck) : bool :=
    let v := d_chk d in
    match d_kind d with
    | DDownload n =>
        match m_download (strat n) d with
        | DErr => d_err d
        | DOk h => negb (d_err d) && opt_eqb h (d_hash d)
        end
    | DLocateLocal f =>
        Bool.eqb (negb (d_err d))
          (locate_local bool unit unit r_decode r_check r_sha r_meta r_sums f false
             (if v_kr_loads v then Some (v_sig_ok v) else None)
             (if d_prov_ok d then Some "" else None) (v_name v) (v_sha v))
    | DLocateRemote f =>
        match m_download (locate_strategy f) d with DErr => d_err d | DOk _ => negb (d_err d) end
    | DPull f l =>
        match m_download (pull_strategy f l) d with DErr => d_err d | DOk _ => negb (d_err d) end
    | DManager n =>
        match m_download (strat n) d with DErr => d_err d | DOk _ => negb (d_err d) end
    | DDepUpdate f =>
        match m_download (dep_update_strategy f) d with DErr => d_err d | DOk _ => negb (d_err d) end
    | DDepBuild f =>
        match m_download (dep_build_strategy f) d with DErr => d_err d | DOk _ => negb (d_err d) end
    end.

  (* signatories: the keyring is (entities of the file, verdict of the real signature check
     with that keyring alone) *)
  Definition sring : Type := (list (nat * list string) * bool)%type.
  Definition s_check (kr : sring) (bytes : string) (sg : unit) : option unit := r_check (snd kr) bytes sg.

  Definition opt_nat_eqb (a b : option nat) : bool :=
    match a, b with
    | None, None => true
    | Some x, Some y => Nat.eqb x y
    | _, _ => false
    end.

  Definition m_signatory (g : scheck) : option (signatory sring nat) :=
    let ringfile := match g_ring g with
                    | Some ents => Some (ents, v_sig_ok (g_chk g))
                    | None => None
                    end in
    match g_ctor g with
    | SHand e => match ringfile with Some r => Some (mkSignatory e r) | None => None end
    | SFiles kf => new_from_files sring nat kf ringfile
    | SKeyring id => new_from_keyring sring nat fst ringfile id
    end.

  Definition sig_check_ok (g : scheck) : bool :=
    let v := g_chk g in
    match m_signatory g with
    | None => g_ctor_err g
    | Some s =>
        negb (g_ctor_err g) && opt_nat_eqb (s_entity s) (g_entity g)
        && opt_eqb (res_hash (signatory_verify sring nat unit unit r_decode s_check r_sha r_meta r_sums s "" (v_name v) (v_sha v))) (v_obs v)
    end.

  (* file layer: the archive is represented by its digest, the provenance file by "" *)
  Definition fstate_of (n : nat) (content : string) : fstate :=
    match n with 0 => FFile content | 1 => FMissing | 2 => FDir | _ => FUnreadable end.

  Definition fres_hash (v : fres unit) : option string :=
    match v with FOk _ h => Some h | FErr _ => None end.

  Definition file_check_ok (x : fcheck) : bool :=
    let v := fc_chk x in
    let ch := fstate_of (fc_chart x) (v_sha v) in
    let pv := fstate_of (fc_prov x) "" in
    opt_eqb (fres_hash (verify_files bool unit unit r_decode r_check r_sha r_meta r_sums (v_sig_ok v) ch pv (v_name v))) (v_obs v)
    && opt_eqb (fres_hash (verify_chart_files bool unit unit r_decode r_check r_sha r_meta r_sums
                             (if v_kr_loads v then Some (v_sig_ok v) else None) ch pv (v_name v))) (v_obs_vc v).

  (* the model's canon / split against the library's Bytes / bytes.Split *)
  Definition tab_ok : bool :=
    match t_decode tb with
    | None => true
    | Some (pt, b) =>
        String.eqb (canon pt) b &&
        match split_sep DOTS pt with
        | p0 :: p1 :: _ =>
            match t_parts tb with
            | Some _ => String.eqb p0 (t_part0 tb) && String.eqb p1 (t_part1 tb)
            | None => false
            end
        | _ => match t_parts tb with None => negb (t_meta_ok tb) | Some _ => false end
        end
    end.
End Run.

(* the modelled sums parser (Misc/ProvYaml.v) against sigs.k8s.io/yaml: where part 1 has the
   modelled shape the library's Files map is the parser's.  [toks]: the digests behind the
   short tokens that occur in sums tables. *)
Definition untok (toks : list (string * string)) (v : string) : string :=
  if String.prefix "sha256:" v then
    match aget (drop 7 v) toks with Some h => "sha256:" ++ h | None => v end
  else v.

Definition sums_match (toks : list (string * string)) (fs : list (string * string)) (tbl : option (list (string * string))) : bool :=
  match tbl with
  | None => false
  | Some l =>
      Nat.eqb (List.length l) (List.length fs) &&
      forallb (fun kv => match aget (fst kv) l with
                         | Some v => String.eqb (untok toks v) (snd kv)
                         | None => false
                         end) fs
  end.

Definition parse_ok (toks : list (string * string)) (tb : ptab) : bool :=
  let p1 := match t_p1 tb with Some p => p | None => t_part1 tb end in
  match parse_sums p1 with
  | SIn fs => sums_match toks fs (t_sums tb)
  | SOutside => true
  end.

Definition case_ok (c : case) : bool :=
  let tab_ok := fun tb => tab_ok tb && parse_ok (k_toks c) tb in
  tab_ok (k_tab c) && forallb (check_ok (k_tab c)) (k_checks c)
  && forallb (fun x => match fst x with
                       | Some tb => tab_ok tb && check_ok tb (snd x)
                       | None => check_ok (k_tab c) (snd x)
                       end) (k_provs c)
  && forallb (fun x => match fst x with
                       | Some tb => tab_ok tb && dl_ok tb (snd x)
                       | None => dl_ok (k_tab c) (snd x)
                       end) (k_dls c)
  && forallb sign_ok (k_signs c)
  && forallb (fun x => match fst x with
                       | Some tb => tab_ok tb && sig_check_ok tb (snd x)
                       | None => sig_check_ok (k_tab c) (snd x)
                       end) (k_sigs c)
  && forallb (fun x => match fst x with
                       | Some tb => tab_ok tb && file_check_ok tb (snd x)
                       | None => file_check_ok (k_tab c) (snd x)
                       end) (k_files c).

Fixpoint mismatches_from (i : nat) (cs : list case) : list nat :=
  match cs with
  | [] => []
  | c :: t => if case_ok c then mismatches_from (S i) t else i :: mismatches_from (S i) t
  end.

Definition mismatches := mismatches_from 0.

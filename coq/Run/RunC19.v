(* Correspondence evaluator for C19: evaluates the credential model (Misc/Creds.v) on the
   call the harness made on the real code and compares, request by request, which request
   (scheme, host, path) carried which basic-auth pair.  Library results (url.Parse,
   urlutil.Equal, index lookups, reference resolution) come with the case as tables. *)
From Coq Require Import List String Ascii Bool Arith.
From Helm Require Import Common.Assoc Misc.Creds Misc.CredsUrl Misc.CredsRedirect.
Import ListNotations.
Local Open Scope string_scope.

(* what url.Parse answered for one string: Scheme, User (Username[:Password]), Host, Path,
   Hostname(), Port() *)
Record usplit := mkUS { us_scheme : string; us_user : option string; us_host : string; us_path : string;
                        us_hostname : string; us_port : string }.

Inductive cpath :=
| PGetter (ctor : list opt) (gets : list (string * list opt))
| PIndex (e : entry)
| PDownload (copts : list opt) (ref version : string) (with_prov first_ok : bool)
| PLocate (c : cpo) (name : string) (first_ok : bool)
| PPull (c : cpo) (name : string) (with_prov first_ok : bool)
| PManager (dep_repo name version : string) (with_prov first_ok : bool)
| PManagerAll (deps : list (string * string * string * bool)) (with_prov : bool)
| PUrls (l : list (string * option usplit)).       (* url.Parse on generated strings: differential check of Misc/CredsUrl.v *)

(* one request seen by the capture server: first hops (the getter's doing) and redirect
   follow-ups (net/http's doing, Misc/CredsRedirect.v), in order *)
Record obs := mkObs { ob_scheme : string; ob_host : string; ob_path : string; ob_auth : option (string * string) }.

Record case := mkCase {
  k_parse : list (string * url);            (* url.Parse; absent = error *)
  k_parse_err : list string;                (* candidate strings on which url.Parse failed *)
  k_equal : list (string * string);         (* pairs on which urlutil.Equal is true *)
  k_tab : list (string * string);           (* lookup / find_in / dep_url / index_url tables, keyed *)
  k_redirect : list (string * string);      (* server behaviour: Host header ++ path -> Location of a 302 *)
  k_repos : list entry;
  k_path : cpath;
  k_obs : list obs }.

Definition key3 (a b c : string) : string := a ++ "|" ++ b ++ "|" ++ c.

Section Run.
  Variable c : case.
  Definition t_parse (s : string) : option url := aget s (k_parse c).
  Definition t_equal (a b : string) : bool :=
    existsb (fun p => String.eqb (fst p) a && String.eqb (snd p) b) (k_equal c).
  Definition t_lookup (e : entry) (chart ver : string) : option string :=
    aget ("lookup:" ++ key3 (e_name e) chart ver) (k_tab c).
  Definition t_index_url (u : string) : option string := aget ("index:" ++ u) (k_tab c).
  Definition t_find_in (repo name ver : string) : option string := aget ("find:" ++ key3 repo name ver) (k_tab c).
  Definition t_dep_url (e : entry) (dep_repo name ver : string) : option string :=
    aget ("dep:" ++ key3 (e_name e) name ver) (k_tab c).

  Fixpoint run_gets (st : gopts) (gets : list (string * list opt)) : list (string * gres) :=
    match gets with
    | [] => []
    | (href, os) :: t => let '(st', r) := http_get t_parse st href os in (href, r) :: run_gets st' t
    end.

  Definition model_reqs : list (string * gres) :=
    match k_path c with
    | PGetter ctor gets => run_gets (apply_opts gopts0 ctor) gets
    | PIndex e => download_index t_parse t_index_url e
    | PDownload copts ref ver wp ok => download_to t_parse t_equal t_lookup copts ref ver (k_repos c) wp ok
    | PLocate o name ok => locate_chart t_parse t_equal t_lookup t_index_url t_find_in o name (k_repos c) ok
    | PPull o name wp ok => pull t_parse t_equal t_lookup t_index_url t_find_in o name (k_repos c) wp ok
    | PManager dr name ver wp ok => manager_dep t_parse t_equal t_lookup t_index_url t_find_in t_dep_url dr name ver (k_repos c) wp ok
    | PManagerAll deps wp => download_all t_parse t_equal t_lookup t_index_url t_find_in t_dep_url deps (k_repos c) wp
    | PUrls _ => []
    end.

  (* ---- the Gallina splitter against net/url, on every string of the grammar ---- *)
  Definition opt_str_eqb (a b : option string) : bool :=
    match a, b with
    | None, None => true
    | Some x, Some y => String.eqb x y
    | _, _ => false
    end.

  Definition usplit_ok (x : string * option usplit) : bool :=
    let '(s, r) := x in
    if in_grammar s then
      match go_split s, r with
      | SErr, None => true
      | SOk sc us h p, Some g =>
          String.eqb sc (us_scheme g) && opt_str_eqb us (us_user g) && String.eqb h (us_host g)
          && String.eqb p (us_path g)
          && String.eqb (hostname h) (us_hostname g) && String.eqb (port_of h) (us_port g)
      | _, _ => false
      end
    else true.

  (* every URL string of the case (the url.Parse table the model runs on) as well *)
  Definition table_ok (x : string * url) : bool :=
    let '(s, u) := x in
    if in_grammar s then
      match go_split s with
      | SOk sc us h p =>
          String.eqb sc (u_scheme u) && String.eqb h (u_host u) && String.eqb p (u_path u)
          && Bool.eqb (match us with Some _ => true | None => false end) (match u_user u with Some _ => true | None => false end)
      | SErr => false
      end
    else true.

  Definition table_err_ok (s : string) : bool :=
    if in_grammar s then match go_split s with SErr => true | _ => false end else true.

  Definition splitter_ok : bool :=
    forallb table_ok (k_parse c) && forallb table_err_ok (k_parse_err c)
    && match k_path c with PUrls l => forallb usplit_ok l | _ => true end.

  (* net/http (Client.send): a request without an Authorization header whose URL carries
     userinfo gets that userinfo as basic auth.  Not Helm's doing, but visible at the server. *)
  Fixpoint split_colon (s : string) : string * string :=
    match s with
    | EmptyString => (EmptyString, EmptyString)
    | String ch t => if Ascii.eqb ch ":"%char then (EmptyString, t)
                     else let '(a, b) := split_colon t in (String ch a, b)
    end.

  (* the Location URLs a request to u is sent along (net/http follows at most 10) *)
  Fixpoint chain (fuel : nat) (host_hdr : string) (u : url) : list url :=
    match fuel with
    | O => []
    | S f =>
        match aget (host_hdr ++ u_path u) (k_redirect c) with
        | None => []
        | Some loc => match t_parse loc with
                      | None => []
                      | Some d => d :: chain f (u_host d) d
                      end
        end
    end.

  Definition ends_with (suf s : string) : bool :=
    Nat.leb (String.length suf) (String.length s)
    && String.eqb (substring (String.length s - String.length suf) (String.length suf) s) suf.

  (* net/http (NewRequest: removeEmptyPort): "host:" goes on the wire as "host" *)
  Definition wire_host (h : string) : string :=
    if ends_with ":" h then substring 0 (String.length h - 1) h else h.

  Definition project (x : string * gres) : option obs :=
    match snd x with
    | GErr => None
    | GReq a =>
        match t_parse (fst x) with
        | None => None
        | Some u => Some (mkObs (u_scheme u) (wire_host (u_host u)) (u_path u)
                            (match a with
                             | Some (Cred us pw _) => Some (us, pw)
                             | None => option_map split_colon (u_user u)
                             end))
        end
    end.

  (* Manager.Update also refreshes every repository index concurrently (UpdateRepositories);
     those requests are covered by PIndex and are left out of the manager comparison *)
  Definition keep (o : obs) : bool :=
    match k_path c with
    | PManager _ _ _ _ _ | PManagerAll _ _ => negb (ends_with "index.yaml" (ob_path o))
    | _ => true
    end.

  Fixpoint somes {A} (l : list (option A)) : list A :=
    match l with [] => [] | Some a :: t => a :: somes t | None :: t => somes t end.

  Definition auth_eqb (a b : option (string * string)) : bool :=
    match a, b with
    | None, None => true
    | Some (u1, p1), Some (u2, p2) => String.eqb u1 u2 && String.eqb p1 p2
    | _, _ => false
    end.

  Definition obs_eqb (a b : obs) : bool :=
    String.eqb (ob_scheme a) (ob_scheme b) && String.eqb (ob_host a) (ob_host b)
    && String.eqb (ob_path a) (ob_path b) && auth_eqb (ob_auth a) (ob_auth b).

  Fixpoint list_eqb {A} (f : A -> A -> bool) (l1 l2 : list A) : bool :=
    match l1, l2 with
    | [], [] => true
    | a :: t1, b :: t2 => f a b && list_eqb f t1 t2
    | _, _ => false
    end.

  (* a first hop and its redirect follow-ups: the header Helm set travels as net/http's
     policy says; a hop without it gets the userinfo of its own URL, if any *)
  Definition expand (x : string * gres) : list obs :=
    match project x, snd x, t_parse (fst x) with
    | Some o, GReq a, Some u =>
        let hops := chain 10 (wire_host (u_host u)) u in
        o :: map (fun dk : url * option cred =>
                    let '(d, k) := dk in
                    mkObs (u_scheme d) (u_host d) (u_path d)
                          (match k with
                           | Some (Cred us pw _) => Some (us, pw)
                           | None => option_map split_colon (u_user d)
                           end))
                 (combine hops (hop_auths u a hops))
    | Some o, _, _ => [o]
    | None, _, _ => []
    end.

  Definition case_ok : bool :=
    splitter_ok &&
    list_eqb obs_eqb (filter keep (flat_map expand model_reqs)) (filter keep (k_obs c)).
End Run.

Fixpoint mismatches_from (i : nat) (cs : list case) : list nat :=
  match cs with
  | [] => []
  | c :: t => if case_ok c then mismatches_from (S i) t else i :: mismatches_from (S i) t
  end.

Definition mismatches := mismatches_from 0.

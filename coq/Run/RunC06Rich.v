(* C06 correspondence for the richer model (Engine/DryOps.v): the operation under test is run
   as an [xprog] on the world the set-up history produced, under a handler that answers the
   shared effects with the interpreter of Engine/Seq.v (ledger + object store), the effects of
   the throw-away back ends of ClientOnly with a private ledger and a client that does nothing,
   and the rich effects from the cluster state (existing CRDs, the namespace object, the
   objects the ownership pre-flight GETs).  The ORDERED trace of events - reads included - is
   compared with what the recording client, recording storage driver, recording discovery
   client and the request log of the harness saw, together with the outcome class, the
   ledger, the objects and the CRDs. *)
From Coq Require Import List String Bool Arith ZArith.
From Helm Require Import Common.Assoc Engine.Types Engine.Eff Engine.Ops Engine.Cluster Engine.Seq
                         Engine.DryRun Engine.DryOps Run.RunEng.
Import ListNotations.
Local Open Scope string_scope.

Inductive xev :=
| VReach                                  (* KubeClient.IsReachable *)
| VCaps                                   (* discovery: ServerVersion *)
| VDisc                                   (* discovery: ServerGroups after a CRD installation *)
| VMapper                                 (* ToRESTMapper *)
| VBuild (validate : bool) (n : nat)      (* KubeClient.Build returning n objects *)
| VGet (key : string) (found : bool)      (* a GET outside every KubeClient call *)
| VLookup                                 (* a GET of an object through the REST config of the getter *)
| VPost                                   (* the post-renderer ran *)
| VSRead (k : string) (v : nat)           (* driver Query name+owner / +deployed, Get *)
| VT (t : tev).                           (* storage write / kube call with its effective mutations *)

Definition xev_eqb (a b : xev) : bool :=
  match a, b with
  | VReach, VReach | VCaps, VCaps | VDisc, VDisc | VMapper, VMapper | VLookup, VLookup | VPost, VPost => true
  | VBuild v1 n1, VBuild v2 n2 => Bool.eqb v1 v2 && Nat.eqb n1 n2
  | VGet k1 f1, VGet k2 f2 => String.eqb k1 k2 && Bool.eqb f1 f2
  | VSRead k1 v1, VSRead k2 v2 => String.eqb k1 k2 && Nat.eqb v1 v2
  | VT t1, VT t2 => tev_eqb t1 t2
  | _, _ => false
  end.

Fixpoint xevs_eqb (a b : list xev) : bool :=
  match a, b with
  | [], [] => true
  | x :: t, y :: u => xev_eqb x y && xevs_eqb t u
  | _, _ => false
  end.

(* answers that the cluster state does not determine *)
Record xans := mkXA {
  xa_post : list res;          (* what the post-renderer appends *)
  xa_found : bool }.           (* what a lookup finds *)

Record xst := mkXS {
  xs_real : rstate kstate;
  xs_priv : rstate unit;
  xs_crds : list string;       (* names of the CustomResourceDefinitions in the cluster *)
  xs_tr : list xev }.

(* kubefake.PrintingKubeClient: everything succeeds, nothing exists *)
Definition fake_handle (e : eff) (u : unit) : unit * resp e * list kev :=
  match e return unit * resp e * list kev with
  | KExisting _ _ => (tt, Some [], [])
  | KCreate _ => (tt, true, [])
  | KUpdate _ _ => (tt, (true, []), [])
  | KDelete _ => (tt, true, [])
  | KWait _ => (tt, true, [])
  | KWaitDelete _ => (tt, true, [])
  | KHookWatch _ _ => (tt, true, [])
  | other => (tt, dead_resp other, [])
  end.

Definition nofault : sfaults := mkSF None None.

Definition sread_ev (e : eff) : list xev :=
  match e with
  | SHistory => [VSRead "history" 0]
  | SDeployedAll => [VSRead "deployed" 0]
  | SGet v => [VSRead "get" v]
  | _ => []
  end.

Definition crd_key (r : res) : string := r_name r.

Definition ns_key (ns : string) : string := "Namespace/" ++ ns.

Section Handler.
  Variable rn ns : string.
  Variable a : xans.

  Definition set_real (s : xst) (r : rstate kstate) (evs : list xev) : xst :=
    mkXS r (xs_priv s) (xs_crds s) (xs_tr s ++ evs)%list.

  Definition log (s : xst) (evs : list xev) : xst :=
    mkXS (xs_real s) (xs_priv s) (xs_crds s) (xs_tr s ++ evs)%list.

  Definition real_objs (s : xst) : list (string * fields) := objs (ks (xs_real s)).

  Definition with_objs (s : xst) (o : list (string * fields)) : xst :=
    let r := xs_real s in
    mkXS (mkR (led r) (set_objs (ks r) o) (nwrites r) (nmut r) (dead r) (tr r)) (xs_priv s) (xs_crds s) (xs_tr s).

  Definition xstep (e : xeff) (s : xst) : xst * xresp e :=
    match e return xst * xresp e with
    | XE TReal e0 =>
        let r0 := xs_real s in
        let '(r1, rsp) := step kstate (kube_handle rn ns) dead_resp nofault e0
                               (mkR (led r0) (ks r0) (nwrites r0) (nmut r0) (dead r0) []) in
        (set_real s r1 (sread_ev e0 ++ map VT (tr r1))%list, rsp)
    | XE TPriv e0 =>
        let '(p1, rsp) := step unit fake_handle dead_resp nofault e0 (xs_priv s) in
        (mkXS (xs_real s) p1 (xs_crds s) (xs_tr s), rsp)
    | XReach => (log s [VReach], true)
    | XCaps => (log s [VCaps], true)
    | XBuild TReal _ v n => (log s [VBuild v n], true)
    | XBuild TPriv _ _ _ => (s, true)
    | XGetObj r =>
        if String.eqb (r_kind r) "CustomResourceDefinition" then
          (if existsb (String.eqb (r_name r)) (xs_crds s)
           then (log s [VGet (rkey r) true], GFound [])
           else (log s [VGet (rkey r) false], GNotFound))
        else
        match aget (rkey r) (real_objs s) with
        | Some live => (log s [VGet (rkey r) true], GFound live)
        | None => (log s [VGet (rkey r) false], GNotFound)
        end
    | XLookup => (log s [VLookup], xa_found a)
    | XPostRender m => (log s [VPost], Some (m ++ xa_post a)%list)
    | XWriteFile => (s, true)
    | XGetWaiter _ => (s, true)
    | XCrdCreate _ os =>
        let names := map crd_key os in
        if forallb (fun n => existsb (String.eqb n) (xs_crds s)) names && negb (is_nil names)
        then (log s [VT (TKube (KCall "create" []))], CExists)
        else
          let fresh := filter (fun n => negb (existsb (String.eqb n) (xs_crds s))) names in
          (mkXS (xs_real s) (xs_priv s) (xs_crds s ++ fresh)%list
                (xs_tr s ++ [VT (TKube (KCall "create" (map (fun n => (VCreate, ("CustomResourceDefinition/" ++ n)%string)) fresh)))])%list,
           if Nat.eqb (List.length fresh) (List.length names) then CCreated else CExists)
    | XCrdWait _ => (log s [VT (TKube (KCall "wait" []))], true)
    | XDiscInvalidate => (log s [VDisc], true)
    | XMapperReset => (log s [VMapper], true)
    | XNsCreate TReal =>
        if amem (ns_key ns) (real_objs s)
        then (log s [VT (TKube (KCall "create" []))], CExists)
        else (log (with_objs s (aset (ns_key ns) [("l:name", ns)] (real_objs s)))
                  [VT (TKube (KCall "create" [(VCreate, ns_key ns)]))], CCreated)
    | XNsCreate TPriv => (s, CCreated)
    end.
End Handler.

Record rich_obs := mkRO {
  ro_out : option outcome;                  (* None: the operation panicked *)
  ro_led : list ledger_row;
  ro_objs : list (string * fields);
  ro_crds : list string;
  ro_trace : list xev }.

Record rich_case := mkRich {
  rc_pre : RunEng.case;                     (* the set-up history, evaluated by the shared model *)
  rc_op : xop;
  rc_ans : xans;
  rc_crds0 : list string;
  rc_obs : rich_obs }.

Definition last_world (c : RunEng.case) : world :=
  fold_left (fun _ m => fst (fst m)) (run_history rn ns (c_steps c) (mkW [] (c_init c))) (mkW [] (c_init c)).

Definition rich_run (c : rich_case) : xst * xoutcome :=
  let w := last_world (rc_pre c) in
  let s0 := mkXS (mkR (w_led w) (mkK (w_objs w) None None false) 0 0 false [])
                 (mkR [] tt 0 0 false []) (rc_crds0 c) [] in
  let '(_, s1, out) := xrun xst (xstep rn ns (rc_ans c)) (xop_prog rn ns (rc_op c)) s0 in
  (s1, out).

Definition out_agrees (m : xoutcome) (o : option outcome) : bool :=
  match m, o with
  | XO x, Some y => outcome_eqb x y
  | XPanic, None => true
  | _, _ => false
  end.

(* KubeClient.Build is an effect of the richer model up to the bail-out.  What follows the first
   storage write of an install / upgrade, and the whole of rollback / uninstall, is the text of
   Engine/Ops.v, which has no Build effect (hooks.go, performRollback, deleteRelease build the
   manifests they are about to apply): those Build calls are dropped from both traces. *)
Definition is_build (e : xev) : bool := match e with VBuild _ _ => true | _ => false end.
Definition drop_builds (l : list xev) : list xev := filter (fun e => negb (is_build e)) l.
Fixpoint cut_builds (l : list xev) : list xev :=
  match l with
  | [] => []
  | VT (TStore w r s) :: t => VT (TStore w r s) :: drop_builds t
  | e :: t => e :: cut_builds t
  end.
Definition norm_trace (o : xop) (l : list xev) : list xev :=
  match o with
  | XRollback _ | XUninstall _ | XCmd _ CRollback _ _ _ | XCmd _ CUninstall _ _ _ => drop_builds l
  | _ => cut_builds l
  end.

Definition rich_diag (c : rich_case) :=
  let '(s1, out) := rich_run c in
  let o := rc_obs c in
  (RunEng.case_ok (rc_pre c),
   out_agrees out (ro_out o),
   rows_eqb (map row_of (sort_by_rev (led (xs_real s1)))) (ro_led o),
   objs_eqb (objs (ks (xs_real s1))) (ro_objs o),
   strs_eqb (xs_crds s1) (ro_crds o),
   xevs_eqb (norm_trace (rc_op c) (xs_tr s1)) (norm_trace (rc_op c) (ro_trace o))).

Definition rich_ok (c : rich_case) : bool :=
  let '(a, b, c0, d, e, f) := rich_diag c in a && b && c0 && d && e && f.

(* debugging *)
Definition rich_view (c : rich_case) :=
  let '(s1, out) := rich_run c in
  (out, map row_of (sort_by_rev (led (xs_real s1))), objs (ks (xs_real s1)), xs_crds s1, xs_tr s1).

(* Correspondence evaluator for C02, rich object domain (round 4): a short history of calls of the
   REAL kube.Client (Create / Update / UpdateThreeWayMerge / Delete, with or without --force) against
   the simulated API server, interleaved with out-of-band edits, on Deployments / Services (keyed
   lists), ConfigMaps and a custom kind held as unstructured JSON.  Each step is evaluated by
   Engine/Update2.v FROM THE OBSERVED STORE BEFORE THE STEP and compared with the observed store
   after it: result class, every object (as a field tree), effective mutations, created keys.

   Objects are compared as trees with maps unordered.  Keyed lists are compared as TWO
   subsequences: the elements the step's target manifest names (their order is fixed by
   $setElementOrder) and the others (live-only elements keep their relative order); how the
   strategic-merge library interleaves the two groups is not modelled ([canon]). *)
From Coq Require Import List String Bool Arith.
From Helm Require Import Common.Assoc Engine.Cluster Engine.Obj2 Engine.Update2 Run.RunEng Text.Split.
Import ListNotations.

Inductive ostep :=
| OCreate (rs : list res2)
| OUpdate (force tw : bool) (cur tgt : list res2)
| ODelete (rs : list res2)
| OEdit (key : string) (v : option tree)       (* out-of-band: set / delete one object *)
| ORecreate (updated : list res2)              (* action.recreate after the update of an upgrade / rollback *)
| OSplit (text : string) (helm_docs : list string) (decoder_docs : nat).
    (* a release manifest as text: what the real releaseutil.SplitManifests made of it (documents in order)
       and how many documents the real Kubernetes YAML stream decoder (the one kube.Client.Build reads
       with) sees in it; the store is not touched *)

Record oobs := mkOO {
  oo_ok : bool;                                (* observed: no error *)
  oo_bad : bool;                               (* observed: panic / YAML did not build (never expected) *)
  oo_objs : store2;                            (* observed: object store after the step *)
  oo_muts : list (verb * string);              (* observed: effective mutations *)
  oo_created : list string }.                  (* observed: Result.Created keys (update) *)

Record ocase := mkOC { oc_init : store2; oc_steps : list ostep; oc_obs : list oobs }.

(* the target object of this step for [key], if any *)
Definition step_target (s : ostep) (key : string) : option tree :=
  match s with
  | OUpdate _ _ _ tgt => match find_res2 key tgt with Some r => Some (r2_obj r) | None => None end
  | _ => None
  end.

Definition store_sub (s : ostep) (a b : store2) : bool :=
  forallb (fun kv => match aget (fst kv) b with
                     | Some w => tagree (step_target s (fst kv)) (snd kv) w
                     | None => false
                     end) a.

Definition store_agree (s : ostep) (a b : store2) : bool :=
  store_sub s a b && Nat.eqb (List.length a) (List.length b).

Definition strs_sub2 (a b : list string) : bool := forallb (fun x => existsb (String.eqb x) b) a.
Definition strs_seteq2 (a b : list string) : bool :=
  strs_sub2 a b && strs_sub2 b a && Nat.eqb (List.length a) (List.length b).

(* the model's answer for one step from store [o]: (store, ok, mutations, created) *)
Definition omodel (s : ostep) (o : store2) : store2 * bool * list (verb * string) * list string :=
  match s with
  | OCreate rs =>
      match rs with
      | [] => (o, false, [], [])
      | _ => let '(o', ok, m) := k2_create o rs true [] in (o', ok, m, [])
      end
  | OUpdate force tw cur tgt =>
      let '(o', r, m) := k2_update force tw o cur tgt in (o', fst r, m, snd r)
  | ODelete rs =>
      match rs with
      | [] => (o, false, [], [])
      | _ => let '(o', m) := k2_delete o rs [] in (o', true, m, [])
      end
  | ORecreate rs => let '(o', m) := k2_recreate o rs in (o', true, m, [])
  | OSplit _ _ _ => (o, true, [], [])
  | OEdit key (Some v) => (aset key v o, true, [], [])
  | OEdit key None => (adel key o, true, [], [])
  end.

Definition is_edit (s : ostep) : bool := match s with OEdit _ _ | OSplit _ _ _ => true | _ => false end.

(* a text given line by line (the harness prints manifests this way: string literals instead of byte lists) *)
Fixpoint txt (lines : list string) : string :=
  match lines with
  | [] => EmptyString
  | [l] => l
  | l :: r => (l ++ String (Ascii.ascii_of_nat 10) (txt r))%string
  end.

Fixpoint strs_eqb2 (a b : list string) : bool :=
  match a, b with
  | [], [] => true
  | x :: t, y :: u => String.eqb x y && strs_eqb2 t u
  | _, _ => false
  end.

(* the model of SplitManifests (C08's Text/Split.v, unchanged) on the same text agrees with the real splitter,
   and the splitter and the decoder agree on the number of documents *)
Definition split_ok (s : ostep) : bool :=
  match s with
  | OSplit text docs n =>
      let m := split_manifests text in
      strs_eqb2 m docs && Nat.eqb (List.length m) n
  | _ => true
  end.

Definition ostep_ok (s : ostep) (before : store2) (ob : oobs) : bool :=
  let '(o', ok, m, cr) := omodel s before in
  negb (oo_bad ob)
  && split_ok s
  && Bool.eqb ok (oo_ok ob)
  && store_agree s o' (oo_objs ob)
  && (is_edit s || muts_eqb (sort_muts m) (sort_muts (oo_muts ob)))
  && (match s with OUpdate _ _ _ _ => strs_seteq2 cr (oo_created ob) | _ => true end).

Fixpoint osteps_ok (ss : list ostep) (before : store2) (obs : list oobs) : bool :=
  match ss, obs with
  | [], [] => true
  | s :: t, ob :: u => ostep_ok s before ob && osteps_ok t (oo_objs ob) u
  | _, _ => false
  end.

Definition ocase_ok (c : ocase) : bool := osteps_ok (oc_steps c) (oc_init c) (oc_obs c).

(* debugging aid: per step (ok agrees, store agrees, muts agree, created agree, model store) *)
Fixpoint odiag_steps (ss : list ostep) (before : store2) (obs : list oobs) :=
  match ss, obs with
  | s :: t, ob :: u =>
      let '(o', ok, m, cr) := omodel s before in
      (Bool.eqb ok (oo_ok ob), store_agree s o' (oo_objs ob),
       muts_eqb (sort_muts m) (sort_muts (oo_muts ob)), strs_seteq2 cr (oo_created ob), o', m)
      :: odiag_steps t (oo_objs ob) u
  | _, _ => []
  end.
Definition odiag (c : ocase) := odiag_steps (oc_steps c) (oc_init c) (oc_obs c).

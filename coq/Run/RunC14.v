(* Correspondence evaluator for C14: evaluates the gate / effect-order models of Values/Gate.v on
   the inputs the real install / upgrade / template / lint ran on, compares the projected
   outcome, and compares [valid] with the real jsonschema library's verdicts. *)
From Coq Require Import List String Bool Arith ZArith.
From Helm Require Import Common.Strs Values.Tree Values.Schema2 Values.Schema Values.SchemaOld Values.Scope Values.Deps Values.Gate.
Import ListNotations.

Inductive op := OpInstall | OpInstallPlain | OpInstallDry | OpTemplate | OpUpgrade | OpUpgradeDry | OpLint.

Record obs := mkObs {
  o_errored : bool; o_schema : bool; o_names : list string;
  o_stored : bool; o_sent : bool; o_lint_values : bool }.

Inductive case :=
| mkCase (c : chart) (vals : vmap) (compat : list (string * string * bool)) (o : op)
         (skip skipcrds : bool) (ob : obs) (pairs : list (schema * val * bool))
         (dpairs : list (val * val * verdict * bool))
| mkPairs (dpairs : list (val * val * verdict * bool))     (* the schema step alone *)
| mkSkip.

Definition compat_of (tbl : list (string * string * bool)) (constraint ver : string) : bool :=
  match find (fun r => String.eqb (fst (fst r)) constraint && String.eqb (snd (fst r)) ver) tbl with
  | Some r => snd r
  | None => false
  end.

Definition subset (a b : list string) : bool := forallb (fun x => existsb (String.eqb x) b) a.
Definition same_set (a b : list string) : bool := subset a b && subset b a.

Definition flags_of (o : op) (skip skipcrds : bool) : flags :=
  match o with
  | OpInstall => mkFlags false false skipcrds skip true false false
  | OpInstallPlain => mkFlags false false skipcrds skip false false false   (* no --create-namespace *)
  | OpInstallDry => mkFlags false true skipcrds skip false false false
  | OpTemplate => mkFlags true true skipcrds skip false true false
  | OpUpgrade => mkFlags false false skipcrds skip false false false
  | OpUpgradeDry => mkFlags false true skipcrds skip false false false
  | OpLint => mkFlags true true skipcrds skip false false false
  end.

Definition obs_of_trace (r : list eff * outcome) : obs :=
  let '(tr, out) := r in
  mkObs (match out with Done => false | _ => true end)
        (match out with FailSchema _ => true | _ => false end)
        (match out with FailSchema ns => ns | _ => [] end)
        (existsb store_write tr) (existsb kube_mutating tr) false.

Definition model_obs (c : chart) (vals : vmap) (tbl : list (string * string * bool)) (o : op) (skip skipcrds : bool) : obs :=
  let compat := compat_of tbl in
  let fl := flags_of o skip skipcrds in
  match o with
  | OpInstall | OpInstallPlain | OpInstallDry | OpTemplate => obs_of_trace (install_trace compat fl c vals)
  | OpUpgrade | OpUpgradeDry => obs_of_trace (upgrade_trace compat fl c vals)
  | OpLint =>
      let lv := lint_values_rule c vals in
      match lint_templates_rule compat c vals skip with
      | FailSchema ns => mkObs true true ns false false lv
      | _ => mkObs lv false [] false false lv
      end
  end.

Definition obs_agree (m o : obs) : bool :=
  Bool.eqb (o_errored m) (o_errored o) && Bool.eqb (o_schema m) (o_schema o)
  && same_set (o_names m) (o_names o)
  && Bool.eqb (o_stored m) (o_stored o) && Bool.eqb (o_sent m) (o_sent o)
  && Bool.eqb (o_lint_values m) (o_lint_values o).

Definition pairs_agree (ps : list (schema * val * bool)) : bool :=
  forallb (fun p => Bool.eqb (valid (fst (fst p)) (snd (fst p))) (snd p)
                    && agrees_on (fst (fst p)) (snd (fst p))) ps.   (* ... and the document evaluator on doc_of s *)

(* schemas given as documents: (document, final values of the chart, the library's verdict through
   ValidateAgainstSingleSchema, the generator's claim that the document is inside the model's
   keyword family).  Inside: the model's verdict is the library's (in particular never "out of
   fuel" or "unsupported"); outside: the model must say so. *)
Definition dpairs_agree (ps : list (val * val * verdict * bool)) : bool :=
  forallb (fun p : val * val * verdict * bool =>
             let '(d, v, lib, inside) := p in
             if inside then verdict_eqb (doc_verdict d v) lib
             else verdict_eqb (doc_verdict d v) VUnsupported) ps.

Definition case_ok (c : case) : bool :=
  match c with
  | mkSkip => true
  | mkPairs dps => dpairs_agree dps
  | mkCase ch vals tbl o skip skipcrds ob ps dps =>
      obs_agree (model_obs ch vals tbl o skip skipcrds) ob && pairs_agree ps && dpairs_agree dps
  end.

Fixpoint mismatches_from (i : nat) (cs : list case) : list nat :=
  match cs with
  | [] => []
  | c :: t => if case_ok c then mismatches_from (S i) t else i :: mismatches_from (S i) t
  end.

Definition mismatches := mismatches_from 0.

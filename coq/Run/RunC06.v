(* C06 correspondence: the engine evaluator (Run/RunEng.v) on histories whose dry-run flags
   arrive as SPELLINGS (the DryRun boolean and the DryRunOption string of the real action
   struct): the model decides with its own transcription [is_dry_run] whether the operation is
   a dry run.  Cases that use features outside the shared model (crds/, CreateNamespace,
   post-renderer, flags it does not have, helm template) carry [c6_in_model = false] and, when
   they are inside the richer model of Engine/DryOps.v, a [rich_case] that Run/RunC06Rich.v
   evaluates (ordered event trace, outcome, ledger, objects, CRDs). *)
From Helm Require Export Run.RunEng.
From Coq Require Import List String Bool Arith.
From Helm Require Import Engine.Types Engine.Ops Engine.Seq Engine.DryRun.
From Helm Require Import Engine.DryOps Run.RunC06Rich.
Import ListNotations.

Record spelling := mkSp { sp_step : nat; sp_bool : bool; sp_opt : string }.

(* [c6_rich]: wide / template cases (crds/, CreateNamespace, post-renderer, lookups, the wider
   flag set, helm template) are evaluated by the richer model of Engine/DryOps.v *)
Record c06case := mkC06 { c6_in_model : bool; c6_sp : list spelling; c6_case : RunEng.case;
                          c6_rich : option rich_case }.

Definition dry_of (sps : list spelling) (i : nat) : option bool :=
  match find (fun s => Nat.eqb (sp_step s) i) sps with
  | Some s => Some (is_dry_run (sp_bool s) (sp_opt s))
  | None => None
  end.

Fixpoint respell (sps : list spelling) (i : nat) (steps : list hstep) : list hstep :=
  match steps with
  | [] => []
  | HOp c :: t =>
      (match dry_of sps i with
       | Some d => HOp (mkOp (set_dry_op (oc_op c) d) (oc_sf c) (oc_cf c))
       | None => HOp c
       end) :: respell sps (S i) t
  | x :: t => x :: respell sps (S i) t
  end.

Definition respelled (c : c06case) : RunEng.case :=
  mkCase (c_init (c6_case c)) (respell (c6_sp c) 0 (c_steps (c6_case c))) (c_obs (c6_case c)).

Definition case_ok6 (c : c06case) : bool :=
  (negb (c6_in_model c) || RunEng.case_ok (respelled c))
  && match c6_rich c with Some r => rich_ok r | None => true end.

Fixpoint mismatches6_from (i : nat) (cs : list c06case) : list nat :=
  match cs with
  | [] => []
  | c :: t => if case_ok6 c then mismatches6_from (S i) t else i :: mismatches6_from (S i) t
  end.

(* the names the shard files use *)
Definition case := c06case.
Definition mismatches := mismatches6_from 0.

(* debugging *)
Definition model_view6 (c : c06case) := RunEng.model_view (respelled c).
Definition diag6 (c : c06case) := RunEng.diag (respelled c).
Definition rich_diag6 (c : c06case) := match c6_rich c with Some r => Some (rich_diag r) | None => None end.
Definition rich_view6 (c : c06case) := match c6_rich c with Some r => Some (rich_view r) | None => None end.

(* C12 correspondence: the engine evaluator (Run/RunEng.v) on histories whose hook lists are
   COMPUTED by the model from the annotation strings of the rendered hook documents
   ([hooks_of_docs], Engine/HookMeta.v: the harness prints the documents, never a parsed
   weight / event / policy), plus, for every install / upgrade, the direct comparison of what the
   model parses out of each document with the release.Hook records Helm produced
   (events, weight, delete policies and output-log policies as strings, log-fetch decision). *)
From Coq Require Import List String Bool Arith ZArith.
From Helm Require Export Run.RunEng Engine.HookMeta.
From Helm Require Import Engine.Types.
From Helm Require Text.Classify.
Import ListNotations.

(* a release.Hook as Helm parsed it, and (Job / Pod hooks) for which of the two output-log
   policies the harness saw the logs being fetched is not part of it: see [lg_obs] *)
Record parsed := mkParsed {
  pz_kind : string; pz_name : string; pz_events : list string; pz_weight : Z;
  pz_del : list string; pz_log : list string }.

(* one rendered chart: its hook documents (Helm's order; documents Helm dropped at the end) and
   the hooks Helm made of them *)
Record parse_obs := mkParseObs { po_docs : list res; po_hooks : list parsed }.

Record case := mkC12 { k_eng : RunEng.case; k_parse : list parse_obs }.

Definition parsed_of (r : res) : list parsed :=
  match doc_hook r with
  | Some h => [mkParsed (r_kind r) (r_name r) (Classify.hk_events h) (Classify.hk_weight h)
                        (Classify.hk_delete h) (Classify.hk_outlog h)]
  | None => []
  end.

Definition parsed_eqb (a b : parsed) : bool :=
  String.eqb (pz_kind a) (pz_kind b) && String.eqb (pz_name a) (pz_name b)
  && strs_eqb (pz_events a) (pz_events b) && Z.eqb (pz_weight a) (pz_weight b)
  && strs_eqb (pz_del a) (pz_del b) && strs_eqb (pz_log a) (pz_log b).

Fixpoint parsed_list_eqb (a b : list parsed) : bool :=
  match a, b with
  | [], [] => true
  | x :: t, y :: u => parsed_eqb x y && parsed_list_eqb t u
  | _, _ => false
  end.

Definition parse_ok (p : parse_obs) : bool :=
  parsed_list_eqb (flat_map parsed_of (po_docs p)) (po_hooks p).

Definition case_ok (c : case) : bool := RunEng.case_ok (k_eng c) && forallb parse_ok (k_parse c).

Fixpoint mismatches_from (i : nat) (cs : list case) : list nat :=
  match cs with
  | [] => []
  | c :: t => if case_ok c then mismatches_from (S i) t else i :: mismatches_from (S i) t
  end.

Definition mismatches := mismatches_from 0.

(* debugging: engine agreement and parse agreement separately *)
Definition diag12 (c : case) := (RunEng.diag (k_eng c), map parse_ok (k_parse c)).

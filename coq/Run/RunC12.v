(* C12 correspondence: the engine evaluator (Run/RunEng.v) on histories whose hook lists are
   COMPUTED by the model from the annotation strings of the rendered hook documents
   ([hooks_of_docs], Engine/HookMeta.v: the harness prints the documents, never a parsed
   weight / event / policy), plus, for every install / upgrade, the direct comparison of what the
   model parses out of each document with the release.Hook records Helm produced
   (events, weight, delete policies and output-log policies as strings), and the sequence of hook
   watches and log fetches (outputLogsByPolicy) of the operation with the model's [op_levs]. *)
From Coq Require Import List String Bool Arith ZArith.
From Helm Require Export Run.RunEng Engine.HookMeta Engine.HookTest.
From Helm Require Import Engine.Types Engine.Eff Engine.Ops Engine.Cluster Engine.Seq.
From Helm Require Text.Classify.
Import ListNotations.

(* a release.Hook as Helm parsed it, and (Job / Pod hooks) for which of the two output-log
   policies the harness saw the logs being fetched is not part of it: see [lg_obs] *)
Record parsed := mkParsed {
  pz_kind : string; pz_name : string; pz_events : list string; pz_weight : Z;
  pz_del : list string; pz_log : list string }.

(* one rendered chart: its hook documents (Helm's order; documents Helm dropped at the end) and
   the hooks Helm made of them *)
Record parse_obs := mkParseObs { po_docs : list res; po_hooks : list parsed }.

(* one non-atomic install / upgrade with hooks enabled and no rejected request: its hook
   documents, its two events, and the observed sequence of hook watches (with outcome) and
   log fetches (GetPodList selector, OutputContainerLogsForPodList) *)
Record log_obs := mkLogObs { lo_docs : list res; lo_pre : event; lo_post : event; lo_levs : list lev }.

(* the engine case with C12's step type (Engine/HookTest.v: the four operations, edits, helm test) *)
Record case12 := mkCase12 { c12_init : list (string * fields); c12_steps : list h12; c12_obs : list step_obs }.

Definition eng_ok (c : case12) : bool :=
  steps_agree (run_history12 rn ns (c12_steps c) (mkW [] (c12_init c))) (c12_obs c).

Record case := mkC12 { k_eng : case12; k_parse : list parse_obs; k_logs : list log_obs }.

Definition parsed_of (r : res) : list parsed :=
  match doc_hook r with
  | Some h => [mkParsed (r_kind r) (r_name r) (Classify.hk_events h) (Classify.hk_weight h)
                        (Classify.hk_delete h) (Classify.hk_outlog h)]
  | None => []
  end.

Definition parsed_eqb (a b : parsed) : bool :=
  String.eqb (pz_kind a) (pz_kind b) && String.eqb (pz_name a) (pz_name b)
  && strs_eqb (pz_events a) (pz_events b) && Z.eqb (pz_weight a) (pz_weight b)
  && strs_eqb (pz_del a) (pz_del b) && strs_eqb (pz_log a) (pz_log b).

Fixpoint parsed_list_eqb (a b : list parsed) : bool :=
  match a, b with
  | [], [] => true
  | x :: t, y :: u => parsed_eqb x y && parsed_list_eqb t u
  | _, _ => false
  end.

Definition parse_ok (p : parse_obs) : bool :=
  parsed_list_eqb (flat_map parsed_of (po_docs p)) (po_hooks p).

Definition sel_eqb (a b : log_sel) : bool :=
  match a, b with
  | LogByLabel x, LogByLabel y | LogByField x, LogByField y => String.eqb x y
  | _, _ => false
  end.

Definition lev_eqb (a b : lev) : bool :=
  match a, b with
  | LWatch k1 o1, LWatch k2 o2 => String.eqb k1 k2 && Bool.eqb o1 o2
  | LFetch s1, LFetch s2 => sel_eqb s1 s2
  | LOut, LOut => true
  | _, _ => false
  end.

Fixpoint levs_eqb (a b : list lev) : bool :=
  match a, b with
  | [], [] => true
  | x :: t, y :: u => lev_eqb x y && levs_eqb t u
  | _, _ => false
  end.

Definition watches_of (l : list lev) : list (string * bool) :=
  flat_map (fun e => match e with LWatch k ok => [(k, ok)] | _ => [] end) l.

(* the model's events for the observed watch outcomes = the observed events *)
Definition log_ok (l : log_obs) : bool :=
  levs_eqb (op_levs (hooks_of_docs (lo_docs l)) (lo_pre l) (lo_post l) (watches_of (lo_levs l))) (lo_levs l).

Definition case_ok (c : case) : bool :=
  eng_ok (k_eng c) && forallb parse_ok (k_parse c) && forallb log_ok (k_logs c).

Fixpoint mismatches_from (i : nat) (cs : list case) : list nat :=
  match cs with
  | [] => []
  | c :: t => if case_ok c then mismatches_from (S i) t else i :: mismatches_from (S i) t
  end.

Definition mismatches := mismatches_from 0.

(* debugging: engine agreement and parse agreement separately *)
Definition diag12 (c : case) :=
  ((fix go ms os :=
      match ms, os with
      | m :: t, o :: u =>
          let '(w, out, tr) := m in
          (outcome_eqb out (so_out o), rows_eqb (map row_of (sort_by_rev (w_led w))) (so_led o),
           objs_eqb (w_objs w) (so_objs o), trace_eqb tr (so_trace o)) :: go t u
      | _, _ => []
      end) (run_history12 rn ns (c12_steps (k_eng c)) (mkW [] (c12_init (k_eng c)))) (c12_obs (k_eng c)),
   map parse_ok (k_parse c), map log_ok (k_logs c)).

Definition model_view12 (c : case) :=
  map (fun m => let '(w, out, t) := m in (out, map row_of (sort_by_rev (w_led w)), w_objs w, t))
      (run_history12 rn ns (c12_steps (k_eng c)) (mkW [] (c12_init (k_eng c)))).

(* Correspondence evaluator for C04: evaluates the value models on the inputs the harness
   gave to the real functions and reports the indices of cases whose observed result differs
   (trees compared after [norm]: key-sorted). *)
From Coq Require Import List String Bool Arith ZArith.
From Helm Require Import Common.Strs Values.Tree Values.Merge Values.Coalesce Values.Strvals Values.Options.
Import ListNotations.

(* RErrD: an error, with the destination as the call left it (strvals entry points only) *)
Inductive res := ROk (v : val) | RErr | RErrD (v : val).

Definition res_eqb (a b : res) : bool :=
  match a, b with
  | ROk x, ROk y => val_equiv_b x y
  | RErr, RErr => true
  | RErr, RErrD _ => true
  | _, _ => false
  end.

Definition opt_equiv (a b : option val) : bool :=
  match a, b with
  | Some x, Some y => val_equiv_b x y
  | None, None => true
  | _, _ => false
  end.

(* the frame on an error: every top-level key that is not one of the keys the pairs start with
   (Strvals.heads — the keys StrvalsProofs.parse_frame leaves open) must be in the real
   destination as it was *)
Definition frame_ok (hs : list string) (dest : vmap) (after : val) : bool :=
  match after with
  | VMap a =>
      forallb (fun k => if existsb (String.eqb k) hs then true else opt_equiv (mget k a) (mget k dest))
              (map fst dest ++ map fst a)%list
  | _ => false
  end.

Inductive capi := ACoalesceValues | AMergeValues | AToRenderValues.

Inductive pfn := PInto | PIntoString | PJson | PLiteral | PFile.

Inductive case :=
| CFiles (files : list vmap) (obs : res)                          (* Options.MergeValues, -f only *)
| CMergeMaps (a b : vmap) (obs : res)                             (* loader.MergeMaps *)
| CCoalesce (api : capi) (c : chart) (vals : vmap) (obs : res)    (* CoalesceValues / MergeValues / ToRenderValues *)
| CTables (merge : bool) (dst src : vmap) (obs : res)             (* CoalesceTables / MergeTables *)
| COpts (o : options) (obs : res)                                 (* Options.MergeValues, all flag families *)
| CParse (fn : pfn) (s : string) (dest : vmap) (files : list (string * string))
         (jdec : list (nat * (val * nat))) (obs : res).           (* strvals.ParseInto & co; obs = dest afterwards *)

Definition of_opt (o : option vmap) : res := match o with Some m => ROk (VMap m) | None => RErr end.

Definition model (c : case) : res :=
  match c with
  | CFiles files _ => ROk (merge_all (VMap []) (map VMap files))
  | CMergeMaps a b _ => ROk (VMap (merge_maps a b))
  | CCoalesce ACoalesceValues ch vals _ => of_opt (coalesce_values_root ch vals)
  | CCoalesce AMergeValues ch vals _ => of_opt (merge_values_root ch vals)
  | CCoalesce AToRenderValues ch vals _ => of_opt (to_render_values ch vals)
  | CTables merge dst src _ => ROk (VMap (coalesce_tables merge dst src))
  | COpts o _ => of_opt (merge_values o)
  | CParse fn s dest files jdec _ =>
      of_opt (of_pres (match fn with
                       | PInto => parse_into s dest
                       | PIntoString => parse_into_string s dest
                       | PJson => parse_json jdec s dest
                       | PLiteral => parse_literal_into s dest
                       | PFile => parse_into_file files s dest
                       end))
  end.

Definition observed (c : case) : res :=
  match c with
  | CFiles _ o | CMergeMaps _ _ o | CCoalesce _ _ _ o | CTables _ _ _ o | COpts _ o | CParse _ _ _ _ _ o => o
  end.

Definition parse_cfg (fn : pfn) (files : list (string * string)) (jdec : list (nat * (val * nat))) : pcfg :=
  match fn with
  | PInto => mkCfg MTyped [] []
  | PIntoString => mkCfg MString [] []
  | PJson => mkCfg MJson [] jdec
  | PLiteral => mkCfg MLiteral [] []
  | PFile => mkCfg MFile files []
  end.

Definition parse_model (fn : pfn) (s : string) (dest : vmap) (files : list (string * string))
                       (jdec : list (nat * (val * nat))) : pres :=
  match fn with
  | PInto => parse_into s dest
  | PIntoString => parse_into_string s dest
  | PJson => parse_json jdec s dest
  | PLiteral => parse_literal_into s dest
  | PFile => parse_into_file files s dest
  end.

Definition case_ok (c : case) : bool :=
  match c with
  | CParse fn s dest files jdec obs =>
      match parse_model fn s dest files jdec, obs with
      | POk d, ROk v => val_equiv_b (VMap d) v
      | PErr d', RErrD after =>
          frame_ok (heads (S (String.length s)) (parse_cfg fn files jdec) dest s) dest after
          && frame_ok (heads (S (String.length s)) (parse_cfg fn files jdec) dest s) dest (VMap d')
      | _, _ => false
      end
  | _ => res_eqb (model c) (observed c)
  end.

Fixpoint mismatches_from (i : nat) (cs : list case) : list nat :=
  match cs with
  | [] => []
  | c :: t => if case_ok c then mismatches_from (S i) t else i :: mismatches_from (S i) t
  end.

Definition mismatches := mismatches_from 0.

(* Correspondence evaluator for C04: evaluates the value models on the inputs the harness
   gave to the real functions and reports the indices of cases whose observed result differs
   (trees compared after [norm]: key-sorted). *)
From Coq Require Import List String Bool Arith ZArith.
From Helm Require Import Common.Strs Values.Tree Values.Merge Values.Coalesce Values.Strvals Values.Options Values.Strvals2.
Import ListNotations.

(* RErrD: an error, with the destination as the call left it (strvals entry points only) *)
Inductive res := ROk (v : val) | RErr | RErrD (v : val).

Definition res_eqb (a b : res) : bool :=
  match a, b with
  | ROk x, ROk y => val_equiv_b x y
  | RErr, RErr => true
  | RErr, RErrD _ => true
  | _, _ => false
  end.

Definition opt_equiv (a b : option val) : bool :=
  match a, b with
  | Some x, Some y => val_equiv_b x y
  | None, None => true
  | _, _ => false
  end.

(* the frame on an error: every top-level key that is not one of the keys the pairs start with
   (Strvals.heads — the keys StrvalsProofs.parse_frame leaves open) must be in the real
   destination as it was *)
Definition frame_ok (hs : list string) (dest : vmap) (after : val) : bool :=
  match after with
  | VMap a =>
      forallb (fun k => if existsb (String.eqb k) hs then true else opt_equiv (mget k a) (mget k dest))
              (map fst dest ++ map fst a)%list
  | _ => false
  end.

Inductive capi := ACoalesceValues | AMergeValues | AToRenderValues.

Inductive pfn := PInto | PIntoString | PJson | PLiteral | PFile.

(* round 4: the entry points of pkg/strvals as Values/Strvals2.v models them; P2Parse … = the
   variants that start from a fresh map (Parse, ParseString, ParseLiteral, ParseFile) *)
Inductive pfn2 := P2Into | P2IntoString | P2Json | P2Literal | P2File
                | P2Parse | P2ParseString | P2ParseLiteral | P2ParseFile.

Inductive case :=
| CFiles (files : list vmap) (obs : res)                          (* Options.MergeValues, -f only *)
| CMergeMaps (a b : vmap) (obs : res)                             (* loader.MergeMaps *)
| CCoalesce (api : capi) (c : chart) (vals : vmap) (obs : res)    (* CoalesceValues / MergeValues / ToRenderValues *)
| CTables (merge : bool) (dst src : vmap) (obs : res)             (* CoalesceTables / MergeTables *)
| COpts (o : options) (obs : res)                                 (* Options.MergeValues, all flag families *)
| CParse (fn : pfn) (s : string) (dest : vmap) (files : list (string * string))
         (jdec : list (nat * (val * nat))) (obs : res)            (* strvals.ParseInto & co; obs = dest afterwards *)
(* the same through Values/Strvals2.v: [rtab] = every call of the RunesValueReader callback the
   real parse made (argument -> result, ok); [jdec] = the JSON decode table; [onames] = the paths
   the generator printed the expression from (when it knows them), compared with [names_of] *)
| CParse2 (fn : pfn2) (s : string) (dest : vmap) (rtab : list (string * (val * bool)))
          (jdec : list (nat * (val * nat))) (onames : option (list (list step))) (obs : res)
(* … observed through deep paths only (for results too large to print, e.g. a[65536]) *)
| CProbe (fn : pfn2) (s : string) (dest : vmap) (probes : list (list step * option val)) (err : bool).

Definition of_opt (o : option vmap) : res := match o with Some m => ROk (VMap m) | None => RErr end.

Definition model (c : case) : res :=
  match c with
  | CFiles files _ => ROk (merge_all (VMap []) (map VMap files))
  | CMergeMaps a b _ => ROk (VMap (merge_maps a b))
  | CCoalesce ACoalesceValues ch vals _ => of_opt (coalesce_values_root ch vals)
  | CCoalesce AMergeValues ch vals _ => of_opt (merge_values_root ch vals)
  | CCoalesce AToRenderValues ch vals _ => of_opt (to_render_values ch vals)
  | CTables merge dst src _ => ROk (VMap (coalesce_tables merge dst src))
  | COpts o _ => of_opt (merge_values o)
  | CParse fn s dest files jdec _ =>
      of_opt (of_pres (match fn with
                       | PInto => parse_into s dest
                       | PIntoString => parse_into_string s dest
                       | PJson => parse_json jdec s dest
                       | PLiteral => parse_literal_into s dest
                       | PFile => parse_into_file files s dest
                       end))
  | CParse2 _ _ _ _ _ _ _ | CProbe _ _ _ _ _ => RErr        (* compared by case_ok below *)
  end.

Definition observed (c : case) : res :=
  match c with
  | CFiles _ o | CMergeMaps _ _ o | CCoalesce _ _ _ o | CTables _ _ _ o | COpts _ o | CParse _ _ _ _ _ o => o
  | CParse2 _ _ _ _ _ _ o => o
  | CProbe _ _ _ _ _ => RErr
  end.

Definition parse_cfg (fn : pfn) (files : list (string * string)) (jdec : list (nat * (val * nat))) : pcfg :=
  match fn with
  | PInto => mkCfg MTyped [] []
  | PIntoString => mkCfg MString [] []
  | PJson => mkCfg MJson [] jdec
  | PLiteral => mkCfg MLiteral [] []
  | PFile => mkCfg MFile files []
  end.

Definition parse_model (fn : pfn) (s : string) (dest : vmap) (files : list (string * string))
                       (jdec : list (nat * (val * nat))) : pres :=
  match fn with
  | PInto => parse_into s dest
  | PIntoString => parse_into_string s dest
  | PJson => parse_json jdec s dest
  | PLiteral => parse_literal_into s dest
  | PFile => parse_into_file files s dest
  end.

Definition mode_of (fn : pfn2) : pmode :=
  match fn with
  | P2Into | P2Parse => MTyped
  | P2IntoString | P2ParseString => MString
  | P2Json => MJson
  | P2Literal | P2ParseLiteral => MLiteral
  | P2File | P2ParseFile => MFile
  end.

Definition parse_model2 (fn : pfn2) (s : string) (dest : vmap) (rtab : list (string * (val * bool)))
                        (jdec : list (nat * (val * nat))) : pres :=
  parse2 (mode_of fn) (rdr_of_table rtab) (jdec_of_table jdec) s dest.

Definition step_eqb (a b : step) : bool :=
  match a, b with
  | SKey x, SKey y => String.eqb x y
  | SIdx i, SIdx j => Z.eqb i j
  | _, _ => false
  end.

Fixpoint list_eqb {A} (eqb : A -> A -> bool) (l1 l2 : list A) : bool :=
  match l1, l2 with
  | [], [] => true
  | x :: t1, y :: t2 => eqb x y && list_eqb eqb t1 t2
  | _, _ => false
  end.

Definition names_ok (fn : pfn2) (s : string) (rtab : list (string * (val * bool))) (jdec : list (nat * (val * nat)))
                    (onames : option (list (list step))) : bool :=
  match onames with
  | None => true
  | Some ns => list_eqb (list_eqb step_eqb) (names_of (mode_of fn) (rdr_of_table rtab) (jdec_of_table jdec) s) ns
  end.

(* the top-level keys the pairs of the expression start with, read off the string alone *)
Definition heads2 (fn : pfn2) (s : string) (rtab : list (string * (val * bool))) (jdec : list (nat * (val * nat))) : list string :=
  flat_map (fun p => match p with SKey k :: _ => [k] | _ => [] end)
           (names_of (mode_of fn) (rdr_of_table rtab) (jdec_of_table jdec) s).

(* the two transcriptions of the parsers agree (round 4): every case of the first model is
   evaluated by the second one too — files as a callback table, the same decode table *)
Definition pfn2_of (fn : pfn) : pfn2 :=
  match fn with PInto => P2Into | PIntoString => P2IntoString | PJson => P2Json | PLiteral => P2Literal | PFile => P2File end.

Definition pres_agree (a b : pres) : bool :=
  match a, b with
  | POk x, POk y => val_equiv_b (VMap x) (VMap y)
  | PErr _, PErr _ => true
  | _, _ => false
  end.

Definition models_agree (fn : pfn) (s : string) (dest : vmap) (files : list (string * string)) (jdec : list (nat * (val * nat))) : bool :=
  pres_agree (parse_model fn s dest files jdec)
             (parse_model2 (pfn2_of fn) s dest (map (fun kv => (fst kv, (VStr (snd kv), true))) files) jdec).

Definition case_ok (c : case) : bool :=
  match c with
  | CParse2 fn s dest rtab jdec onames obs =>
      names_ok fn s rtab jdec onames &&
      match parse_model2 fn s dest rtab jdec, obs with
      | POk d, ROk v => val_equiv_b (VMap d) v
      | PErr d', RErrD after =>
          frame_ok (heads2 fn s rtab jdec) dest after && frame_ok (heads2 fn s rtab jdec) dest (VMap d')
      | _, _ => false
      end
  | CProbe fn s dest probes err =>
      match parse_model2 fn s dest [] [] with
      | POk d => negb err && forallb (fun pr => opt_equiv (dget (fst pr) (VMap d)) (snd pr)) probes
      | PErr _ => err
      | PFuel => false
      end
  | CParse fn s dest files jdec obs =>
      models_agree fn s dest files jdec &&
      match parse_model fn s dest files jdec, obs with
      | POk d, ROk v => val_equiv_b (VMap d) v
      | PErr d', RErrD after =>
          frame_ok (heads (S (String.length s)) (parse_cfg fn files jdec) dest s) dest after
          && frame_ok (heads (S (String.length s)) (parse_cfg fn files jdec) dest s) dest (VMap d')
      | _, _ => false
      end
  | _ => res_eqb (model c) (observed c)
  end.

Fixpoint mismatches_from (i : nat) (cs : list case) : list nat :=
  match cs with
  | [] => []
  | c :: t => if case_ok c then mismatches_from (S i) t else i :: mismatches_from (S i) t
  end.

Definition mismatches := mismatches_from 0.

From Helm Require Export Run.RunEng.

(* Correspondence evaluator shared by the engine properties: runs Engine/Seq.v on the
   history the harness ran through the real Helm actions and compares, step by step, the
   outcome class, the ledger, the cluster objects and the trace of effective writes. *)
From Coq Require Import List String Bool Arith ZArith.
From Helm Require Import Common.Assoc Engine.Types Engine.Eff Engine.Ops Engine.Cluster Engine.Seq.
Import ListNotations.

Record ledger_row := mkRow { lr_rev : nat; lr_st : status; lr_chart : nat; lr_vals : nat; lr_keys : list string }.

Record step_obs := mkObs {
  so_out : outcome;
  so_led : list ledger_row;                 (* sorted by revision *)
  so_objs : list (string * fields);
  so_trace : list tev }.

Record case := mkCase { c_init : list (string * fields); c_steps : list hstep; c_obs : list step_obs }.

Definition rn := "rel"%string.
Definition ns := "default"%string.

Definition row_of (r : release) : ledger_row :=
  mkRow (rev r) (st r) (chart_id r) (config_id r) (map rkey (manifest r)).

Fixpoint strs_eqb (a b : list string) : bool :=
  match a, b with
  | [], [] => true
  | x :: t, y :: u => String.eqb x y && strs_eqb t u
  | _, _ => false
  end.

Definition row_eqb (a b : ledger_row) : bool :=
  Nat.eqb (lr_rev a) (lr_rev b) && status_eqb (lr_st a) (lr_st b) && Nat.eqb (lr_chart a) (lr_chart b)
  && Nat.eqb (lr_vals a) (lr_vals b) && strs_eqb (lr_keys a) (lr_keys b).

Fixpoint rows_eqb (a b : list ledger_row) : bool :=
  match a, b with
  | [], [] => true
  | x :: t, y :: u => row_eqb x y && rows_eqb t u
  | _, _ => false
  end.

Definition objs_sub (a b : list (string * fields)) : bool :=
  forallb (fun kv => match aget (fst kv) b with Some f => fields_eqb (snd kv) f | None => false end) a.
Definition objs_eqb (a b : list (string * fields)) : bool :=
  objs_sub a b && objs_sub b a && Nat.eqb (List.length a) (List.length b).

Definition verb_rank (v : verb) : nat :=
  match v with VCreate => 0 | VDelete => 1 | VPatch => 2 | VGet => 3 end.

Definition mut_le (a b : verb * string) : bool :=
  if Nat.ltb (verb_rank (fst a)) (verb_rank (fst b)) then true
  else if Nat.ltb (verb_rank (fst b)) (verb_rank (fst a)) then false
  else negb (str_ltb (snd b) (snd a)).

Fixpoint mut_insert (m : verb * string) (l : list (verb * string)) : list (verb * string) :=
  match l with
  | [] => [m]
  | x :: t => if mut_le m x then m :: l else x :: mut_insert m t
  end.
Definition sort_muts (l : list (verb * string)) : list (verb * string) := fold_right mut_insert [] l.

Fixpoint muts_eqb (a b : list (verb * string)) : bool :=
  match a, b with
  | [], [] => true
  | x :: t, y :: u => verb_eqb (fst x) (fst y) && String.eqb (snd x) (snd y) && muts_eqb t u
  | _, _ => false
  end.

Definition tev_eqb (a b : tev) : bool :=
  match a, b with
  | TStore w1 r1 s1, TStore w2 r2 s2 =>
      String.eqb w1 w2 && Nat.eqb r1 r2 && (String.eqb w1 "delete" || status_eqb s1 s2)
  | TKube (KCall n1 m1), TKube (KCall n2 m2) => String.eqb n1 n2 && muts_eqb (sort_muts m1) (sort_muts m2)
  | _, _ => false
  end.

Fixpoint trace_eqb (a b : list tev) : bool :=
  match a, b with
  | [], [] => true
  | x :: t, y :: u => tev_eqb x y && trace_eqb t u
  | _, _ => false
  end.

Definition step_agrees (m : world * outcome * list tev) (o : step_obs) : bool :=
  let '(w, out, t) := m in
  outcome_eqb out (so_out o)
  && rows_eqb (map row_of (sort_by_rev (w_led w))) (so_led o)
  && objs_eqb (w_objs w) (so_objs o)
  && trace_eqb t (so_trace o).

Fixpoint steps_agree (ms : list (world * outcome * list tev)) (os : list step_obs) : bool :=
  match ms, os with
  | [], [] => true
  | m :: t, o :: u => step_agrees m o && steps_agree t u
  | _, _ => false
  end.

Definition case_ok (c : case) : bool :=
  steps_agree (run_history rn ns (c_steps c) (mkW [] (c_init c))) (c_obs c).

Fixpoint mismatches_from (i : nat) (cs : list case) : list nat :=
  match cs with
  | [] => []
  | c :: t => if case_ok c then mismatches_from (S i) t else i :: mismatches_from (S i) t
  end.

Definition mismatches := mismatches_from 0.

(* for debugging a mismatch: the model's view of a case *)
Definition model_view (c : case) :=
  map (fun m => let '(w, out, t) := m in (out, map row_of (sort_by_rev (w_led w)), w_objs w, t))
      (run_history rn ns (c_steps c) (mkW [] (c_init c))).

(* per step: (outcome, ledger, objects, trace) agreement flags *)
Definition diag (c : case) :=
  (fix go ms os :=
     match ms, os with
     | m :: t, o :: u =>
         let '(w, out, tr) := m in
         (outcome_eqb out (so_out o), rows_eqb (map row_of (sort_by_rev (w_led w))) (so_led o),
          objs_eqb (w_objs w) (so_objs o), trace_eqb tr (so_trace o)) :: go t u
     | _, _ => []
     end) (run_history rn ns (c_steps c) (mkW [] (c_init c))) (c_obs c).

(* Correspondence evaluator for C11: runs the models of ProcessDependencies, CoalesceValues and
   recAllTpls on the chart tree the real loader produced and compares with what the real
   ProcessDependencies + ToRenderValues + engine.Render produced. *)
From Coq Require Import List String Bool Arith ZArith.
From Helm Require Import Common.Strs Values.Tree Values.Schema Values.Scope Values.Deps.
Import ListNotations.

Inductive stage := SDeps | SValues.

(* the processed tree: chart name, names of the kept requirement records, kept subcharts *)
Inductive ptree := PT (name : string) (mdeps : list string) (kids : list ptree).

Inductive obs :=
| OErr (s : stage)
| OOk (t : ptree) (rendered : list (string * val)).

Inductive case :=
| mkCase (c : chart) (vals : vmap) (compat : list (string * string * bool)) (o : obs)
         (crds_sent : option (list string))   (* crds/ files a real install handed to the cluster, in order *)
| mkSkip.       (* outside the model: loader error, template error *)

Definition compat_of (tbl : list (string * string * bool)) (constraint ver : string) : bool :=
  match find (fun r => String.eqb (fst (fst r)) constraint && String.eqb (snd (fst r)) ver) tbl with
  | Some r => snd r
  | None => false
  end.

Fixpoint tree_of (c : chart) : ptree :=
  match c with
  | Chart n _ _ _ deps md _ _ =>
      PT n (match md with Some l => map dname l | None => [] end)
         ((fix go (ds : list chart) : list ptree :=
             match ds with [] => [] | d :: t => tree_of d :: go t end) deps)
  end.

Fixpoint strs_eqb (a b : list string) : bool :=
  match a, b with
  | [], [] => true
  | x :: a', y :: b' => String.eqb x y && strs_eqb a' b'
  | _, _ => false
  end.

Fixpoint ptree_eqb (a b : ptree) {struct a} : bool :=
  match a, b with
  | PT n1 m1 k1, PT n2 m2 k2 =>
      String.eqb n1 n2 && strs_eqb m1 m2
      && (fix go (l1 l2 : list ptree) : bool :=
            match l1, l2 with
            | [], [] => true
            | x :: t1, y :: t2 => ptree_eqb x y && go t1 t2
            | _, _ => false
            end) k1 k2
  end.

Definition rendered_eqb (model observed : list (string * val)) : bool :=
  Nat.eqb (List.length model) (List.length observed)
  && forallb (fun pv => match find (fun mv => String.eqb (fst mv) (fst pv)) model with
                        | Some mv => val_equiv_b (snd mv) (snd pv)
                        | None => false
                        end) observed.

Definition model_run (c : chart) (vals : vmap) (tbl : list (string * string * bool)) : obs :=
  match process_dependencies (compat_of tbl) c vals with
  | Err _ => OErr SDeps
  | Ok c' =>
      match CoalesceValues c' vals with
      | Err _ => OErr SValues
      | Ok v => OOk (tree_of c') (all_templates c' v)
      end
  end.

Definition obs_agree (m o : obs) : bool :=
  match m, o with
  | OErr SDeps, OErr SDeps => true
  | OErr SValues, OErr SValues => true
  | OOk t1 r1, OOk t2 r2 => ptree_eqb t1 t2 && rendered_eqb r1 r2
  | _, _ => false
  end.

(* what Install.RunWithContext sends from crds/: chrt.CRDObjects() AFTER ProcessDependencies;
   nothing when ProcessDependencies fails *)
Definition model_crds (c : chart) (vals : vmap) (tbl : list (string * string * bool)) : list string :=
  match process_dependencies (compat_of tbl) c vals with
  | Err _ => []
  | Ok c' => map fst (crd_objects c' true EmptyString)
  end.

Definition case_ok (c : case) : bool :=
  match c with
  | mkSkip => true
  | mkCase ch vals tbl o crds =>
      obs_agree (model_run ch vals tbl) o
      && match crds with
         | None => true
         | Some sent => strs_eqb (model_crds ch vals tbl) sent
         end
  end.

Fixpoint mismatches_from (i : nat) (cs : list case) : list nat :=
  match cs with
  | [] => []
  | c :: t => if case_ok c then mismatches_from (S i) t else i :: mismatches_from (S i) t
  end.

Definition mismatches := mismatches_from 0.

(* C09 correspondence evaluator: a sequential prefix (checked with RunEng, it builds the
   starting history), then the concurrent operations run by Engine/Conc.v under the gate
   schedule the harness replayed on the real Install/Upgrade.  Compared per operation:
   outcome class and the trace of effective storage writes / cluster calls with their
   mutations; and at quiescence: ledger, cluster objects, and the effective schedule
   (which entries found their operation still running — this pins the number of gates). *)
From Coq Require Import List String Bool Arith ZArith.
From Helm Require Import Common.Assoc Engine.Types Engine.Eff Engine.Ops Engine.OpsFix Engine.Cluster Engine.Seq Engine.Conc Engine.ConcStart.
From Helm Require Import Run.RunEng.
Import ListNotations.

Record ccase := mkCCase {
  cc_pre : RunEng.case;             (* sequential prefix and what was observed after each step *)
  cc_conc : RunEng.case;            (* c_steps: the concurrent operations; c_obs: per operation
                                       (outcome, FINAL ledger, FINAL objects, own trace) *)
  cc_sched : list nat;              (* gate schedule *)
  cc_eff : list nat }.              (* entries that released a gate, as observed *)

Definition case := ccase.

Definition world_after (c : RunEng.case) : world :=
  let w0 := mkW [] (c_init c) in
  last (map (fun x => fst (fst x)) (run_history rn ns (c_steps c) w0)) w0.

Definition ops_of (c : RunEng.case) : list op :=
  flat_map (fun s => match s with HOp oc => [oc_op oc] | HEdit _ => [] end) (c_steps c).

Fixpoint nats_eqb (a b : list nat) : bool :=
  match a, b with
  | [], [] => true
  | x :: t, y :: u => Nat.eqb x y && nats_eqb t u
  | _, _ => false
  end.

(* at most one one-shot cluster fault is armed for the concurrent phase: the first one carried
   by an operation of the case *)
Definition fault_of (c : RunEng.case) : option (verb * string) :=
  fold_right (fun s acc => match s with
                           | HOp oc => match cf_k (oc_cf oc) with Some f => Some f | None => acc end
                           | HEdit _ => acc
                           end) None (c_steps c).

Definition start_state (c : ccase) : cstate kstate :=
  let w := world_after (cc_pre c) in
  mkC (w_led w) (mkK (w_objs w) (fault_of (cc_conc c)) None false) [].

(* the harness launches the operations in index order, each up to its first gate, before the
   schedule starts ([ConcStart.run_started]; an operation without any gate — install --dry-run —
   has returned by then) *)
Definition model_run (c : ccase) :=
  run_started kstate (kube_handle rn ns) dead_resp outcome
              (map (op_prog_fx rn ns) (ops_of (cc_conc c))) (cc_sched c) (start_state c).

(* Known imprecision of the shared model, outside C09's domain (history pruning): a final
   SUpdate that finds its record pruned away is classified "other" by Ops.upgrade where Helm
   returns "release: not found".  Tolerated ONLY in cases where an operation prunes. *)
Definition prunes (o : op) : bool :=
  match o with OpUpgrade fl _ _ _ _ | OpRollback fl => Nat.ltb 0 (f_max_history fl) | _ => false end.

Definition outcome_agrees (pruning : bool) (m o : outcome) : bool :=
  outcome_eqb m o
  || (pruning && outcome_eqb m (OErr EOtherErr) && outcome_eqb o (OErr ENotFoundRel)).

Fixpoint ops_agree (pr : bool) (i : nat) (s : cstate kstate) (outs : list (option outcome)) (obs : list step_obs) : bool :=
  match outs, obs with
  | [], [] => true
  | Some o :: t, ob :: u =>
      outcome_agrees pr o (so_out ob)
      && trace_eqb (thread_trace i (c_tr s)) (so_trace ob)
      && rows_eqb (map row_of (sort_by_rev (c_led s))) (so_led ob)
      && objs_eqb (objs (c_ks s)) (so_objs ob)
      && ops_agree pr (S i) s t u
  | _, _ => false
  end.

Definition conc_ok (c : ccase) : bool :=
  let ops := ops_of (cc_conc c) in
  let '(ts, s) := model_run c in
  ops_agree (existsb prunes ops) 0 s (outcomes _ ts) (c_obs (cc_conc c))
  && nats_eqb (effective_started kstate (kube_handle rn ns) dead_resp outcome
                 (map (op_prog_fx rn ns) ops) (cc_sched c) (start_state c))
              (cc_eff c).

Definition case_ok (c : ccase) : bool := RunEng.case_ok (cc_pre c) && conc_ok c.

Fixpoint mismatches_from (i : nat) (cs : list ccase) : list nat :=
  match cs with
  | [] => []
  | c :: t => if case_ok c then mismatches_from (S i) t else i :: mismatches_from (S i) t
  end.

Definition mismatches := mismatches_from 0.

(* debugging: the model's view of the concurrent phase *)
Definition model_view (c : ccase) :=
  let '(ts, s) := model_run c in
  (outcomes _ ts,
   map row_of (sort_by_rev (c_led s)),
   objs (c_ks s),
   map (fun i => thread_trace i (c_tr s)) (seq 0 (List.length ts)),
   creations (c_tr s)).

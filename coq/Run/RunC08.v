(* Correspondence evaluator for C08: runs Text/Split.v, Text/Classify.v (+KindSort) and
   Text/Batch.v on the inputs the harness gave to the real releaseutil.SplitManifests,
   releaseutil.SortManifests, action.Install (dry run) and kube.Client.Create, and reports
   the indices of the cases whose observed result differs from the model's. *)
From Coq Require Import List String Ascii Bool Arith ZArith.
From Helm Require Import Common.Assoc Common.Strs Text.Split Text.KindSort Text.Classify Text.Batch
  Gen.KindOrder Gen.Events.
Import ListNotations.
Local Open Scope string_scope.

(* observed generic manifest: Name, Content, Head.Kind as Helm parsed it *)
Definition gobs := (string * string * string)%type.

Inductive sort_obs :=
| OSortErr
| OSortOk (hooks : list hook) (generic : list gobs).

Inductive render_obs :=
| ORenderErr
| ORenderOk (hooks : list hook) (manifest : string).

Inductive case :=
(* releaseutil.SplitManifests: input, documents in manifest-N order *)
| CSplit (input : string) (obs : list string)
(* releaseutil.SortManifests: uninstall order?, files, head table (document -> what the
   YAML library returned; None = parse error), observation *)
| CSort (uninstall : bool) (files : list (string * string)) (heads : list (string * option head)) (obs : sort_obs)
(* action.Install dry run: rendered files (path -> text), head table, Release.Hooks + Release.Manifest *)
| CRender (files : list (string * string)) (heads : list (string * option head)) (obs : render_obs)
(* kube.Client.Create: Kind of every resource in list order, observed fn start/end events
   in the order they happened, which creates failed *)
| CBarrier (kinds : list string) (failing : list nat) (evs : list event) (reported_failures : nat).

Definition head_table (heads : list (string * option head)) (d : string) : option head :=
  match aget d heads with Some h => h | None => None end.

Definition list_eqb {A} (f : A -> A -> bool) := fix go (a b : list A) : bool :=
  match a, b with
  | [], [] => true
  | x :: a', y :: b' => f x y && go a' b'
  | _, _ => false
  end.

Definition hook_eqb (a b : hook) : bool :=
  String.eqb (hk_name a) (hk_name b) && String.eqb (hk_kind a) (hk_kind b) &&
  String.eqb (hk_path a) (hk_path b) && String.eqb (hk_manifest a) (hk_manifest b) &&
  list_eqb String.eqb (hk_events a) (hk_events b) && Z.eqb (hk_weight a) (hk_weight b) &&
  list_eqb String.eqb (hk_delete a) (hk_delete b) && list_eqb String.eqb (hk_outlog a) (hk_outlog b).

Definition gobs_of (m : manifest) : gobs := (m_name m, m_content m, h_kind (m_head m)).
Definition gobs_eqb (a b : gobs) : bool :=
  match a, b with (n1, c1, k1), (n2, c2, k2) => String.eqb n1 n2 && String.eqb c1 c2 && String.eqb k1 k2 end.

Definition case_ok (c : case) : bool :=
  match c with
  | CSplit input obs => list_eqb String.eqb (split_manifests input) obs
  | CSort unin files heads obs =>
      match sort_manifests (head_table heads) (if unin then uninstall_order else install_order) files, obs with
      | SortErr, OSortErr => true
      | SortOk hs gs, OSortOk ohs ogs => list_eqb hook_eqb hs ohs && list_eqb gobs_eqb (map gobs_of gs) ogs
      | _, _ => false
      end
  | CRender files heads obs =>
      match render_resources (head_table heads) install_order files, obs with
      | RenderErr, ORenderErr => true
      | RenderOk hs txt, ORenderOk ohs otxt => list_eqb hook_eqb hs ohs && String.eqb txt otxt
      | _, _ => false
      end
  | CBarrier kinds failing evs nfail =>
      let fails := fun j => existsb (Nat.eqb j) failing in
      admissible kinds fails evs
      && match replay kinds fails (init) evs with
         | Some s => Nat.eqb (List.length (failed s)) nfail
         | None => false
         end
  end.

Fixpoint mismatches_from (i : nat) (cs : list case) : list nat :=
  match cs with
  | [] => []
  | c :: t => if case_ok c then mismatches_from (S i) t else i :: mismatches_from (S i) t
  end.

Definition mismatches := mismatches_from 0.

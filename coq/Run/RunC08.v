(* Correspondence evaluator for C08: runs Text/Split.v, Text/Classify.v (+KindSort) and
   Text/Batch.v on the inputs the harness gave to the real releaseutil.SplitManifests,
   releaseutil.SortManifests, action.Install (dry run) and kube.Client.Create, and reports
   the indices of the cases whose observed result differs from the model's. *)
From Coq Require Import List String Ascii Bool Arith ZArith.
From Helm Require Import Common.Assoc Common.Strs Text.Split Text.KindSort Text.Classify Text.Uninstall Text.Batch
  Text.Lower Text.ClassifyU Text.UninstallU Text.Full Gen.KindOrder Gen.Events.
Import ListNotations.
Local Open Scope string_scope.

(* Observed document texts are given as positions in the head table (which lists every
   distinct document once): the same bytes are not printed several times per case. *)
(* observed generic manifest: Name, Content (position), Head.Kind as Helm parsed it *)
Definition gobs := (string * nat * string)%type.

Record ohook := mkOHook {
  oh_name : string; oh_kind : string; oh_path : string; oh_doc : nat;
  oh_events : list string; oh_weight : Z; oh_delete : list string; oh_outlog : list string
}.

Inductive sort_obs :=
| OSortErr
| OSortOk (hooks : list ohook) (generic : list gobs).

Inductive render_obs :=
| ORenderErr
(* Release.Manifest is, byte for byte (checked by the harness before it uses this form),
   the concatenation of "---\n# Source: <path>\n<document>\n" over these (path, document) pieces *)
| ORenderOk (hooks : list ohook) (pieces : list (string * nat))
(* otherwise the text itself *)
| ORenderRaw (hooks : list ohook) (manifest : string).

(* what a full run showed: Release.Hooks, Release.Manifest, Release.Info.Notes and the files
   under the output directory (sorted by path), or the debugging blob of a YAML parse error *)
Inductive full_obs :=
| OFullYamlErr (blob : string)
| OFullPostErr (hooks : list ohook) (notes : string) (written : list (string * string))
| OFullOk (hooks : list ohook) (manifest : string) (notes : string) (written : list (string * string))
| OFullWriteErr
| OFullOther.

(* A file's text is given as pieces: literal text and references to documents of the head
   table; the harness checks that the concatenation is the file, byte for byte. *)
Inductive piece := PS (s : string) | PD (i : nat).

Fixpoint build_text (docs : list string) (ps : list piece) : string :=
  match ps with
  | [] => EmptyString
  | PS s :: t => s ++ build_text docs t
  | PD i :: t => match nth_error docs i with Some d => d | None => EmptyString end ++ build_text docs t
  end.

Definition build_files (heads : list (string * option head)) (fs : list (string * list piece)) : list (string * string) :=
  map (fun f => (fst f, build_text (map fst heads) (snd f))) fs.

Inductive case :=
(* releaseutil.SplitManifests: input, documents in manifest-N order *)
| CSplit (input : string) (obs : list string)
(* releaseutil.SortManifests: uninstall order?, files, head table (document -> what the
   YAML library returned; None = parse error), observation *)
| CSort (uninstall : bool) (pfiles : list (string * list piece)) (heads : list (string * option head)) (obs : sort_obs)
(* action.Install dry run: rendered files (path -> text), head table, Release.Hooks + Release.Manifest *)
| CRender (pfiles : list (string * list piece)) (heads : list (string * option head)) (obs : render_obs)
(* action.Install then action.Uninstall (hooks disabled): rendered files, head table (also for
   the documents of the stored manifest), and the documents of the stream handed to
   KubeClient.Build for deletion, in order (positions in the head table; the harness checks
   that the stream is "\n---\n" ++ document, repeated, byte for byte) *)
| CUninstall (pfiles : list (string * list piece)) (heads : list (string * option head)) (obs : option (list nat))
(* action.Install dry run with crds/ files, NOTES.txt at several depths, --hide-secret,
   --output-dir, SubNotes and a post-renderer: the arguments of renderResources, the chart as
   Chart.CRDObjects sees it, the rendered files, the head table, the post-renderer as the table
   of what it was handed and what it returned ([None] = it failed), the observation *)
| CFull (o : opts) (ch : chart) (pfiles : list (string * list piece)) (heads : list (string * option head))
        (pr : option (list (string * option string))) (obs : full_obs)
(* strings.ToLower on a token *)
| CLower (input : string) (obs : string)
(* action.Install with DryRun / DryRunOption / HideSecret: rejected by the hide-secret guard?,
   was anything stored and created? *)
| CGuard (f : run_flags) (rejected applied_obs : bool)
(* kube.Client.Create: Kind of every resource in list order, observed fn start/end events
   in the order they happened, which creates failed *)
| CBarrier (kinds : list string) (failing : list nat) (evs : list event) (reported_failures : nat).

Definition head_table (heads : list (string * option head)) (d : string) : option head :=
  match aget d heads with Some h => h | None => None end.

Definition list_eqb {A} (f : A -> A -> bool) := fix go (a b : list A) : bool :=
  match a, b with
  | [], [] => true
  | x :: a', y :: b' => f x y && go a' b'
  | _, _ => false
  end.

Section Docs.
  Variable docs : list string.          (* map fst heads *)
  Definition doc_is (i : nat) (c : string) : bool :=
    match nth_error docs i with Some d => String.eqb d c | None => false end.

  Definition hook_eqb (a : hook) (b : ohook) : bool :=
    String.eqb (hk_name a) (oh_name b) && String.eqb (hk_kind a) (oh_kind b) &&
    String.eqb (hk_path a) (oh_path b) && doc_is (oh_doc b) (hk_manifest a) &&
    list_eqb String.eqb (hk_events a) (oh_events b) && Z.eqb (hk_weight a) (oh_weight b) &&
    list_eqb String.eqb (hk_delete a) (oh_delete b) && list_eqb String.eqb (hk_outlog a) (oh_outlog b).

  Definition gobs_eqb (m : manifest) (b : gobs) : bool :=
    match b with (n2, i2, k2) => String.eqb (m_name m) n2 && doc_is i2 (m_content m) && String.eqb (h_kind (m_head m)) k2 end.

  (* the text the pieces stand for *)
  Fixpoint pieces_text (ps : list (string * nat)) : option string :=
    match ps with
    | [] => Some EmptyString
    | (p, i) :: t =>
        match nth_error docs i, pieces_text t with
        | Some d, Some rest =>
            Some ("---" ++ String (byte 10) "# Source: " ++ p ++ String (byte 10) d ++ String (byte 10) rest)
        | _, _ => None
        end
    end.
End Docs.

Definition list_eqb2 {A B} (f : A -> B -> bool) := fix go (a : list A) (b : list B) : bool :=
  match a, b with
  | [], [] => true
  | x :: a', y :: b' => f x y && go a' b'
  | _, _ => false
  end.

(* renderResources with every option off (the render cases) *)
Definition plain_opts : opts := mkOpts "c08chart" "c08-release" "" false false false false.
Definition render_resources_u (head_of : string -> option head) (files : list (string * string)) : render_result :=
  match render_full head_of go_to_lower plain_opts [] None files with
  | FullOk hs txt _ _ => RenderOk hs txt
  | _ => RenderErr
  end.

(* two maps (the model's in insertion order, the observed one sorted by path) are equal *)
Definition same_map (model obs : list (string * string)) : bool :=
  Nat.eqb (List.length model) (List.length obs) &&
  forallb (fun kv => match aget (fst kv) model with Some v => String.eqb v (snd kv) | None => false end) obs.

(* the post-renderer as a function: what it returned for the input it was handed; any other
   input is answered with a text no observation contains *)
Definition pr_fun (tbl : list (string * option string)) (b : string) : option string :=
  match aget b tbl with Some r => r | None => Some "<the post-renderer was handed a different stream>" end.

Definition case_ok (c : case) : bool :=
  match c with
  | CSplit input obs => list_eqb String.eqb (split_manifests input) obs
  | CSort unin pfiles heads obs =>
      let files := build_files heads pfiles in
      match sort_manifests_g go_to_lower (head_table heads) (if unin then uninstall_order else install_order) files, obs with
      | SortErr, OSortErr => true
      | SortOk hs gs, OSortOk ohs ogs =>
          list_eqb2 (hook_eqb (map fst heads)) hs ohs && list_eqb2 (gobs_eqb (map fst heads)) gs ogs
      | _, _ => false
      end
  | CRender pfiles heads obs =>
      let files := build_files heads pfiles in
      match obs with
      | ORenderErr =>
          match render_resources_u (head_table heads) files with RenderErr => true | _ => false end
      | ORenderRaw ohs otxt =>
          match render_resources_u (head_table heads) files with
          | RenderOk hs txt => list_eqb2 (hook_eqb (map fst heads)) hs ohs && String.eqb txt otxt
          | RenderErr => false
          end
      | ORenderOk ohs pieces =>
          match render_resources_u (head_table heads) files, pieces_text (map fst heads) pieces with
          | RenderOk hs txt, Some otxt => list_eqb2 (hook_eqb (map fst heads)) hs ohs && String.eqb txt otxt
          | _, _ => false
          end
      end
  | CUninstall pfiles heads obs =>
      let files := build_files heads pfiles in
      match render_resources_u (head_table heads) files with
      | RenderErr => match obs with None => true | Some _ => false end
      | RenderOk _ txt =>
          match delete_order_g go_to_lower (head_table heads) uninstall_order txt, obs with
          | DeleteOrder del _, Some idx =>
              list_eqb2 (fun m i => doc_is (map fst heads) i (m_content m)) del idx
          | DeleteCorrupted, None => true
          | _, _ => false
          end
      end
  | CFull o ch pfiles heads pr obs =>
      let files := build_files heads pfiles in
      let hooks_ok hs ohs := list_eqb2 (hook_eqb (map fst heads)) hs ohs in
      match render_full (head_table heads) go_to_lower o (chart_crds ch) (option_map pr_fun pr) files, obs with
      | FullSortErr blob, OFullYamlErr oblob => String.eqb blob oblob
      | FullWriteErr, OFullWriteErr => true
      | FullPostErr hs notes w, OFullPostErr ohs onotes ow =>
          hooks_ok hs ohs && String.eqb notes onotes && same_map w ow
      | FullOk hs txt notes w, OFullOk ohs otxt onotes ow =>
          hooks_ok hs ohs && String.eqb txt otxt && String.eqb notes onotes && same_map w ow
      | _, _ => false
      end
  | CLower input obs => String.eqb (go_to_lower input) obs
  | CGuard f rejected applied_obs =>
      Bool.eqb (negb (is_dry_run f) && rf_hide_secret f) rejected &&
      Bool.eqb (match applied f "m" with Some _ => true | None => false end) applied_obs
  | CBarrier kinds failing evs nfail =>
      let fails := fun j => existsb (Nat.eqb j) failing in
      admissible kinds fails evs
      && match replay kinds fails (init) evs with
         | Some s => Nat.eqb (List.length (failed s)) nfail
         | None => false
         end
  end.

Fixpoint mismatches_from (i : nat) (cs : list case) : list nat :=
  match cs with
  | [] => []
  | c :: t => if case_ok c then mismatches_from (S i) t else i :: mismatches_from (S i) t
  end.

Definition mismatches := mismatches_from 0.

(* Correspondence evaluator for C02.  Two kinds of cases:
   - CHist: a full history through the real actions (evaluated by Run/RunEng.v);
   - CObj: a short history of real kube.Client calls on whole objects (keyed lists, custom kind,
     --force), evaluated by Engine/Update2.v (Run/RunC02Obj.v);
   - CKube: ONE call of the real kube.Client (Create / Update / Delete) on a generated
     (original, target, live) triple, evaluated by the object-store handler of
     Engine/Cluster.v: result class, object store afterwards, effective mutations and the
     Result.Created/Updated/Deleted key sets are compared. *)
From Helm Require Export Run.RunEng.
From Coq Require Import List String Bool Arith.
From Helm Require Import Common.Assoc Engine.Types Engine.Eff Engine.Ops Engine.Cluster Engine.Seq Engine.MatchDefs.
From Helm Require Import Engine.Obj2 Engine.Update2 Run.RunC02Obj.
Import ListNotations.

Inductive kverb := KVCreate | KVUpdate | KVDelete.

Record kcase := mkKC {
  kc_verb : kverb;
  kc_live : list (string * fields);        (* object store before the call *)
  kc_orig : list res;                      (* Update: original manifest *)
  kc_tgt : list res;                       (* Update: target manifest; Create/Delete: the resources *)
  kc_ok : bool;                            (* observed: no error *)
  kc_bad : bool;                           (* observed: panic or the YAML did not build (never expected) *)
  kc_objs : list (string * fields);        (* observed: object store after the call *)
  kc_muts : list (verb * string);          (* observed: effective mutations *)
  kc_created : list string;                (* observed: Result.Created / Updated / Deleted keys *)
  kc_updated : list string;
  kc_deleted : list string }.

Definition call_muts (l : list kev) : list (verb * string) :=
  flat_map (fun c => match c with KCall _ m => m end) l.

Definition strs_sub (a b : list string) : bool := forallb (fun x => existsb (String.eqb x) b) a.
Definition strs_seteq (a b : list string) : bool :=
  strs_sub a b && strs_sub b a && Nat.eqb (List.length a) (List.length b).

Definition keys_of (rs : list res) : list string := map rkey rs.

Fixpoint nodup_strs (l : list string) : bool :=
  match l with
  | [] => true
  | x :: t => negb (existsb (String.eqb x) t) && nodup_strs t
  end.

Definition muts_of (v : verb) (m : list (verb * string)) : list string :=
  map snd (filter (fun x => verb_eqb (fst x) v) m).

(* the model's answer: (objects, ok, mutations, created, updated, deleted) *)
Definition kmodel (c : kcase)
  : list (string * fields) * bool * list (verb * string) * list string * list string * list string :=
  let k0 := mkK (kc_live c) None None false in
  match kc_verb c with
  | KVCreate =>
      let '(k, ok, evs) := kube_handle rn ns (KCreate (kc_tgt c)) k0 in
      (objs k, ok, call_muts evs, if ok then keys_of (kc_tgt c) else [], [], [])
  | KVDelete =>
      let '(k, ok, evs) := kube_handle rn ns (KDelete (kc_tgt c)) k0 in
      (objs k, ok, call_muts evs, [], [], if ok then keys_of (kc_tgt c) else [])
  | KVUpdate =>
      let '(k, r, evs) := kube_handle rn ns (KUpdate (kc_orig c) (kc_tgt c)) k0 in
      let created := keys_of (snd r) in
      (objs k, fst r, call_muts evs, created,
       filter (fun x => negb (existsb (String.eqb x) created)) (keys_of (kc_tgt c)),
       muts_of VDelete (call_muts evs))
  end.

Definition kcase_ok (c : kcase) : bool :=
  let '(o, ok, muts, cr, up, de) := kmodel c in
  negb (kc_bad c)
  && Bool.eqb ok (kc_ok c)
  && objs_eqb o (kc_objs c)
  && muts_eqb (sort_muts muts) (sort_muts (kc_muts c))
  && strs_seteq cr (kc_created c)
  (* Result.Updated / Deleted are compared on success (on failure the lists are partial);
     Updated = target minus Created only when no key occurs twice in the target *)
  && (negb ok || ((negb (nodup_strs (keys_of (kc_tgt c))) || strs_seteq up (kc_updated c))
                  && strs_seteq de (kc_deleted c))).

(* a history plus, per step, the "[Kind] name" lines of the uninstall response's Info *)
Inductive case :=
| CHist (c : RunEng.case) (kept : list (list string))
| CKube (c : kcase)
| CObj (c : ocase).       (* round 4: whole objects, Run/RunC02Obj.v *)

(* [ws]: the world before each step.  A successful real uninstall must list exactly the
   manifest entries of the latest revision whose policy says keep. *)
Fixpoint kept_agree (h : list hstep) (ws : list world) (os : list step_obs) (kept : list (list string)) : bool :=
  match h, ws, os, kept with
  | [], _, _, _ => true
  | st :: t, w :: wt, o :: ot, k :: kt =>
      (match st with
       | HOp c =>
           match oc_op c with
           | OpUninstall fl =>
               if outcome_eqb (so_out o) OOk && negb (f_dry_run fl) then strs_seteq (model_kept w) k else true
           | _ => true
           end
       | HEdit _ => true
       end) && kept_agree t wt ot kt
  | _, _, _, _ => false
  end.

Definition hist_ok (c : RunEng.case) (kept : list (list string)) : bool :=
  let w0 := mkW [] (c_init c) in
  let ms := run_history rn ns (c_steps c) w0 in
  steps_agree ms (c_obs c)
  && kept_agree (c_steps c) (w0 :: map (fun m => fst (fst m)) ms) (c_obs c) kept.

Definition case_ok (c : case) : bool :=
  match c with
  | CHist h kept => hist_ok h kept
  | CKube k => kcase_ok k
  | CObj o => ocase_ok o
  end.

Fixpoint mismatches_from (i : nat) (cs : list case) : list nat :=
  match cs with
  | [] => []
  | c :: t => if case_ok c then mismatches_from (S i) t else i :: mismatches_from (S i) t
  end.

Definition mismatches := mismatches_from 0.

(* debugging aid *)
Definition kdiag (c : kcase) :=
  let '(o, ok, muts, cr, up, de) := kmodel c in
  (Bool.eqb ok (kc_ok c), objs_eqb o (kc_objs c), muts_eqb (sort_muts muts) (sort_muts (kc_muts c)),
   strs_seteq cr (kc_created c), strs_seteq up (kc_updated c), strs_seteq de (kc_deleted c), o, muts).

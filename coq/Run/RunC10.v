(* Correspondence evaluator for C10: runs the driver models on the call sequences the
   harness ran on the real drivers and reports the indices of disagreeing cases. *)
From Coq Require Import List String Bool Arith NArith.
From Helm Require Import Common.Assoc Common.Strs Storage.Spec Storage.Mem Storage.Kube
  Storage.Rmw Storage.MemNs Storage.KubeX.
Import ListNotations.

Inductive backend := BMem | BSecret | BConfigMap.

(* a driver call, or one of the two events outside the driver interface *)
Inductive cop :=
| COp (o : op)
| CCorrupt (name : string) (ver : nat) (status : string)   (* Secret/ConfigMap only *)
| CSetNs (ns : string)                                    (* memory only *)
| CRmw (name : string) (ver : nat) (status : string).     (* Storage/Rmw.v: query, change status, update *)

Record case := mkCase { cbackend : backend; cops : list cop; cobs : list out }.

Fixpoint all_some {A B} (f : A -> option B) (l : list A) : option (list B) :=
  match l with
  | [] => Some []
  | a :: t => match f a, all_some f t with
              | Some b, Some t' => Some (b :: t')
              | _, _ => None
              end
  end.

Definition to_mop (c : cop) : option mop :=
  match c with
  | COp o => Some (MOp o) | CSetNs ns => Some (MSetNs ns) | CRmw n v st => Some (MRmw n v st)
  | CCorrupt _ _ _ => None
  end.
Definition to_xop (c : cop) : option xop :=
  match c with
  | COp o => Some (XOp o) | CCorrupt n v st => Some (XCorrupt n v st) | CRmw n v st => Some (XRmw n v st)
  | CSetNs _ => None
  end.
(* calls the flat reference map can answer: driver calls and read-modify-write *)
Inductive sop := SOp (o : op) | SRmw (name : string) (ver : nat) (status : string).
Definition to_sop (c : cop) : option sop :=
  match c with COp o => Some (SOp o) | CRmw n v st => Some (SRmw n v st) | _ => None end.

Fixpoint spec_srun (s : spec) (xs : list sop) : list out :=
  match xs with
  | [] => []
  | SOp o :: t => let '(s', r) := spec_step s o in r :: spec_srun s' t
  | SRmw n v st :: t => let '(s', r) := rmw spec_step s n v st in r :: spec_srun s' t
  end.

(* the codec instance used when running the model: a body is a release or undecodable *)
Definition run_kube := kube_xrun (option rel) (fun r => Some r) (fun b => b) (fun _ => true) None.

Definition model_run (b : backend) (cs : list cop) : list out :=
  match b with
  | BMem => match all_some to_mop cs with Some xs => mem_mrun mem_init xs | None => [] end
  | _ => match all_some to_xop cs with Some xs => run_kube [] xs | None => [] end
  end.

Fixpoint outs_agree (f : out -> out -> bool) (l1 l2 : list out) : bool :=
  match l1, l2 with
  | [], [] => true
  | a :: t1, b :: t2 => f a b && outs_agree f t1 t2
  | _, _ => false
  end.

(* what the property promises of every backend: the reference map's results, where a
   failure is a failure (only already-exists is a distinguished class) *)
Definition out_spec_b (m s : out) : bool :=
  match m, s with
  | RErr EExists, RErr e => err_eqb e EExists
  | RErr _, RErr e => negb (err_eqb e EExists)
  | _, _ => out_equiv_b m s
  end.

(* all written releases in one namespace (the hypothesis of C10_mem_refines_spec) *)
Fixpoint one_ns (seen : option string) (ops : list sop) : bool :=
  match ops with
  | [] => true
  | (SOp (OCreate r) | SOp (OUpdate r)) :: t =>
      match seen with
      | Some ns => String.eqb (ns_of r) ns && one_ns seen t
      | None => one_ns (Some (ns_of r)) t
      end
  | _ :: t => one_ns seen t
  end.

(* model against implementation: exact, label sets included (which results carry system
   labels is part of what is compared; the harness replaces time-stamp values by "0" as
   the model does).  Implementation against reference map, for sequences of driver calls
   within the hypotheses of the refinement theorems: after dropping system labels. *)
Definition case_ok (c : case) : bool :=
  outs_agree out_equiv_b (model_run (cbackend c) (cops c)) (cobs c)
  && match all_some to_sop (cops c) with
     | Some ops =>
         if match cbackend c with BMem => one_ns None ops | _ => true end
         then outs_agree out_spec_b (map strip_out (cobs c)) (map strip_out (spec_srun [] ops))
         else true
     | None => true
     end.

Fixpoint mismatches_from (i : nat) (cs : list case) : list nat :=
  match cs with
  | [] => []
  | c :: t => if case_ok c then mismatches_from (S i) t else i :: mismatches_from (S i) t
  end.

Definition mismatches := mismatches_from 0.

(* Correspondence evaluator for C10: runs the driver models on the call sequences the
   harness ran on the real drivers and reports the indices of disagreeing cases. *)
From Coq Require Import List String Bool Arith NArith.
From Helm Require Import Common.Assoc Common.Strs Storage.Spec Storage.Mem Storage.Kube.
Import ListNotations.

Inductive backend := BMem | BSecret | BConfigMap.

Record case := mkCase { cbackend : backend; cops : list op; cobs : list out }.

(* the codec instance used when running the model: bodies are releases *)
Definition run_kube := kube_run rel (fun r => r) (fun b => Some b) (fun _ => true).

Definition model_run (b : backend) (ops : list op) : list out :=
  match b with
  | BMem => mem_run mem_init ops
  | _ => run_kube [] ops
  end.

Fixpoint outs_agree (f : out -> out -> bool) (l1 l2 : list out) : bool :=
  match l1, l2 with
  | [], [] => true
  | a :: t1, b :: t2 => f (strip_out a) (strip_out b) && outs_agree f t1 t2
  | _, _ => false
  end.

(* what the property promises of every backend: the reference map's results, where a
   failure is a failure (only already-exists is a distinguished class) *)
Definition out_spec_b (m s : out) : bool :=
  match m, s with
  | RErr EExists, RErr e => err_eqb e EExists
  | RErr _, RErr e => negb (err_eqb e EExists)
  | _, _ => out_equiv_b m s
  end.

Definition case_ok (c : case) : bool :=
  outs_agree out_equiv_b (model_run (cbackend c) (cops c)) (cobs c)
  && outs_agree out_spec_b (cobs c) (spec_run [] (cops c)).

Fixpoint mismatches_from (i : nat) (cs : list case) : list nat :=
  match cs with
  | [] => []
  | c :: t => if case_ok c then mismatches_from (S i) t else i :: mismatches_from (S i) t
  end.

Definition mismatches := mismatches_from 0.

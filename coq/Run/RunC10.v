(* Correspondence evaluator for C10: runs the driver models on the call sequences the
   harness ran on the real drivers and reports the indices of disagreeing cases. *)
From Coq Require Import List String Bool Arith NArith.
From Helm Require Import Common.Assoc Common.Strs Storage.Spec Storage.Mem Storage.Kube
  Storage.Rmw Storage.MemNs Storage.KubeX Storage.Calls Storage.Base64 Storage.Codec Storage.Order.
Import ListNotations.

Inductive backend := BMem | BSecret | BConfigMap.

(* a driver call, or one of the two events outside the driver interface *)
Inductive cop :=
| COp (o : op)
| CCorrupt (name : string) (ver : nat) (status : string)   (* Secret/ConfigMap only *)
| CSetNs (ns : string)                                    (* memory only *)
| CRmw (name : string) (ver : nat) (status : string)      (* Storage/Rmw.v: query, change status, update *)
| CLast (name : string)                                   (* storage.go Last on top of the driver (Storage/Order.v) *)
| CDeployed (name : string).                              (* storage.go Deployed *)

(* a call sequence run on one of the three drivers, or an observation of the record codec
   (harness c10_codec.go): the driver's base64 encoding applied to bytes / to a text, or the real
   decodeRelease applied to a record text together with what gunzip and json.Unmarshal (third
   party) gave for the bytes involved *)
Inductive case :=
| mkCase (cbackend : backend) (cops : list cop) (cobs : list out)
| mkB64Enc (input : string) (observed : string)
| mkB64Dec (input : string) (observed : option string)
| mkCodec (data : string) (gunz : option string) (json_raw json_unz : option nat) (observed : option nat).

Fixpoint all_some {A B} (f : A -> option B) (l : list A) : option (list B) :=
  match l with
  | [] => Some []
  | a :: t => match f a, all_some f t with
              | Some b, Some t' => Some (b :: t')
              | _, _ => None
              end
  end.

Definition to_mop (c : cop) : option mop :=
  match c with
  | COp o => Some (MOp o) | CSetNs ns => Some (MSetNs ns) | CRmw n v st => Some (MRmw n v st)
  | _ => None
  end.
Definition to_xop (c : cop) : option xop :=
  match c with
  | COp o => Some (XOp o) | CCorrupt n v st => Some (XCorrupt n v st) | CRmw n v st => Some (XRmw n v st)
  | _ => None
  end.
(* calls the flat reference map can answer: driver calls and read-modify-write
   ([sop] of Storage/Calls.v) *)
Definition to_sop (c : cop) : option sop :=
  match c with COp o => Some (SOp o) | CRmw n v st => Some (SRmw n v st) | _ => None end.

Definition spec_srun : spec -> list sop -> list out := srun spec_step.

(* a run stops at a call the backend does not have (the observation then has more results
   than the model and the case mismatches) *)
Fixpoint crun {S : Type} (cstep : S -> cop -> option (S * out)) (s : S) (cs : list cop) : list out :=
  match cs with
  | [] => []
  | c :: t => match cstep s c with
              | Some (s', r) => r :: crun cstep s' t
              | None => []
              end
  end.

(* Last / Deployed read through the backend's Query and change nothing *)
Definition with_reads {S : Type} (step : S -> op -> S * out) (base : S -> cop -> option (S * out))
  (s : S) (c : cop) : option (S * out) :=
  match c with
  | CLast n => Some (s, storage_last step s n)
  | CDeployed n => Some (s, storage_deployed step s n)
  | _ => base s c
  end.

Definition mem_cstep : mem -> cop -> option (mem * out) :=
  with_reads mem_step (fun m c => option_map (mem_mstep m) (to_mop c)).

(* the codec instance used when running the model: a body is a release or undecodable *)
Definition run_kstep := kube_step (option rel) (fun r => Some r) (fun b => b) (fun _ => true).
Definition run_kxstep := kube_xstep (option rel) (fun r => Some r) (fun b => b) (fun _ => true) None.
Definition kube_cstep : kube (option rel) -> cop -> option (kube (option rel) * out) :=
  with_reads run_kstep (fun k c => option_map (run_kxstep k) (to_xop c)).

Definition spec_cstep : spec -> cop -> option (spec * out) :=
  with_reads spec_step (fun s c => option_map (fun x => sstep spec_step s (norm_sop x)) (to_sop c)).

Definition model_run (b : backend) (cs : list cop) : list out :=
  match b with
  | BMem => crun mem_cstep mem_init cs
  | _ => crun kube_cstep [] cs
  end.

Definition is_read (c : cop) : bool :=
  match c with CLast _ | CDeployed _ => true | _ => false end.

Fixpoint outs_agree (f : out -> out -> bool) (l1 l2 : list out) : bool :=
  match l1, l2 with
  | [], [] => true
  | a :: t1, b :: t2 => f a b && outs_agree f t1 t2
  | _, _ => false
  end.

(* what the property promises of every backend: the reference map's results, where a
   failure is a failure (only already-exists is a distinguished class) *)
Definition out_spec_b (m s : out) : bool :=
  match m, s with
  | RErr EExists, RErr e => err_eqb e EExists
  | RErr _, RErr e => negb (err_eqb e EExists)
  | _, _ => out_equiv_b m s
  end.

(* all written releases in one namespace (the hypothesis of C10_mem_refines_spec) *)
Fixpoint one_ns (seen : option string) (ops : list sop) : bool :=
  match ops with
  | [] => true
  | (SOp (OCreate r) | SOp (OUpdate r)) :: t =>
      match seen with
      | Some ns => String.eqb (ns_of r) ns && one_ns seen t
      | None => one_ns (Some (ns_of r)) t
      end
  | _ :: t => one_ns seen t
  end.

(* model against implementation: exact, label sets included (which results carry system
   labels is part of what is compared; the harness replaces the wall-clock values of the
   time-stamp labels by "0" as the model does).  Implementation against reference map, for
   sequences of driver calls and read-modify-writes (C10_all_backends_refine_spec): the
   reference map stores the user labels of what is written ([norm_sop]), results are compared
   after the same projection ([norm_out]). *)
Definition seq_ok (b : backend) (cs : list cop) (obs : list out) : bool :=
  outs_agree out_equiv_b (model_run b cs) obs
  && match all_some to_sop (filter (fun c => negb (is_read c)) cs) with
     | Some ops =>
         if match b with BMem => one_ns None ops | _ => true end
         then outs_agree out_spec_b (map norm_out obs) (crun spec_cstep [] cs)
         else true
     | None => true
     end.

Definition opt_string_eqb (a b : option string) : bool :=
  match a, b with
  | Some x, Some y => String.eqb x y
  | None, None => true
  | _, _ => false
  end.

Definition opt_nat_eqb (a b : option nat) : bool :=
  match a, b with
  | Some x, Some y => Nat.eqb x y
  | None, None => true
  | _, _ => false
  end.

(* decode_release with the observed third-party stages as its Section variables: gunzip
   answers what Go's gzip reader answered for the decoded bytes, json.Unmarshal what it
   answered for the decoded bytes / for the gunzipped bytes (a release is identified by its
   revision) *)
Definition codec_model (data : string) (gunz : option string) (json_raw json_unz : option nat) : option nat :=
  let raw := b64_decode data in
  let rel_of := option_map (fun v => mkRel "" "" v "" [] 0) in
  let unjson := fun b => if opt_string_eqb (Some b) raw then rel_of json_raw else rel_of json_unz in
  option_map rver (decode_release unjson (fun _ => gunz) data).

Definition case_ok (c : case) : bool :=
  match c with
  | mkCase b cs obs => seq_ok b cs obs
  | mkB64Enc input observed => String.eqb (b64_encode input) observed
  | mkB64Dec input observed => opt_string_eqb (b64_decode input) observed
  | mkCodec data gunz jr ju observed => opt_nat_eqb (codec_model data gunz jr ju) observed
  end.

Fixpoint mismatches_from (i : nat) (cs : list case) : list nat :=
  match cs with
  | [] => []
  | c :: t => if case_ok c then mismatches_from (S i) t else i :: mismatches_from (S i) t
  end.

Definition mismatches := mismatches_from 0.

(* Correspondence evaluator for C05.  Two kinds of cases:
   - CPipe: the template-set keys and the rendered-files map of a real render (both handed
     over in a shuffled order), the real SplitManifests / SimpleHead results as tables, and
     what the real action.Install(dry-run, client-only) returned; the model's pipeline is run
     on it (with non-trivial re-orderings at the two inner map boundaries) and its manifest
     text, hook list, notes / error outcome and its template order are compared;
   - CFiles: a chart file list, a glob pattern with the real matcher's verdict per name, and
     what the real .Files object returned for Get / Lines / AsConfig / AsSecrets. *)
From Coq Require Import List String Ascii Bool Arith ZArith Uint63.
From Helm Require Import Common.Assoc Common.Strs Values.Tree Render.SortLemmas Render.Pipeline Render.PipelineInst Render.Files
     Render.Engine Render.Funcs Render.Mini Misc.PanicsRec.
Import ListNotations.

Inductive obs :=
  | ORenderErr
  | OSortErr (hooks : list hook) (blob : string)
  | OOk (manifest_text : string) (hooks : list hook) (notes : string).

(* round 4: what the real engine.Render returned (rendered map sorted by name) *)
Inductive robs := RParseErr | RExecErr | ROut (rendered : list (string * string)).

(* round 4: one call of a function of funcMap() with the codec's own answer for the same input *)
Inductive fcall :=
  | FToYaml (v : val) (codec : string + string) (got : string)
  | FToYamlPretty (v : val) (codec : string + string) (got : string)
  | FToJson (v : val) (codec : string + string) (got : string)
  | FToToml (v : val) (buf : string) (err : option string) (got : string)
  | FFromMap (which : nat) (s : string) (cm : option vmap) (ce : option string) (got : option val)
        (* which: 0 fromYaml, 1 fromJson, 2 fromToml; got = None: the call panicked *)
  | FFromList (which : nat) (s : string) (cl : option (list val)) (ce : option string) (got : val).
        (* which: 0 fromYamlArray, 1 fromJsonArray *)

Inductive case :=
  | CTree (o : engine_opts) (c : chart) (top : vmap) (srcs : list (string * list node))
          (otpls : list (string * (string * string * nat)))     (* allTemplates: name -> (tpl, basePath, identity class of vals), sorted by name *)
          (oscopes : list (nat * val))                          (* identity class -> the vals map as JSON *)
          (orender : robs)
  | CFuncs (calls : list fcall)
  | CPipe (o : opts) (chart_name : string) (crds : list (string * string))
          (keys : list string) (render_failed : bool) (rendered : list (string * string))
          (splits : list (string * list string)) (heads : list (string * option head))
          (sorted_keys : list string) (observed : obs)
  | CFiles (from : list (string * string)) (pattern : string) (matched : list string)
           (gets : list (string * string)) (lines : list (string * option (list string)))
           (config : list (string * string)) (secrets : list (string * string))
           (glob_gets : list (string * string))
           (lib_matched : list string)      (* round 4: the names gobwas/glob itself matches (Compile(pattern, '/'), "**" when invalid) *)
           (globbed : list string).         (* round 4: the names of the real Glob(pattern), sorted *)

Fixpoint list_eqb {A} (f : A -> A -> bool) (l1 l2 : list A) : bool :=
  match l1, l2 with
  | [], [] => true
  | a :: t1, c :: t2 => f a c && list_eqb f t1 t2
  | _, _ => false
  end.

Definition pair_eqb (a c : string * string) : bool := String.eqb (fst a) (fst c) && String.eqb (snd a) (snd c).

(* AsConfig/AsSecrets are observed AFTER toYAML (which cuts the final newline of the YAML text
   and so changes how a block scalar's trailing line breaks are read back): values are
   compared up to trailing newlines *)
Definition strip_nl (s : string) : string := str_rev (drop_leading (ascii_of_nat 10) (str_rev s)).
Definition pair_eqb_nl (a c : string * string) : bool :=
  String.eqb (fst a) (fst c) && String.eqb (strip_nl (snd a)) (strip_nl (snd c)).

Definition hook_eqb (a c : hook) : bool :=
  String.eqb (hk_name a) (hk_name c) && String.eqb (hk_kind a) (hk_kind c) &&
  String.eqb (hk_path a) (hk_path c) && String.eqb (hk_manifest a) (hk_manifest c) &&
  list_eqb String.eqb (hk_events a) (hk_events c) && Z.eqb (hk_weight a) (hk_weight c) &&
  list_eqb String.eqb (hk_delete a) (hk_delete c) && list_eqb String.eqb (hk_outlog a) (hk_outlog c).

Definition result_agrees (r : result) (ob : obs) : bool :=
  match r, ob with
  | RRenderErr _ _, ORenderErr => true
  | RSortErr _ hs blob, OSortErr hs' blob' => list_eqb hook_eqb hs hs' && String.eqb blob blob'
  | ROk m hs n, OOk m' hs' n' => String.eqb m m' && list_eqb hook_eqb hs hs' && String.eqb n n'
  | _, _ => false
  end.

(* the matcher of a CFiles case: the names the real Glob kept *)
Definition table_match (matched : list string) (_ name : string) : bool := existsb (String.eqb name) matched.

(* ---- round 4: the template set of a chart tree and Engine.render ---- *)

Definition nat_aget {V} (k : nat) (l : list (nat * V)) : option V :=
  match find (fun kv => Nat.eqb (fst kv) k) l with Some kv => Some (snd kv) | None => None end.

Definition tree_ok (o : engine_opts) (c : chart) (top : vmap) (srcs : list (string * list node))
           (otpls : list (string * (string * string * nat))) (oscopes : list (nat * val)) (orender : robs) : bool :=
  let '(tpls, store) := all_templates c top in
  (* the key set *)
  list_eqb String.eqb (sort_strings (map fst tpls)) (map fst otpls) &&
  (* text, base path and scope value of every template *)
  forallb (fun kv =>
             let '(k, (src, base, cls)) := kv in
             match aget k tpls with
             | None => false
             | Some r =>
                 String.eqb (r_tpl r) src && String.eqb (r_base r) base &&
                 match sget (r_scope r) store, nat_aget cls oscopes with
                 | Some node, Some ov => val_equiv_b (view VStr [] node) ov
                 | _, _ => false
                 end
             end) otpls &&
  (* two templates get the same map object iff the model gives them the same scope *)
  forallb (fun kv1 =>
             forallb (fun kv2 =>
                        match aget (fst kv1) tpls, aget (fst kv2) tpls with
                        | Some r1, Some r2 =>
                            Bool.eqb (sid_eqb (r_scope r1) (r_scope r2)) (Nat.eqb (snd (snd kv1)) (snd (snd kv2)))
                        | _, _ => false
                        end) otpls) otpls &&
  (* the render *)
  match render VStr mset_t (m_parse srcs) rst (m_exec o) m_t0 rinit tpls store, orender with
  | inr (SParse, _), RParseErr => true
  | inr (SExec, _), RExecErr => true
  | inl (m, _), ROut om =>
      list_eqb pair_eqb (map (fun k => (k, match aget k m with Some s => s | None => EmptyString end)) (sort_strings (map fst m))) om
  | _, _ => false
  end.

Definition const1 {A B} (b : B) (_ : A) : B := b.

Definition opt_eqb {A} (f : A -> A -> bool) (a c : option A) : bool :=
  match a, c with Some x, Some y => f x y | None, None => true | _, _ => false end.

Definition fcall_ok (f : fcall) : bool :=
  match f with
  | FToYaml v codec got => String.eqb (to_yaml (const1 codec) v) got
  | FToYamlPretty v codec got => String.eqb (to_yaml_pretty (const1 codec) v) got
  | FToJson v codec got => String.eqb (to_json (const1 codec) v) got
  | FToToml v buf err got => String.eqb (to_toml (const1 (buf, err)) v) got
  | FFromMap which s cm ce got =>
      match (match which with
             | O => from_yaml (const1 (cm, ce)) s
             | S O => from_json (const1 (cm, ce)) s
             | _ => from_toml (const1 (cm, ce)) s
             end), got with
      | FOk v, Some g => val_equiv_b v g
      | FPanic, None => true
      | _, _ => false
      end
  | FFromList which s cl ce got =>
      val_equiv_b (match which with
                   | O => from_yaml_array (const1 (cl, ce)) s
                   | _ => from_json_array (const1 (cl, ce)) s
                   end) got
  end.

Definition case_ok (c : case) : bool :=
  match c with
  | CTree o ch top srcs otpls oscopes orender => tree_ok o ch top srcs otpls oscopes orender
  | CFuncs calls => forallb fcall_ok calls
  | CPipe o cn crds keys failed rendered splits heads sorted_keys ob =>
      list_eqb String.eqb (sort_templates keys) sorted_keys &&
      result_agrees (run_pipeline failed rendered splits heads o cn crds (@rev _) (@rev _) keys) ob
  | CFiles from pattern matched gets lines config secrets glob_gets lib_matched globbed =>
      let f := new_files from in
      list_eqb String.eqb (sort_strings (map fst (files_glob (table_match lib_matched) pattern f))) globbed &&
      let g := files_glob (table_match matched) pattern f in
      forallb (fun kv => String.eqb (files_get (fst kv) f) (snd kv)) gets &&
      forallb (fun kv => match files_lines (fst kv) f, snd kv with
                         | Some l, Some l' => list_eqb String.eqb l l'
                         | None, None => true
                         | _, _ => false
                         end) lines &&
      list_eqb pair_eqb_nl (base_map (fun s => s) g) config &&
      list_eqb pair_eqb (base_map (fun s => s) g) secrets &&
      forallb (fun kv => String.eqb (files_get (fst kv) g) (snd kv)) glob_gets
  end.

Fixpoint mismatches_from (i : nat) (cs : list case) : list nat :=
  match cs with
  | [] => []
  | c :: t => if case_ok c then mismatches_from (S i) t else i :: mismatches_from (S i) t
  end.

Definition mismatches := mismatches_from 0.

(* Long texts are printed by the harness as (pk [i1; i2; ...]%uint63): every primitive integer
   carries up to 7 bytes (little endian, bits 0-55) and their number (bits 56-58).  Parsing a
   Gallina string literal costs about 50 microseconds per byte; this costs almost nothing. *)
Definition ascii_of_int (i : int) : ascii :=
  Ascii (Uint63.bit i 0) (Uint63.bit i 1) (Uint63.bit i 2) (Uint63.bit i 3)
        (Uint63.bit i 4) (Uint63.bit i 5) (Uint63.bit i 6) (Uint63.bit i 7).

Fixpoint take_bytes (n : nat) (i : int) (rest : string) : string :=
  match n with
  | O => rest
  | S n' => String (ascii_of_int i) (take_bytes n' (Uint63.lsr i 8) rest)
  end.

Definition nbytes (i : int) : nat :=
  let c := Uint63.lsr i 56 in
  if Uint63.eqb c 7 then 7 else if Uint63.eqb c 6 then 6 else if Uint63.eqb c 5 then 5
  else if Uint63.eqb c 4 then 4 else if Uint63.eqb c 3 then 3 else if Uint63.eqb c 2 then 2
  else if Uint63.eqb c 1 then 1 else 0.

Fixpoint pk (l : list int) : string :=
  match l with
  | [] => EmptyString
  | i :: t => take_bytes (nbytes i) i (pk t)
  end.

Example pk_example : pk [537934343426565480; 72057594037928037]%uint63 = "hello we"%string.
Proof. vm_compute. reflexivity. Qed.

(* Correspondence evaluator for C05.  Two kinds of cases:
   - CPipe: the template-set keys and the rendered-files map of a real render (both handed
     over in a shuffled order), the real SplitManifests / SimpleHead results as tables, and
     what the real action.Install(dry-run, client-only) returned; the model's pipeline is run
     on it (with non-trivial re-orderings at the two inner map boundaries) and its manifest
     text, hook list, notes / error outcome and its template order are compared;
   - CFiles: a chart file list, a glob pattern with the real matcher's verdict per name, and
     what the real .Files object returned for Get / Lines / AsConfig / AsSecrets. *)
From Coq Require Import List String Ascii Bool Arith ZArith Uint63.
From Helm Require Import Common.Assoc Common.Strs Render.SortLemmas Render.Pipeline Render.PipelineInst Render.Files.
Import ListNotations.

Inductive obs :=
  | ORenderErr
  | OSortErr (hooks : list hook) (blob : string)
  | OOk (manifest_text : string) (hooks : list hook) (notes : string).

Inductive case :=
  | CPipe (o : opts) (chart_name : string) (crds : list (string * string))
          (keys : list string) (render_failed : bool) (rendered : list (string * string))
          (splits : list (string * list string)) (heads : list (string * option head))
          (sorted_keys : list string) (observed : obs)
  | CFiles (from : list (string * string)) (pattern : string) (matched : list string)
           (gets : list (string * string)) (lines : list (string * option (list string)))
           (config : list (string * string)) (secrets : list (string * string))
           (glob_gets : list (string * string)).

Fixpoint list_eqb {A} (f : A -> A -> bool) (l1 l2 : list A) : bool :=
  match l1, l2 with
  | [], [] => true
  | a :: t1, c :: t2 => f a c && list_eqb f t1 t2
  | _, _ => false
  end.

Definition pair_eqb (a c : string * string) : bool := String.eqb (fst a) (fst c) && String.eqb (snd a) (snd c).

(* AsConfig/AsSecrets are observed AFTER toYAML (which cuts the final newline of the YAML text
   and so changes how a block scalar's trailing line breaks are read back): values are
   compared up to trailing newlines *)
Definition strip_nl (s : string) : string := str_rev (drop_leading (ascii_of_nat 10) (str_rev s)).
Definition pair_eqb_nl (a c : string * string) : bool :=
  String.eqb (fst a) (fst c) && String.eqb (strip_nl (snd a)) (strip_nl (snd c)).

Definition hook_eqb (a c : hook) : bool :=
  String.eqb (hk_name a) (hk_name c) && String.eqb (hk_kind a) (hk_kind c) &&
  String.eqb (hk_path a) (hk_path c) && String.eqb (hk_manifest a) (hk_manifest c) &&
  list_eqb String.eqb (hk_events a) (hk_events c) && Z.eqb (hk_weight a) (hk_weight c) &&
  list_eqb String.eqb (hk_delete a) (hk_delete c) && list_eqb String.eqb (hk_outlog a) (hk_outlog c).

Definition result_agrees (r : result) (ob : obs) : bool :=
  match r, ob with
  | RRenderErr _ _, ORenderErr => true
  | RSortErr _ hs blob, OSortErr hs' blob' => list_eqb hook_eqb hs hs' && String.eqb blob blob'
  | ROk m hs n, OOk m' hs' n' => String.eqb m m' && list_eqb hook_eqb hs hs' && String.eqb n n'
  | _, _ => false
  end.

(* the matcher of a CFiles case: the names the real Glob kept *)
Definition table_match (matched : list string) (_ name : string) : bool := existsb (String.eqb name) matched.

Definition case_ok (c : case) : bool :=
  match c with
  | CPipe o cn crds keys failed rendered splits heads sorted_keys ob =>
      list_eqb String.eqb (sort_templates keys) sorted_keys &&
      result_agrees (run_pipeline failed rendered splits heads o cn crds (@rev _) (@rev _) keys) ob
  | CFiles from pattern matched gets lines config secrets glob_gets =>
      let f := new_files from in
      let g := files_glob (table_match matched) pattern f in
      forallb (fun kv => String.eqb (files_get (fst kv) f) (snd kv)) gets &&
      forallb (fun kv => match files_lines (fst kv) f, snd kv with
                         | Some l, Some l' => list_eqb String.eqb l l'
                         | None, None => true
                         | _, _ => false
                         end) lines &&
      list_eqb pair_eqb_nl (base_map (fun s => s) g) config &&
      list_eqb pair_eqb (base_map (fun s => s) g) secrets &&
      forallb (fun kv => String.eqb (files_get (fst kv) g) (snd kv)) glob_gets
  end.

Fixpoint mismatches_from (i : nat) (cs : list case) : list nat :=
  match cs with
  | [] => []
  | c :: t => if case_ok c then mismatches_from (S i) t else i :: mismatches_from (S i) t
  end.

Definition mismatches := mismatches_from 0.

(* Long texts are printed by the harness as (pk [i1; i2; ...]%uint63): every primitive integer
   carries up to 7 bytes (little endian, bits 0-55) and their number (bits 56-58).  Parsing a
   Gallina string literal costs about 50 microseconds per byte; this costs almost nothing. *)
Definition ascii_of_int (i : int) : ascii :=
  Ascii (Uint63.bit i 0) (Uint63.bit i 1) (Uint63.bit i 2) (Uint63.bit i 3)
        (Uint63.bit i 4) (Uint63.bit i 5) (Uint63.bit i 6) (Uint63.bit i 7).

Fixpoint take_bytes (n : nat) (i : int) (rest : string) : string :=
  match n with
  | O => rest
  | S n' => String (ascii_of_int i) (take_bytes n' (Uint63.lsr i 8) rest)
  end.

Definition nbytes (i : int) : nat :=
  let c := Uint63.lsr i 56 in
  if Uint63.eqb c 7 then 7 else if Uint63.eqb c 6 then 6 else if Uint63.eqb c 5 then 5
  else if Uint63.eqb c 4 then 4 else if Uint63.eqb c 3 then 3 else if Uint63.eqb c 2 then 2
  else if Uint63.eqb c 1 then 1 else 0.

Fixpoint pk (l : list int) : string :=
  match l with
  | [] => EmptyString
  | i :: t => take_bytes (nbytes i) i (pk t)
  end.

Example pk_example : pk [537934343426565480; 72057594037928037]%uint63 = "hello we"%string.
Proof. vm_compute. reflexivity. Qed.

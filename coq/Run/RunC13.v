(* Correspondence evaluator for C13: folds the model over the chain of operations the harness
   ran through the real action.Install / Upgrade / Rollback and compares, for every stored
   revision, Release.Config and the values the probe template saw, plus which operations
   failed.

   A chain may hand ONE values map object to several operations and may talk about several
   releases: the harness prints, for every operation, the ORIGINAL content of the map it was
   given (the model is value-semantic: it is the specification of what must be recorded whatever
   objects the caller shares), and one (operations, results, revisions) triple per release
   ([mkMulti]); the model runs every release's operations on that release's own history.  An
   implementation that writes into the caller's map records, for a later operation given the
   same object, something else than the model computes from the original content. *)
From Coq Require Import List String Bool Arith ZArith.
From Helm Require Import Common.Strs Values.Tree Values.Coalesce Values.Reuse.
Import ListNotations.

Record obs_rev := mkObs { oconfig : vmap; orendered : vmap; ostatus : rstat }.

Record rel_case := mkRel { cops : list op; coks : list bool; crevs : list obs_rev }.

Inductive case :=
| mkCase (ops : list op) (oks : list bool) (revs : list obs_rev)      (* one release *)
| mkMulti (rels : list rel_case).                                     (* several releases *)

Fixpoint bools_eqb (a b : list bool) : bool :=
  match a, b with
  | [], [] => true
  | x :: s, y :: t => Bool.eqb x y && bools_eqb s t
  | _, _ => false
  end.

Fixpoint revs_agree (m : list revision) (o : list obs_rev) : bool :=
  match m, o with
  | [], [] => true
  | r :: s, x :: t =>
      val_equiv_b (VMap (rconfig r)) (VMap (oconfig x))
      && val_equiv_b (VMap (rrendered r)) (VMap (orendered x))
      && rstat_eqb (rstatus r) (ostatus x)
      && revs_agree s t
  | _, _ => false
  end.

Definition rel_ok (c : rel_case) : bool :=
  let '(h, oks) := run_chain [] (cops c) in
  bools_eqb oks (coks c) && revs_agree h (crevs c).

Definition case_ok (c : case) : bool :=
  match c with
  | mkCase ops oks revs => rel_ok (mkRel ops oks revs)
  | mkMulti rels => forallb rel_ok rels
  end.

Fixpoint mismatches_from (i : nat) (cs : list case) : list nat :=
  match cs with
  | [] => []
  | c :: t => if case_ok c then mismatches_from (S i) t else i :: mismatches_from (S i) t
  end.

Definition mismatches := mismatches_from 0.

(* Correspondence evaluator of C01: Run/RunEng.v, extended by operations with a FAILING STORAGE
   READ.  A step is an ordinary step of Engine/Seq.v or [RRead n c]: the operation c whose n-th
   read (0-based, in execution order) returns an error — evaluated as [rfail n] of the programs
   of Engine/OpsR.v under the same interpreter, cluster handler and fault plan.  The harness
   injected the same read fault into the real storage driver (eng.Op.RFail); outcome class,
   ledger, cluster objects and trace of effective writes are compared as for every other step,
   for the faulted operation and for everything after it. *)
From Coq Require Import List String Bool Arith ZArith.
From Helm Require Import Common.Assoc Engine.Types Engine.Eff Engine.Ops Engine.Cluster Engine.Seq Engine.OpsR.
From Helm Require Export Run.RunEng Engine.OpsRHistory.
Import ListNotations.

Record rcase := mkRCase { rc_init : list (string * fields); rc_steps : list rstep; rc_obs : list step_obs }.

(* the evaluator: Engine/OpsRHistory.v (the function Engine/OpsRHistoryProofs.v proves the ledger clauses about) *)
Definition run_historyR := OpsRHistory.run_historyR rn ns.

Definition rcase_ok (c : rcase) : bool :=
  steps_agree (run_historyR (rc_steps c) (mkW [] (rc_init c))) (rc_obs c).

Fixpoint rmismatches_from (i : nat) (cs : list rcase) : list nat :=
  match cs with
  | [] => []
  | c :: t => if rcase_ok c then rmismatches_from (S i) t else i :: rmismatches_from (S i) t
  end.

(* the names the generated cases_k.v files use *)
Definition case := rcase.
Definition mismatches := rmismatches_from 0.

(* without read-faulted steps this is Run/RunEng.v's evaluation *)
Lemma run_historyR_plain h w : run_historyR (map RS h) w = run_history rn ns h w.
Proof.
  unfold run_historyR. revert w; induction h as [|[c|e] t IH]; intros w; cbn [map OpsRHistory.run_historyR run_history]; [reflexivity| |].
  - destruct (run_store_op rn ns c w) as [[w' out] tr]. now rewrite IH.
  - now rewrite IH.
Qed.

Definition rmodel_view (c : rcase) :=
  map (fun m => let '(w, out, t) := m in (out, map row_of (sort_by_rev (w_led w)), w_objs w, t))
      (run_historyR (rc_steps c) (mkW [] (rc_init c))).

(* Correspondence evaluator for C15: runs the Save / LoadFiles / LoadArchive / LoadDir models
   on what the harness fed to the real functions.  Third-party codecs (YAML, JSON, semver,
   tar+gzip, .helmignore matching) are instantiated per case by tables of the answers the
   real libraries gave; a query missing from a table yields a sentinel that cannot match. *)
From Coq Require Import List String Ascii Bool Arith ZArith.
From Helm Require Import Values.Tree Chart.Paths Chart.Archive Chart.Files Chart.Save Chart.Load Chart.Ignore Chart.Match Chart.SaveDir Chart.Wf Gen.Limits.
Import ListNotations.
Local Open Scope string_scope.

(* metadata values are listed once ([o_metas]); the tables refer to them by position *)
Record oracle := mkOr {
  o_metas : list meta;
  o_merge : list ((nat * string) * option nat);
  o_enc : list (nat * string);
  o_lockdec : list (string * option (option lockv));
  o_lockenc : list (lockv * string);
  o_values : list (string * option val);
  o_untar : list (string * tstream);
  o_json : list (string * bool);
  o_san : list (nat * nat);
  o_semver : list (string * bool);
  o_rest : list (nat * bool);
  o_match : list (string * string);      (* (pattern, name) pairs filepath.Match accepts *)
  o_matcherr : list string;              (* patterns filepath.Match rejects as malformed *)
  o_depnames : list (nat * list string);
  o_maxfile : option Z }.                (* MaxDecompressedFileSize in force for the case; None = the default *)

Fixpoint find {K V} (eqb : K -> K -> bool) (k : K) (l : list (K * V)) : option V :=
  match l with
  | [] => None
  | (k', v) :: t => if eqb k k' then Some v else find eqb k t
  end.

Definition missing : string := "<<ORACLE-MISSING>>".
Definition missing_meta : meta := mkMeta missing missing missing missing missing missing.

Definition pair_eqb {A B} (fa : A -> A -> bool) (fb : B -> B -> bool) (x y : A * B) : bool :=
  fa (fst x) (fst y) && fb (snd x) (snd y).

Fixpoint index_of (m : meta) (l : list meta) (i : nat) : option nat :=
  match l with
  | [] => None
  | x :: t => if meta_eqb m x then Some i else index_of m t (S i)
  end.

Definition te_eqb (a b : tentry) : bool :=
  String.eqb (te_name a) (te_name b) && Z.eqb (te_type a) (te_type b) && Z.eqb (te_mode a) (te_mode b) &&
  Z.eqb (te_size a) (te_size b) && String.eqb (te_data a) (te_data b).

(* the stream a well-formed archive of exactly these entries decodes to *)
Definition stream_is (es : list tentry) (s : tstream) : bool :=
  negb (ts_gzerr s) && negb (ts_err s) && forallb (fun e => negb (te_rerr e)) (ts_entries s) &&
  list_eqb te_eqb es (ts_entries s).

Section WithOracle.
  Variable o : oracle.
  Definition mid (m : meta) : option nat := index_of m (o_metas o) 0.
  Definition mof (i : nat) : meta := nth i (o_metas o) missing_meta.
  Definition r_merge (m : meta) (d : string) : option meta :=
    match mid m with
    | None => Some missing_meta
    | Some i => match find (pair_eqb Nat.eqb String.eqb) (i, d) (o_merge o) with
                | Some (Some j) => Some (mof j)
                | Some None => None
                | None => Some missing_meta
                end
    end.
  Definition r_enc (m : meta) : string :=
    match mid m with
    | Some i => match find Nat.eqb i (o_enc o) with Some s => s | None => missing end
    | None => missing
    end.
  Definition r_lockdec (d : string) : option (option lockv) :=
    match find String.eqb d (o_lockdec o) with Some r => r | None => Some (Some missing) end.
  Definition r_lockenc (l : lockv) : string :=
    match find String.eqb l (o_lockenc o) with Some s => s | None => missing end.
  Definition r_values (d : string) : option val :=
    match find String.eqb d (o_values o) with Some r => r | None => Some (VStr missing) end.
  Definition r_untar (d : string) : tstream :=
    match find String.eqb d (o_untar o) with Some s => s | None => mkTS false [mkTE missing 48 420 0 "" false] false end.
  Definition r_json (d : string) : bool :=
    match find String.eqb d (o_json o) with Some b => b | None => false end.
  Definition r_san (m : meta) : meta :=
    match mid m with
    | Some i => match find Nat.eqb i (o_san o) with Some j => mof j | None => missing_meta end
    | None => missing_meta
    end.
  Definition r_semver (v : string) : bool :=
    match find String.eqb v (o_semver o) with Some b => b | None => false end.
  Definition r_rest (m : meta) : bool :=
    match mid m with
    | Some i => match find Nat.eqb i (o_rest o) with Some b => b | None => false end
    | None => false
    end.
  Definition r_pmatch (p n : string) : bool := existsb (pair_eqb String.eqb String.eqb (p, n)) (o_match o).
  Definition r_pmatch_err (p : string) : bool := existsb (String.eqb p) (o_matcherr o).
  (* the rules LoadDir builds: .helmignore of the tree (if any) plus the default rule.
     filepath.Match is the Gallina model (Chart/Match.v); the table of the real function's
     answers for the case is held against it ([match_facts_ok]) *)
  Definition match_facts_ok : bool :=
    forallb (fun pn => gmatch_ok (fst pn) (snd pn)) (o_match o) && forallb gmatch_err (o_matcherr o).
  Definition m_rules (tree : list file) : option (list pat) :=
    parse_ignore gmatch_err
      (match filter (fun f => String.eqb (f_name f) ".helmignore") tree with f :: _ => Some (f_data f) | [] => None end).
  Definition r_depnames (m : meta) : list string :=
    match mid m with
    | Some i => match find Nat.eqb i (o_depnames o) with Some l => l | None => [missing] end
    | None => [missing]
    end.

  Definition fuel := 8%nat.
  Definition mt := max_decompressed_chart_size.
  Definition mf := match o_maxfile o with Some z => z | None => max_decompressed_file_size end.

  (* tar+gzip of Save for a dependency written by SaveDir: the bytes on disk are not reproducible
     (time stamps); the table of decoded nested archives is searched for one with these entries *)
  Definition r_tgz (es : list tentry) : string :=
    match filter (fun ds => stream_is es (snd ds)) (o_untar o) with
    | ds :: _ => fst ds
    | [] => missing
    end.
  Definition m_save_dir := save_dir r_enc r_lockenc r_json r_san r_semver r_rest r_tgz.
  (* two contents of a directory entry agree: the same bytes, or two archives with the same entries *)
  Definition data_agree (a b : string) : bool :=
    String.eqb a b ||
    match find String.eqb a (o_untar o), find String.eqb b (o_untar o) with
    | Some s1, Some s2 => stream_is (ts_entries s1) s2 && stream_is (ts_entries s2) s1
    | _, _ => false
    end.
  Definition m_save := save r_enc r_lockenc r_json r_san r_semver r_rest.
  Definition m_package := package r_enc r_lockenc r_json r_san r_semver r_rest r_depnames.
  Definition m_load_files := load_files r_merge r_lockdec r_values r_untar r_san r_semver r_rest mt mf fuel.
  Definition m_load_archive := load_archive r_merge r_lockdec r_values r_untar r_san r_semver r_rest mt mf fuel.
  Definition m_load_dir (tree : list file) :=
    match m_rules tree with
    | None => inl LIgnore
    | Some ps => load_dir_walk r_merge r_lockdec r_values r_untar r_san r_semver r_rest mt mf
                               (rules_ignore gmatch_ok ps) fuel (walk_sort tree)
    end.
End WithOracle.

Inductive case :=
| CRt (o : oracle) (c : chart)
      (saved : option (list tentry))   (* Save: the entries read back from the .tgz; None = Save failed *)
      (loaded : lerr + chart)          (* loader.Load of that .tgz *)
      (tree : option (list file))      (* SaveDir: the regular files it wrote; None = SaveDir failed *)
      (dirloaded : lerr + chart)       (* loader.Load of that directory *)
| CFiles (o : oracle) (files : list file) (loaded : lerr + chart)   (* loader.LoadFiles *)
| CDir (o : oracle) (ignerr : bool) (pkgver : string) (tree : list file) (loaded : lerr + chart)
       (packaged : option (list tentry))                            (* action.Package.Run: entries of the .tgz *)
| CMatch (pattern : string) (names : list string)
         (res : string)                 (* filepath.Match per name: y / n / e (ErrBadPattern) *)
         (ign : string)                 (* the pattern as a one-line .helmignore, freshly parsed per query: "E" = Parse
                                           fails; else two letters per name, rules.Ignore(name, file) and (name, dir): i / k *)
| CMatchEx (rows : list (string * string))   (* (pattern, results over [ex_names]) *)
| COracleOnly
| CPanic.

(* implementation errors are compared by class; a wrapped archive error only as "archive" *)
Definition lres_eqb (a b : lerr + chart) : bool :=
  match a, b with
  | inl (LArchive _), inl (LArchive _) => true
  | inl x, inl y => lerr_eqb x y
  | inr x, inr y => chart_eqb x y
  | _, _ => false
  end.

(* ---- filepath.Match and the rule evaluation on (pattern, name) pairs ---- *)
Definition mres_char (r : mres) : ascii :=
  match r with MYes => "y" | MNo => "n" | MBad => "e" | MFuel => "F" end%char.
Definition match_row (p : string) (names : list string) : string :=
  fold_right (fun n acc => String (mres_char (gmatch p n)) acc) EmptyString names.
Definition ign_char (b : bool) : ascii := if b then "i"%char else "k"%char.
Definition ignore_row (p : string) (names : list string) : string :=
  match parse_ignore gmatch_err (Some p) with
  | None => "E"
  | Some ps =>
      fold_right (fun n acc => String (ign_char (rules_ignore gmatch_ok ps n false))
                                 (String (ign_char (rules_ignore gmatch_ok ps n true)) acc)) EmptyString names
  end.

(* the names of the exhaustive rows: every string of at most three letters over {a, b, /},
   then a few that contain the pattern metacharacters *)
Definition ex_letters : list ascii := ["a"; "b"; "/"]%char.
Definition ex_extend (l : list string) : list string :=
  flat_map (fun s => map (fun c => s ++ String c EmptyString) ex_letters) l.
Definition ex_names : list string :=
  let l0 := [EmptyString] in let l1 := ex_extend l0 in let l2 := ex_extend l1 in let l3 := ex_extend l2 in
  (l0 ++ l1 ++ l2 ++ l3 ++ ["-"; "^"; "]"; "\"; "*"; "?"; "["; "a-"; "ab]"; "a]"; "^a"])%list.

(* directory trees are compared as sets of (path, content): both listings sorted by path *)
Fixpoint insert_file (x : file) (l : list file) : list file :=
  match l with
  | [] => [x]
  | y :: t => if str_leb (f_name x) (f_name y) then x :: l else y :: insert_file x t
  end.
Definition sort_files (l : list file) : list file := fold_right insert_file [] l.
Definition tree_agree (o : oracle) (a b : option (list file)) : bool :=
  match a, b with
  | None, None => true
  | Some x, Some y =>
      list_eqb (fun f g => String.eqb (f_name f) (f_name g) && data_agree o (f_data f) (f_data g)) (sort_files x) (sort_files y)
  | _, _ => false
  end.

Definition case_ok (c : case) : bool :=
  match c with
  | CMatch p names res ign => String.eqb (match_row p names) res && String.eqb (ignore_row p names) ign
  | CMatchEx rows => forallb (fun pr => String.eqb (match_row (fst pr) ex_names) (snd pr)) rows
  | CRt o ch saved loaded tree dirloaded =>
      match_facts_ok o &&
      opt_eqb (list_eqb te_eqb) (m_save o ch) saved &&
      match saved with
      | Some es => lres_eqb (m_load_archive o (mkTS false es false)) loaded
      | None => true
      end &&
      match tree with
      | Some t => lres_eqb (m_load_dir o t) dirloaded
      | None => true
      end &&
      (* SaveDir: the tree it wrote (compared when the chart name is an ordinary directory name) *)
      (if wf_cname (m_name (c_meta ch)) then tree_agree o (m_save_dir o ch) tree else true)
  | CFiles o files loaded => lres_eqb (m_load_files o files) loaded
  | CDir o ignerr pkgver tree loaded packaged =>
      let res := m_load_dir o tree in
      match_facts_ok o &&
      Bool.eqb ignerr (match m_rules tree with None => true | Some _ => false end) &&
      lres_eqb res loaded &&
      match res with
      | inr ch => opt_eqb (list_eqb te_eqb) (m_package o pkgver ch) packaged
      | inl _ => match packaged with None => true | Some _ => false end
      end
  | COracleOnly => true
  | CPanic => false
  end.

Fixpoint mismatches_from (i : nat) (cs : list case) : list nat :=
  match cs with
  | [] => []
  | c :: t => if case_ok c then mismatches_from (S i) t else i :: mismatches_from (S i) t
  end.

Definition mismatches := mismatches_from 0.

(* The guard that sends decoded bytes through gunzip in pkg/storage/driver/util.go, as the
   translator (harness gentables_c10.go) reads it from the Go source: a boolean expression over
   comparisons of len(b) with a constant and "the bytes b[lo:hi] equal magicGzip"
   (bytes.Equal on the slice, or bytes.HasPrefix), under !, && and ||.  [GUnknown] stands for a
   sub-expression the translator could not read: a table containing one fails [gwf].
   Definitions only. *)
From Coq Require Import List String Bool Arith.
Import ListNotations.

Inductive cmp := CLt | CLe | CGt | CGe | CEq | CNe.

Inductive gexp :=
| GLen (c : cmp) (n : nat)          (* len(b) c n *)
| GMagic (lo hi : nat)              (* bytes.Equal(b[lo:hi], magicGzip) *)
| GNot (e : gexp)
| GAnd (a b : gexp)
| GOr (a b : gexp)
| GUnknown (what : string).

Definition cmp_eval (c : cmp) (len n : nat) : bool :=
  match c with
  | CLt => Nat.ltb len n
  | CLe => Nat.leb len n
  | CGt => Nat.ltb n len
  | CGe => Nat.leb n len
  | CEq => Nat.eqb len n
  | CNe => negb (Nat.eqb len n)
  end.

(* [len] = len(b); [mg lo hi] = whether b[lo:hi] equals the magic number *)
Fixpoint geval (len : nat) (mg : nat -> nat -> bool) (e : gexp) : bool :=
  match e with
  | GLen c n => cmp_eval c len n
  | GMagic lo hi => mg lo hi
  | GNot a => negb (geval len mg a)
  | GAnd a b => geval len mg a && geval len mg b
  | GOr a b => geval len mg a || geval len mg b
  | GUnknown _ => false
  end.

Fixpoint gwf (e : gexp) : bool :=
  match e with
  | GLen _ _ | GMagic _ _ => true
  | GNot a => gwf a
  | GAnd a b | GOr a b => gwf a && gwf b
  | GUnknown _ => false
  end.

(* [positive]: the guarded branch is the one that gunzips; otherwise the guard is the early
   return that hands the bytes on unchanged *)
Definition gunzip_taken (positive : bool) (e : gexp) (len : nat) (mg : nat -> nat -> bool) : bool :=
  if positive then geval len mg e else negb (geval len mg e).

(* the sub-expressions the translator could not read, verbatim *)
Fixpoint gunknowns (e : gexp) : list string :=
  match e with
  | GLen _ _ | GMagic _ _ => []
  | GNot a => gunknowns a
  | GAnd a b | GOr a b => (gunknowns a ++ gunknowns b)%list
  | GUnknown w => [w]
  end.

(* C10, all backends: the vocabulary of the statement that holds for EVERY release content.

   A call is one of the six driver calls or the read-modify-write of Storage/Rmw.v (what upgrade,
   rollback and uninstall do to a previous revision: the release comes back from Query carrying
   the storage object's labels and is written again with Update).

   What a backend keeps of a release's label map is its USER labels: the Secret / ConfigMap
   drivers file an object under [rls.Labels] + a time stamp + the four computed labels
   (secrets.go newSecretsObject, cfgmaps.go newConfigMapsObject), Get hands back
   [filterSystemLabels(obj.Labels)] (util.go), List/Query hand back [obj.Labels] whole; the
   memory driver hands back the label map it was given.  [norm_rel] is that projection: the
   label map with the six system keys removed, as a map (one entry per key, the last value
   given for a key wins, keys in order of first appearance - what writing the entries into a Go
   map one after the other leaves).  The reference map stores [norm_rel r]; results of the
   drivers are compared after [norm_out].  Definitions only. *)
From Coq Require Import List String Bool Arith NArith.
From Helm Require Import Common.Assoc Common.Strs Storage.Spec Storage.Mem Storage.Kube Storage.Rmw.
Import ListNotations.
Open Scope string_scope.

(* ---------- calls ---------- *)
Inductive sop := SOp (o : op) | SRmw (name : string) (ver : nat) (status : string).

Definition sstep {S : Type} (step : S -> op -> S * out) (s : S) (x : sop) : S * out :=
  match x with
  | SOp o => step s o
  | SRmw n v st => rmw step s n v st
  end.

Fixpoint srun {S : Type} (step : S -> op -> S * out) (s : S) (xs : list sop) : list out :=
  match xs with
  | [] => []
  | x :: t => let '(s', r) := sstep step s x in r :: srun step s' t
  end.

Fixpoint sexec {S : Type} (step : S -> op -> S * out) (s : S) (xs : list sop) : S :=
  match xs with
  | [] => s
  | x :: t => sexec step (fst (sstep step s x)) t
  end.

(* ---------- the user labels of a release ---------- *)
Definition ulabels (l : list (string * string)) : list (string * string) :=
  from_map (filter_system_labels l) [].

Definition map_rel (f : list (string * string) -> list (string * string)) (r : rel) : rel :=
  mkRel (rname r) (rns r) (rver r) (rstatus r) (f (rlabels r)) (rbody r).

Definition norm_rel : rel -> rel := map_rel ulabels.

(* a release without its label map: what the record body carries (Release.Labels is json:"-") *)
Definition unlabel : rel -> rel := map_rel (fun _ => []).

Definition map_out (f : rel -> rel) (o : out) : out :=
  match o with
  | RRel r => RRel (f r)
  | RRels l => RRels (map f l)
  | x => x
  end.

Definition map_op (f : rel -> rel) (o : op) : op :=
  match o with
  | OCreate r => OCreate (f r)
  | OUpdate r => OUpdate (f r)
  | x => x
  end.

Definition map_sop (f : rel -> rel) (x : sop) : sop :=
  match x with
  | SOp o => SOp (map_op f o)
  | SRmw n v st => SRmw n v st
  end.

Definition norm_out : out -> out := map_out norm_rel.
Definition norm_op : op -> op := map_op norm_rel.
Definition norm_sop : sop -> sop := map_sop norm_rel.

(* ---------- the only conditions on a call ---------- *)
(* a query selects on name / owner / status / version (the property text) with values the
   Kubernetes label syntax admits - every valid release name and every status is one *)
Definition query_ok (valid_label_value : string -> bool) (q : list (string * string)) : Prop :=
  forall k v, In (k, v) q -> In k sys_keys /\ valid_label_value v = true.

Definition call_ok (valid_label_value : string -> bool) (x : sop) : Prop :=
  match x with
  | SOp (OQuery q) => query_ok valid_label_value q
  | SRmw n v _ => query_ok valid_label_value [("name", n); ("version", show_nat v)]
  | _ => True
  end.

(* memory driver: the instance serves one namespace (every written release lives in ns0) *)
Definition call_in_ns (ns0 : string) (x : sop) : Prop :=
  match x with
  | SOp (OCreate r) | SOp (OUpdate r) => ns_of r = ns0
  | _ => True
  end.

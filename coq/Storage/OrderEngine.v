(* C10 -> C01: the release-engine model of C01 (Engine/Ops.v) consumes the storage reads
   SHistory / SDeployedAll only through [sort_by_rev] (removeLeastRecent) and [max_rev_of]
   (Deployed / Last: the newest revision).  Both are the generic sort / maximum of
   Storage/Order.v, so their results do not depend on the order in which a driver lists the
   records, as long as the revisions are pairwise different (C01_revisions_unique). *)
From Coq Require Import List Arith Permutation.
From Helm Require Import Engine.Types Engine.Ops Storage.Order.
Import ListNotations.

Lemma sort_by_rev_is_ksort : sort_by_rev = ksort release rev.
Proof. reflexivity. Qed.

Lemma max_rev_of_is_kmax : max_rev_of = kmax release rev.
Proof. reflexivity. Qed.

Theorem engine_reads_order_independent (l1 l2 : list release) :
  Permutation l1 l2 -> NoDup (map rev l1) ->
  sort_by_rev l1 = sort_by_rev l2 /\ max_rev_of l1 = max_rev_of l2 /\
  forall dep total maxkeep picked,
    prune_pick (sort_by_rev l1) dep total maxkeep picked = prune_pick (sort_by_rev l2) dep total maxkeep picked.
Proof.
  intros Hp Hnd. rewrite sort_by_rev_is_ksort, max_rev_of_is_kmax.
  rewrite (ksort_perm release rev l1 l2 Hp Hnd), (kmax_perm release rev l1 l2 Hp Hnd).
  repeat split; reflexivity.
Qed.

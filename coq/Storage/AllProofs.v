(* C10, all backends: the memory model and the Secret / ConfigMap model refine the reference map
   for every call sequence (driver calls and read-modify-writes) and EVERY release content -
   label maps may repeat keys and may carry system keys. *)
From Coq Require Import List String Ascii Bool Arith Lia Permutation.
From Helm Require Import Common.Assoc Common.Strs Storage.Spec Storage.Mem Storage.Kube Storage.Rmw
  Storage.Proofs Storage.Lemmas Storage.Refine Storage.MemProofs Storage.MemNsProofs
  Storage.KubeLabels Storage.KubeProofs Storage.Calls Storage.LabelsAll.
Import ListNotations.
Local Open Scope string_scope.

(* ---------- small facts about the projections ---------- *)
Lemma with_status_map f st r : map_rel f (with_status st r) = with_status st (map_rel f r).
Proof. reflexivity. Qed.

Lemma sys_match_map f q r : sys_match q (map_rel f r) = sys_match q r.
Proof. reflexivity. Qed.

Lemma map_out_id o : map_out (fun r => r) o = o.
Proof. destruct o; simpl; auto. now rewrite map_id. Qed.

(* ---------- from a step simulation to call sequences with read-modify-write ---------- *)
Section Lift.
  Variable S1 : Type.
  Variable step1 : S1 -> op -> S1 * out.
  Variable fr : rel -> rel.                       (* projection of releases *)
  Variable Inv : S1 -> spec -> Prop.
  Variable P : op -> Prop.                        (* condition on driver calls *)
  Variable R : out -> out -> Prop.                (* out_equiv or out_refines *)

  Hypothesis fr_status : forall st r, fr (with_status st r) = with_status st (fr r).
  Hypothesis R_ok : forall o, R ROk o -> o = ROk.
  Hypothesis R_rel : forall r o, R (RRel r) o -> o = RRel r.
  Hypothesis R_rels : forall l o, R (RRels l) o -> exists l', o = RRels l' /\ Permutation l l'.
  Hypothesis R_err : forall e o, R (RErr e) o -> exists e', o = RErr e'.
  Hypothesis R_other : R (RErr EOther) (RErr EOther).

  Hypothesis step_sim : forall m s o, Inv m s -> P o ->
    Inv (fst (step1 m o)) (fst (spec_step s (map_op fr o))) /\
    R (map_out fr (snd (step1 m o))) (snd (spec_step s (map_op fr o))).
  (* the release a read-modify-write writes back is acceptable *)
  Hypothesis rmw_ok : forall m s n v st r, Inv m s -> P (rmw_query n v) ->
    snd (step1 m (rmw_query n v)) = RRels [r] -> P (OUpdate (with_status st r)).
  (* a Query changes nothing *)
  Hypothesis query_pure : forall m q, fst (step1 m (OQuery q)) = m.

  Definition Pc (x : sop) : Prop :=
    match x with SOp o => P o | SRmw n v _ => P (rmw_query n v) end.

  Lemma sstep_sim m s x : Inv m s -> Pc x ->
    Inv (fst (sstep step1 m x)) (fst (sstep spec_step s (map_sop fr x))) /\
    R (map_out fr (snd (sstep step1 m x))) (snd (sstep spec_step s (map_sop fr x))).
  Proof.
    intros HI Hx. destruct x as [o|n v st]; [now apply step_sim|].
    cbn [sstep map_sop Pc] in *. unfold rmw.
    destruct (step_sim m s (rmw_query n v) HI Hx) as [_ Hq].
    change (map_op fr (rmw_query n v)) with (rmw_query n v) in Hq.
    set (qs := snd (spec_step s (rmw_query n v))) in *. clearbody qs.
    destruct (snd (step1 m (rmw_query n v))) as [|e|r|l] eqn:E1; cbn [map_out] in Hq.
    - apply R_ok in Hq. subst qs. simpl. auto.
    - destruct (R_err _ _ Hq) as [e' E2]. subst qs. simpl. auto.
    - apply R_rel in Hq. subst qs. simpl. auto.
    - destruct (R_rels _ _ Hq) as [l' [E2 Hp]]. subst qs.
      destruct l as [|r [|r2 t]]; cbn [map] in Hp.
      + apply Permutation_nil in Hp. subst l'. simpl. auto.
      + apply perm_single in Hp. subst l'.
        pose proof (step_sim m s (OUpdate (with_status st r)) HI (rmw_ok m s n v st r HI Hx E1)) as H.
        cbn [map_op] in H. rewrite fr_status in H. exact H.
      + pose proof (Permutation_length Hp) as Hlen. simpl in Hlen.
        destruct l' as [|a [|b t']]; simpl in Hlen; try discriminate. simpl. auto.
  Qed.

  Lemma srun_sim xs : forall m s, Inv m s -> Forall Pc xs ->
    Forall2 R (map (map_out fr) (srun step1 m xs)) (srun spec_step s (map (map_sop fr) xs)).
  Proof.
    induction xs as [|x t IH]; intros m s HI Hxs; simpl; [constructor|].
    inversion Hxs; subst.
    destruct (sstep_sim m s x HI) as [HI' Ho]; auto.
    destruct (sstep step1 m x) as [m' om]. destruct (sstep spec_step s (map_sop fr x)) as [s' os].
    simpl in *. constructor; auto.
  Qed.

  Lemma sexec_inv xs : forall m s, Inv m s -> Forall Pc xs ->
    Inv (sexec step1 m xs) (sexec spec_step s (map (map_sop fr) xs)).
  Proof.
    induction xs as [|x t IH]; intros m s HI Hxs; simpl; auto.
    inversion Hxs; subst. apply IH; auto. now apply sstep_sim.
  Qed.
End Lift.

(* the two result relations have the shape Lift asks for *)
Lemma oe_ok_inv o : out_equiv ROk o -> o = ROk.
Proof. now inversion 1. Qed.
Lemma oe_rel_inv r o : out_equiv (RRel r) o -> o = RRel r.
Proof. now inversion 1. Qed.
Lemma oe_rels_inv l o : out_equiv (RRels l) o -> exists l', o = RRels l' /\ Permutation l l'.
Proof. inversion 1; subst; eauto. Qed.
Lemma oe_err_inv e o : out_equiv (RErr e) o -> exists e', o = RErr e'.
Proof. inversion 1; subst; eauto. Qed.
Lemma or_ok_inv o : out_refines ROk o -> o = ROk.
Proof. now inversion 1. Qed.
Lemma or_rel_inv r o : out_refines (RRel r) o -> o = RRel r.
Proof. now inversion 1. Qed.
Lemma or_rels_inv l o : out_refines (RRels l) o -> exists l', o = RRels l' /\ Permutation l l'.
Proof. inversion 1; subst; eauto. Qed.
Lemma or_err_inv e o : out_refines (RErr e) o -> exists e', o = RErr e'.
Proof. inversion 1; subst; eauto. Qed.
Lemma or_other : out_refines (RErr EOther) (RErr EOther).
Proof. constructor. now left. Qed.

Lemma out_equiv_map f a b : out_equiv a b -> out_equiv (map_out f a) (map_out f b).
Proof. inversion 1; subst; simpl; constructor. now apply Permutation_map. Qed.

(* ---------- the reference map commutes with a projection of the label maps ---------- *)
Section SpecMap.
  Variable f : list (string * string) -> list (string * string).
  Notation fr := (map_rel f).

  Definition map_spec (s : spec) : spec := map (fun kv => (fst kv, fr (snd kv))) s.

  Lemma aget_map_spec k s : aget k (map_spec s) = option_map fr (aget k s).
  Proof. induction s as [|[k1 r1] t IH]; simpl; auto. destruct (String.eqb k k1); auto. Qed.

  Lemma aset_map_spec k r s : aset k (fr r) (map_spec s) = map_spec (aset k r s).
  Proof.
    induction s as [|[k1 r1] t IH]; simpl; auto. destruct (String.eqb k k1); simpl; auto.
    now rewrite IH.
  Qed.

  Lemma adel_map_spec k s : adel k (map_spec s) = map_spec (adel k s).
  Proof.
    induction s as [|[k1 r1] t IH]; simpl; auto. destruct (String.eqb k k1); simpl; auto.
    now rewrite IH.
  Qed.

  Lemma values_map_spec s : map snd (map_spec s) = map fr (map snd s).
  Proof. unfold map_spec. rewrite !map_map. reflexivity. Qed.

  Lemma filter_match_map q l : filter (sys_match q) (map fr l) = map fr (filter (sys_match q) l).
  Proof.
    induction l as [|r t IH]; simpl; auto. rewrite sys_match_map.
    destruct (sys_match q r); simpl; now rewrite IH.
  Qed.

  Lemma spec_step_map s o :
    spec_step (map_spec s) (map_op fr o) =
    (map_spec (fst (spec_step s o)), map_out fr (snd (spec_step s o))).
  Proof.
    destruct o as [r|r|n v|n v| |q]; simpl.
    - change (key_of (fr r)) with (key_of r). rewrite aget_map_spec.
      destruct (aget (key_of r) s); simpl; auto. now rewrite aset_map_spec.
    - change (key_of (fr r)) with (key_of r). rewrite aget_map_spec.
      destruct (aget (key_of r) s); simpl; auto. now rewrite aset_map_spec.
    - rewrite aget_map_spec. destruct (aget (make_key n v) s); reflexivity.
    - rewrite aget_map_spec. destruct (aget (make_key n v) s); simpl; auto.
      now rewrite adel_map_spec.
    - now rewrite values_map_spec.
    - rewrite values_map_spec, filter_match_map.
      destruct (filter (sys_match q) (map snd s)); reflexivity.
  Qed.

  Lemma sstep_map s x :
    sstep spec_step (map_spec s) (map_sop fr x) =
    (map_spec (fst (sstep spec_step s x)), map_out fr (snd (sstep spec_step s x))).
  Proof.
    destruct x as [o|n v st]; simpl; [apply spec_step_map|].
    unfold rmw. pose proof (spec_step_map s (rmw_query n v)) as H.
    change (map_op fr (rmw_query n v)) with (rmw_query n v) in H. rewrite H. cbn [snd].
    set (qs := snd (spec_step s (rmw_query n v))). clearbody qs.
    destruct qs as [|e|r|l]; simpl; auto.
    destruct l as [|r [|r2 t]]; simpl; auto.
    rewrite <- with_status_map. apply (spec_step_map s (OUpdate (with_status st r))).
  Qed.

  Lemma srun_map xs : forall s,
    srun spec_step (map_spec s) (map (map_sop fr) xs) = map (map_out fr) (srun spec_step s xs).
  Proof.
    induction xs as [|x t IH]; intros s; simpl; auto.
    rewrite sstep_map. destruct (sstep spec_step s x) as [s' o]. simpl. now rewrite IH.
  Qed.
End SpecMap.

(* ---------- memory driver ---------- *)
Section MemAll.
  Variable ns0 : string.

  Definition stored_in_ns (s : spec) : Prop := forall k r, In (k, r) s -> ns_of r = ns0.
  Definition MInv1 (m : mem) (s : spec) : Prop := Inv ns0 m s /\ stored_in_ns s.

  Lemma stored_step s o : stored_in_ns s -> op_in_ns ns0 o -> stored_in_ns (fst (spec_step s o)).
  Proof.
    intros Hs Ho. destruct o as [r|r|n v|n v| |q]; simpl in *; auto.
    - destruct (aget (key_of r) s); simpl; auto.
      intros k r' Hin. apply In_aset in Hin. destruct Hin as [E|Hin]; [inversion E; subst; auto|eauto].
    - destruct (aget (key_of r) s); simpl; auto.
      intros k r' Hin. apply In_aset in Hin. destruct Hin as [E|Hin]; [inversion E; subst; auto|eauto].
    - destruct (aget (make_key n v) s); auto.
    - destruct (aget (make_key n v) s); simpl; auto.
      intros k r' Hin. apply In_adel in Hin. destruct Hin as [Hin _]. eauto.
    - destruct (filter (sys_match q) (map snd s)); auto.
  Qed.

  Lemma mem_step_sim1 m s o : MInv1 m s -> op_in_ns ns0 o ->
    MInv1 (fst (mem_step m o)) (fst (spec_step s (map_op (fun r => r) o))) /\
    out_equiv (map_out (fun r => r) (snd (mem_step m o))) (snd (spec_step s (map_op (fun r => r) o))).
  Proof.
    intros [HI Hst] Ho. rewrite map_out_id.
    replace (map_op (fun r => r) o) with o by (destruct o; reflexivity).
    destruct (mem_step_sim ns0 m s o HI Ho) as (HI' & Hout & _).
    split; [split|]; auto. now apply stored_step.
  Qed.

  Lemma mem_rmw_ok m s n v st r : MInv1 m s -> op_in_ns ns0 (rmw_query n v) ->
    snd (mem_step m (rmw_query n v)) = RRels [r] -> op_in_ns ns0 (OUpdate (with_status st r)).
  Proof.
    intros [HI Hst] _ E. destruct (mem_step_sim ns0 m s (rmw_query n v) HI I) as (_ & Hout & _).
    rewrite E in Hout. apply oe_rels_inv in Hout. destruct Hout as [l' [E2 Hp]].
    apply perm_single in Hp. subst l'. simpl.
    change (ns_of (with_status st r)) with (ns_of r).
    unfold rmw_query in E2. simpl in E2.
    destruct (filter _ (map snd s)) as [|a t] eqn:Ef; [discriminate|].
    inversion E2 as [E3]. assert (Hin : In r (filter (sys_match [("name", n); ("version", show_nat v)]) (map snd s))).
    { rewrite Ef, E3. now left. }
    apply filter_In in Hin. destruct Hin as [Hin _]. apply in_map_iff in Hin.
    destruct Hin as [[k r'] [Er Hin]]. simpl in Er. subst r'. eauto.
  Qed.

  Lemma MInv1_init ns1 : MInv1 (mkMem ns1 []) [].
  Proof. split; [apply Inv_init|]. intros k r []. Qed.
End MemAll.

Lemma Pc_mem ns0 x : call_in_ns ns0 x -> Pc (op_in_ns ns0) x.
Proof. destruct x as [[r|r|n v|n v| |q]|n v st]; simpl; auto. Qed.

(* unprojected: the memory driver hands back the label maps it was given *)
Theorem mem_refines_spec_rmw ns0 ns1 xs :
  Forall (call_in_ns ns0) xs ->
  Forall2 out_equiv (srun mem_step (mkMem ns1 []) xs) (srun spec_step [] xs).
Proof.
  intros H.
  pose proof (srun_sim mem mem_step (fun r => r) (MInv1 ns0) (op_in_ns ns0) out_equiv
                (fun _ _ => eq_refl) oe_ok_inv oe_rel_inv oe_rels_inv oe_err_inv (oe_err EOther)
                (mem_step_sim1 ns0) (mem_rmw_ok ns0) xs (mkMem ns1 []) [] (MInv1_init ns0 ns1)) as Hs.
  rewrite (map_ext (map_out (fun r => r)) (fun o => o) map_out_id), map_id in Hs.
  rewrite (map_ext (map_sop (fun r => r)) (fun x => x)), map_id in Hs.
  - apply Hs. eapply Forall_impl; [|exact H]. apply Pc_mem.
  - intros [[r|r|n v|n v| |q]|n v st]; reflexivity.
Qed.

Theorem mem_refines_spec_all ns0 ns1 xs :
  Forall (call_in_ns ns0) xs ->
  Forall2 out_equiv (map norm_out (srun mem_step (mkMem ns1 []) xs))
                    (srun spec_step [] (map norm_sop xs)).
Proof.
  intros H. pose proof (mem_refines_spec_rmw ns0 ns1 xs H) as Hs.
  change (@nil (string * rel)) with (map_spec ulabels []).
  unfold norm_sop, norm_rel. rewrite srun_map.
  clear H. induction Hs; simpl; constructor; auto. now apply out_equiv_map.
Qed.

(* ---------- Secret / ConfigMap drivers ---------- *)
Section KubeAll.
  Variable B : Type.
  Variable enc : rel -> B.
  Variable dec : B -> option rel.
  Variable valid_label_value : string -> bool.
  (* the record body gives back everything but the label map (which it does not carry) *)
  Hypothesis codec : forall r, option_map unlabel (dec (enc r)) = Some (unlabel r).

  Notation kstep := (kube_step B enc dec valid_label_value).
  Notation kget := (kube_get B dec).

  Definition op_ok2 (o : op) : Prop :=
    match o with OQuery q => query_ok valid_label_value q | _ => True end.

  Lemma codec_fields r : exists r2, dec (enc r) = Some r2 /\
    rname r2 = rname r /\ rns r2 = rns r /\ rver r2 = rver r /\ rstatus r2 = rstatus r /\ rbody r2 = rbody r.
  Proof.
    pose proof (codec r) as H. destruct (dec (enc r)) as [r2|]; [|discriminate].
    exists r2. split; auto. simpl in H. inversion H. auto.
  Qed.

  (* a stored object and the entry of the reference map *)
  Definition obj_rel2 (o : obj B) (r' : rel) : Prop :=
    exists stamp r, is_stamp stamp /\ o = new_object B enc stamp r /\ r' = norm_rel r.

  Definition krel2 (k : kube B) (s : spec) : Prop := arel obj_rel2 k s.

  Lemma obj_rel2_new stamp r : is_stamp stamp -> obj_rel2 (new_object B enc stamp r) (norm_rel r).
  Proof. intros H. exists stamp, r. auto. Qed.

  Lemma kube_get_sim2 k s key : krel2 k s ->
    kget k key = match aget key s with Some r => RRel r | None => RErr ENotFound end.
  Proof.
    intros Hr. pose proof (arel_aget obj_rel2 key _ _ Hr) as H. unfold kube_get.
    destruct (aget key k) as [o|]; destruct (aget key s) as [r'|]; try tauto.
    destruct H as (stamp & r & Hst & -> & ->). unfold new_object. simpl.
    destruct (codec_fields r) as (r2 & -> & E1 & E2 & E3 & E4 & E5).
    rewrite filter_object_labels_any by assumption.
    unfold norm_rel, map_rel. now rewrite E1, E2, E3, E4, E5.
  Qed.

  Lemma decode_all_rel2 os rs : Forall2 obj_rel2 os rs ->
    map norm_rel (decode_all B dec os) = rs.
  Proof.
    induction 1 as [|o r' os rs Hor H IH]; simpl; auto.
    destruct Hor as (stamp & r & Hst & -> & ->). unfold decode_item, new_object. simpl.
    destruct (codec_fields r) as (r2 & -> & E1 & E2 & E3 & E4 & E5). simpl. rewrite IH. f_equal.
    unfold norm_rel, map_rel. simpl. rewrite ulabels_object_labels by assumption.
    now rewrite E1, E2, E3, E4, E5.
  Qed.

  Lemma selects_obj2 q o r' :
    obj_rel2 o r' -> (forall k v, In (k, v) q -> In k sys_keys) -> selects B q o = sys_match q r'.
  Proof.
    intros (stamp & r & Hst & -> & ->) Hq. rewrite selects_system by assumption.
    symmetry. apply sys_match_map.
  Qed.

  Lemma krel2_idem k s key r : krel2 k s -> aget key s = Some r -> norm_rel r = r.
  Proof.
    intros Hr Hs. pose proof (arel_aget obj_rel2 key _ _ Hr) as H. rewrite Hs in H.
    destruct (aget key k); [|tauto]. destruct H as (stamp & r0 & _ & _ & ->). apply norm_rel_idem.
  Qed.

  Definition ksim_post2 (k : kube B) (s : spec) (k' : kube B) (s' : spec) (ok os : out) : Prop :=
    krel2 k' s' /\
    out_refines (norm_out ok) os /\
    (forall r, ok = RRel r -> os = RRel r) /\
    (is_err os -> k' = k /\ s' = s /\ is_err ok).

  Lemma kpost2_err k s e1 e2 :
    krel2 k s -> err_refines e1 e2 -> ksim_post2 k s k s (RErr e1) (RErr e2).
  Proof.
    intros Hr He. split; [|split; [|split]]; auto.
    - now constructor.
    - discriminate.
    - intros _. repeat split; auto. now exists e1.
  Qed.

  Lemma kpost2_change k s k' s' ok os :
    krel2 k' s' -> out_refines (norm_out ok) os -> (forall r, ok = RRel r -> os = RRel r) ->
    ~ is_err os -> ksim_post2 k s k' s' ok os.
  Proof. intros. split; [|split; [|split]]; auto. tauto. Qed.

  Lemma kpost2_rel k s k' s' r :
    krel2 k' s' -> norm_rel r = r -> ksim_post2 k s k' s' (RRel r) (RRel r).
  Proof.
    intros Hr Hn. apply kpost2_change; auto using not_err_rel.
    simpl. rewrite Hn. constructor.
  Qed.

  Lemma not_err_rels2 l : ~ is_err (RRels l).
  Proof. intros [e H]. discriminate. Qed.

  Lemma kube_step_sim2 k s o :
    krel2 k s -> op_ok2 o ->
    ksim_post2 k s (fst (kstep k o)) (fst (spec_step s (norm_op o)))
               (snd (kstep k o)) (snd (spec_step s (norm_op o))).
  Proof.
    intros Hr Hop. destruct o as [r|r|n v|n v| |q]; simpl in Hop.
    - (* Create *)
      unfold kube_step, norm_op, map_op, spec_step. change (key_of (norm_rel r)) with (key_of r).
      pose proof (arel_aget obj_rel2 (key_of r) _ _ Hr) as H.
      destruct (aget (key_of r) k) as [o|]; destruct (aget (key_of r) s) as [r0|]; try tauto; simpl.
      + apply kpost2_err; auto. now left.
      + apply kpost2_change; auto using not_err_ok; try constructor; try discriminate.
        apply arel_aset; auto. apply obj_rel2_new. now left.
    - (* Update *)
      unfold kube_step, norm_op, map_op, spec_step. change (key_of (norm_rel r)) with (key_of r).
      pose proof (arel_aget obj_rel2 (key_of r) _ _ Hr) as H.
      destruct (aget (key_of r) k) as [o|]; destruct (aget (key_of r) s) as [r0|]; try tauto; simpl.
      + apply kpost2_change; auto using not_err_ok; try constructor; try discriminate.
        apply arel_aset; auto. apply obj_rel2_new. now right.
      + apply kpost2_err; auto. right. auto.
    - (* Get *)
      unfold kube_step, norm_op, map_op, spec_step. simpl. rewrite (kube_get_sim2 k s) by assumption.
      destruct (aget (make_key n v) s) as [r|] eqn:Es; simpl.
      + apply kpost2_rel; auto. eapply krel2_idem; eauto.
      + apply kpost2_err; auto. now left.
    - (* Delete *)
      unfold kube_step, norm_op, map_op, spec_step. rewrite (kube_get_sim2 k s) by assumption.
      destruct (aget (make_key n v) s) as [r|] eqn:Es; simpl.
      + apply kpost2_rel; [now apply arel_adel|eapply krel2_idem; eauto].
      + apply kpost2_err; auto. now left.
    - (* List *)
      unfold kube_step, norm_op, map_op, spec_step. simpl fst. simpl snd.
      pose proof (arel_values obj_rel2 _ _ Hr) as Hv.
      assert (Hf : Forall2 obj_rel2 (filter (selects B [("owner", "helm")]) (map snd k))
                                    (filter (sys_match [("owner", "helm")]) (map snd s))).
      { apply Forall2_filter; auto. intros a b Hab. apply selects_obj2; auto.
        intros k0 v0 [E|[]]. inversion E; subst. simpl. auto. }
      rewrite (filter_all (sys_match _)) in Hf by reflexivity.
      apply kpost2_change; auto using not_err_rels2; [|discriminate].
      simpl. rewrite (decode_all_rel2 _ _ Hf). now constructor.
    - (* Query *)
      unfold kube_step, norm_op, map_op, spec_step.
      assert (Hvalid : forallb (fun kv => valid_label_value (snd kv)) q = true).
      { apply forallb_forall. intros [k0 v0] Hin. simpl. now apply (Hop k0 v0). }
      rewrite Hvalid.
      pose proof (arel_values obj_rel2 _ _ Hr) as Hv.
      assert (Hf : Forall2 obj_rel2 (filter (selects B q) (map snd k)) (filter (sys_match q) (map snd s))).
      { apply Forall2_filter; auto. intros a b Hab. apply selects_obj2; auto.
        intros k0 v0 Hin. now apply (Hop k0 v0). }
      pose proof (decode_all_rel2 _ _ Hf) as H1.
      destruct (filter (selects B q) (map snd k)) as [|o os] eqn:E1;
        destruct (filter (sys_match q) (map snd s)) as [|r rs] eqn:E2;
        try (now inversion Hf); simpl fst; simpl snd.
      + apply kpost2_err; auto. now left.
      + apply kpost2_change; auto using not_err_rels2; [|discriminate].
        unfold norm_out. cbn [map_out]. rewrite <- H1. constructor. apply Permutation_refl.
  Qed.

  Lemma kube_step_sim_lift k s o : krel2 k s -> op_ok2 o ->
    krel2 (fst (kstep k o)) (fst (spec_step s (map_op norm_rel o))) /\
    out_refines (map_out norm_rel (snd (kstep k o))) (snd (spec_step s (map_op norm_rel o))).
  Proof. intros Hr Ho. destruct (kube_step_sim2 k s o Hr Ho) as (H1 & H2 & _). auto. Qed.

  Lemma kube_query_pure k q : fst (kstep k (OQuery q)) = k.
  Proof.
    simpl. destruct (forallb _ q); auto. destruct (filter _ (map snd k)); auto.
  Qed.

  Lemma Pc_kube x : call_ok valid_label_value x -> Pc op_ok2 x.
  Proof. destruct x as [[r|r|n v|n v| |q]|n v st]; simpl; auto. Qed.

  Theorem kube_refines_spec_all xs :
    Forall (call_ok valid_label_value) xs ->
    Forall2 out_refines (map norm_out (srun kstep [] xs)) (srun spec_step [] (map norm_sop xs)).
  Proof.
    intros H.
    apply (srun_sim (kube B) kstep norm_rel krel2 op_ok2 out_refines
             (with_status_map ulabels) or_ok_inv or_rel_inv or_rels_inv or_err_inv or_other
             kube_step_sim_lift (fun _ _ _ _ _ _ _ _ _ => I)).
    - constructor.
    - eapply Forall_impl; [|exact H]. apply Pc_kube.
  Qed.

  (* whenever Get / Delete hand back a release it is exactly the reference map's entry:
     no projection is needed, filterSystemLabels computes the user labels *)
  Lemma sstep_rel_exact k s x r : krel2 k s -> Pc op_ok2 x ->
    snd (sstep kstep k x) = RRel r -> snd (sstep spec_step s (norm_sop x)) = RRel r.
  Proof.
    intros Hr Hx E. destruct x as [o|n v st]; simpl in *.
    - destruct (kube_step_sim2 k s o Hr Hx) as (_ & _ & Hex & _). auto.
    - exfalso. unfold rmw in E.
      destruct (snd (kstep k (rmw_query n v))) as [|e|r0|l]; simpl in E; try discriminate.
      destruct l as [|r1 [|r2 t]]; simpl in E; try discriminate.
      destruct (aget (key_of (with_status st r1)) k); discriminate.
  Qed.

  Theorem kube_get_exact_all xs :
    Forall (call_ok valid_label_value) xs ->
    Forall2 (fun ok os => forall r, ok = RRel r -> os = RRel r)
            (srun kstep [] xs) (srun spec_step [] (map norm_sop xs)).
  Proof.
    intros H. assert (Hr : krel2 [] []) by constructor. revert Hr.
    generalize (@nil (string * obj B)) as k. generalize (@nil (string * rel)) as s.
    induction xs as [|x t IH]; intros s k Hr; simpl; [constructor|].
    inversion H; subst.
    pose proof (sstep_rel_exact k s x) as Hex.
    destruct (sstep_sim (kube B) kstep norm_rel krel2 op_ok2 out_refines
                (with_status_map ulabels) or_ok_inv or_rel_inv or_rels_inv or_err_inv or_other
                kube_step_sim_lift (fun _ _ _ _ _ _ _ _ _ => I) k s x Hr (Pc_kube x H2)) as [Hr' _].
    change (map_sop norm_rel x) with (norm_sop x) in Hr'.
    destruct (sstep kstep k x) as [k' ok]. destruct (sstep spec_step s (norm_sop x)) as [s' os].
    simpl in *. constructor; [intros r E; apply (Hex r Hr (Pc_kube x H2) E)|auto].
  Qed.
End KubeAll.

(* ---------- the statement for all backends ---------- *)
Theorem all_backends_refine_spec
  (B : Type) (enc : rel -> B) (dec : B -> option rel) (valid_label_value : string -> bool) :
  (forall r, option_map unlabel (dec (enc r)) = Some (unlabel r)) ->
  forall (ns0 ns1 : string) (xs : list sop),
  let ref := srun spec_step [] (map norm_sop xs) in
  (Forall (call_in_ns ns0) xs ->
     Forall2 out_equiv (map norm_out (srun mem_step (mkMem ns1 []) xs)) ref) /\
  (Forall (call_ok valid_label_value) xs ->
     Forall2 out_refines (map norm_out (srun (kube_step B enc dec valid_label_value) [] xs)) ref).
Proof.
  intros codec ns0 ns1 xs ref. split.
  - apply mem_refines_spec_all.
  - now apply kube_refines_spec_all.
Qed.

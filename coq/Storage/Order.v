(* C10: the order in which a driver lists releases does not reach the callers that pick a
   revision.  pkg/storage/storage.go: History = Query{name, owner} as the driver returns it;
   Last = History, Reverse(SortByRevision), h[0]; Deployed = DeployedAll = Query{name, owner,
   status=deployed}, Reverse(SortByRevision), ls[0]; removeLeastRecent sorts History by
   revision.  pkg/action sorts every History result it indexes into (install.go:564, :605,
   uninstall.go:95; rollback.go:119 only tests membership, :258 visits all).
   sort.Sort is not stable: its result is a function of the multiset exactly when the keys are
   pairwise different - which the revisions of one release name are, the key of the store being
   (name, revision).  Definitions and proofs (the definitions are four lines). *)
From Coq Require Import List String Ascii Bool Arith NArith Lia Permutation.
From Helm Require Import Common.Assoc Common.Strs Storage.Spec Storage.Mem Storage.Kube Storage.Rmw
  Storage.Proofs Storage.Lemmas Storage.Refine Storage.MemProofs Storage.MemNsProofs
  Storage.KubeXProofs Storage.Calls Storage.LabelsAll Storage.AllProofs.
Import ListNotations.
Local Open Scope string_scope.

(* ---------- sorting by a numeric key ---------- *)
Section ByKey.
  Variable A : Type.
  Variable key : A -> nat.

  Fixpoint kins (r : A) (l : list A) : list A :=
    match l with
    | [] => [r]
    | x :: t => if Nat.leb (key r) (key x) then r :: l else x :: kins r t
    end.

  Definition ksort (l : list A) : list A := fold_right kins [] l.

  Fixpoint kmax (l : list A) : option A :=
    match l with
    | [] => None
    | r :: t => match kmax t with
                | Some m => if Nat.ltb (key m) (key r) then Some r else Some m
                | None => Some r
                end
    end.

  Lemma kins_comm a b l : key a <> key b -> kins a (kins b l) = kins b (kins a l).
  Proof.
    intros Hne. induction l as [|x t IH]; simpl.
    - destruct (Nat.leb_spec (key a) (key b)), (Nat.leb_spec (key b) (key a)); try reflexivity; lia.
    - destruct (Nat.leb_spec (key b) (key x)), (Nat.leb_spec (key a) (key x)); simpl;
        repeat match goal with
               | |- context [Nat.leb ?p ?q] => destruct (Nat.leb_spec p q)
               end; try reflexivity; try lia.
      now rewrite IH.
  Qed.

  Theorem ksort_perm l1 l2 : Permutation l1 l2 -> NoDup (map key l1) -> ksort l1 = ksort l2.
  Proof.
    induction 1 as [|x l l' Hp IH|x y l|l l' l'' H1 IH1 H2 IH2]; intros Hnd; simpl.
    - reflexivity.
    - simpl in Hnd. inversion Hnd; subst. now rewrite IH.
    - simpl in Hnd. inversion Hnd as [|? ? Hni _]; subst. apply kins_comm.
      intros E. apply Hni. left. auto.
    - rewrite IH1 by assumption. apply IH2.
      eapply Permutation_NoDup; [|exact Hnd]. now apply Permutation_map.
  Qed.

  Theorem kmax_perm l1 l2 : Permutation l1 l2 -> NoDup (map key l1) -> kmax l1 = kmax l2.
  Proof.
    induction 1 as [|x l l' Hp IH|x y l|l l' l'' H1 IH1 H2 IH2]; intros Hnd; simpl.
    - reflexivity.
    - simpl in Hnd. inversion Hnd; subst. now rewrite IH.
    - simpl in Hnd. inversion Hnd as [|? ? Hni _]; subst.
      assert (Hne : key y <> key x) by (intros E; apply Hni; left; auto).
      destruct (kmax l) as [m|].
      + repeat match goal with
               | |- context [Nat.ltb ?p ?q] => destruct (Nat.ltb_spec p q)
               end; try reflexivity; try lia.
      + repeat match goal with
               | |- context [Nat.ltb ?p ?q] => destruct (Nat.ltb_spec p q)
               end; try reflexivity; try lia.
    - rewrite IH1 by assumption. apply IH2.
      eapply Permutation_NoDup; [|exact Hnd]. now apply Permutation_map.
  Qed.

  Lemma kins_perm r l : Permutation (kins r l) (r :: l).
  Proof.
    induction l as [|x t IH]; simpl; auto. destruct (Nat.leb (key r) (key x)); auto.
    eapply perm_trans; [apply perm_skip, IH|apply perm_swap].
  Qed.

  Lemma ksort_is_perm l : Permutation (ksort l) l.
  Proof. induction l as [|x t IH]; simpl; auto. eapply perm_trans; [apply kins_perm|now apply perm_skip]. Qed.
End ByKey.

(* a projection that keeps the key commutes with sorting *)
Lemma ksort_map {A} (key : A -> nat) (f : A -> A) l :
  (forall x, key (f x) = key x) -> ksort A key (map f l) = map f (ksort A key l).
Proof.
  intros Hk. induction l as [|x t IH]; simpl; auto. rewrite IH. clear IH.
  induction (ksort A key t) as [|y u IHu]; simpl; auto.
  rewrite !Hk. destruct (Nat.leb (key x) (key y)); simpl; auto. now rewrite IHu.
Qed.

(* ---------- storage.go on top of a driver's Query result ---------- *)
Definition history_query (n : string) : list (string * string) := [("name", n); ("owner", "helm")].
Definition deployed_query (n : string) : list (string * string) :=
  [("name", n); ("owner", "helm"); ("status", "deployed")].

Definition sort_by_revision : list rel -> list rel := ksort rel rver.

(* Reverse(ls, SortByRevision); ls[0] - of a Query result; [empty] is the error for an empty
   list, [fe] what becomes of the driver's error *)
Definition newest_with (empty : err) (fe : err -> err) (o : out) : out :=
  match o with
  | RRels l => match rev (sort_by_revision l) with r :: _ => RRel r | [] => RErr empty end
  | RErr e => RErr (fe e)
  | _ => RErr EOther
  end.

(* Storage.Last: the error of History as it is; "no revision for release" on an empty list *)
Definition last_of : out -> out := newest_with EOther (fun e => e).
(* Storage.Deployed: DeployedAll turns not-found into ErrNoDeployedReleases and passes any other
   error on; an empty list is ErrNoDeployedReleases too - none of them is ErrReleaseNotFound *)
Definition deployed_of : out -> out := newest_with EOther (fun _ => EOther).

(* Storage.Last / Storage.Deployed on top of a driver *)
Definition storage_last {S : Type} (step : S -> op -> S * out) (s : S) (n : string) : out :=
  last_of (snd (step s (OQuery (history_query n)))).
Definition storage_deployed {S : Type} (step : S -> op -> S * out) (s : S) (n : string) : out :=
  deployed_of (snd (step s (OQuery (deployed_query n)))).

(* SortByRevision(h) - removeLeastRecent, uninstall *)
Definition sorted_of (o : out) : out :=
  match o with
  | RRels l => RRels (sort_by_revision l)
  | RErr e => RErr e
  | _ => RErr EOther
  end.

Definition revs_distinct (o : out) : Prop :=
  match o with RRels l => NoDup (map rver l) | _ => True end.

(* whatever order two backends list the same releases in, Last / Deployed / the sorted history
   are the same *)
Lemma rev_head_map {A} (f : A -> A) l :
  match rev (map f l) with x :: _ => Some x | [] => None end =
  option_map f (match rev l with x :: _ => Some x | [] => None end).
Proof. rewrite <- map_rev. destruct (rev l); reflexivity. Qed.

Lemma newest_norm empty fe o : newest_with empty fe (norm_out o) = norm_out (newest_with empty fe o).
Proof.
  destruct o as [|e|r|l]; simpl; auto. unfold sort_by_revision.
  rewrite (ksort_map rver norm_rel) by reflexivity. rewrite <- map_rev.
  destruct (rev (ksort rel rver l)); reflexivity.
Qed.

Lemma sorted_norm o : sorted_of (norm_out o) = norm_out (sorted_of o).
Proof.
  destruct o as [|e|r|l]; simpl; auto. unfold sort_by_revision.
  now rewrite (ksort_map rver norm_rel) by reflexivity.
Qed.

Theorem picks_equiv empty fe o1 o2 : out_equiv o1 o2 -> revs_distinct o1 ->
  newest_with empty fe o1 = newest_with empty fe o2 /\ sorted_of o1 = sorted_of o2.
Proof.
  intros H Hd. inversion H; subst; simpl; auto.
  simpl in Hd. unfold sort_by_revision. now rewrite (ksort_perm rel rver l1 l2).
Qed.

Theorem picks_refine empty fe o1 o2 :
  (forall e1 e2, err_refines e1 e2 -> err_refines (fe e1) (fe e2)) ->
  out_refines o1 o2 -> revs_distinct o1 ->
  out_refines (newest_with empty fe o1) (newest_with empty fe o2) /\ out_refines (sorted_of o1) (sorted_of o2).
Proof.
  intros Hfe H Hd. inversion H; subst; simpl; try (split; constructor; auto; now left).
  simpl in Hd. unfold sort_by_revision. rewrite (ksort_perm rel rver l1 l2) by assumption.
  split; [|constructor; apply Permutation_refl].
  destruct (rev (ksort rel rver l2)); constructor. now left.
Qed.

Lemma revs_distinct_equiv o1 o2 : out_equiv o1 o2 -> revs_distinct o2 -> revs_distinct o1.
Proof.
  inversion 1; subst; simpl; auto. intros Hd.
  eapply Permutation_NoDup; [|exact Hd]. apply Permutation_map. now apply Permutation_sym.
Qed.

Lemma revs_distinct_refines o1 o2 : out_refines o1 o2 -> revs_distinct o2 -> revs_distinct o1.
Proof.
  inversion 1; subst; simpl; auto. intros Hd.
  eapply Permutation_NoDup; [|exact Hd]. apply Permutation_map. now apply Permutation_sym.
Qed.

(* ---------- the revisions a name query returns are pairwise different ---------- *)
Lemma sys_match_name q n r : In ("name", n) q -> sys_match q r = true -> rname r = n.
Proof.
  intros Hin Hm. unfold sys_match in Hm. rewrite forallb_forall in Hm.
  specialize (Hm _ Hin). simpl in Hm. apply String.eqb_eq in Hm. exact Hm.
Qed.

Lemma name_query_revs s q n : spec_wf s -> In ("name", n) q ->
  NoDup (map rver (filter (sys_match q) (map snd s))).
Proof.
  intros [Hnd Hk] Hin.
  assert (Hv : NoDup (map snd s)) by (eapply NoDup_snd_of_keys; eauto).
  assert (Hf : NoDup (filter (sys_match q) (map snd s))) by (now apply NoDup_filter).
  assert (Hinj : forall a b, In a (filter (sys_match q) (map snd s)) ->
                             In b (filter (sys_match q) (map snd s)) -> rver a = rver b -> a = b).
  { intros a b Ha Hb E. apply filter_In in Ha. apply filter_In in Hb.
    destruct Ha as [Ha Hma], Hb as [Hb Hmb].
    pose proof (sys_match_name q n a Hin Hma) as Na. pose proof (sys_match_name q n b Hin Hmb) as Nb.
    apply in_map_iff in Ha. apply in_map_iff in Hb.
    destruct Ha as [[ka a'] [Ea Ha]], Hb as [[kb b'] [Eb Hb]]. simpl in Ea, Eb. subst a' b'.
    pose proof (Hk _ _ Ha) as Ka. pose proof (Hk _ _ Hb) as Kb.
    assert (Hkk : kb = ka) by (rewrite Ka, Kb; unfold key_of; now rewrite Na, Nb, E). rewrite Hkk in Hb.
    assert (Hg : aget ka s = Some a) by (apply In_aget; auto).
    assert (Hg' : aget ka s = Some b) by (apply In_aget; auto). congruence. }
  clear - Hf Hinj. induction (filter (sys_match q) (map snd s)) as [|a l IH]; simpl; [constructor|].
  inversion Hf; subst. constructor.
  - intros Hi. apply in_map_iff in Hi. destruct Hi as [b [E Hb]].
    assert (b = a) by (apply Hinj; simpl; auto). subst. auto.
  - apply IH; auto. intros x y Hx Hy. apply Hinj; simpl; auto.
Qed.

Lemma sstep_wf s x : spec_wf s -> spec_wf (fst (sstep spec_step s x)).
Proof.
  intros H. destruct x as [o|n v st]; simpl; [now apply spec_step_wf|].
  unfold rmw. destruct (snd (spec_step s (rmw_query n v))) as [|e|r|l]; cbn [fst]; auto.
  destruct l as [|r [|r2 t]]; cbn [fst]; auto. now apply spec_step_wf.
Qed.

Lemma sexec_wf xs : forall s, spec_wf s -> spec_wf (sexec spec_step s xs).
Proof. induction xs as [|x t IH]; intros s H; simpl; auto. apply IH. now apply sstep_wf. Qed.

Lemma query_revs_distinct xs q n : In ("name", n) q ->
  revs_distinct (snd (spec_step (sexec spec_step [] xs) (OQuery q))).
Proof.
  intros Hin. simpl.
  pose proof (name_query_revs (sexec spec_step [] xs) q n (sexec_wf xs [] spec_wf_nil) Hin) as H.
  destruct (filter (sys_match q) (map snd (sexec spec_step [] xs))); simpl; auto.
Qed.

(* ---------- run of a sequence followed by one more call ---------- *)
Lemma srun_app {S} (step : S -> op -> S * out) xs : forall s ys,
  srun step s (xs ++ ys) = (srun step s xs ++ srun step (sexec step s xs) ys)%list.
Proof.
  induction xs as [|x t IH]; intros s ys; simpl; auto.
  destruct (sstep step s x) as [s' o]. simpl. now rewrite IH.
Qed.

Lemma srun_single {S} (step : S -> op -> S * out) s x : srun step s [x] = [snd (sstep step s x)].
Proof. simpl. now destruct (sstep step s x). Qed.

Lemma Forall2_last {A B} (R : A -> B -> Prop) l1 l2 a b :
  Forall2 R (l1 ++ [a]) (l2 ++ [b]) -> R a b.
Proof.
  intros H. apply Forall2_app_inv_l in H. destruct H as (l1' & l2' & H1 & H2 & E).
  inversion H2 as [|? b' ? l3 Hab H3]; subst. inversion H3; subst.
  apply app_inj_tail in E. destruct E as [_ <-]. exact Hab.
Qed.

Lemma map_app_last {A B} (f : A -> B) l a : map f (l ++ [a]) = (map f l ++ [f a])%list.
Proof. now rewrite map_app. Qed.

(* ---------- Last / Deployed / sorted History on every backend ---------- *)
Section AllReads.
  Variable B : Type.
  Variable enc : rel -> B.
  Variable dec : B -> option rel.
  Variable valid_label_value : string -> bool.
  Hypothesis codec : forall r, option_map unlabel (dec (enc r)) = Some (unlabel r).
  Notation kstep := (kube_step B enc dec valid_label_value).

  Lemma reads_any_query empty fe ns0 ns1 xs q n :
    (forall e1 e2, err_refines e1 e2 -> err_refines (fe e1) (fe e2)) ->
    In ("name", n) q ->
    let ref := snd (spec_step (sexec spec_step [] (map norm_sop xs)) (OQuery q)) in
    (Forall (call_in_ns ns0) xs ->
       let o := snd (mem_step (sexec mem_step (mkMem ns1 []) xs) (OQuery q)) in
       norm_out (newest_with empty fe o) = newest_with empty fe ref /\
       norm_out (sorted_of o) = sorted_of ref) /\
    (Forall (call_ok valid_label_value) xs -> query_ok valid_label_value q ->
       let o := snd (kstep (sexec kstep [] xs) (OQuery q)) in
       out_refines (norm_out (newest_with empty fe o)) (newest_with empty fe ref) /\
       out_refines (norm_out (sorted_of o)) (sorted_of ref)).
  Proof.
    intros Hfe Hin ref.
    pose proof (query_revs_distinct (map norm_sop xs) q n Hin) as Hd. fold ref in Hd.
    split.
    - intros Hns o.
      assert (Hx : Forall (call_in_ns ns0) (xs ++ [SOp (OQuery q)])).
      { apply Forall_app. split; [assumption|repeat constructor]. }
      pose proof (mem_refines_spec_all ns0 ns1 _ Hx) as H.
      rewrite map_app_last, !srun_app, !srun_single, map_app_last in H. cbn [map_sop norm_sop map_op sstep] in H.
      apply Forall2_last in H. fold o in H. fold ref in H.
      rewrite <- newest_norm, <- sorted_norm.
      apply picks_equiv; [exact H|eapply revs_distinct_equiv; eauto].
    - intros Hok Hq o.
      assert (Hx : Forall (call_ok valid_label_value) (xs ++ [SOp (OQuery q)])).
      { apply Forall_app. split; [assumption|constructor; [exact Hq|constructor]]. }
      pose proof (kube_refines_spec_all B enc dec valid_label_value codec _ Hx) as H.
      rewrite map_app_last, !srun_app, !srun_single, map_app_last in H. cbn [map_sop norm_sop map_op sstep] in H.
      apply Forall2_last in H. fold o in H. fold ref in H.
      rewrite <- newest_norm, <- sorted_norm.
      apply picks_refine; [exact Hfe|exact H|eapply revs_distinct_refines; eauto].
  Qed.

  Lemma history_query_ok n : valid_label_value n = true -> valid_label_value "helm" = true ->
    query_ok valid_label_value (history_query n).
  Proof.
    intros H1 H2 k v [E|[E|[]]]; inversion E; subst; simpl; auto.
  Qed.

  Lemma deployed_query_ok n : valid_label_value n = true -> valid_label_value "helm" = true ->
    valid_label_value "deployed" = true -> query_ok valid_label_value (deployed_query n).
  Proof.
    intros H1 H2 H3 k v [E|[E|[E|[]]]]; inversion E; subst; simpl; auto.
  Qed.

  (* Storage.Last, Storage.Deployed and the revision-sorted History of a release name, after
     any call sequence, on every backend *)
  Theorem reads_order_independent ns0 ns1 xs n :
    let sref := sexec spec_step [] (map norm_sop xs) in
    (Forall (call_in_ns ns0) xs ->
       let m := sexec mem_step (mkMem ns1 []) xs in
       norm_out (storage_last mem_step m n) = storage_last spec_step sref n /\
       norm_out (storage_deployed mem_step m n) = storage_deployed spec_step sref n /\
       norm_out (sorted_of (snd (mem_step m (OQuery (history_query n))))) =
         sorted_of (snd (spec_step sref (OQuery (history_query n))))) /\
    (Forall (call_ok valid_label_value) xs ->
     valid_label_value n = true -> valid_label_value "helm" = true -> valid_label_value "deployed" = true ->
       let k := sexec kstep [] xs in
       out_refines (norm_out (storage_last kstep k n)) (storage_last spec_step sref n) /\
       out_refines (norm_out (storage_deployed kstep k n)) (storage_deployed spec_step sref n) /\
       out_refines (norm_out (sorted_of (snd (kstep k (OQuery (history_query n))))))
                   (sorted_of (snd (spec_step sref (OQuery (history_query n)))))).
  Proof.
    intros sref.
    assert (Hid : forall e1 e2, err_refines e1 e2 -> err_refines ((fun e => e) e1) ((fun e => e) e2)) by auto.
    assert (Hc : forall e1 e2 : err, err_refines e1 e2 -> err_refines ((fun _ => EOther) e1) ((fun _ => EOther) e2))
      by (intros; now left).
    assert (Hh : In ("name", n) (history_query n)) by (left; reflexivity).
    assert (Hdq : In ("name", n) (deployed_query n)) by (left; reflexivity).
    destruct (reads_any_query EOther (fun e => e) ns0 ns1 xs _ n Hid Hh) as [M1 K1].
    destruct (reads_any_query EOther (fun _ => EOther) ns0 ns1 xs _ n Hc Hdq) as [M2 K2].
    split.
    - intros Hns m. destruct (M1 Hns) as [A Bs]. destruct (M2 Hns) as [C _].
      unfold storage_last, storage_deployed, last_of, deployed_of. auto.
    - intros Hok Hn Hh' Hd' k.
      destruct (K1 Hok (history_query_ok n Hn Hh')) as [A Bs].
      destruct (K2 Hok (deployed_query_ok n Hn Hh' Hd')) as [C _].
      unfold storage_last, storage_deployed, last_of, deployed_of. auto.
  Qed.
End AllReads.

(* two listings of the same three revisions in different orders *)
Example order_ex :
  let a := mkRel "app" "default" 1 "superseded" [] 1%N in
  let b := mkRel "app" "default" 2 "superseded" [] 2%N in
  let c := mkRel "app" "default" 3 "deployed" [] 3%N in
  last_of (RRels [b; c; a]) = RRel c /\ deployed_of (RRels [c; a; b]) = RRel c /\
  sorted_of (RRels [b; c; a]) = RRels [a; b; c] /\ [b; c; a] <> [c; a; b].
Proof. vm_compute. repeat split. discriminate. Qed.

Theorem sort_order_independent (A : Type) (key : A -> nat) (l1 l2 : list A) :
  Permutation l1 l2 -> NoDup (map key l1) ->
  ksort A key l1 = ksort A key l2 /\ kmax A key l1 = kmax A key l2.
Proof. intros Hp Hn. split; [now apply ksort_perm|now apply kmax_perm]. Qed.

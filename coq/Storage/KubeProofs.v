(* C10: the Secret / ConfigMap driver model refines the reference map for every call
   sequence, given that the body codec round-trips. *)
From Coq Require Import List String Ascii Bool Arith Lia Permutation.
From Helm Require Import Common.Assoc Common.Strs Storage.Spec Storage.Mem Storage.Kube
  Storage.Proofs Storage.Lemmas Storage.Refine.
Import ListNotations.
Local Open Scope string_scope.

(* ---------- labels ---------- *)
Lemma from_map_fresh (src dst : list (string * string)) :
  NoDup (map fst src) -> (forall k, In k (map fst src) -> ~ In k (akeys dst)) ->
  from_map src dst = (dst ++ src)%list.
Proof.
  unfold from_map. revert dst. induction src as [|[k v] t IH]; intros dst Hnd Hfr; simpl.
  - now rewrite app_nil_r.
  - simpl in Hnd. inversion Hnd as [|? ? Hni Hnd']; subst.
    rewrite aset_absent by (apply notin_aget_None, Hfr; simpl; auto).
    rewrite IH; auto.
    + now rewrite <- app_assoc.
    + intros k' Hk'. rewrite akeys_app, in_app_iff. simpl. intros [H|[H|[]]].
      * apply (Hfr k'); simpl; auto.
      * subst k'. tauto.
Qed.

Lemma from_map_same (src dst : list (string * string)) :
  (forall k v, In (k, v) src -> aget k dst = Some v) -> from_map src dst = dst.
Proof.
  unfold from_map. induction src as [|[k v] t IH]; intros H; simpl; auto.
  rewrite aset_same by (apply H; simpl; auto). apply IH. intros; apply H; simpl; auto.
Qed.

Lemma stamp_is_system stamp : is_stamp stamp -> In stamp system_label_keys.
Proof. intros [->| ->]; simpl; auto 10. Qed.

Lemma sys_keys_system k : In k sys_keys -> In k system_label_keys.
Proof. simpl. intuition. Qed.

Lemma object_labels_eq stamp r :
  labels_ok (rlabels r) -> is_stamp stamp ->
  object_labels stamp r = (rlabels r ++ (stamp, "0") :: sys_labels r)%list.
Proof.
  intros [Hnd Hdis] Hst. unfold object_labels.
  rewrite (from_map_fresh (rlabels r) []); auto.
  change ([] ++ rlabels r)%list with (rlabels r).
  rewrite aset_absent.
  2:{ apply notin_aget_None. intros H. apply (Hdis stamp H). now apply stamp_is_system. }
  rewrite (from_map_same (rlabels r)).
  2:{ intros k v H. rewrite aget_app. now rewrite (In_aget _ _ _ Hnd H). }
  rewrite from_map_fresh.
  - now rewrite <- app_assoc.
  - simpl. repeat constructor; simpl; intuition discriminate.
  - intros k Hk. rewrite akeys_app, in_app_iff. intros [H|H].
    + apply (Hdis k H). simpl in Hk. simpl. intuition.
    + simpl in H, Hk. destruct Hst as [->| ->]; intuition (subst; discriminate).
Qed.

Lemma user_label_not_system l kv :
  labels_ok l -> In kv l -> negb (is_system_label (fst kv)) = true.
Proof.
  intros [_ Hdis] Hin. apply negb_true_iff. unfold is_system_label.
  destruct (existsb (String.eqb (fst kv)) system_label_keys) eqn:E; auto.
  apply existsb_exists in E. destruct E as [x [Hx E]]. apply String.eqb_eq in E. subst x.
  exfalso. apply (Hdis (fst kv)); auto. now apply in_map.
Qed.

Lemma filter_object_labels stamp r :
  labels_ok (rlabels r) -> is_stamp stamp ->
  filter_system_labels (object_labels stamp r) = rlabels r.
Proof.
  intros Hok Hst. rewrite object_labels_eq by assumption. unfold filter_system_labels.
  rewrite filter_app. rewrite filter_all by (intros; eapply user_label_not_system; eauto).
  destruct Hst as [->| ->]; simpl; now rewrite app_nil_r.
Qed.

Lemma aget_object_labels_sys stamp r k :
  labels_ok (rlabels r) -> is_stamp stamp -> In k sys_keys ->
  aget k (object_labels stamp r) = Some (get_or_empty k (sys_labels r)).
Proof.
  intros Hok Hst Hk. rewrite object_labels_eq by assumption. rewrite aget_app.
  rewrite notin_aget_None.
  2:{ destruct Hok as [_ Hdis]. intros H. apply (Hdis k H). now apply sys_keys_system. }
  simpl in Hk. destruct Hst as [->| ->];
    destruct Hk as [<-|[<-|[<-|[<-|[]]]]]; reflexivity.
Qed.

Lemma rel_eta r : mkRel (rname r) (rns r) (rver r) (rstatus r) (rlabels r) (rbody r) = r.
Proof. now destruct r. Qed.

Lemma strip_rel_ok r : labels_ok (rlabels r) -> strip_rel r = r.
Proof.
  intros Hok. unfold strip_rel.
  change (filter _ (rlabels r)) with (filter_system_labels (rlabels r)).
  unfold filter_system_labels.
  rewrite filter_all by (intros; eapply user_label_not_system; eauto). apply rel_eta.
Qed.

Section KubeRefines.
  Variable B : Type.
  Variable enc : rel -> B.
  Variable dec : B -> option rel.
  Variable valid_label_value : string -> bool.
  Hypothesis codec : forall r, dec (enc r) = Some r.

  Notation kstep := (kube_step B enc dec valid_label_value).
  Notation krun := (kube_run B enc dec valid_label_value).
  Notation kexec := (kube_exec B enc dec valid_label_value).
  Notation kget := (kube_get B dec).
  Notation op_ok := (kube_op_ok valid_label_value).

  (* a stored object and the release it holds *)
  Definition obj_rel (o : obj B) (r : rel) : Prop :=
    labels_ok (rlabels r) /\ exists stamp, is_stamp stamp /\ o = new_object B enc stamp r.

  Definition krel (k : kube B) (s : spec) : Prop := arel obj_rel k s.

  (* the release List/Query hand back for a stored object *)
  Definition listed (stamp : string) (r : rel) : rel :=
    mkRel (rname r) (rns r) (rver r) (rstatus r) (object_labels stamp r) (rbody r).

  Lemma strip_listed stamp r : labels_ok (rlabels r) -> is_stamp stamp -> strip_rel (listed stamp r) = r.
  Proof.
    intros Hok Hst. unfold strip_rel, listed. simpl.
    change (filter _ (object_labels stamp r)) with (filter_system_labels (object_labels stamp r)).
    rewrite filter_object_labels by assumption. apply rel_eta.
  Qed.

  Lemma decorated_listed stamp r : labels_ok (rlabels r) -> is_stamp stamp -> decorated (listed stamp r).
  Proof.
    intros Hok Hst. exists stamp, "0". split; auto.
    rewrite strip_listed by assumption.
    change (rlabels (listed stamp r)) with (object_labels stamp r).
    change (sys_labels (listed stamp r)) with (sys_labels r).
    now apply object_labels_eq.
  Qed.

  Lemma decode_item_obj o r : obj_rel o r -> exists stamp, is_stamp stamp /\
    decode_item B dec o = Some (listed stamp r).
  Proof.
    intros [Hok [stamp [Hst ->]]]. exists stamp. split; auto.
    unfold decode_item, new_object. simpl. now rewrite codec.
  Qed.

  Lemma decode_all_rel os rs : Forall2 obj_rel os rs ->
    map strip_rel (decode_all B dec os) = rs /\ Forall decorated (decode_all B dec os).
  Proof.
    induction 1 as [|o r os rs Hor H [IH1 IH2]]; simpl; [split; constructor|].
    destruct (decode_item_obj _ _ Hor) as [stamp [Hst E]]. rewrite E. destruct Hor as [Hok _].
    simpl. rewrite strip_listed by assumption. rewrite IH1. split; auto.
    constructor; auto. now apply decorated_listed.
  Qed.

  Lemma selects_obj q o r :
    obj_rel o r -> (forall k v, In (k, v) q -> In k sys_keys) ->
    selects B q o = sys_match q r.
  Proof.
    intros [Hok [stamp [Hst ->]]] Hq. unfold selects, sys_match. apply forallb_ext_in.
    intros [k v] Hin. simpl. rewrite aget_object_labels_sys; eauto.
  Qed.

  Lemma kube_get_sim k s key : krel k s ->
    kget k key = match aget key s with Some r => RRel r | None => RErr ENotFound end.
  Proof.
    intros Hr. pose proof (arel_aget obj_rel key _ _ Hr) as H. unfold kube_get.
    destruct (aget key k) as [o|]; destruct (aget key s) as [r|]; try tauto.
    destruct H as [Hok [stamp [Hst ->]]]. unfold new_object. simpl. rewrite codec.
    rewrite filter_object_labels by assumption. now rewrite rel_eta.
  Qed.

  Definition ksim_post (k : kube B) (s : spec) (k' : kube B) (s' : spec) (ok os : out) : Prop :=
    krel k' s' /\
    out_refines (strip_out ok) os /\
    (forall r, ok = RRel r -> os = RRel r) /\
    labels_shape ok /\
    (is_err os -> k' = k /\ s' = s /\ is_err ok).

  Lemma not_err_ok' : ~ is_err ROk.
  Proof. intros [e H]. discriminate. Qed.
  Lemma not_err_rel' r : ~ is_err (RRel r).
  Proof. intros [e H]. discriminate. Qed.
  Lemma not_err_rels' l : ~ is_err (RRels l).
  Proof. intros [e H]. discriminate. Qed.

  Lemma kpost_err k s e1 e2 :
    krel k s -> err_refines e1 e2 -> ksim_post k s k s (RErr e1) (RErr e2).
  Proof.
    intros Hr He. split; [|split; [|split; [|split]]]; auto.
    - now constructor.
    - discriminate.
    - constructor.
    - intros _. repeat split; auto. now exists e1.
  Qed.

  Lemma kpost_change k s k' s' ok os :
    krel k' s' -> out_refines (strip_out ok) os -> (forall r, ok = RRel r -> os = RRel r) ->
    labels_shape ok -> ~ is_err os -> ksim_post k s k' s' ok os.
  Proof. intros. split; [|split; [|split; [|split]]]; auto. tauto. Qed.

  Lemma kpost_rel k s k' s' r :
    krel k' s' -> labels_ok (rlabels r) -> ksim_post k s k' s' (RRel r) (RRel r).
  Proof.
    intros Hr Hok. apply kpost_change; auto using not_err_rel'.
    - simpl. rewrite strip_rel_ok by assumption. constructor.
    - now constructor.
  Qed.

  Lemma kpost_rels k s l rs :
    krel k s -> map strip_rel l = rs -> Forall decorated l -> ksim_post k s k s (RRels l) (RRels rs).
  Proof.
    intros Hr Hm Hd. apply kpost_change; auto using not_err_rels'.
    - simpl. rewrite Hm. now constructor.
    - discriminate.
    - now constructor.
  Qed.

  Lemma krel_labels_ok k s key r : krel k s -> aget key s = Some r -> labels_ok (rlabels r).
  Proof.
    intros Hr Hs. pose proof (arel_aget obj_rel key _ _ Hr) as H. rewrite Hs in H.
    destruct (aget key k); [|tauto]. apply H.
  Qed.

  Lemma kube_step_sim k s o :
    krel k s -> op_ok o ->
    ksim_post k s (fst (kstep k o)) (fst (spec_step s o)) (snd (kstep k o)) (snd (spec_step s o)).
  Proof.
    intros Hr Hop. destruct o as [r|r|n v|n v| |q]; simpl in Hop.
    - (* Create *)
      unfold kube_step, spec_step. pose proof (arel_aget obj_rel (key_of r) _ _ Hr) as H.
      destruct (aget (key_of r) k) as [o|]; destruct (aget (key_of r) s) as [r0|]; try tauto; simpl.
      + apply kpost_err; auto. now left.
      + apply kpost_change; auto using not_err_ok'; try constructor; try discriminate.
        apply arel_aset; auto. split; auto. exists "createdAt". split; [now left|reflexivity].
    - (* Update *)
      unfold kube_step, spec_step. pose proof (arel_aget obj_rel (key_of r) _ _ Hr) as H.
      destruct (aget (key_of r) k) as [o|]; destruct (aget (key_of r) s) as [r0|]; try tauto; simpl.
      + apply kpost_change; auto using not_err_ok'; try constructor; try discriminate.
        apply arel_aset; auto. split; auto. exists "modifiedAt". split; [now right|reflexivity].
      + apply kpost_err; auto. right. auto.
    - (* Get *)
      unfold kube_step, spec_step. simpl. rewrite (kube_get_sim k s) by assumption.
      destruct (aget (make_key n v) s) as [r|] eqn:Es; simpl.
      + apply kpost_rel; auto. eapply krel_labels_ok; eauto.
      + apply kpost_err; auto. now left.
    - (* Delete *)
      unfold kube_step, spec_step. rewrite (kube_get_sim k s) by assumption.
      destruct (aget (make_key n v) s) as [r|] eqn:Es; simpl.
      + apply kpost_rel.
        * now apply arel_adel.
        * eapply krel_labels_ok; eauto.
      + apply kpost_err; auto. now left.
    - (* List *)
      unfold kube_step, spec_step. simpl fst. simpl snd.
      pose proof (arel_values obj_rel _ _ Hr) as Hv.
      assert (Hf : Forall2 obj_rel (filter (selects B [("owner", "helm")]) (map snd k))
                                   (filter (sys_match [("owner", "helm")]) (map snd s))).
      { apply Forall2_filter; auto. intros a b Hab. apply selects_obj; auto.
        intros k0 v0 [E|[]]. inversion E; subst. simpl. auto. }
      rewrite (filter_all (sys_match _)) in Hf by reflexivity.
      destruct (decode_all_rel _ _ Hf) as [H1 H2].
      now apply kpost_rels.
    - (* Query *)
      unfold kube_step, spec_step.
      assert (Hvalid : forallb (fun kv => valid_label_value (snd kv)) q = true).
      { apply forallb_forall. intros [k0 v0] Hin. simpl. now apply (Hop k0 v0). }
      rewrite Hvalid.
      pose proof (arel_values obj_rel _ _ Hr) as Hv.
      assert (Hf : Forall2 obj_rel (filter (selects B q) (map snd k)) (filter (sys_match q) (map snd s))).
      { apply Forall2_filter; auto. intros a b Hab. apply selects_obj; auto.
        intros k0 v0 Hin. now apply (Hop k0 v0). }
      destruct (decode_all_rel _ _ Hf) as [H1 H2].
      destruct (filter (selects B q) (map snd k)) as [|o os] eqn:E1;
        destruct (filter (sys_match q) (map snd s)) as [|r rs] eqn:E2;
        try (now inversion Hf); simpl fst; simpl snd.
      + apply kpost_err; auto. now left.
      + now apply kpost_rels.
  Qed.

  Lemma krel_nil : krel [] [].
  Proof. constructor. Qed.

  Lemma kube_run_sim ops : forall k s,
    krel k s -> Forall op_ok ops ->
    Forall2 out_refines (map strip_out (krun k ops)) (spec_run s ops) /\
    Forall2 (fun ok os => forall r, ok = RRel r -> os = RRel r) (krun k ops) (spec_run s ops) /\
    Forall labels_shape (krun k ops).
  Proof.
    induction ops as [|o t IH]; intros k s Hr Hops; simpl; [repeat constructor|].
    inversion Hops; subst.
    destruct (kube_step_sim k s o Hr) as (Hr' & Ho & Hex & Hls & _); auto.
    destruct (kstep k o) as [k' ok]. destruct (spec_step s o) as [s' os]. simpl in *.
    destruct (IH _ _ Hr') as (I1 & I2 & I3); auto.
  Qed.

  Lemma kube_exec_rel ops : forall k s,
    krel k s -> Forall op_ok ops -> krel (kexec k ops) (spec_exec s ops).
  Proof.
    induction ops as [|o t IH]; intros k s Hr Hops; simpl; auto.
    inversion Hops; subst.
    destruct (kube_step_sim k s o Hr) as (Hr' & _); auto.
  Qed.

  (* ---------- the theorems ---------- *)
  Theorem kube_refines_spec ops :
    Forall op_ok ops ->
    Forall2 out_refines (map strip_out (krun [] ops)) (spec_run [] ops).
  Proof. intros H. now destruct (kube_run_sim ops [] [] krel_nil H). Qed.

  Theorem kube_get_exact ops :
    Forall op_ok ops ->
    Forall2 (fun ok os => forall r, ok = RRel r -> os = RRel r) (krun [] ops) (spec_run [] ops).
  Proof. intros H. now destruct (kube_run_sim ops [] [] krel_nil H) as (_ & ? & _). Qed.

  Theorem kube_labels ops :
    Forall op_ok ops -> Forall labels_shape (krun [] ops).
  Proof. intros H. now destruct (kube_run_sim ops [] [] krel_nil H) as (_ & _ & ?). Qed.

  Theorem kube_step_after ops o :
    Forall op_ok ops -> op_ok o ->
    let k := kexec [] ops in
    let s := spec_exec [] ops in
    out_refines (strip_out (snd (kstep k o))) (snd (spec_step s o)) /\
    (forall r, snd (kstep k o) = RRel r -> snd (spec_step s o) = RRel r) /\
    (is_err (snd (spec_step s o)) ->
       is_err (snd (kstep k o)) /\ fst (kstep k o) = k /\ fst (spec_step s o) = s).
  Proof.
    intros Hops Ho k s.
    pose proof (kube_exec_rel ops [] [] krel_nil Hops) as Hr.
    destruct (kube_step_sim _ _ o Hr Ho) as (_ & Hout & Hex & _ & Herr).
    split; auto. split; auto. intros He. destruct (Herr He) as (? & ? & ?). auto.
  Qed.
End KubeRefines.

(* C10: the memory driver model refines the reference map, for every call sequence whose
   written releases live in one namespace. *)
From Coq Require Import List String Ascii Bool Arith Lia Permutation.
From Helm Require Import Common.Assoc Common.Strs Storage.Spec Storage.Mem Storage.Kube
  Storage.Proofs Storage.Lemmas Storage.Refine.
Import ListNotations.
Local Open Scope string_scope.

(* ---------- per-namespace layer: name -> records  versus  key -> release ---------- *)
Definition nrecs := list (string * records).

Definition lookup (names : nrecs) (n k : string) : option rel :=
  match aget n names with Some recs => aget k recs | None => None end.

Definition recs_wf (n : string) (recs : records) : Prop :=
  NoDup (akeys recs) /\ forall k r, In (k, r) recs -> k = key_of r /\ rname r = n.

Definition names_wf (names : nrecs) : Prop :=
  NoDup (akeys names) /\ forall n recs, In (n, recs) names -> recs_wf n recs.

Definition spec_wf (s : spec) : Prop :=
  NoDup (akeys s) /\ forall k r, In (k, r) s -> k = key_of r.

Definition agree (names : nrecs) (s : spec) : Prop :=
  forall n v, lookup names n (make_key n v) = aget (make_key n v) s.

Definition flat (names : nrecs) : list (string * rel) := List.concat (map snd names).

Lemma make_key_eqb_name n1 v1 n2 v2 :
  n1 <> n2 -> String.eqb (make_key n1 v1) (make_key n2 v2) = false.
Proof.
  intros Hne. destruct (String.eqb_spec (make_key n1 v1) (make_key n2 v2)) as [E|]; auto.
  apply make_key_inj in E. tauto.
Qed.

(* -- records -- *)
Lemma In_rec_insert k r rs k' r' :
  In (k', r') (rec_insert k r rs) <-> (k', r') = (k, r) \/ In (k', r') rs.
Proof.
  induction rs as [|[k2 r2] t IH]; simpl.
  - intuition congruence.
  - destruct (Nat.ltb (rver r) (rver r2)); simpl; rewrite ?IH; intuition congruence.
Qed.

Lemma akeys_rec_insert k r rs : Permutation (akeys (rec_insert k r rs)) (k :: akeys rs).
Proof.
  unfold akeys. induction rs as [|[k2 r2] t IH]; simpl; auto.
  destruct (Nat.ltb (rver r) (rver r2)); simpl; auto.
  eapply perm_trans; [apply perm_skip, IH|apply perm_swap].
Qed.

Lemma aget_rec_insert k r rs k' :
  aget k rs = None ->
  aget k' (rec_insert k r rs) = if String.eqb k' k then Some r else aget k' rs.
Proof.
  induction rs as [|[k2 r2] t IH]; simpl; auto.
  destruct (String.eqb k k2) eqn:E; [discriminate|]. intros Hn.
  destruct (Nat.ltb (rver r) (rver r2)); simpl.
  - reflexivity.
  - rewrite IH by assumption.
    destruct (String.eqb k' k2) eqn:E2; auto.
    destruct (String.eqb_spec k' k) as [E3|]; auto. subst k'. congruence.
Qed.

Lemma recs_wf_single n r : rname r = n -> recs_wf n [(key_of r, r)].
Proof.
  intros Hn. split.
  - simpl. constructor; [simpl; tauto|constructor].
  - intros k r' [H|[]]. inversion H; subst. auto.
Qed.

Lemma recs_wf_insert n r recs :
  rname r = n -> recs_wf n recs -> aget (key_of r) recs = None ->
  recs_wf n (rec_insert (key_of r) r recs).
Proof.
  intros Hn [Hnd Hin] Habs. split.
  - eapply Permutation_NoDup; [apply Permutation_sym, akeys_rec_insert|].
    constructor; auto. now apply aget_None_notin.
  - intros k r' H. apply In_rec_insert in H. destruct H as [H|H].
    + inversion H; subst; auto.
    + now apply Hin.
Qed.

Lemma recs_wf_aset n r recs :
  rname r = n -> recs_wf n recs -> aget (key_of r) recs <> None ->
  recs_wf n (aset (key_of r) r recs).
Proof.
  intros Hn [Hnd Hin] Hpres. split.
  - now rewrite akeys_aset_present.
  - intros k r' H. apply In_aset in H. destruct H as [H|H].
    + inversion H; subst; auto.
    + now apply Hin.
Qed.

Lemma recs_wf_adel n k recs : recs_wf n recs -> recs_wf n (adel k recs).
Proof.
  intros [Hnd Hin]. split.
  - now apply NoDup_akeys_adel.
  - intros k' r' H. apply In_adel in H. now apply Hin.
Qed.

(* -- names -- *)
Lemma names_wf_nil : names_wf [].
Proof. split; [constructor|intros ? ? []]. Qed.

Lemma names_wf_aset n recs names : names_wf names -> recs_wf n recs -> names_wf (aset n recs names).
Proof.
  intros [Hnd Hin] Hr. split.
  - now apply NoDup_akeys_aset.
  - intros n' recs' H. apply In_aset in H. destruct H as [H|H].
    + inversion H; subst; auto.
    + now apply Hin.
Qed.

Lemma names_wf_get n recs names : names_wf names -> aget n names = Some recs -> recs_wf n recs.
Proof. intros [_ Hin] H. apply Hin. now apply aget_In. Qed.

(* one key changes on both sides in the same way *)
Lemma agree_upd names s n ver (f : option rel) recs' s' :
  agree names s ->
  (forall k, aget k recs' = if String.eqb k (make_key n ver) then f else lookup names n k) ->
  (forall k, aget k s' = if String.eqb k (make_key n ver) then f else aget k s) ->
  agree (aset n recs' names) s'.
Proof.
  intros Hag Hr Hs n' v'. unfold lookup. rewrite aget_aset, Hs.
  destruct (String.eqb_spec n' n) as [->|Hne].
  - rewrite Hr. destruct (String.eqb (make_key n v') (make_key n ver)); auto; apply Hag.
  - rewrite make_key_eqb_name by assumption. apply Hag.
Qed.

Lemma agree_nil_spec_nil s : spec_wf s -> agree [] s -> s = [].
Proof.
  intros [_ Hk] Hag. destruct s as [|[k r] t]; auto.
  specialize (Hk k r (or_introl eq_refl)). specialize (Hag (rname r) (rver r)).
  change (make_key (rname r) (rver r)) with (key_of r) in Hag. rewrite <- Hk in Hag.
  unfold lookup in Hag. cbn [aget] in Hag. rewrite String.eqb_refl in Hag. discriminate.
Qed.

(* -- the reference map -- *)
Lemma spec_wf_nil : spec_wf [].
Proof. split; [constructor|intros ? ? []]. Qed.

Lemma spec_wf_aset r s : spec_wf s -> spec_wf (aset (key_of r) r s).
Proof.
  intros [Hnd Hin]. split.
  - now apply NoDup_akeys_aset.
  - intros k r' H. apply In_aset in H. destruct H as [H|H].
    + inversion H; subst; auto.
    + now apply Hin.
Qed.

Lemma spec_wf_adel k s : spec_wf s -> spec_wf (adel k s).
Proof.
  intros [Hnd Hin]. split.
  - now apply NoDup_akeys_adel.
  - intros k' r' H. apply In_adel in H. now apply Hin.
Qed.

Lemma spec_step_wf s o : spec_wf s -> spec_wf (fst (spec_step s o)).
Proof.
  intros Hwf. destruct o as [r|r|n v|n v| |q]; simpl.
  - destruct (aget (key_of r) s); simpl; auto using spec_wf_aset.
  - destruct (aget (key_of r) s); simpl; auto using spec_wf_aset.
  - destruct (aget (make_key n v) s); simpl; auto.
  - destruct (aget (make_key n v) s); simpl; auto using spec_wf_adel.
  - auto.
  - destruct (filter (sys_match q) (map snd s)); simpl; auto.
Qed.

(* -- everything stored, as a multiset -- *)
Lemma flat_keys_nodup names : names_wf names -> NoDup (map fst (flat names)).
Proof.
  unfold flat. induction names as [|[n recs] t IH]; simpl; [constructor|].
  intros [Hnd Hin]. unfold akeys in Hnd. simpl in Hnd. inversion Hnd as [|? ? Hni Hnd']; subst.
  assert (Hwt : names_wf t) by (split; [exact Hnd'|intros; apply Hin; now right]).
  rewrite map_app. apply NoDup_app_intro.
  - apply (Hin n recs). now left.
  - auto.
  - intros k H1 H2.
    apply in_map_iff in H1. destruct H1 as [[k1 r1] [E1 H1]]. simpl in E1. subst k1.
    apply in_map_iff in H2. destruct H2 as [[k2 r2] [E2 H2]]. simpl in E2. subst k2.
    apply in_concat in H2. destruct H2 as [recs2 [Hr2 H2]].
    apply in_map_iff in Hr2. destruct Hr2 as [[n2 recs2'] [E Hr2]]. simpl in E. subst recs2'.
    destruct (Hin n recs (or_introl eq_refl)) as [_ Hk1]. destruct (Hk1 _ _ H1) as [Ek1 En1].
    destruct (Hin n2 recs2 (or_intror Hr2)) as [_ Hk2]. destruct (Hk2 _ _ H2) as [Ek2 En2].
    rewrite Ek2 in Ek1. apply make_key_inj in Ek1. destruct Ek1 as [En _].
    apply Hni. replace n with n2 by congruence.
    change n2 with (fst (n2, recs2)). now apply in_map.
Qed.

Lemma flat_perm names s :
  names_wf names -> spec_wf s -> agree names s -> Permutation (flat names) s.
Proof.
  intros Hnw [Hsnd Hsk] Hag. apply NoDup_Permutation.
  - apply NoDup_pairs_of_keys, flat_keys_nodup, Hnw.
  - apply NoDup_pairs_of_keys, Hsnd.
  - intros [k r]. destruct Hnw as [Hnnd Hnin]. split.
    + intros H. apply in_concat in H. destruct H as [recs [Hr H]].
      apply in_map_iff in Hr. destruct Hr as [[n recs'] [E Hr]]. simpl in E. subst recs'.
      destruct (Hnin _ _ Hr) as [Hrnd Hrk]. destruct (Hrk _ _ H) as [Ek En].
      apply aget_In. subst k n. unfold key_of in *. rewrite <- Hag. unfold lookup.
      rewrite (In_aget _ _ _ Hnnd Hr). now apply In_aget.
    + intros H. pose proof (Hsk _ _ H) as Ek. apply (In_aget _ _ _ Hsnd) in H.
      subst k. unfold key_of in *. rewrite <- Hag in H. unfold lookup in H.
      destruct (aget (rname r) names) as [recs|] eqn:En; [|discriminate].
      apply aget_In in En. apply aget_In in H. apply in_concat. exists recs. split; auto.
      apply in_map_iff. exists (rname r, recs). auto.
Qed.

(* ---------- the driver state ---------- *)
Section OneNamespace.
  Variable ns0 : string.

  Definition shape (m : mem) : Prop :=
    mcache m = [] \/ (mns m = ns0 /\ exists names, mcache m = [(ns0, names)]).

  Definition Inv (m : mem) (s : spec) : Prop :=
    shape m /\ names_wf (names_of m ns0) /\ spec_wf s /\ agree (names_of m ns0) s.

  Lemma shape_names_cur m : shape m -> names_of m (mns m) = names_of m ns0.
  Proof.
    unfold names_of. intros [H|[H _]]; [now rewrite H|now rewrite H].
  Qed.

  Lemma shape_aset m X : shape m -> aset ns0 X (mcache m) = [(ns0, X)].
  Proof.
    intros [H|[_ [names H]]]; rewrite H; simpl; auto. now rewrite String.eqb_refl.
  Qed.

  Lemma names_of_single X : names_of (mkMem ns0 [(ns0, X)]) ns0 = X.
  Proof. unfold names_of. simpl. now rewrite String.eqb_refl. Qed.

  Lemma shape_single X : shape (mkMem ns0 [(ns0, X)]).
  Proof. right. simpl. eauto. Qed.

  Lemma shape_aget_none m : shape m -> aget ns0 (mcache m) = None -> mcache m = [].
  Proof.
    intros [H|[_ [names H]]] Hn; auto. rewrite H in Hn. simpl in Hn.
    rewrite String.eqb_refl in Hn. discriminate.
  Qed.

  Lemma shape_aget_some m names : shape m -> aget ns0 (mcache m) = Some names ->
    mns m = ns0 /\ mcache m = [(ns0, names)].
  Proof.
    intros [H|[Hns [names' H]]] Hn; rewrite H in Hn; simpl in Hn; [discriminate|].
    rewrite String.eqb_refl in Hn. inversion Hn; subst. auto.
  Qed.

  Lemma shape_cur_some m names : shape m -> aget (mns m) (mcache m) = Some names ->
    mns m = ns0 /\ mcache m = [(ns0, names)].
  Proof.
    intros Hs Hn. destruct Hs as [H|[Hns [names' H]]].
    - rewrite H in Hn. discriminate.
    - rewrite Hns in Hn. apply shape_aget_some; auto. right. eauto.
  Qed.

  Lemma shape_cur_none m : shape m -> aget (mns m) (mcache m) = None -> names_of m ns0 = [].
  Proof.
    intros Hs Hn. rewrite <- shape_names_cur by assumption. unfold names_of. now rewrite Hn.
  Qed.

  Lemma visible_flat m : shape m -> mem_visible m = map snd (flat (names_of m ns0)).
  Proof.
    intros Hs. unfold mem_visible, flat. f_equal. f_equal.
    destruct (String.eqb (mns m) "").
    - unfold names_of. destruct Hs as [H|[_ [names H]]]; rewrite H; simpl; auto.
      rewrite String.eqb_refl. simpl. now rewrite app_nil_r.
    - simpl. rewrite app_nil_r. now rewrite shape_names_cur.
  Qed.

  (* what an operation that fails leaves behind *)
  Definition unchanged (m m' : mem) : Prop := mcache m' = mcache m /\ (mns m = ns0 -> m' = m).

  Lemma unchanged_refl m : unchanged m m.
  Proof. split; auto. Qed.

  Lemma mem_eta m : mkMem (mns m) (mcache m) = m.
  Proof. now destruct m. Qed.

  (* one step *)
  Definition sim_post (m : mem) (s : spec) (m' : mem) (s' : spec) (om os : out) : Prop :=
    Inv m' s' /\ out_equiv om os /\
    (is_err os -> s' = s /\ unchanged m m') /\
    (mns m = ns0 -> mns m' = ns0).

  Lemma post_same m s om os : Inv m s -> out_equiv om os -> sim_post m s m s om os.
  Proof. intros HI Ho. split; [|split; [|split]]; auto using unchanged_refl. Qed.

  Lemma post_changed m s X s' om os :
    names_wf X -> spec_wf s' -> agree X s' -> out_equiv om os -> ~ is_err os ->
    sim_post m s (mkMem ns0 [(ns0, X)]) s' om os.
  Proof.
    intros H1 H2 H3 Ho Hne. split; [|split; [|split]]; auto; [|tauto].
    split; [apply shape_single|]. rewrite names_of_single. auto.
  Qed.

  Lemma not_err_ok : ~ is_err ROk.
  Proof. intros [e H]. discriminate. Qed.
  Lemma not_err_rel r : ~ is_err (RRel r).
  Proof. intros [e H]. discriminate. Qed.

  Lemma mem_step_sim m s o :
    Inv m s -> op_in_ns ns0 o ->
    sim_post m s (fst (mem_step m o)) (fst (spec_step s o)) (snd (mem_step m o)) (snd (spec_step s o)).
  Proof.
    intros HI Hop. pose proof HI as (Hsh & Hnw & Hsw & Hag).
    destruct o as [r|r|n v|n v| |q]; simpl in Hop.
    - (* Create *)
      unfold mem_step. rewrite Hop. set (names := names_of m ns0) in *.
      unfold spec_step.
      assert (Hlk : lookup names (rname r) (key_of r) = aget (key_of r) s) by apply Hag.
      unfold lookup in Hlk.
      destruct (aget (rname r) names) as [recs|] eqn:En.
      + unfold amem. destruct (aget (key_of r) recs) as [r0|] eqn:Ek.
        * (* exists *)
          rewrite <- Hlk. simpl. rewrite shape_aset by assumption.
          assert (Hm : mcache m = [(ns0, names)] /\ mns m = ns0).
          { destruct Hsh as [H|[Hns [nm H]]].
            - exfalso. unfold names, names_of in En. rewrite H in En. discriminate.
            - split; auto. unfold names, names_of. rewrite H. simpl. now rewrite String.eqb_refl. }
          destruct Hm as [Hc Hns].
          assert (Hmm : mkMem ns0 [(ns0, names)] = m) by (rewrite <- Hc, <- Hns; apply mem_eta).
          rewrite Hmm. apply post_same; auto. constructor.
        * (* new revision of a known name *)
          rewrite <- Hlk. simpl. rewrite shape_aset by assumption.
          assert (Hrw : recs_wf (rname r) recs) by (eapply names_wf_get; eauto).
          apply post_changed; [| | |constructor|apply not_err_ok].
          -- apply names_wf_aset; auto. apply recs_wf_insert; auto.
          -- now apply spec_wf_aset.
          -- eapply agree_upd with (ver := rver r) (f := Some r); eauto.
             ++ intros k. rewrite aget_rec_insert by assumption. unfold lookup. now rewrite En.
             ++ intros k. apply aget_aset.
      + (* first revision of a name *)
        rewrite <- Hlk. simpl. rewrite shape_aset by assumption.
        apply post_changed; [| | |constructor|apply not_err_ok].
        * apply names_wf_aset; auto. now apply recs_wf_single.
        * now apply spec_wf_aset.
        * eapply agree_upd with (ver := rver r) (f := Some r); eauto.
          -- intros k. unfold lookup. rewrite En. cbn [aget]. change (make_key (rname r) (rver r)) with (key_of r).
             destruct (String.eqb k (key_of r)); auto.
          -- intros k. apply aget_aset.
    - (* Update *)
      unfold mem_step. rewrite Hop. unfold spec_step.
      assert (Hlk : lookup (names_of m ns0) (rname r) (key_of r) = aget (key_of r) s) by apply Hag.
      unfold lookup in Hlk.
      assert (Hfail : sim_post m s (mkMem ns0 (mcache m)) s (RErr ENotFound) (RErr ENotFound)).
      { split; [|split; [|split]]; auto; try constructor; auto.
        - destruct Hsh as [H|[Hns H]]; [left; exact H|right; simpl; auto].
        - split; [reflexivity|]. intros Hns. rewrite <- Hns. apply mem_eta. }
      destruct (aget ns0 (mcache m)) as [names|] eqn:Ec.
      + assert (Hnm : names_of m ns0 = names) by (unfold names_of; now rewrite Ec).
        rewrite Hnm in *.
        destruct (aget (rname r) names) as [recs|] eqn:En.
        * unfold amem. destruct (aget (key_of r) recs) as [r0|] eqn:Ek.
          -- rewrite <- Hlk. simpl. rewrite shape_aset by assumption.
             assert (Hrw : recs_wf (rname r) recs) by (eapply names_wf_get; eauto).
             apply post_changed; [| | |constructor|apply not_err_ok].
             ++ apply names_wf_aset; auto. apply recs_wf_aset; auto. congruence.
             ++ now apply spec_wf_aset.
             ++ eapply agree_upd with (ver := rver r) (f := Some r); eauto.
                ** intros k. rewrite aget_aset. unfold lookup. now rewrite En.
                ** intros k. apply aget_aset.
          -- rewrite <- Hlk. simpl. exact Hfail.
        * rewrite <- Hlk. simpl. exact Hfail.
      + assert (Hnm : names_of m ns0 = []) by (unfold names_of; now rewrite Ec).
        rewrite Hnm in Hlk. simpl in Hlk. rewrite <- Hlk. simpl. exact Hfail.
    - (* Get *)
      unfold mem_step. rewrite parse_make_key. unfold recs_of.
      rewrite shape_names_cur by assumption. unfold spec_step.
      rewrite <- (Hag n v). unfold lookup.
      destruct (aget n (names_of m ns0)) as [recs|]; [destruct (aget (make_key n v) recs)|];
        simpl; apply post_same; auto; constructor.
    - (* Delete *)
      unfold mem_step. rewrite parse_make_key. unfold spec_step.
      assert (Hlk : lookup (names_of m ns0) n (make_key n v) = aget (make_key n v) s) by apply Hag.
      unfold lookup in Hlk.
      destruct (aget (mns m) (mcache m)) as [names|] eqn:Ec.
      + destruct (shape_cur_some _ _ Hsh Ec) as [Hns Hc].
        assert (Hnm : names_of m ns0 = names) by (unfold names_of; rewrite Hc; simpl; now rewrite String.eqb_refl).
        rewrite Hnm in *.
        destruct (aget n names) as [recs|] eqn:En.
        * destruct (aget (make_key n v) recs) as [r0|] eqn:Ek.
          -- rewrite <- Hlk. simpl. rewrite Hns. rewrite shape_aset by assumption.
             assert (Hrw : recs_wf n recs) by (eapply names_wf_get; eauto).
             apply post_changed; [| | |constructor|apply not_err_rel].
             ++ apply names_wf_aset; auto. now apply recs_wf_adel.
             ++ now apply spec_wf_adel.
             ++ eapply agree_upd with (ver := v) (f := None); eauto.
                ** intros k. rewrite aget_adel. unfold lookup. now rewrite En.
                ** intros k. apply aget_adel.
          -- rewrite <- Hlk. simpl. apply post_same; auto; constructor.
        * rewrite <- Hlk. simpl. apply post_same; auto; constructor.
      + rewrite (shape_cur_none _ Hsh Ec) in Hlk. simpl in Hlk. rewrite <- Hlk. simpl.
        apply post_same; auto; constructor.
    - (* List *)
      simpl. apply post_same; auto.
      constructor. rewrite visible_flat by assumption. apply Permutation_map.
      now apply flat_perm.
    - (* Query *)
      unfold mem_step, spec_step.
      assert (Hp : Permutation (filter (sys_match q) (mem_visible m)) (filter (sys_match q) (map snd s))).
      { apply perm_filter. rewrite visible_flat by assumption. apply Permutation_map. now apply flat_perm. }
      pose proof (perm_nil_iff _ _ Hp) as Hnil.
      destruct (filter (sys_match q) (mem_visible m)) as [|a l] eqn:E1;
        destruct (filter (sys_match q) (map snd s)) as [|b l'] eqn:E2; simpl.
      + apply post_same; auto; constructor.
      + exfalso. destruct Hnil as [H _]. specialize (H eq_refl). discriminate.
      + exfalso. destruct Hnil as [_ H]. specialize (H eq_refl). discriminate.
      + apply post_same; auto. now constructor.
  Qed.

  (* all call sequences *)
  Lemma mem_run_sim ops : forall m s,
    Inv m s -> Forall (op_in_ns ns0) ops ->
    Forall2 out_equiv (mem_run m ops) (spec_run s ops).
  Proof.
    induction ops as [|o t IH]; intros m s HI Hops; simpl; [constructor|].
    inversion Hops; subst.
    destruct (mem_step_sim m s o HI) as (HI' & Ho & _); auto.
    destruct (mem_step m o) as [m' om]. destruct (spec_step s o) as [s' os]. simpl in *.
    constructor; auto.
  Qed.

  Lemma mem_exec_inv ops : forall m s,
    Inv m s -> Forall (op_in_ns ns0) ops ->
    Inv (mem_exec m ops) (spec_exec s ops) /\ (mns m = ns0 -> mns (mem_exec m ops) = ns0).
  Proof.
    induction ops as [|o t IH]; intros m s HI Hops; simpl; [auto|].
    inversion Hops; subst.
    destruct (mem_step_sim m s o HI) as (HI' & _ & _ & Hns); auto.
    destruct (IH _ _ HI') as [Ha Hb]; auto.
  Qed.

  Lemma Inv_init ns1 : Inv (mkMem ns1 []) [].
  Proof.
    split; [left; reflexivity|]. unfold names_of. simpl.
    split; [apply names_wf_nil|]. split; [apply spec_wf_nil|]. intros n v. reflexivity.
  Qed.
End OneNamespace.

(* ---------- the theorems ---------- *)
(* whatever namespace the driver was configured with before the first write *)
Theorem mem_refines_spec ns0 ns1 ops :
  Forall (op_in_ns ns0) ops ->
  Forall2 out_equiv (mem_run (mkMem ns1 []) ops) (spec_run [] ops).
Proof. intros H. eapply mem_run_sim; eauto using Inv_init. Qed.

(* after any history: one more call is answered as the reference map answers it, and a
   failing call leaves the store as it was *)
Theorem mem_step_after ns0 ops o :
  Forall (op_in_ns ns0) ops -> op_in_ns ns0 o ->
  let m := mem_exec (mkMem ns0 []) ops in
  let s := spec_exec [] ops in
  out_equiv (snd (mem_step m o)) (snd (spec_step s o)) /\
  (is_err (snd (spec_step s o)) -> fst (mem_step m o) = m /\ fst (spec_step s o) = s).
Proof.
  intros Hops Ho m s.
  destruct (mem_exec_inv ns0 ops (mkMem ns0 []) [] (Inv_init ns0 ns0) Hops) as [HI Hns].
  specialize (Hns eq_refl).
  destruct (mem_step_sim ns0 _ _ o HI Ho) as (_ & Hout & Herr & _).
  split; auto. intros He. destruct (Herr He) as [Hs [_ Hm]]. split; auto.
Qed.

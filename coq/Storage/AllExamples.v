(* C10, all backends: non-vacuity.  A call sequence whose releases carry system keys in their own
   label maps (a stale name/status as a release that came back from List/Query has, a
   createdAt/modifiedAt, a repeated key) and that reads, modifies and writes back. *)
From Coq Require Import List String Ascii Bool Arith NArith Permutation.
From Helm Require Import Common.Assoc Common.Strs Storage.Spec Storage.Mem Storage.Kube Storage.Rmw
  Storage.Refine Storage.Examples Storage.Calls.
Import ListNotations.
Local Open Scope string_scope.

(* its label map says name=other, status=failed, owner=tiller, createdAt=77 and has "team" twice *)
Definition exa_r1 : rel :=
  mkRel "a.v1" "team-a" 1 "deployed"
        [("team", "x"); ("name", "other"); ("status", "failed"); ("owner", "tiller");
         ("createdAt", "77"); ("team", "y"); ("version", "9")] 7.
Definition exa_r2 : rel := mkRel "a.v1" "team-a" 2 "deployed" [("modifiedAt", "5"); ("env", "")] 8.

Definition exa_ops : list sop :=
  [ SOp (OCreate exa_r1); SOp (OCreate exa_r1); SOp (OGet "a.v1" 1);
    SOp (OQuery [("status", "failed")]);            (* the stale label selects nothing *)
    SOp (OQuery [("name", "a.v1"); ("owner", "helm"); ("status", "deployed")]);
    SRmw "a.v1" 1 "superseded";                     (* read back through Query, written with Update *)
    SOp (OQuery [("status", "deployed")]); SOp (OQuery [("status", "superseded")]);
    SOp (OUpdate exa_r2); SOp (OCreate exa_r2); SRmw "a.v1" 2 "failed"; SRmw "a.v1" 3 "failed";
    SOp OList; SOp (OGet "a.v1" 2); SOp (ODelete "a.v1" 1); SOp (OGet "a.v1" 1) ].

(* the reference map holds the user labels: one "team" (the last value), no system key *)
Definition exa_n1 : rel := mkRel "a.v1" "team-a" 1 "deployed" [("team", "y")] 7.
Definition exa_n1s : rel := mkRel "a.v1" "team-a" 1 "superseded" [("team", "y")] 7.
Definition exa_n2f : rel := mkRel "a.v1" "team-a" 2 "failed" [("env", "")] 8.

Definition exa_ref : list out :=
  [ ROk; RErr EExists; RRel exa_n1; RErr ENotFound; RRels [exa_n1]; ROk;
    RErr ENotFound; RRels [exa_n1s]; RErr ENotFound; ROk; ROk; RErr ENotFound;
    RRels [exa_n1s; exa_n2f]; RRel exa_n2f; RRel exa_n1s; RErr ENotFound ].

Definition exa_krun := srun (kube_step rel (fun r => r) (fun b => Some b) ex_valid).

Lemma exa_in_ns : Forall (call_in_ns "team-a") exa_ops.
Proof. repeat constructor. Qed.

Lemma exa_call_ok : Forall (call_ok ex_valid) exa_ops.
Proof.
  unfold exa_ops. repeat (apply Forall_cons || apply Forall_nil); simpl; auto;
    intros k v H; simpl in H;
    repeat (destruct H as [H|H]; [inversion H; subst; simpl; auto 10|]); destruct H.
Qed.

Lemma exa_ref_outs : srun spec_step [] (map norm_sop exa_ops) = exa_ref.
Proof. vm_compute. reflexivity. Qed.

(* both models, after the projection, answer exactly what the reference map answers - except
   that Update of a missing key is "an error" on the Kubernetes drivers *)
Lemma exa_mem_outs : map norm_out (srun mem_step mem_init exa_ops) = exa_ref.
Proof. vm_compute. reflexivity. Qed.

Definition exa_kube_ref : list out :=
  [ ROk; RErr EExists; RRel exa_n1; RErr ENotFound; RRels [exa_n1]; ROk;
    RErr ENotFound; RRels [exa_n1s]; RErr EOther; ROk; ROk; RErr ENotFound;
    RRels [exa_n1s; exa_n2f]; RRel exa_n2f; RRel exa_n1s; RErr ENotFound ].

Lemma exa_kube_outs : map norm_out (exa_krun [] exa_ops) = exa_kube_ref.
Proof. vm_compute. reflexivity. Qed.

(* without the projection the backends do differ, in the way the drivers are written: the
   memory driver hands back the label map it was given, Get on the Kubernetes drivers drops
   the system keys, List/Query on them add the stored object's *)
Lemma exa_unprojected_differ :
  nth 2 (srun mem_step mem_init exa_ops) ROk = RRel exa_r1 /\
  nth 2 (exa_krun [] exa_ops) ROk = RRel exa_n1 /\
  nth 4 (exa_krun [] exa_ops) ROk =
    RRels [mkRel "a.v1" "team-a" 1 "deployed"
             [("team", "y"); ("name", "a.v1"); ("status", "deployed"); ("owner", "helm");
              ("createdAt", "77"); ("version", "1")] 7].
Proof. vm_compute. repeat split. Qed.

Lemma exa_all :
  Forall (call_in_ns "team-a") exa_ops /\ Forall (call_ok ex_valid) exa_ops /\
  (forall r : rel, option_map unlabel (Some r) = Some (unlabel r)) /\
  srun spec_step [] (map norm_sop exa_ops) = exa_ref /\
  map norm_out (srun mem_step mem_init exa_ops) = exa_ref /\
  map norm_out (exa_krun [] exa_ops) = exa_kube_ref /\
  map norm_sop exa_ops <> exa_ops.
Proof.
  split; [exact exa_in_ns|]. split; [exact exa_call_ok|]. split; [reflexivity|].
  split; [exact exa_ref_outs|]. split; [exact exa_mem_outs|]. split; [exact exa_kube_outs|].
  vm_compute. discriminate.
Qed.

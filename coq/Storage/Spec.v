(* Abstract release store: a finite map from (name, revision) — represented by the
   storage key string — to a release.  This is the specification the three drivers
   are proved to refine (C10). *)
From Coq Require Import List String Bool Arith NArith.
From Helm Require Import Common.Assoc Common.Strs.
Import ListNotations.
Open Scope string_scope.

(* A stored release, projected to what the storage layer looks at.  [rbody] stands for
   the rest of the release (chart, values, manifest, hooks, timestamps ...): an opaque
   content identifier; the harness maps every distinct content to a distinct id and
   checks the byte-level round trip itself. *)
Record rel := mkRel {
  rname : string; rns : string; rver : nat; rstatus : string;
  rlabels : list (string * string);      (* user labels *)
  rbody : N }.

Definition lbl_eqb (a b : string * string) : bool :=
  String.eqb (fst a) (fst b) && String.eqb (snd a) (snd b).

Fixpoint list_eqb {A} (f : A -> A -> bool) (l1 l2 : list A) : bool :=
  match l1, l2 with
  | [], [] => true
  | x :: t1, y :: t2 => f x y && list_eqb f t1 t2
  | _, _ => false
  end.

(* label maps are unordered: compared as finite maps *)
Definition labels_sub (l1 l2 : list (string * string)) : bool :=
  forallb (fun kv => match aget (fst kv) l2 with Some v => String.eqb v (snd kv) | None => false end) l1.
Definition labels_eqb (l1 l2 : list (string * string)) : bool := labels_sub l1 l2 && labels_sub l2 l1.

Definition rel_eqb (a b : rel) : bool :=
  String.eqb (rname a) (rname b) && String.eqb (rns a) (rns b) && Nat.eqb (rver a) (rver b)
  && String.eqb (rstatus a) (rstatus b) && labels_eqb (rlabels a) (rlabels b)
  && N.eqb (rbody a) (rbody b).

Definition storage_prefix : string := "sh.helm.release.v1".

(* storage.makeKey *)
Definition make_key (name : string) (ver : nat) : string :=
  storage_prefix ++ "." ++ name ++ ".v" ++ show_nat ver.

Definition key_of (r : rel) : string := make_key (rname r) (rver r).

(* Operations at the level of storage.Storage's embedded driver: keys are always
   makeKey(name, version). *)
Inductive op :=
| OCreate (r : rel) | OUpdate (r : rel)
| OGet (name : string) (ver : nat) | ODelete (name : string) (ver : nat)
| OList                                  (* List with the constant-true filter *)
| OQuery (kvs : list (string * string)).

Inductive err := EExists | ENotFound | EInvalidKey | EOther.
Inductive out := ROk | RErr (e : err) | RRel (r : rel) | RRels (l : list rel).

Definition err_eqb (a b : err) : bool :=
  match a, b with
  | EExists, EExists | ENotFound, ENotFound | EInvalidKey, EInvalidKey | EOther, EOther => true
  | _, _ => false
  end.

(* system labels a record is filed under (newRecord / newSecretsObject) *)
Definition sys_labels (r : rel) : list (string * string) :=
  [("name", rname r); ("owner", "helm"); ("status", rstatus r); ("version", show_nat (rver r))].

Definition sys_keys : list string := ["name"; "owner"; "status"; "version"].

Definition get_or_empty (k : string) (l : list (string * string)) : string :=
  match aget k l with Some v => v | None => "" end.

(* labels.match *)
Definition sys_match (q : list (string * string)) (r : rel) : bool :=
  forallb (fun kv => String.eqb (get_or_empty (fst kv) (sys_labels r)) (snd kv)) q.

Definition spec := list (string * rel).

Definition spec_step (s : spec) (o : op) : spec * out :=
  match o with
  | OCreate r =>
      match aget (key_of r) s with
      | Some _ => (s, RErr EExists)
      | None => (aset (key_of r) r s, ROk)
      end
  | OUpdate r =>
      match aget (key_of r) s with
      | Some _ => (aset (key_of r) r s, ROk)
      | None => (s, RErr ENotFound)
      end
  | OGet n v =>
      match aget (make_key n v) s with
      | Some r => (s, RRel r)
      | None => (s, RErr ENotFound)
      end
  | ODelete n v =>
      match aget (make_key n v) s with
      | Some r => (adel (make_key n v) s, RRel r)
      | None => (s, RErr ENotFound)
      end
  | OList => (s, RRels (map snd s))
  | OQuery q =>
      match filter (sys_match q) (map snd s) with
      | [] => (s, RErr ENotFound)
      | l => (s, RRels l)
      end
  end.

(* results are compared as sets for the list-valued operations; an error class
   "some error" is all a caller can rely on for update-of-missing on the
   Kubernetes backends (they wrap the API error), so EOther ~ ENotFound there *)
Definition subset_b (l1 l2 : list rel) : bool := forallb (fun r => existsb (rel_eqb r) l2) l1.

Definition out_equiv_b (a b : out) : bool :=
  match a, b with
  | ROk, ROk => true
  | RErr e1, RErr e2 => err_eqb e1 e2
  | RRel r1, RRel r2 => rel_eqb r1 r2
  | RRels l1, RRels l2 => subset_b l1 l2 && subset_b l2 l1 && Nat.eqb (List.length l1) (List.length l2)
  | _, _ => false
  end.

Fixpoint spec_run (s : spec) (ops : list op) : list out :=
  match ops with
  | [] => []
  | o :: t => let '(s', r) := spec_step s o in r :: spec_run s' t
  end.

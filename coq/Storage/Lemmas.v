(* Generic list / association-list lemmas used by the storage refinement proofs (C10).
   (Additions to Common/Assoc.v live here because that file is shared.) *)
From Coq Require Import List String Bool Arith Lia Permutation.
From Helm Require Import Common.Assoc.
Import ListNotations.

Section AssocMore.
  Context {V : Type}.
  Implicit Types (l : list (string * V)).

  Lemma aget_aset k k' (v : V) l :
    aget k' (aset k v l) = if String.eqb k' k then Some v else aget k' l.
  Proof.
    destruct (String.eqb_spec k' k) as [->|Hne].
    - apply aget_aset_eq.
    - apply aget_aset_neq. congruence.
  Qed.

  Lemma aget_adel k k' l :
    aget k' (adel k l) = if String.eqb k' k then None else aget k' l.
  Proof.
    destruct (String.eqb_spec k' k) as [->|Hne].
    - apply aget_adel_eq.
    - apply aget_adel_neq. congruence.
  Qed.

  Lemma In_aset k (v : V) k' v' l :
    In (k', v') (aset k v l) -> (k', v') = (k, v) \/ In (k', v') l.
  Proof.
    induction l as [|[k2 v2] t IH]; simpl.
    - intros [H|[]]. left. congruence.
    - destruct (String.eqb k k2); simpl.
      + intros [H|H]; [left; congruence|right; right; exact H].
      + intros [H|H]; [right; left; exact H|]. destruct (IH H); auto.
  Qed.

  Lemma aset_absent k (v : V) l : aget k l = None -> aset k v l = (l ++ [(k, v)])%list.
  Proof.
    induction l as [|[k2 v2] t IH]; simpl; auto.
    destruct (String.eqb k k2); [discriminate|]. intros H. now rewrite IH.
  Qed.

  Lemma aset_same k (v : V) l : aget k l = Some v -> aset k v l = l.
  Proof.
    induction l as [|[k2 v2] t IH]; simpl; [discriminate|].
    destruct (String.eqb k k2) eqn:E.
    - apply String.eqb_eq in E. intros H. congruence.
    - intros H. now rewrite IH.
  Qed.

  Lemma aget_app k l1 l2 :
    aget k (l1 ++ l2)%list = match aget k l1 with Some v => Some v | None => aget k l2 end.
  Proof.
    induction l1 as [|[k2 v2] t IH]; simpl; auto.
    destruct (String.eqb k k2); auto.
  Qed.

  Lemma notin_aget_None k l : ~ In k (akeys l) -> aget k l = None.
  Proof.
    unfold akeys. induction l as [|[k2 v2] t IH]; simpl; auto.
    intros H. destruct (String.eqb_spec k k2) as [->|Hne]; [tauto|]. apply IH. tauto.
  Qed.

  Lemma aget_Some_in_keys k (v : V) l : aget k l = Some v -> In k (akeys l).
  Proof.
    intros H. apply aget_In in H. unfold akeys. change k with (fst (k, v)). now apply in_map.
  Qed.

  Lemma akeys_app l1 l2 : akeys (l1 ++ l2)%list = (akeys l1 ++ akeys l2)%list.
  Proof. unfold akeys. apply map_app. Qed.
End AssocMore.

(* ---------- lists ---------- *)
Lemma NoDup_app_intro {A} (l1 l2 : list A) :
  NoDup l1 -> NoDup l2 -> (forall x, In x l1 -> ~ In x l2) -> NoDup (l1 ++ l2).
Proof.
  induction l1 as [|a l1 IH]; simpl; auto.
  intros H1 H2 Hd. inversion H1; subst. constructor.
  - rewrite in_app_iff. intros [H|H]; [tauto|]. apply (Hd a); auto.
  - apply IH; auto.
Qed.

Lemma perm_filter {A} (f : A -> bool) (l1 l2 : list A) :
  Permutation l1 l2 -> Permutation (filter f l1) (filter f l2).
Proof.
  induction 1; simpl.
  - constructor.
  - destruct (f x); auto.
  - destruct (f x), (f y); auto. apply perm_swap.
  - eapply perm_trans; eauto.
Qed.

Lemma perm_nil_iff {A} (l1 l2 : list A) : Permutation l1 l2 -> (l1 = [] <-> l2 = []).
Proof.
  intros H. split; intros ->.
  - now apply Permutation_nil.
  - apply Permutation_sym in H. now apply Permutation_nil.
Qed.

(* a list of pairs whose first component is a function of the second has NoDup values
   as soon as it has NoDup keys *)
Lemma NoDup_snd_of_keys {A B} (f : B -> A) (l : list (A * B)) :
  (forall k v, In (k, v) l -> k = f v) -> NoDup (map fst l) -> NoDup (map snd l).
Proof.
  intros Hk Hnd. apply (NoDup_map_inv f).
  replace (map f (map snd l)) with (map fst l); auto.
  rewrite map_map. apply map_ext_in. intros [k v] Hin. simpl. now apply Hk.
Qed.

Lemma NoDup_pairs_of_keys {A B} (l : list (A * B)) : NoDup (map fst l) -> NoDup l.
Proof. apply NoDup_map_inv. Qed.

Lemma filter_all {A} (f : A -> bool) (l : list A) : (forall x, In x l -> f x = true) -> filter f l = l.
Proof.
  induction l as [|a l IH]; simpl; auto. intros H.
  rewrite (H a) by auto. f_equal. apply IH. auto.
Qed.

Lemma filter_none {A} (f : A -> bool) (l : list A) : (forall x, In x l -> f x = false) -> filter f l = [].
Proof.
  induction l as [|a l IH]; simpl; auto. intros H.
  rewrite (H a) by auto. apply IH. auto.
Qed.

Lemma forallb_ext_in {A} (f g : A -> bool) (l : list A) :
  (forall x, In x l -> f x = g x) -> forallb f l = forallb g l.
Proof.
  induction l as [|a l IH]; simpl; auto. intros H.
  rewrite (H a) by auto. f_equal. apply IH. auto.
Qed.

Lemma Forall2_filter {A B} (R : A -> B -> Prop) (p : A -> bool) (q : B -> bool) l1 l2 :
  Forall2 R l1 l2 -> (forall a b, R a b -> p a = q b) ->
  Forall2 R (filter p l1) (filter q l2).
Proof.
  intros H Hpq. induction H as [|a b l1 l2 Hab H IH]; simpl; [constructor|].
  rewrite (Hpq a b Hab). destruct (q b); auto.
Qed.

(* ---------- two association lists updated in lock step ---------- *)
Section Assoc2.
  Context {V W : Type} (P : V -> W -> Prop).

  Definition arel (l1 : list (string * V)) (l2 : list (string * W)) : Prop :=
    Forall2 (fun a b => fst a = fst b /\ P (snd a) (snd b)) l1 l2.

  Lemma arel_aget k l1 l2 : arel l1 l2 ->
    match aget k l1, aget k l2 with
    | Some a, Some b => P a b
    | None, None => True
    | _, _ => False
    end.
  Proof.
    induction 1 as [|[k1 a] [k2 b] l1 l2 [Hk Hp] H IH]; simpl in *; auto.
    subst k2. destruct (String.eqb k k1); auto.
  Qed.

  Lemma arel_aset k v w l1 l2 : arel l1 l2 -> P v w -> arel (aset k v l1) (aset k w l2).
  Proof.
    intros H Hp. induction H as [|[k1 a] [k2 b] l1 l2 [Hk Hq] H IH]; simpl in *.
    - constructor; [simpl; auto|constructor].
    - subst k2. destruct (String.eqb k k1); constructor; simpl; auto.
  Qed.

  Lemma arel_adel k l1 l2 : arel l1 l2 -> arel (adel k l1) (adel k l2).
  Proof.
    intros H. induction H as [|[k1 a] [k2 b] l1 l2 [Hk Hq] H IH]; simpl in *; [constructor|].
    subst k2. destruct (String.eqb k k1); auto. constructor; simpl; auto.
  Qed.

  Lemma arel_values l1 l2 : arel l1 l2 -> Forall2 P (map snd l1) (map snd l2).
  Proof. induction 1 as [|a b l1 l2 [_ Hp] H IH]; simpl; constructor; auto. Qed.
End Assoc2.

(* C10 / C20: an undecodable object under a release key is skipped by List and Query, which
   still return every other stored release; Get and Delete of that key fail and change
   nothing; other keys are unaffected. *)
From Coq Require Import List String Ascii Bool Arith NArith Lia Permutation.
From Helm Require Import Common.Assoc Common.Strs Storage.Spec Storage.Mem Storage.Kube
  Storage.Proofs Storage.Lemmas Storage.Refine Storage.MemProofs Storage.KubeProofs Storage.KubeX.
Import ListNotations.
Local Open Scope string_scope.

Lemma adel_notin {V} k (l : list (string * V)) : ~ In k (akeys l) -> adel k l = l.
Proof.
  unfold akeys. induction l as [|[k2 v2] t IH]; simpl; auto. intros H.
  destruct (String.eqb_spec k k2) as [->|Hne]; [tauto|]. f_equal. apply IH. tauto.
Qed.

Lemma spec_exec_wf ops : forall s, spec_wf s -> spec_wf (spec_exec s ops).
Proof. induction ops as [|o t IH]; intros s H; simpl; auto. apply IH. now apply spec_step_wf. Qed.

Section KubeXProofs.
  Variable B : Type.
  Variable enc : rel -> B.
  Variable dec : B -> option rel.
  Variable valid_label_value : string -> bool.
  Variable bad : B.
  Hypothesis codec : forall r, dec (enc r) = Some r.
  Hypothesis bad_undecodable : dec bad = None.

  Notation kstep := (kube_step B enc dec valid_label_value).
  Notation kexec := (kube_exec B enc dec valid_label_value).
  Notation xstep := (kube_xstep B enc dec valid_label_value bad).
  Notation op_ok := (kube_op_ok valid_label_value).

  Lemma decode_skip c l : dec (obody B c) = None -> decode_all B dec (c :: l) = decode_all B dec l.
  Proof. intros H. simpl. unfold decode_item. now rewrite H. Qed.

  Lemma corrupt_filter_decode (p : obj B -> bool) (q : rel -> bool) key c : forall k s,
    krel B enc k s -> NoDup (akeys s) -> dec (obody B c) = None ->
    (forall o r, obj_rel B enc o r -> p o = q r) ->
    map strip_rel (decode_all B dec (filter p (map snd (aset key c k)))) = filter q (map snd (adel key s)).
  Proof.
    intros k s Hr. induction Hr as [|[k1 o] [k2 r] k s [Hk Ho] Hr IH]; intros Hnd Hc Hpq.
    - simpl. destruct (p c); [rewrite decode_skip by assumption|]; reflexivity.
    - simpl in Hk, Ho. subst k2. unfold akeys in Hnd. simpl in Hnd. inversion Hnd as [|? ? Hni Hnd']; subst.
      simpl. destruct (String.eqb_spec key k1) as [->|Hne].
      + simpl. rewrite (adel_notin k1 s) by assumption.
        assert (Hf : Forall2 (obj_rel B enc) (filter p (map snd k)) (filter q (map snd s))).
        { apply Forall2_filter; auto. now apply arel_values. }
        destruct (decode_all_rel B enc dec codec _ _ Hf) as [H1 _].
        destruct (p c); [rewrite decode_skip by assumption|]; exact H1.
      + simpl. rewrite (Hpq o r Ho). destruct (q r).
        * destruct (decode_item_obj B enc dec codec _ _ Ho) as [stamp [Hst E]].
          simpl. rewrite E. simpl. destruct Ho as [Hok _].
          rewrite (strip_listed stamp r Hok Hst). f_equal. now apply IH.
        * now apply IH.
  Qed.

  Theorem list_skips_undecodable ops n v st :
    Forall op_ok ops ->
    let k := kexec [] ops in
    let k' := fst (xstep k (XCorrupt n v st)) in
    let others := map snd (adel (make_key n v) (spec_exec [] ops)) in
    (exists l, snd (kstep k' OList) = RRels l /\ map strip_rel l = others) /\
    (forall q, op_ok (OQuery q) ->
       match snd (kstep k' (OQuery q)) with
       | RRels l => map strip_rel l = filter (sys_match q) others
       | RErr e => filter (sys_match q) others = []
       | _ => False
       end) /\
    kstep k' (OGet n v) = (k', RErr EOther) /\
    kstep k' (ODelete n v) = (k', RErr EOther) /\
    (forall n' v', make_key n' v' <> make_key n v ->
       snd (kstep k' (OGet n' v')) = snd (kstep k (OGet n' v'))).
  Proof.
    intros Hops k k' others. unfold others.
    assert (Hr : krel B enc k (spec_exec [] ops))
      by (apply (kube_exec_rel B enc dec valid_label_value codec); auto; apply krel_nil).
    assert (Hnd : NoDup (akeys (spec_exec [] ops))) by (apply spec_exec_wf, spec_wf_nil).
    assert (Hc : dec (obody B (corrupt_object B bad n v st)) = None) by exact bad_undecodable.
    split; [|split; [|split; [|split]]].
    - eexists. split; [reflexivity|]. unfold k'. simpl fst.
      rewrite (corrupt_filter_decode _ (sys_match [("owner", "helm")]) _ _ _ _ Hr Hnd Hc).
      + apply filter_all. reflexivity.
      + intros o r Ho. apply (selects_obj B enc); auto.
        intros k0 v0 [E|[]]. inversion E; subst. simpl. auto.
    - intros q Hq. simpl in Hq. unfold kube_step.
      assert (Hvalid : forallb (fun kv => valid_label_value (snd kv)) q = true).
      { apply forallb_forall. intros [k0 v0] Hin. simpl. now apply (Hq k0 v0). }
      rewrite Hvalid.
      pose proof (corrupt_filter_decode (selects B q) (sys_match q) (make_key n v) _ _ _ Hr Hnd Hc) as H.
      unfold k'. simpl fst.
      rewrite <- H.
      2:{ intros o r Ho. apply (selects_obj B enc); auto. intros k0 v0 Hin. now apply (Hq k0 v0). }
      destruct (filter (selects B q) (map snd (aset (make_key n v) (corrupt_object B bad n v st) k)));
        reflexivity.
    - unfold k'. simpl fst. unfold kube_step, kube_get. rewrite aget_aset_eq.
      now rewrite Hc.
    - unfold k'. simpl fst. unfold kube_step, kube_get. rewrite aget_aset_eq.
      now rewrite Hc.
    - intros n' v' Hne. unfold k'. simpl. unfold kube_get. now rewrite aget_aset_neq by congruence.
  Qed.
End KubeXProofs.

(* ---------- non-vacuity, and a quirk worth knowing ---------- *)
Definition exx_run := kube_xrun (option rel) Some (fun b => b) (fun _ => true) None.

Definition exx_a : rel := mkRel "a.v1" "default" 1 "deployed" [("team", "x")] 1.
Definition exx_b : rel := mkRel "web" "default" 2 "deployed" [] 2.

Definition exx_ops : list xop :=
  [ XOp (OCreate exx_a); XOp (OCreate exx_b); XCorrupt "a.v1" 1 "deployed";
    XOp OList; XOp (OGet "a.v1" 1); XOp (OGet "web" 2);
    XOp (OQuery [("status", "deployed")]);
    (* only the damaged object matches: an empty result, not not-found *)
    XOp (OQuery [("name", "a.v1")]);
    XOp (OCreate exx_a); XOp (ODelete "a.v1" 1);
    (* an Update repairs the record *)
    XOp (OUpdate exx_a); XOp (OGet "a.v1" 1) ].

Lemma exx_outs :
  map strip_out (exx_run [] exx_ops) =
  [ ROk; ROk; ROk; RRels [exx_b]; RErr EOther; RRel exx_b; RRels [exx_b]; RRels [];
    RErr EExists; RErr EOther; ROk; RRel exx_a ].
Proof. vm_compute. reflexivity. Qed.

(* C10: non-vacuity — a concrete call sequence meets the hypotheses of the refinement
   theorems and exercises the Ok / already-exists / not-found outcomes; and the pre-fix
   key parser (F4) rejects a well-formed key. *)
From Coq Require Import List String Ascii Bool Arith NArith Permutation.
From Helm Require Import Common.Assoc Common.Strs Storage.Spec Storage.Mem Storage.Kube
  Storage.Proofs Storage.Lemmas Storage.Refine.
Import ListNotations.
Local Open Scope string_scope.

Definition ex_r1 : rel := mkRel "a.v1" "team-a" 1 "deployed" [("team", "x"); ("env", "")] 7.
Definition ex_r1' : rel := mkRel "a.v1" "team-a" 1 "superseded" [("team", "y")] 8.
Definition ex_r2 : rel := mkRel "svc.v2.beta" "team-a" 3 "failed" [] 9.
Definition ex_r3 : rel := mkRel "a.v1" "team-a" 2 "deployed" [] 10.

Definition ex_ops : list op :=
  [ OCreate ex_r1; OCreate ex_r1; OGet "a.v1" 1; OUpdate ex_r3; OCreate ex_r2;
    OQuery [("name", "a.v1"); ("owner", "helm")]; OList; OUpdate ex_r1'; ODelete "a.v1" 1;
    OGet "a.v1" 1; OQuery [("status", "deployed")]; ODelete "a.v1" 1 ].

Definition ex_outs : list out :=
  [ ROk; RErr EExists; RRel ex_r1; RErr ENotFound; ROk;
    RRels [ex_r1]; RRels [ex_r1; ex_r2]; ROk; RRel ex_r1';
    RErr ENotFound; RErr ENotFound; RErr ENotFound ].

Lemma ex_in_ns : Forall (op_in_ns "team-a") ex_ops.
Proof. repeat constructor. Qed.

Lemma ex_spec_outs : spec_run [] ex_ops = ex_outs.
Proof. vm_compute. reflexivity. Qed.

Lemma ex_mem_outs : mem_run mem_init ex_ops = ex_outs.
Proof. vm_compute. reflexivity. Qed.

Lemma ex_mem : Forall (op_in_ns "team-a") ex_ops /\ mem_run mem_init ex_ops = ex_outs /\ spec_run [] ex_ops = ex_outs.
Proof. split; [exact ex_in_ns|split; [exact ex_mem_outs|exact ex_spec_outs]]. Qed.

(* the codec instance of the correspondence run: bodies are releases *)
Definition ex_valid (s : string) : bool := Nat.leb (String.length s) 63.
Definition ex_krun := kube_run rel (fun r => r) (fun b => Some b) ex_valid.

Lemma ex_labels_ok_nil : labels_ok [].
Proof. split; [constructor|intros k []]. Qed.

Lemma ex_kube_ok : Forall (kube_op_ok ex_valid) ex_ops.
Proof.
  unfold ex_ops. repeat (apply Forall_cons || apply Forall_nil); simpl; auto;
    try (exact ex_labels_ok_nil).
  - split; [repeat constructor; simpl; intuition discriminate|].
    simpl. intros k [<-|[<-|[]]]; simpl; intuition discriminate.
  - split; [repeat constructor; simpl; intuition discriminate|].
    simpl. intros k [<-|[<-|[]]]; simpl; intuition discriminate.
  - intros k v [H|[H|[]]]; inversion H; subst; simpl; auto.
  - split; [repeat constructor; simpl; intuition discriminate|].
    simpl. intros k [<-|[]]; simpl; intuition discriminate.
  - intros k v [H|[]]; inversion H; subst; simpl; auto.
Qed.

(* what the Kubernetes drivers answer: Get/Delete hand back user labels only, List/Query
   user + time stamp + system labels *)
Definition ex_listed (stamp : string) (r : rel) : rel :=
  mkRel (rname r) (rns r) (rver r) (rstatus r)
        (rlabels r ++ (stamp, "0") :: sys_labels r)%list (rbody r).

Definition ex_kube_outs : list out :=
  [ ROk; RErr EExists; RRel ex_r1; RErr EOther; ROk;
    RRels [ex_listed "createdAt" ex_r1];
    RRels [ex_listed "createdAt" ex_r1; ex_listed "createdAt" ex_r2]; ROk; RRel ex_r1';
    RErr ENotFound; RErr ENotFound; RErr ENotFound ].

Lemma ex_kube_outs_ok : ex_krun [] ex_ops = ex_kube_outs.
Proof. vm_compute. reflexivity. Qed.

Lemma ex_kube : Forall (kube_op_ok ex_valid) ex_ops /\ (forall r : rel, Some r = Some r) /\
  ex_krun [] ex_ops = ex_kube_outs /\ map strip_out ex_kube_outs <> ex_kube_outs.
Proof.
  split; [exact ex_kube_ok|]. split; [reflexivity|]. split; [exact ex_kube_outs_ok|].
  vm_compute. discriminate.
Qed.

(* F4: with strings.Split(key, ".v") required to have exactly two elements, the key that
   storage.makeKey builds for release "a.v1" revision 1 is rejected *)
Lemma mem_dotv_refuted :
  exists name ver, mem_parse_key_prefix (make_key name ver) = None /\
                   mem_parse_key (make_key name ver) = Some (name, ver).
Proof. exists "a.v1", 1. vm_compute. split; reflexivity. Qed.

(* the pre-fix parser does accept keys of names without ".v": the rejection above is not
   an artefact of the definition *)
Lemma mem_prefix_parser_plain : mem_parse_key_prefix (make_key "my.app" 12) = Some ("my.app", 12).
Proof. vm_compute. reflexivity. Qed.

(* The Secret / ConfigMap driver model with one more event: an object whose body does not
   decode appears under a release key (written by something other than the driver, or
   damaged).  Used by C10 (List/Query skip it, Get fails) and C20.  Definitions only. *)
From Coq Require Import List String Bool Arith NArith.
From Helm Require Import Common.Assoc Common.Strs Storage.Spec Storage.Kube Storage.Rmw.
Import ListNotations.
Open Scope string_scope.

Inductive xop :=
| XOp (o : op)
| XCorrupt (name : string) (ver : nat) (status : string)
| XRmw (name : string) (ver : nat) (status : string).    (* Rmw.rmw: query, change status, update *)

Section KubeX.
  Variable B : Type.
  Variable enc : rel -> B.
  Variable dec : B -> option rel.
  Variable valid_label_value : string -> bool.
  Variable bad : B.                         (* a body that does not decode *)

  (* the damaged object still carries Helm's labels, so selectors find it *)
  Definition corrupt_object (name : string) (ver : nat) (status : string) : obj B :=
    mkObj B [("name", name); ("owner", "helm"); ("status", status); ("version", show_nat ver)] bad.

  Definition kube_xstep (s : kube B) (x : xop) : kube B * out :=
    match x with
    | XOp o => kube_step B enc dec valid_label_value s o
    | XCorrupt n v st => (aset (make_key n v) (corrupt_object n v st) s, ROk)
    | XRmw n v st => rmw (kube_step B enc dec valid_label_value) s n v st
    end.

  Fixpoint kube_xrun (s : kube B) (xs : list xop) : list out :=
    match xs with
    | [] => []
    | x :: t => let '(s', r) := kube_xstep s x in r :: kube_xrun s' t
    end.
End KubeX.

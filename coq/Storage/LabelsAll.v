(* C10, all backends: what newSecretsObject / newConfigMapsObject + filterSystemLabels do to
   ANY label map (duplicate-free or not, carrying system keys or not).  No hypothesis. *)
From Coq Require Import List String Ascii Bool Arith.
From Helm Require Import Common.Assoc Common.Strs Storage.Spec Storage.Kube Storage.Lemmas
  Storage.Refine Storage.KubeLabels Storage.KubeProofs Storage.Calls.
Import ListNotations.
Local Open Scope string_scope.

(* ---------- filtering on keys commutes with writing ---------- *)
Section KeyFilter.
  Variable p : string -> bool.
  Notation fk := (filter (fun kv : string * string => p (fst kv))).

  Lemma filter_aset k v (l : list (string * string)) :
    fk (aset k v l) = if p k then aset k v (fk l) else fk l.
  Proof.
    induction l as [|[k1 v1] t IH]; simpl.
    - destruct (p k); reflexivity.
    - destruct (String.eqb k k1) eqn:E; simpl.
      + apply String.eqb_eq in E. subst k1. destruct (p k); simpl; [now rewrite String.eqb_refl|reflexivity].
      + rewrite IH. destruct (p k1), (p k); simpl; rewrite ?E; reflexivity.
  Qed.

  Lemma filter_from_map (src dst : list (string * string)) :
    fk (from_map src dst) = from_map (fk src) (fk dst).
  Proof.
    unfold from_map. revert dst. induction src as [|[k v] t IH]; intros dst; simpl; auto.
    rewrite IH, filter_aset. simpl. destruct (p k); reflexivity.
  Qed.
End KeyFilter.

(* ---------- from_map as a map ---------- *)
Definition alast (k : string) (l : list (string * string)) : option string := aget k (rev l).

Lemma aget_from_map k (src dst : list (string * string)) :
  aget k (from_map src dst) = match alast k src with Some v => Some v | None => aget k dst end.
Proof.
  unfold from_map, alast. revert dst. induction src as [|[k1 v1] t IH]; intros dst; simpl; auto.
  rewrite IH, aget_app. destruct (aget k (rev t)); auto. simpl. rewrite aget_aset.
  destruct (String.eqb k k1); reflexivity.
Qed.

Lemma alast_in k l : In k (map fst l) -> alast k l <> None.
Proof.
  unfold alast. intros H. rewrite in_rev, <- map_rev in H.
  intros E. apply (aget_None_notin _ _ E). exact H.
Qed.

Lemma akeys_from_map_present (src dst : list (string * string)) :
  (forall k, In k (map fst src) -> aget k dst <> None) -> akeys (from_map src dst) = akeys dst.
Proof.
  unfold from_map. revert dst. induction src as [|[k v] t IH]; intros dst H; simpl; auto.
  rewrite IH.
  - apply akeys_aset_present. apply H. simpl. auto.
  - intros k' Hk'. rewrite aget_aset. destruct (String.eqb k' k); [discriminate|]. apply H. simpl. auto.
Qed.

Lemma NoDup_from_map (src dst : list (string * string)) :
  NoDup (akeys dst) -> NoDup (akeys (from_map src dst)).
Proof.
  unfold from_map. revert dst. induction src as [|[k v] t IH]; intros dst H; simpl; auto.
  apply IH. now apply NoDup_akeys_aset.
Qed.

Lemma keys_from_map k (src dst : list (string * string)) :
  In k (akeys (from_map src dst)) -> In k (akeys dst) \/ In k (map fst src).
Proof.
  intros H. destruct (aget k (from_map src dst)) eqn:E.
  - rewrite aget_from_map in E. destruct (alast k src) eqn:El.
    + right. unfold alast in El. apply aget_Some_in_keys in El. unfold akeys in El.
      rewrite map_rev, <- in_rev in El. exact El.
    + left. eapply aget_Some_in_keys; eauto.
  - exfalso. eapply aget_None_notin; eauto.
Qed.

(* two association lists with the same keys in the same order and the same lookups are equal *)
Lemma assoc_ext (l1 l2 : list (string * string)) :
  akeys l1 = akeys l2 -> NoDup (akeys l1) -> (forall k, aget k l1 = aget k l2) -> l1 = l2.
Proof.
  unfold akeys. revert l2. induction l1 as [|[k1 v1] t1 IH]; intros [|[k2 v2] t2] Hk Hnd Hg;
    try discriminate; auto.
  simpl in Hk. inversion Hk as [[Hk1 Hkt]]. subst k2.
  pose proof (Hg k1) as H1. simpl in H1. rewrite String.eqb_refl in H1. inversion H1. subst v2.
  f_equal. simpl in Hnd. inversion Hnd as [|? ? Hni Hnd']; subst.
  apply IH; auto. intros k. destruct (String.eqb_spec k k1) as [->|Hne].
  - rewrite !notin_aget_None; auto. unfold akeys. now rewrite <- Hkt.
  - specialize (Hg k). simpl in Hg. apply String.eqb_neq in Hne. now rewrite Hne in Hg.
Qed.

Lemma from_map_idem (l : list (string * string)) : from_map l (from_map l []) = from_map l [].
Proof.
  apply assoc_ext.
  - apply akeys_from_map_present. intros k Hk. rewrite aget_from_map.
    pose proof (alast_in k l Hk). destruct (alast k l); congruence.
  - apply NoDup_from_map, NoDup_from_map. constructor.
  - intros k. rewrite !aget_from_map. destruct (alast k l); reflexivity.
Qed.

(* ---------- system keys ---------- *)
Notation fs := filter_system_labels.

Lemma fs_is_key_filter l : fs l = filter (fun kv => negb (is_system_label (fst kv))) l.
Proof. reflexivity. Qed.

Lemma fs_from_map src dst : fs (from_map src dst) = from_map (fs src) (fs dst).
Proof. unfold filter_system_labels. apply (filter_from_map (fun k => negb (is_system_label k))). Qed.

Lemma fs_aset_system k v l : is_system_label k = true -> fs (aset k v l) = fs l.
Proof.
  intros H. unfold filter_system_labels.
  rewrite (filter_aset (fun k => negb (is_system_label k))). now rewrite H.
Qed.

Lemma fs_idem l : fs (fs l) = fs l.
Proof.
  unfold filter_system_labels. induction l as [|kv t IH]; simpl; auto.
  destruct (negb (is_system_label (fst kv))) eqn:E; simpl; rewrite ?E, IH; reflexivity.
Qed.

Lemma stamp_system stamp : is_stamp stamp -> is_system_label stamp = true.
Proof. intros [->| ->]; reflexivity. Qed.

Lemma fs_sys_labels r : fs (sys_labels r) = [].
Proof. reflexivity. Qed.

(* what Get hands back (filterSystemLabels of the stored object's labels) is the user-label
   projection of the label map that was written, for EVERY label map *)
Theorem filter_object_labels_any stamp r :
  is_stamp stamp -> fs (object_labels stamp r) = ulabels (rlabels r).
Proof.
  intros Hst. unfold object_labels, ulabels.
  rewrite fs_from_map, fs_sys_labels. change (from_map [] ?x) with x.
  rewrite fs_from_map, fs_aset_system by (now apply stamp_system).
  rewrite fs_from_map. change (fs []) with (@nil (string * string)).
  apply from_map_idem.
Qed.

Lemma ulabels_nodup l : NoDup (akeys (ulabels l)).
Proof. apply NoDup_from_map. constructor. Qed.

Lemma ulabels_fixed l : NoDup (akeys l) -> fs l = l -> ulabels l = l.
Proof.
  intros Hnd Hfs. unfold ulabels. rewrite Hfs. rewrite from_map_fresh; auto.
Qed.

Lemma fs_ulabels l : fs (ulabels l) = ulabels l.
Proof. unfold ulabels. rewrite fs_from_map. now rewrite fs_idem. Qed.

Theorem ulabels_idem l : ulabels (ulabels l) = ulabels l.
Proof. apply ulabels_fixed; [apply ulabels_nodup|apply fs_ulabels]. Qed.

(* what List / Query hand back (the stored object's labels, whole) has the same user labels *)
Theorem ulabels_object_labels stamp r :
  is_stamp stamp -> ulabels (object_labels stamp r) = ulabels (rlabels r).
Proof.
  intros Hst. unfold ulabels at 1. rewrite filter_object_labels_any by assumption.
  rewrite from_map_fresh; auto. apply ulabels_nodup.
Qed.

(* the user labels are a well-formed user label map *)
Lemma fs_no_system l k : In k (map fst (fs l)) -> ~ In k system_label_keys.
Proof.
  intros H Hs. apply in_map_iff in H. destruct H as [[k' v] [E H]]. simpl in E. subst k'.
  unfold filter_system_labels in H. apply filter_In in H. destruct H as [_ H]. simpl in H.
  apply negb_true_iff in H. unfold is_system_label in H.
  assert (existsb (String.eqb k) system_label_keys = true); [|congruence].
  apply existsb_exists. exists k. split; auto. apply String.eqb_refl.
Qed.

Theorem ulabels_ok l : labels_ok (ulabels l).
Proof.
  split; [apply ulabels_nodup|].
  intros k Hk. rewrite <- fs_ulabels in Hk. now apply fs_no_system in Hk.
Qed.

(* on a well-formed user label map the projection is the identity: the hypothesis-free
   statements specialise to the ones under [labels_ok] *)
Theorem ulabels_labels_ok l : labels_ok l -> ulabels l = l.
Proof.
  intros Hok. apply ulabels_fixed; [apply Hok|].
  unfold filter_system_labels. apply filter_all. intros kv Hin. eapply user_label_not_system; eauto.
Qed.

Lemma norm_rel_idem r : norm_rel (norm_rel r) = norm_rel r.
Proof. unfold norm_rel, map_rel. simpl. now rewrite ulabels_idem. Qed.

Lemma norm_rel_ok r : labels_ok (rlabels r) -> norm_rel r = r.
Proof. intros H. unfold norm_rel, map_rel. rewrite ulabels_labels_ok by assumption. now destruct r. Qed.

Theorem user_labels_all (stamp : string) (r : rel) :
  is_stamp stamp ->
  filter_system_labels (object_labels stamp r) = ulabels (rlabels r) /\
  ulabels (object_labels stamp r) = ulabels (rlabels r) /\
  labels_ok (ulabels (rlabels r)) /\
  (labels_ok (rlabels r) -> ulabels (rlabels r) = rlabels r).
Proof.
  intros H. split; [now apply filter_object_labels_any|]. split; [now apply ulabels_object_labels|].
  split; [apply ulabels_ok|apply ulabels_labels_ok].
Qed.

(* the time-stamp label: the driver's stamp ("0" in the model) is kept only when the release's
   own label map has no entry of that name - newSecretsObject writes rls.Labels over it.  So a
   release read back through Query and updated again keeps the createdAt of its creation (the
   point of the second fromMap) and, from its second update on, also the modifiedAt of its
   first update. *)
Theorem stamp_label_own_wins (stamp : string) (r : rel) :
  is_stamp stamp ->
  aget stamp (object_labels stamp r) =
  Some (match alast stamp (rlabels r) with Some v => v | None => "0" end).
Proof.
  intros Hst. unfold object_labels. rewrite aget_from_map.
  assert (Hs : alast stamp (sys_labels r) = None) by (destruct Hst as [->| ->]; reflexivity).
  rewrite Hs, aget_from_map. destruct (alast stamp (rlabels r)); auto. now rewrite aget_aset_eq.
Qed.

(* The memory driver across namespaces (memory.go: SetNamespace, and the SetNamespace side
   effect of Create/Update), and the reference it refines: one finite map per namespace plus
   a "current namespace" register.  Definitions only. *)
From Coq Require Import List String Bool Arith NArith.
From Helm Require Import Common.Assoc Common.Strs Storage.Spec Storage.Mem Storage.Rmw.
Import ListNotations.
Open Scope string_scope.

Inductive mop :=
| MOp (o : op)
| MSetNs (ns : string)             (* Memory.SetNamespace; "" = all namespaces for List/Query *)
| MRmw (name : string) (ver : nat) (status : string).   (* Rmw.rmw: query, change status, update *)

Definition mem_mstep (m : mem) (x : mop) : mem * out :=
  match x with
  | MOp o => mem_step m o
  | MSetNs ns => (mkMem ns (mcache m), ROk)
  | MRmw n v st => rmw mem_step m n v st
  end.

Fixpoint mem_mrun (m : mem) (xs : list mop) : list out :=
  match xs with
  | [] => []
  | x :: t => let '(m', r) := mem_mstep m x in r :: mem_mrun m' t
  end.

(* ---------- reference ---------- *)
Record nspec := mkNs { ncur : string; nstores : list (string * spec) }.

Definition nspec_init : nspec := mkNs "default" [].

Definition sget (ns : string) (st : list (string * spec)) : spec :=
  match aget ns st with Some s => s | None => [] end.

(* what List/Query range over: the current namespace, or every namespace when it is "" *)
Definition ns_visible (c : nspec) : list rel :=
  let ss := if String.eqb (ncur c) "" then map snd (nstores c) else [sget (ncur c) (nstores c)] in
  map snd (List.concat ss).

Definition nspec_op (c : nspec) (o : op) : nspec * out :=
  match o with
  | OCreate r =>
      (* writes switch the current namespace to the release's, even when they fail *)
      let ns := ns_of r in
      let res := spec_step (sget ns (nstores c)) (OCreate r) in
      (mkNs ns (aset ns (fst res) (nstores c)), snd res)
  | OUpdate r =>
      let ns := ns_of r in
      match aget ns (nstores c) with
      | Some s => let res := spec_step s (OUpdate r) in (mkNs ns (aset ns (fst res) (nstores c)), snd res)
      | None => (mkNs ns (nstores c), RErr ENotFound)
      end
  | OGet n v => (c, snd (spec_step (sget (ncur c) (nstores c)) (OGet n v)))
  | ODelete n v =>
      match aget (ncur c) (nstores c) with
      | Some s =>
          let res := spec_step s (ODelete n v) in
          (mkNs (ncur c) (aset (ncur c) (fst res) (nstores c)), snd res)
      | None => (c, RErr ENotFound)
      end
  | OList => (c, RRels (ns_visible c))
  | OQuery q =>
      match filter (sys_match q) (ns_visible c) with
      | [] => (c, RErr ENotFound)
      | l => (c, RRels l)
      end
  end.

Definition nspec_step (c : nspec) (x : mop) : nspec * out :=
  match x with
  | MOp o => nspec_op c o
  | MSetNs ns => (mkNs ns (nstores c), ROk)
  | MRmw n v st => rmw nspec_op c n v st
  end.

Fixpoint nspec_run (c : nspec) (xs : list mop) : list out :=
  match xs with
  | [] => []
  | x :: t => let '(c', r) := nspec_step c x in r :: nspec_run c' t
  end.

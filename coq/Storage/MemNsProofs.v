(* C10 (namespaces): the memory driver model, with SetNamespace and with writes to any
   namespaces, refines the per-namespace reference [nspec] — for every call sequence, with
   no hypothesis. *)
From Coq Require Import List String Ascii Bool Arith NArith Lia Permutation.
From Helm Require Import Common.Assoc Common.Strs Storage.Spec Storage.Mem Storage.Kube
  Storage.Proofs Storage.Lemmas Storage.Refine Storage.MemProofs Storage.Rmw Storage.MemNs.
Import ListNotations.
Local Open Scope string_scope.

(* ---------- one namespace: name -> records against key -> release ---------- *)
Definition NsRel (names : list (string * records)) (s : spec) : Prop := names_wf names /\ spec_wf s /\ agree names s.

Lemma NsRel_nil : NsRel [] [].
Proof. split; [apply names_wf_nil|split; [apply spec_wf_nil|intros n v; reflexivity]]. Qed.

Lemma ns_lookup names s r : NsRel names s ->
  match aget (rname r) names with Some recs => aget (key_of r) recs | None => None end = aget (key_of r) s.
Proof. intros (_ & _ & Hag). apply (Hag (rname r) (rver r)). Qed.

Lemma ns_create names s r : NsRel names s ->
  match aget (rname r) names with
  | Some recs =>
      if amem (key_of r) recs
      then spec_step s (OCreate r) = (s, RErr EExists)
      else snd (spec_step s (OCreate r)) = ROk /\
           NsRel (aset (rname r) (rec_insert (key_of r) r recs) names) (fst (spec_step s (OCreate r)))
  | None => snd (spec_step s (OCreate r)) = ROk /\
            NsRel (aset (rname r) [(key_of r, r)] names) (fst (spec_step s (OCreate r)))
  end.
Proof.
  intros HR. pose proof (ns_lookup _ _ r HR) as Hlk. destruct HR as (Hnw & Hsw & Hag).
  unfold spec_step. destruct (aget (rname r) names) as [recs|] eqn:En.
  - unfold amem. destruct (aget (key_of r) recs) as [r0|] eqn:Ek; rewrite <- Hlk; simpl; auto.
    assert (Hrw : recs_wf (rname r) recs) by (eapply names_wf_get; eauto).
    split; auto. split; [|split].
    + apply names_wf_aset; auto. apply recs_wf_insert; auto.
    + now apply spec_wf_aset.
    + eapply agree_upd with (ver := rver r) (f := Some r); eauto.
      * intros k. rewrite aget_rec_insert by assumption. unfold lookup. now rewrite En.
      * intros k. apply aget_aset.
  - rewrite <- Hlk. simpl. split; auto. split; [|split].
    + apply names_wf_aset; auto. now apply recs_wf_single.
    + now apply spec_wf_aset.
    + eapply agree_upd with (ver := rver r) (f := Some r); eauto.
      * intros k. unfold lookup. rewrite En. cbn [aget].
        change (make_key (rname r) (rver r)) with (key_of r).
        destruct (String.eqb k (key_of r)); auto.
      * intros k. apply aget_aset.
Qed.

Lemma ns_update names s r : NsRel names s ->
  match aget (rname r) names with
  | Some recs =>
      if amem (key_of r) recs
      then snd (spec_step s (OUpdate r)) = ROk /\
           NsRel (aset (rname r) (aset (key_of r) r recs) names) (fst (spec_step s (OUpdate r)))
      else spec_step s (OUpdate r) = (s, RErr ENotFound)
  | None => spec_step s (OUpdate r) = (s, RErr ENotFound)
  end.
Proof.
  intros HR. pose proof (ns_lookup _ _ r HR) as Hlk. destruct HR as (Hnw & Hsw & Hag).
  unfold spec_step. destruct (aget (rname r) names) as [recs|] eqn:En.
  - unfold amem. destruct (aget (key_of r) recs) as [r0|] eqn:Ek; rewrite <- Hlk; simpl; auto.
    assert (Hrw : recs_wf (rname r) recs) by (eapply names_wf_get; eauto).
    split; auto. split; [|split].
    + apply names_wf_aset; auto. apply recs_wf_aset; auto. congruence.
    + now apply spec_wf_aset.
    + eapply agree_upd with (ver := rver r) (f := Some r); eauto.
      * intros k. rewrite aget_aset. unfold lookup. now rewrite En.
      * intros k. apply aget_aset.
  - rewrite <- Hlk. reflexivity.
Qed.

Lemma ns_get names s n v : NsRel names s ->
  snd (spec_step s (OGet n v)) =
  match aget n names with
  | Some recs => match aget (make_key n v) recs with Some r => RRel r | None => RErr ENotFound end
  | None => RErr ENotFound
  end.
Proof.
  intros (_ & _ & Hag). unfold spec_step. rewrite <- (Hag n v). unfold lookup.
  destruct (aget n names) as [recs|]; [destruct (aget (make_key n v) recs)|]; reflexivity.
Qed.

Lemma ns_delete names s n v : NsRel names s ->
  match aget n names with
  | Some recs =>
      match aget (make_key n v) recs with
      | Some r => snd (spec_step s (ODelete n v)) = RRel r /\
                  NsRel (aset n (adel (make_key n v) recs) names) (fst (spec_step s (ODelete n v)))
      | None => spec_step s (ODelete n v) = (s, RErr ENotFound)
      end
  | None => spec_step s (ODelete n v) = (s, RErr ENotFound)
  end.
Proof.
  intros (Hnw & Hsw & Hag). pose proof (Hag n v) as Hlk. unfold lookup in Hlk.
  unfold spec_step. destruct (aget n names) as [recs|] eqn:En.
  - destruct (aget (make_key n v) recs) as [r0|] eqn:Ek; rewrite <- Hlk; simpl; auto.
    assert (Hrw : recs_wf n recs) by (eapply names_wf_get; eauto).
    split; auto. split; [|split].
    + apply names_wf_aset; auto. now apply recs_wf_adel.
    + now apply spec_wf_adel.
    + eapply agree_upd with (ver := v) (f := None); eauto.
      * intros k. rewrite aget_adel. unfold lookup. now rewrite En.
      * intros k. apply aget_adel.
  - rewrite <- Hlk. reflexivity.
Qed.

Lemma ns_flat names s : NsRel names s -> Permutation (flat names) s.
Proof. intros (H1 & H2 & H3). now apply flat_perm. Qed.

(* ---------- all namespaces ---------- *)
Definition MInv (m : mem) (c : nspec) : Prop :=
  mns m = ncur c /\ arel NsRel (mcache m) (nstores c).

Lemma arel_ns cache st ns : arel NsRel cache st ->
  match aget ns cache, aget ns st with
  | Some names, Some s => NsRel names s
  | None, None => True
  | _, _ => False
  end.
Proof. apply arel_aget. Qed.

Lemma arel_names_of m c ns : arel NsRel (mcache m) (nstores c) -> NsRel (names_of m ns) (sget ns (nstores c)).
Proof.
  intros H. pose proof (arel_ns _ _ ns H) as Hn. unfold names_of, sget.
  destruct (aget ns (mcache m)); destruct (aget ns (nstores c)); try tauto; auto. apply NsRel_nil.
Qed.

Lemma all_flat_perm cache st : arel NsRel cache st ->
  Permutation (List.concat (map snd (List.concat (map snd cache)))) (List.concat (map snd st)).
Proof.
  induction 1 as [|[ns names] [ns' s] cache st [_ HR] H IH]; simpl; auto.
  simpl in HR. rewrite map_app, concat_app. apply Permutation_app; auto.
  now apply ns_flat.
Qed.

Lemma visible_perm m c : MInv m c -> Permutation (mem_visible m) (ns_visible c).
Proof.
  intros [Hns Hrel]. unfold mem_visible, ns_visible. rewrite Hns.
  apply Permutation_map. destruct (String.eqb (ncur c) "").
  - now apply all_flat_perm.
  - simpl. rewrite !app_nil_r. apply ns_flat. now apply arel_names_of.
Qed.

Lemma mem_op_sim m c o :
  MInv m c ->
  MInv (fst (mem_step m o)) (fst (nspec_op c o)) /\
  out_equiv (snd (mem_step m o)) (snd (nspec_op c o)).
Proof.
  intros HI. pose proof HI as [Hns Hrel].
  destruct o as [r|r|n v|n v| |q].
  - (* Create *)
    unfold mem_step, nspec_op. set (ns := ns_of r).
    pose proof (arel_names_of m c ns Hrel) as HR. pose proof (ns_create _ _ r HR) as Hc.
    destruct (aget (rname r) (names_of m ns)) as [recs|].
    + destruct (amem (key_of r) recs).
      * rewrite Hc. cbn [fst snd]. split; [|constructor]. split; auto. cbn [mcache nstores]. now apply arel_aset.
      * destruct Hc as [Ho HR']. cbn [fst snd]. rewrite Ho. split; [|constructor].
        split; auto. cbn [mcache nstores]. now apply arel_aset.
    + destruct Hc as [Ho HR']. cbn [fst snd]. rewrite Ho. split; [|constructor].
      split; auto. cbn [mcache nstores]. now apply arel_aset.
  - (* Update *)
    unfold mem_step, nspec_op. set (ns := ns_of r).
    pose proof (arel_ns _ _ ns Hrel) as Hn.
    destruct (aget ns (mcache m)) as [names|] eqn:Ec; destruct (aget ns (nstores c)) as [s|] eqn:Es; try tauto.
    + pose proof (ns_update _ _ r Hn) as Hu.
      assert (Hsame : MInv (mkMem ns (mcache m)) (mkNs ns (aset ns s (nstores c)))).
      { split; auto. simpl. now rewrite aset_same. }
      destruct (aget (rname r) names) as [recs|].
      * destruct (amem (key_of r) recs).
        -- destruct Hu as [Ho HR']. cbn [fst snd]. rewrite Ho. split; [|constructor].
           split; auto. cbn [mcache nstores]. now apply arel_aset.
        -- rewrite Hu. cbn [fst snd]. split; [exact Hsame|constructor].
      * rewrite Hu. cbn [fst snd]. split; [exact Hsame|constructor].
    + simpl. split; [|constructor]. split; auto.
  - (* Get *)
    unfold mem_step, nspec_op. rewrite parse_make_key. unfold recs_of.
    rewrite (ns_get (names_of m (mns m)) (sget (ncur c) (nstores c))).
    2:{ rewrite Hns. now apply arel_names_of. }
    destruct (aget n (names_of m (mns m))) as [recs|]; [destruct (aget (make_key n v) recs)|];
      simpl; split; auto; constructor.
  - (* Delete *)
    unfold mem_step, nspec_op. rewrite parse_make_key. rewrite Hns.
    pose proof (arel_ns _ _ (ncur c) Hrel) as Hn.
    destruct (aget (ncur c) (mcache m)) as [names|] eqn:Ec;
      destruct (aget (ncur c) (nstores c)) as [s|] eqn:Es; try tauto.
    + pose proof (ns_delete _ _ n v Hn) as Hd.
      assert (Hsame : MInv m (mkNs (ncur c) (aset (ncur c) s (nstores c)))).
      { split; auto. simpl. now rewrite aset_same. }
      destruct (aget n names) as [recs|].
      * destruct (aget (make_key n v) recs) as [r0|].
        -- destruct Hd as [Ho HR']. cbn [fst snd]. rewrite Ho. split; [|constructor].
           split; auto. cbn [mcache nstores]. now apply arel_aset.
        -- rewrite Hd. cbn [fst snd]. split; [exact Hsame|constructor].
      * rewrite Hd. cbn [fst snd]. split; [exact Hsame|constructor].
    + simpl. split; auto. constructor.
  - (* List *)
    simpl. split; auto. constructor. now apply visible_perm.
  - (* Query *)
    unfold mem_step, nspec_op.
    assert (Hp : Permutation (filter (sys_match q) (mem_visible m)) (filter (sys_match q) (ns_visible c)))
      by (apply perm_filter; now apply visible_perm).
    pose proof (perm_nil_iff _ _ Hp) as Hnil.
    destruct (filter (sys_match q) (mem_visible m)) as [|a l] eqn:E1;
      destruct (filter (sys_match q) (ns_visible c)) as [|b l'] eqn:E2; simpl.
    + split; auto. constructor.
    + exfalso. destruct Hnil as [H _]. specialize (H eq_refl). discriminate.
    + exfalso. destruct Hnil as [_ H]. specialize (H eq_refl). discriminate.
    + split; auto. now constructor.
Qed.

Lemma perm_single {A} (a : A) l : Permutation [a] l -> l = [a].
Proof. intros H. now apply Permutation_length_1_inv in H. Qed.

Lemma mem_mstep_sim m c x :
  MInv m c ->
  MInv (fst (mem_mstep m x)) (fst (nspec_step c x)) /\
  out_equiv (snd (mem_mstep m x)) (snd (nspec_step c x)).
Proof.
  intros HI. destruct x as [o|ns|n v st].
  - now apply mem_op_sim.
  - destruct HI as [Hns Hrel]. simpl. repeat split; auto; constructor.
  - unfold mem_mstep, nspec_step, rmw.
    destruct (mem_op_sim m c (rmw_query n v) HI) as [_ Hq].
    set (om := snd (mem_step m (rmw_query n v))) in *.
    set (oc := snd (nspec_op c (rmw_query n v))) in *. clearbody om oc.
    inversion Hq as [|e|r|l1 l2 Hp]; subst; try (split; [exact HI|constructor]).
    destruct l1 as [|a [|b l1]].
    + apply Permutation_nil in Hp. subst. split; [exact HI|constructor].
    + apply perm_single in Hp. subst. now apply mem_op_sim.
    + destruct l2 as [|a2 [|b2 l2]];
        try (apply Permutation_length in Hp; simpl in Hp; discriminate).
      split; [exact HI|constructor].
Qed.

Lemma mem_mrun_sim xs : forall m c,
  MInv m c -> Forall2 out_equiv (mem_mrun m xs) (nspec_run c xs).
Proof.
  induction xs as [|x t IH]; intros m c HI; simpl; [constructor|].
  destruct (mem_mstep_sim m c x HI) as [HI' Ho].
  destruct (mem_mstep m x) as [m' om]. destruct (nspec_step c x) as [c' oc]. simpl in *.
  constructor; auto.
Qed.

Theorem mem_refines_nspec xs :
  Forall2 out_equiv (mem_mrun mem_init xs) (nspec_run nspec_init xs).
Proof. apply mem_mrun_sim. split; [reflexivity|constructor]. Qed.

(* why C10_mem_refines_spec needs its single-namespace hypothesis: a write to another
   namespace moves the driver's current namespace, and the first release is no longer found *)
Definition two_ns_ops : list op :=
  [ OCreate (mkRel "app" "team-a" 1 "deployed" [] 1);
    OCreate (mkRel "web" "team-b" 1 "deployed" [] 2);
    OGet "app" 1 ].

Lemma mem_two_namespaces_refuted :
  exists ops r, nth_error (spec_run [] ops) 2 = Some (RRel r) /\
                nth_error (mem_run mem_init ops) 2 = Some (RErr ENotFound).
Proof. exists two_ns_ops, (mkRel "app" "team-a" 1 "deployed" [] 1). vm_compute. split; reflexivity. Qed.

(* non-vacuity of the namespace theorem: SetNamespace "" makes List range over both *)
Definition ex_ns_ops : list mop :=
  [ MOp (OCreate (mkRel "app" "team-a" 1 "deployed" [] 1));
    MOp (OCreate (mkRel "web" "team-b" 1 "deployed" [] 2));
    MOp (OGet "app" 1); MOp OList; MSetNs ""; MOp OList; MOp (OGet "app" 1);
    MSetNs "team-a"; MOp (ODelete "app" 1); MSetNs ""; MOp (OQuery [("owner", "helm")]) ].

Lemma ex_ns :
  mem_mrun mem_init ex_ns_ops =
  [ ROk; ROk; RErr ENotFound; RRels [mkRel "web" "team-b" 1 "deployed" [] 2]; ROk;
    RRels [mkRel "app" "team-a" 1 "deployed" [] 1; mkRel "web" "team-b" 1 "deployed" [] 2];
    RErr ENotFound; ROk; RRel (mkRel "app" "team-a" 1 "deployed" [] 1); ROk;
    RRels [mkRel "web" "team-b" 1 "deployed" [] 2] ] /\
  nspec_run nspec_init ex_ns_ops = mem_mrun mem_init ex_ns_ops.
Proof. vm_compute. split; reflexivity. Qed.

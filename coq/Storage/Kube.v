(* pkg/storage/driver/secrets.go and cfgmaps.go, transcribed (they differ only in
   error wrapping).  The Kubernetes object store is a map key -> (labels, body);
   the body codec (JSON + gzip + base64) is a pair of Section variables. *)
From Coq Require Import List String Bool Arith NArith.
From Helm Require Import Common.Assoc Common.Strs Storage.Spec.
Import ListNotations.
Open Scope string_scope.

Section Kube.
  Variable B : Type.                       (* stored body *)
  Variable enc : rel -> B.
  Variable dec : B -> option rel.
  Variable valid_label_value : string -> bool.   (* validation.IsValidLabelValue *)

  Record obj := mkObj { olabels : list (string * string); obody : B }.
  Definition kube := list (string * obj).

  (* regenerated table Gen.SystemLabels is checked equal to this list in Props/C10.v *)
  Definition system_label_keys : list string :=
    ["name"; "owner"; "status"; "version"; "createdAt"; "modifiedAt"].

  Definition is_system_label (k : string) : bool := existsb (String.eqb k) system_label_keys.

  Definition filter_system_labels (l : list (string * string)) : list (string * string) :=
    filter (fun kv => negb (is_system_label (fst kv))) l.

  Definition from_map (src dst : list (string * string)) : list (string * string) :=
    fold_left (fun acc kv => aset (fst kv) (snd kv) acc) src dst.

  (* newSecretsObject: user labels, the time stamp label, then the system labels on top *)
  Definition object_labels (stamp : string) (r : rel) : list (string * string) :=
    from_map (sys_labels r) (from_map (rlabels r) (aset stamp "0" (from_map (rlabels r) []))).

  Definition new_object (stamp : string) (r : rel) : obj := mkObj (object_labels stamp r) (enc r).

  (* equality-based label selector *)
  Definition selects (q : list (string * string)) (o : obj) : bool :=
    forallb (fun kv => match aget (fst kv) (olabels o) with
                       | Some v => String.eqb v (snd kv)
                       | None => false
                       end) q.

  (* decode an item and attach ALL its labels (List / Query) *)
  Definition decode_item (o : obj) : option rel :=
    match dec (obody o) with
    | Some r => Some (mkRel (rname r) (rns r) (rver r) (rstatus r) (olabels o) (rbody r))
    | None => None
    end.

  Fixpoint decode_all (l : list obj) : list rel :=
    match l with
    | [] => []
    | o :: t => match decode_item o with Some r => r :: decode_all t | None => decode_all t end
    end.

  Definition kube_get (s : kube) (key : string) : out :=
    match aget key s with
    | None => RErr ENotFound
    | Some o =>
        match dec (obody o) with
        | Some r => RRel (mkRel (rname r) (rns r) (rver r) (rstatus r)
                                (filter_system_labels (olabels o)) (rbody r))
        | None => RErr EOther
        end
    end.

  Definition kube_step (s : kube) (o : op) : kube * out :=
    match o with
    | OCreate r =>
        match aget (key_of r) s with
        | Some _ => (s, RErr EExists)
        | None => (aset (key_of r) (new_object "createdAt" r) s, ROk)
        end
    | OUpdate r =>
        match aget (key_of r) s with
        | Some _ => (aset (key_of r) (new_object "modifiedAt" r) s, ROk)
        | None => (s, RErr EOther)          (* the API's NotFound, wrapped *)
        end
    | OGet n v => (s, kube_get s (make_key n v))
    | ODelete n v =>
        match kube_get s (make_key n v) with
        | RRel r => (adel (make_key n v) s, RRel r)
        | e => (s, e)
        end
    | OList => (s, RRels (decode_all (filter (selects [("owner", "helm")]) (map snd s))))
    | OQuery q =>
        if forallb (fun kv => valid_label_value (snd kv)) q then
          match filter (selects q) (map snd s) with
          | [] => (s, RErr ENotFound)
          | l => (s, RRels (decode_all l))
          end
        else (s, RErr EOther)
    end.

  Fixpoint kube_run (s : kube) (ops : list op) : list out :=
    match ops with
    | [] => []
    | o :: t => let '(s', r) := kube_step s o in r :: kube_run s' t
    end.
End Kube.

(* Projection applied to results before backends are compared (C10_labels): Get returns
   user labels only, List/Query return user + system labels. *)
Definition strip_rel (r : rel) : rel :=
  mkRel (rname r) (rns r) (rver r) (rstatus r)
        (filter (fun kv => negb (existsb (String.eqb (fst kv))
                   ["name"; "owner"; "status"; "version"; "createdAt"; "modifiedAt"])) (rlabels r))
        (rbody r).

Definition strip_out (o : out) : out :=
  match o with
  | RRel r => RRel (strip_rel r)
  | RRels l => RRels (map strip_rel l)
  | x => x
  end.

(* C10: the four system labels of a stored object are always the computed ones — keys of the
   same name carried in the release's own label map (a release read back through List/Query
   and written again, as upgrade does) never override them.  No hypothesis on the release. *)
From Coq Require Import List String Ascii Bool Arith NArith.
From Helm Require Import Common.Assoc Common.Strs Storage.Spec Storage.Kube Storage.Lemmas.
Import ListNotations.
Local Open Scope string_scope.

Lemma aget_from_map_notin k (src dst : list (string * string)) :
  ~ In k (map fst src) -> aget k (from_map src dst) = aget k dst.
Proof.
  unfold from_map. revert dst. induction src as [|[k1 v1] t IH]; intros dst H; simpl; auto.
  simpl in H. rewrite IH by tauto. apply aget_aset_neq. intros ->. tauto.
Qed.

Lemma aget_from_map_in k v (src dst : list (string * string)) :
  NoDup (map fst src) -> In (k, v) src -> aget k (from_map src dst) = Some v.
Proof.
  revert dst. induction src as [|[k1 v1] t IH]; intros dst Hnd Hin; [destruct Hin|].
  simpl in Hnd. inversion Hnd as [|? ? Hni Hnd']; subst.
  change (from_map ((k1, v1) :: t) dst) with (from_map t (aset k1 v1 dst)).
  destruct Hin as [E|Hin].
  - inversion E; subst. rewrite aget_from_map_notin by assumption. apply aget_aset_eq.
  - now apply IH.
Qed.

Lemma sys_labels_nodup r : NoDup (map fst (sys_labels r)).
Proof. simpl. repeat constructor; simpl; intuition discriminate. Qed.

Lemma system_labels_win stamp r k :
  In k sys_keys -> aget k (object_labels stamp r) = aget k (sys_labels r).
Proof.
  intros Hk. unfold object_labels. simpl in Hk.
  destruct Hk as [<-|[<-|[<-|[<-|[]]]]];
    (erewrite aget_from_map_in; [reflexivity|apply sys_labels_nodup|simpl; auto]).
Qed.

Section Selectors.
  Variable B : Type.
  Variable enc : rel -> B.

  Lemma selects_system stamp r q :
    (forall k v, In (k, v) q -> In k sys_keys) ->
    selects B q (new_object B enc stamp r) = sys_match q r.
  Proof.
    intros Hq. unfold selects, sys_match. apply forallb_ext_in. intros [k v] Hin.
    simpl. rewrite system_labels_win by eauto.
    unfold get_or_empty. pose proof (Hq k v Hin) as Hk. simpl in Hk.
    destruct Hk as [<-|[<-|[<-|[<-|[]]]]]; reflexivity.
  Qed.

  Theorem kube_system_labels_win stamp r :
    (forall k, In k sys_keys ->
       aget k (olabels B (new_object B enc stamp r)) = aget k (sys_labels r)) /\
    (forall q, (forall k v, In (k, v) q -> In k sys_keys) ->
       selects B q (new_object B enc stamp r) = sys_match q r).
  Proof. split; [intros k Hk; now apply system_labels_win|apply selects_system]. Qed.
End Selectors.

(* a release that came back from Query as "deployed", marked superseded and written again:
   its own stale status label does not decide which selector finds it *)
Definition ex_stale : rel :=
  mkRel "app" "default" 1 "superseded"
        [("team", "x"); ("createdAt", "0"); ("name", "app"); ("owner", "helm"); ("status", "deployed"); ("version", "1")] 1.

Lemma ex_stale_selected :
  selects rel [("status", "superseded")] (new_object rel (fun r => r) "modifiedAt" ex_stale) = true /\
  selects rel [("status", "deployed")] (new_object rel (fun r => r) "modifiedAt" ex_stale) = false /\
  aget "status" (rlabels ex_stale) = Some "deployed".
Proof. vm_compute. repeat split. Qed.

(* C10: the refinement statements with the record codec of util.go in place of the abstract
   body codec: a stored body is the text base64(gzip(json(release))) and is read back by
   decodeRelease.  What remains assumed is the round trip of encoding/json and of
   compress/gzip, and that gzip output starts with the gzip magic number (RFC 1952). *)
From Coq Require Import List String Ascii Bool Arith Permutation.
From Helm Require Import Common.Assoc Common.Strs Storage.Spec Storage.Mem Storage.Kube Storage.Rmw
  Storage.Refine Storage.KubeProofs Storage.KubeX Storage.KubeXProofs Storage.Calls Storage.AllProofs
  Storage.Base64 Storage.Codec Storage.CodecProofs Storage.Order.
Import ListNotations.
Local Open Scope string_scope.

Section Bytes.
  Variable json : rel -> string.
  Variable unjson : string -> option rel.
  Variable gzip : string -> string.
  Variable gunzip : string -> option string.
  Variable valid_label_value : string -> bool.
  Hypothesis gzip_roundtrip : forall b, gunzip (gzip b) = Some b.
  Hypothesis gzip_magic : forall b, has_gzip_magic (gzip b) = true.

  Notation enc := (encode_release json gzip).
  Notation dec := (decode_release unjson gunzip).
  Notation kstep := (kube_step string enc dec valid_label_value).

  Theorem all_backends_refine_spec_bytes :
    (forall r, option_map unlabel (unjson (json r)) = Some (unlabel r)) ->
    forall (ns0 ns1 : string) (xs : list sop),
    let ref := srun spec_step [] (map norm_sop xs) in
    (Forall (call_in_ns ns0) xs ->
       Forall2 out_equiv (map norm_out (srun mem_step (mkMem ns1 []) xs)) ref) /\
    (Forall (call_ok valid_label_value) xs ->
       Forall2 out_refines (map norm_out (srun kstep [] xs)) ref).
  Proof.
    intros Hj. apply all_backends_refine_spec.
    now apply codec_roundtrip_body.
  Qed.

  Theorem reads_order_independent_bytes :
    (forall r, option_map unlabel (unjson (json r)) = Some (unlabel r)) ->
    forall ns0 ns1 xs n,
    let sref := sexec spec_step [] (map norm_sop xs) in
    (Forall (call_in_ns ns0) xs ->
       let m := sexec mem_step (mkMem ns1 []) xs in
       norm_out (storage_last mem_step m n) = storage_last spec_step sref n /\
       norm_out (storage_deployed mem_step m n) = storage_deployed spec_step sref n /\
       norm_out (sorted_of (snd (mem_step m (OQuery (history_query n))))) =
         sorted_of (snd (spec_step sref (OQuery (history_query n))))) /\
    (Forall (call_ok valid_label_value) xs ->
     valid_label_value n = true -> valid_label_value "helm" = true -> valid_label_value "deployed" = true ->
       let k := sexec kstep [] xs in
       out_refines (norm_out (storage_last kstep k n)) (storage_last spec_step sref n) /\
       out_refines (norm_out (storage_deployed kstep k n)) (storage_deployed spec_step sref n) /\
       out_refines (norm_out (sorted_of (snd (kstep k (OQuery (history_query n))))))
                   (sorted_of (snd (spec_step sref (OQuery (history_query n)))))).
  Proof.
    intros Hj. apply reads_order_independent. now apply codec_roundtrip_body.
  Qed.

  (* the statements proved for well-formed user label maps, on the byte-level codec *)
  Theorem kube_refines_spec_bytes :
    (forall r, unjson (json r) = Some r) ->
    forall ops : list op, Forall (kube_op_ok valid_label_value) ops ->
    Forall2 out_refines (map strip_out (kube_run string enc dec valid_label_value [] ops)) (spec_run [] ops).
  Proof. intros Hj. apply kube_refines_spec. now apply codec_roundtrip. Qed.

  Theorem kube_get_exact_bytes :
    (forall r, unjson (json r) = Some r) ->
    forall ops : list op, Forall (kube_op_ok valid_label_value) ops ->
    Forall2 (fun ok os => forall r, ok = RRel r -> os = RRel r)
            (kube_run string enc dec valid_label_value [] ops) (spec_run [] ops).
  Proof. intros Hj. apply kube_get_exact. now apply codec_roundtrip. Qed.

  (* the damaged record of the harness (and of C20) is one the base64 layer rejects *)
  Theorem list_skips_undecodable_bytes :
    (forall r, unjson (json r) = Some r) ->
    forall (ops : list op) (n : string) (v : nat) (st : string),
    Forall (kube_op_ok valid_label_value) ops ->
    let bad := "!! not a release !!" in
    let k := kube_exec string enc dec valid_label_value [] ops in
    let k' := fst (kube_xstep string enc dec valid_label_value bad k (XCorrupt n v st)) in
    let others := map snd (adel (make_key n v) (spec_exec [] ops)) in
    (exists l, snd (kstep k' OList) = RRels l /\ map strip_rel l = others) /\
    kstep k' (OGet n v) = (k', RErr EOther) /\
    kstep k' (ODelete n v) = (k', RErr EOther).
  Proof.
    intros Hj ops n v st Hops bad k k' others.
    destruct (list_skips_undecodable string enc dec valid_label_value bad
                (codec_roundtrip json unjson gzip gunzip gzip_roundtrip gzip_magic Hj)
                (damaged_record_undecodable unjson gunzip) ops n v st Hops) as (H1 & _ & H3 & H4 & _).
    repeat split; assumption.
  Qed.
End Bytes.

(* non-vacuity of the hypotheses on the third-party stages: a (toy) JSON and gzip that meet
   them - JSON text opens with a brace, compressed data with the magic number *)
Definition toy_gzip (b : string) : string := (magic_gzip ++ String "000" b)%string.
Definition toy_gunzip (b : string) : option string :=
  if has_gzip_magic b then Some (substring 4 (String.length b - 4) b) else None.

Lemma toy_gzip_ok : (forall b, toy_gunzip (toy_gzip b) = Some b) /\ (forall b, has_gzip_magic (toy_gzip b) = true).
Proof.
  split; intros b; unfold toy_gunzip, toy_gzip.
  - change (has_gzip_magic (magic_gzip ++ String "000" b)) with true. cbv iota.
    change (substring 4 (String.length (magic_gzip ++ String "000" b) - 4) (magic_gzip ++ String "000" b))
      with (substring 0 (String.length b - 0) b).
    rewrite Nat.sub_0_r. f_equal. induction b; simpl; congruence.
  - reflexivity.
Qed.

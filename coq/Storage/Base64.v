(* encoding/base64 StdEncoding (padding '=', not strict) as pkg/storage/driver/util.go uses it
   ([var b64 = base64.StdEncoding]; encodeRelease: b64.EncodeToString, decodeRelease:
   b64.DecodeString), transcribed from Go 1.24 src/encoding/base64/base64.go:

   Encode        three source bytes -> val = b0<<16 | b1<<8 | b2 -> four characters
                 encode[val>>18&0x3F] ... encode[val&0x3F]; a rest of one byte gives two
                 characters and "==", a rest of two bytes three characters and "=".
   decodeQuantum reads characters one at a time: an alphabet character is a 6-bit digit;
                 '\n' and '\r' are skipped wherever they stand; any other character that is not
                 the padding character is corrupt input; end of input inside a quantum is
                 corrupt input (padded encoding); '=' as the first or second character of a
                 quantum is corrupt; as the third it must be followed (newlines skipped) by a
                 second '='; after the padding only newlines may follow (trailing garbage).
                 val = d0<<18 | d1<<12 | d2<<6 | d3, bytes byte(val>>16), byte(val>>8),
                 byte(val); with padding only the first one / two are produced, and - the
                 encoding not being strict - the unused low bits are ignored.
   Decode        repeats decodeQuantum until the input is used up (its 8- and 4-character fast
                 paths produce the same bytes: they apply only when all characters are digits).
   DecodeString  any error: no result.

   A byte string is a Coq [string] (a list of [ascii] = bytes).  Definitions only. *)
From Coq Require Import List String Ascii Bool NArith.
Import ListNotations.
Open Scope string_scope.

Definition b64_alphabet : string :=
  "ABCDEFGHIJKLMNOPQRSTUVWXYZabcdefghijklmnopqrstuvwxyz0123456789+/".

Definition pad_char : ascii := "="%char.

(* enc.encode[n] *)
Definition b64_char (n : N) : ascii :=
  match String.get (N.to_nat n) b64_alphabet with Some c => c | None => pad_char end.

(* enc.decodeMap[c] (0xff = None) *)
Fixpoint index_of (c : ascii) (s : string) (i : N) : option N :=
  match s with
  | EmptyString => None
  | String d t => if Ascii.eqb c d then Some i else index_of c t (N.succ i)
  end.

Definition b64_digit (c : ascii) : option N := index_of c b64_alphabet 0.

Definition is_nl (c : ascii) : bool := Ascii.eqb c "010"%char || Ascii.eqb c "013"%char.

Definition byte_val (c : ascii) : N := N_of_ascii c.
(* byte(v): truncation to 8 bits *)
Definition to_byte (v : N) : ascii := ascii_of_N (N.land v 255).

Local Open Scope N_scope.

(* ---------- Encode ---------- *)
Definition val3 (b0 b1 b2 : N) : N := N.lor (N.shiftl b0 16) (N.lor (N.shiftl b1 8) b2).
Definition sext (val k : N) : N := N.land (N.shiftr val k) 63.

Fixpoint b64_encode (s : string) : string :=
  match s with
  | EmptyString => EmptyString
  | String x EmptyString =>
      let val := N.shiftl (byte_val x) 16 in
      String (b64_char (sext val 18)) (String (b64_char (sext val 12))
        (String pad_char (String pad_char EmptyString)))
  | String x (String y EmptyString) =>
      let val := N.lor (N.shiftl (byte_val x) 16) (N.shiftl (byte_val y) 8) in
      String (b64_char (sext val 18)) (String (b64_char (sext val 12))
        (String (b64_char (sext val 6)) (String pad_char EmptyString)))
  | String x (String y (String z t)) =>
      let val := val3 (byte_val x) (byte_val y) (byte_val z) in
      String (b64_char (sext val 18)) (String (b64_char (sext val 12))
        (String (b64_char (sext val 6)) (String (b64_char (sext val 0)) (b64_encode t))))
  end.

(* ---------- Decode ---------- *)
Definition val4 (d0 d1 d2 d3 : N) : N :=
  N.lor (N.shiftl d0 18) (N.lor (N.shiftl d1 12) (N.lor (N.shiftl d2 6) d3)).
Definition out0 (val : N) : ascii := to_byte (N.shiftr val 16).
Definition out1 (val : N) : ascii := to_byte (N.shiftr val 8).
Definition out2 (val : N) : ascii := to_byte val.

(* after the padding: newlines, then the end *)
Fixpoint only_nl (s : string) : bool :=
  match s with
  | EmptyString => true
  | String c t => is_nl c && only_nl t
  end.

(* after the first '=' of a two-character quantum: newlines, '=', newlines, end *)
Fixpoint pad_tail (s : string) : bool :=
  match s with
  | EmptyString => false
  | String c t => if is_nl c then pad_tail t else if Ascii.eqb c pad_char then only_nl t else false
  end.

(* the digits of the current quantum read so far *)
Inductive quantum := Q0 | Q1 (a : N) | Q2 (a b : N) | Q3 (a b c : N).

Fixpoint b64_decode_from (st : quantum) (s : string) : option string :=
  match s with
  | EmptyString => match st with Q0 => Some EmptyString | _ => None end
  | String ch t =>
      match b64_digit ch with
      | Some x =>
          match st with
          | Q0 => b64_decode_from (Q1 x) t
          | Q1 a => b64_decode_from (Q2 a x) t
          | Q2 a b => b64_decode_from (Q3 a b x) t
          | Q3 a b c =>
              let val := val4 a b c x in
              match b64_decode_from Q0 t with
              | Some r => Some (String (out0 val) (String (out1 val) (String (out2 val) r)))
              | None => None
              end
          end
      | None =>
          if is_nl ch then b64_decode_from st t
          else if Ascii.eqb ch pad_char then
            match st with
            | Q2 a b => if pad_tail t then Some (String (out0 (val4 a b 0 0)) EmptyString) else None
            | Q3 a b c =>
                if only_nl t
                then let val := val4 a b c 0 in Some (String (out0 val) (String (out1 val) EmptyString))
                else None
            | _ => None
            end
          else None
      end
  end.

Definition b64_decode : string -> option string := b64_decode_from Q0.

(* pkg/storage/driver/memory.go + records.go, transcribed.
   cache : namespace -> release name -> records (key, release) kept sorted by version. *)
From Coq Require Import List String Bool Arith NArith.
From Helm Require Import Common.Assoc Common.Strs Storage.Spec.
Import ListNotations.
Open Scope string_scope.

Definition records := list (string * rel).

Record mem := mkMem { mns : string; mcache : list (string * list (string * records)) }.

Definition mem_init : mem := mkMem "default" [].

(* the key parsing of Memory.Get / Memory.Delete *)
Definition mem_parse_key (key : string) : option (string * nat) :=
  match split_last_dotv (trim_prefix (storage_prefix ++ ".") key) with
  | Some (name, ver) =>
      match atoi ver with
      | Some v => Some (name, v)
      | None => None
      end
  | None => None
  end.

(* records.Add: append and sort by version *)
Fixpoint rec_insert (k : string) (r : rel) (rs : records) : records :=
  match rs with
  | [] => [(k, r)]
  | (k', r') :: t => if Nat.ltb (rver r) (rver r') then (k, r) :: rs else (k', r') :: rec_insert k r t
  end.

Definition ns_of (r : rel) : string := if String.eqb (rns r) "" then "default" else rns r.

Definition names_of (m : mem) (ns : string) : list (string * records) :=
  match aget ns (mcache m) with Some x => x | None => [] end.

Definition recs_of (m : mem) (ns name : string) : option records := aget name (names_of m ns).

(* the releases List/Query range over: one namespace, or all when the namespace is "" *)
Definition mem_visible (m : mem) : list rel :=
  let nss := if String.eqb (mns m) "" then map snd (mcache m) else [names_of m (mns m)] in
  map snd (List.concat (map snd (List.concat nss))).

Definition mem_step (m : mem) (o : op) : mem * out :=
  match o with
  | OCreate r =>
      let key := key_of r in
      let ns := ns_of r in
      let names := names_of m ns in
      match aget (rname r) names with
      | Some recs =>
          if amem key recs then (mkMem ns (aset ns names (mcache m)), RErr EExists)
          else (mkMem ns (aset ns (aset (rname r) (rec_insert key r recs) names) (mcache m)), ROk)
      | None => (mkMem ns (aset ns (aset (rname r) [(key, r)] names) (mcache m)), ROk)
      end
  | OUpdate r =>
      let key := key_of r in
      let ns := ns_of r in
      match aget ns (mcache m) with
      | Some names =>
          match aget (rname r) names with
          | Some recs =>
              if amem key recs
              then (mkMem ns (aset ns (aset (rname r) (aset key r recs) names) (mcache m)), ROk)
              else (mkMem ns (mcache m), RErr ENotFound)
          | None => (mkMem ns (mcache m), RErr ENotFound)
          end
      | None => (mkMem ns (mcache m), RErr ENotFound)
      end
  | OGet n v =>
      let key := make_key n v in
      match mem_parse_key key with
      | Some (name, _) =>
          match recs_of m (mns m) name with
          | Some recs =>
              match aget key recs with
              | Some r => (m, RRel r)
              | None => (m, RErr ENotFound)
              end
          | None => (m, RErr ENotFound)
          end
      | None => (m, RErr EInvalidKey)
      end
  | ODelete n v =>
      let key := make_key n v in
      match mem_parse_key key with
      | Some (name, _) =>
          match aget (mns m) (mcache m) with
          | Some names =>
              match aget name names with
              | Some recs =>
                  match aget key recs with
                  | Some r => (mkMem (mns m) (aset (mns m) (aset name (adel key recs) names) (mcache m)), RRel r)
                  | None => (m, RErr ENotFound)
                  end
              | None => (m, RErr ENotFound)
              end
          | None => (m, RErr ENotFound)
          end
      | None => (m, RErr EInvalidKey)
      end
  | OList => (m, RRels (mem_visible m))
  | OQuery q =>
      match filter (sys_match q) (mem_visible m) with
      | [] => (m, RErr ENotFound)
      | l => (m, RRels l)
      end
  end.

Fixpoint mem_run (m : mem) (ops : list op) : list out :=
  match ops with
  | [] => []
  | o :: t => let '(m', r) := mem_step m o in r :: mem_run m' t
  end.

(* C10: the regenerated description of the record codec (pkg/storage/driver, via hx gen-tables:
   Gen/CodecConsts.v) is what Storage/Codec.v and Storage/Base64.v model: both directions use
   base64.StdEncoding, the magic number is 1f 8b 08, and the guard read from the source sends
   bytes through gunzip exactly when the model's [has_gzip_magic] holds - proved as an
   EQUIVALENCE for all lengths, so any way of writing the same condition (len(b) > 3,
   !(len(b) <= 3), len(b) >= 4, an early return on the negation, a helper function,
   bytes.HasPrefix) satisfies it and any other condition does not. *)
From Coq Require Import List String Bool Arith Lia ZifyBool.
From Helm Require Import Common.Strs Storage.Codec Storage.GuardExpr Gen.CodecConsts.
Import ListNotations.
Local Open Scope string_scope.

(* an entry the translator could not read is spelled "Unknown: <what>" / GUnknown "<what>"; the
   values are computed before they are compared, so a failure prints that text *)
Lemma codec_consts_table :
  (b64_encoding, b64_decoding) = ("base64.StdEncoding", "base64.StdEncoding") /\
  magic_gzip = magic_gzip_bytes /\ gunknowns magic_guard = [].
Proof. vm_compute. repeat split; reflexivity. Qed.

(* for every length of b and every outcome of the byte comparisons *)
Lemma magic_guard_equiv (len : nat) (mg : nat -> nat -> bool) :
  gunzip_taken magic_guard_positive magic_guard len mg = Nat.ltb 3 len && mg 0 3.
Proof.
  cbv [gunzip_taken geval cmp_eval magic_guard magic_guard_positive].
  destruct (mg 0 3); lia.
Qed.

(* b[lo:hi] equals the magic number (false when b is too short - Go would not get there) *)
Definition starts_magic (b : string) (lo hi : nat) : bool :=
  String.eqb (substring lo (hi - lo) b) Codec.magic_gzip.

(* the guard of the source, evaluated on the bytes, is the model's dispatch condition *)
Theorem magic_guard_is_model (b : string) :
  gunzip_taken magic_guard_positive magic_guard (String.length b) (starts_magic b) = has_gzip_magic b.
Proof. rewrite magic_guard_equiv. reflexivity. Qed.

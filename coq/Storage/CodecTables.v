(* C10: the regenerated constants of the record codec (pkg/storage/driver/util.go, via
   hx gen-tables) are the ones Storage/Codec.v and Storage/Base64.v model: the gzip magic
   number, base64.StdEncoding, and the test len(b) > 3 && bytes.Equal(b[0:3], magicGzip). *)
From Coq Require Import List String Bool Arith.
From Helm Require Import Common.Strs Storage.Codec Gen.CodecConsts.
Import ListNotations.
Local Open Scope string_scope.

Lemma codec_consts_table :
  magic_gzip = magic_gzip_bytes /\ b64_encoding = "base64.StdEncoding" /\
  magic_len_test = (">", 3) /\ magic_slice = (0, 3).
Proof. repeat split; reflexivity. Qed.

(* the model's test written with the regenerated numbers is the model's test *)
Lemma has_gzip_magic_table b :
  has_gzip_magic b =
  (Nat.ltb (snd magic_len_test) (String.length b)
   && String.eqb (substring (fst magic_slice) (snd magic_slice - fst magic_slice) b) (bs magic_gzip)).
Proof. reflexivity. Qed.

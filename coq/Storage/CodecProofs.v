(* The record-body codec round-trips given only that JSON and gzip do (C10). *)
From Coq Require Import List String Ascii Bool Arith NArith Lia.
From Helm Require Import Common.Strs Storage.Spec Storage.Base64 Storage.Base64Proofs
  Storage.Calls Storage.Codec.
Import ListNotations.
Local Open Scope string_scope.

(* ---------- the dispatch on the gzip magic number ---------- *)
(* data that decodes to bytes starting with 1f 8b 08 (and longer than three bytes) goes through
   gunzip; any other data is taken as the JSON text itself *)
Section Dispatch.
  Variable json : rel -> string.
  Variable unjson : string -> option rel.
  Variable gzip : string -> string.
  Variable gunzip : string -> option string.
  Notation dec := (decode_release unjson gunzip).

  Lemma decode_dispatch data b : b64_decode data = Some b ->
    dec data = if has_gzip_magic b
               then match gunzip b with Some b2 => unjson b2 | None => None end
               else unjson b.
  Proof. intros H. unfold decode_release. now rewrite H. Qed.

  Lemma decode_corrupt data : b64_decode data = None -> dec data = None.
  Proof. intros H. unfold decode_release. now rewrite H. Qed.

  (* exactly what the test is *)
  Lemma has_gzip_magic_spec b :
    has_gzip_magic b = true <->
    exists c t, b = String "031" (String "139" (String "008" (String c t))).
  Proof.
    unfold has_gzip_magic. split.
    - intros H. apply andb_prop in H. destruct H as [Hl He]. apply Nat.ltb_lt in Hl.
      destruct b as [|c0 [|c1 [|c2 [|c3 t]]]]; simpl in Hl; try lia.
      cbn [substring] in He. apply String.eqb_eq in He. inversion He. subst. eauto.
    - intros (c & t & ->). reflexivity.
  Qed.

  (* a JSON object starts with an opening brace: never mistaken for compressed data *)
  Lemma brace_not_magic t : has_gzip_magic (String "{" t) = false.
  Proof.
    unfold has_gzip_magic. destruct t as [|c1 [|c2 t]]; try reflexivity.
    destruct (Nat.ltb 3 (String.length (String "{" (String c1 (String c2 t))))); reflexivity.
  Qed.

  (* three bytes 1f 8b 08 alone are not "compressed data" (len(b) > 3) *)
  Lemma magic_alone_not_magic : has_gzip_magic magic_gzip = false.
  Proof. reflexivity. Qed.

  (* ---------- round trips ---------- *)
  Hypothesis gzip_roundtrip : forall b, gunzip (gzip b) = Some b.
  (* RFC 1952: a gzip member starts ID1 = 1f, ID2 = 8b, CM = 08 and has a 10-byte header *)
  Hypothesis gzip_magic : forall b, has_gzip_magic (gzip b) = true.

  Lemma decode_encode r : dec (encode_release json gzip r) = unjson (json r).
  Proof.
    unfold decode_release, encode_release. rewrite b64_roundtrip, gzip_magic, gzip_roundtrip. reflexivity.
  Qed.

  (* json round trip, the body's own fields (the label map is not part of the body) *)
  Theorem codec_roundtrip_body :
    (forall r, option_map unlabel (unjson (json r)) = Some (unlabel r)) ->
    forall r, option_map unlabel (dec (encode_release json gzip r)) = Some (unlabel r).
  Proof. intros H r. rewrite decode_encode. apply H. Qed.

  (* the form the theorems stated with [dec (enc r) = Some r] need *)
  Theorem codec_roundtrip :
    (forall r, unjson (json r) = Some r) ->
    forall r, dec (encode_release json gzip r) = Some r.
  Proof. intros H r. rewrite decode_encode. apply H. Qed.

  (* records written before compression was introduced still decode *)
  Theorem codec_legacy_body :
    (forall r, option_map unlabel (unjson (json r)) = Some (unlabel r)) ->
    (forall r, exists t, json r = String "{" t) ->
    forall r, option_map unlabel (dec (encode_release_legacy json r)) = Some (unlabel r).
  Proof.
    intros H Hb r. unfold decode_release, encode_release_legacy. rewrite b64_roundtrip.
    destruct (Hb r) as [t Ht]. rewrite Ht, brace_not_magic, <- Ht. apply H.
  Qed.

  (* two releases with different bodies are stored as different texts *)
  Theorem encode_release_injective :
    (forall r, option_map unlabel (unjson (json r)) = Some (unlabel r)) ->
    forall r1 r2, encode_release json gzip r1 = encode_release json gzip r2 -> unlabel r1 = unlabel r2.
  Proof.
    intros H r1 r2 E. pose proof (codec_roundtrip_body H r1) as H1. rewrite E in H1.
    rewrite (codec_roundtrip_body H r2) in H1.
    apply (f_equal (fun o => match o with Some x => x | None => unlabel r1 end)) in H1.
    symmetry. exact H1.
  Qed.
End Dispatch.

(* what the harness writes behind the drivers' back as a damaged record is rejected by the
   base64 layer already, whatever JSON and gzip do *)
Lemma damaged_record_undecodable unjson gunzip :
  decode_release unjson gunzip "!! not a release !!" = None.
Proof. reflexivity. Qed.

Theorem gzip_magic_test (b : string) :
  (has_gzip_magic b = true <->
   exists c t, b = String "031"%char (String "139"%char (String "008"%char (String c t)))) /\
  (forall t, has_gzip_magic (String "{"%char t) = false).
Proof. split; [apply has_gzip_magic_spec|apply brace_not_magic]. Qed.

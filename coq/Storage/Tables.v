(* C10: the regenerated system-label table (pkg/storage/driver/util.go, via hx gen-tables)
   is the list the Kubernetes model filters on. *)
From Coq Require Import List String.
From Helm Require Import Storage.Kube Gen.SystemLabels.

Lemma system_labels_table : system_labels = system_label_keys.
Proof. reflexivity. Qed.

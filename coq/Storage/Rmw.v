(* Read-modify-write, the way upgrade / rollback / uninstall treat the previous revision:
   the release is read back through Query (so on the Kubernetes backends it carries the
   storage object's labels, system labels included), its status is changed, and it is
   written back with Update.  Generic in the store it runs on.  Definitions only. *)
From Coq Require Import List String Bool Arith NArith.
From Helm Require Import Common.Assoc Common.Strs Storage.Spec.
Import ListNotations.
Open Scope string_scope.

Definition rmw_query (n : string) (v : nat) : op := OQuery [("name", n); ("version", show_nat v)].

Definition with_status (st : string) (r : rel) : rel :=
  mkRel (rname r) (rns r) (rver r) st (rlabels r) (rbody r).

(* exactly one release must come back; otherwise nothing is written *)
Definition rmw {S : Type} (step : S -> op -> S * out) (s : S) (n : string) (v : nat) (st : string) : S * out :=
  match snd (step s (rmw_query n v)) with
  | RRels [r] => step s (OUpdate (with_status st r))
  | RRels _ => (s, RErr EOther)
  | RErr e => (s, RErr e)
  | _ => (s, RErr EOther)
  end.

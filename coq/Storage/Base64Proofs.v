(* encoding/base64 StdEncoding (Storage/Base64.v): DecodeString (EncodeToString bs) = bs for
   EVERY byte string, hence EncodeToString is injective; encoded text has no newline. *)
From Coq Require Import List String Ascii Bool NArith ZArith Lia Arith.
From Helm Require Import Storage.Base64.
Import ListNotations.
Local Open Scope string_scope.

(* ---------- shifts and masks as arithmetic ---------- *)
Local Open Scope N_scope.

Lemma land_shiftl_small a k w : w < 2 ^ k -> N.land (N.shiftl a k) w = 0.
Proof.
  intros Hw. apply N.bits_inj_iff. intros n. rewrite N.land_spec, N.bits_0.
  destruct (N.ltb_spec n k) as [Hlt|Hge].
  - now rewrite N.shiftl_spec_low.
  - rewrite <- (N.mod_small w (2 ^ k)) by assumption.
    rewrite N.mod_pow2_bits_high by assumption. apply andb_false_r.
Qed.

Lemma lor_shiftl_small a k w : w < 2 ^ k -> N.lor (N.shiftl a k) w = a * 2 ^ k + w.
Proof.
  intros Hw. rewrite <- N.lxor_lor by (now apply land_shiftl_small).
  rewrite <- N.add_nocarry_lxor by (now apply land_shiftl_small).
  now rewrite N.shiftl_mul_pow2.
Qed.

Lemma sext_arith val k : sext val k = (val / 2 ^ k) mod 64.
Proof. unfold sext. rewrite N.shiftr_div_pow2. change 63 with (N.ones 6). now rewrite N.land_ones. Qed.

Lemma sext_lt val k : sext val k < 64.
Proof. rewrite sext_arith. apply N.mod_lt. discriminate. Qed.

Lemma to_byte_arith v : to_byte v = ascii_of_N (v mod 256).
Proof. unfold to_byte. change 255 with (N.ones 8). now rewrite N.land_ones. Qed.

(* name quotient and remainder of [t / k], with their defining facts, for lia *)
Ltac ndm t k :=
  let q := fresh "q" in let r := fresh "r" in
  pose proof (N.div_mod t k); pose proof (N.mod_lt t k);
  set (q := t / k) in *; set (r := t mod k) in *; clearbody q r.

Lemma val3_arith x y z : y < 256 -> z < 256 -> val3 x y z = x * 65536 + y * 256 + z.
Proof.
  intros Hy Hz. unfold val3.
  rewrite (lor_shiftl_small y 8 z) by (change (2 ^ 8) with 256; lia).
  rewrite lor_shiftl_small by (change (2 ^ 8) with 256; change (2 ^ 16) with 65536; lia).
  change (2 ^ 8) with 256. change (2 ^ 16) with 65536. lia.
Qed.

Lemma val4_arith a b c d : b < 64 -> c < 64 -> d < 64 ->
  val4 a b c d = a * 262144 + b * 4096 + c * 64 + d.
Proof.
  intros Hb Hc Hd. unfold val4.
  rewrite (lor_shiftl_small c 6 d) by (change (2 ^ 6) with 64; lia).
  rewrite (lor_shiftl_small b 12) by (change (2 ^ 6) with 64; change (2 ^ 12) with 4096; lia).
  rewrite lor_shiftl_small
    by (change (2 ^ 6) with 64; change (2 ^ 12) with 4096; change (2 ^ 18) with 262144; lia).
  change (2 ^ 6) with 64. change (2 ^ 12) with 4096. change (2 ^ 18) with 262144. lia.
Qed.

(* the four digits of a 24-bit value put together again *)
Lemma sext_chain val :
  sext val 0 = val mod 64 /\ sext val 6 = (val / 64) mod 64 /\
  sext val 12 = (val / 64 / 64) mod 64 /\ sext val 18 = (val / 64 / 64 / 64) mod 64.
Proof.
  rewrite !sext_arith. change (2 ^ 0) with 1. change (2 ^ 6) with 64.
  change (2 ^ 12) with (64 * 64). change (2 ^ 18) with (64 * 64 * 64).
  rewrite N.div_1_r, <- !N.div_div by discriminate. repeat split; reflexivity.
Qed.

Lemma digits_value val : val < 16777216 ->
  val4 (sext val 18) (sext val 12) (sext val 6) (sext val 0) = val.
Proof.
  intros Hv. rewrite val4_arith by apply sext_lt.
  destruct (sext_chain val) as (-> & -> & -> & ->).
  ndm val 64. ndm q 64. ndm q0 64. ndm q1 64. lia.
Qed.

Lemma digits_value3 val : val < 16777216 -> val mod 64 = 0 ->
  val4 (sext val 18) (sext val 12) (sext val 6) 0 = val.
Proof.
  intros Hv Hm. rewrite val4_arith by (try apply sext_lt; lia).
  destruct (sext_chain val) as (_ & -> & -> & ->).
  ndm val 64. ndm q 64. ndm q0 64. ndm q1 64. lia.
Qed.

Lemma digits_value2 val : val < 16777216 -> val mod 64 = 0 -> (val / 64) mod 64 = 0 ->
  val4 (sext val 18) (sext val 12) 0 0 = val.
Proof.
  intros Hv Hm Hm2. rewrite val4_arith by (try apply sext_lt; lia).
  destruct (sext_chain val) as (_ & _ & -> & ->).
  ndm val 64. ndm q 64. ndm q0 64. ndm q1 64. lia.
Qed.

Lemma out0_arith v : out0 v = ascii_of_N ((v / 65536) mod 256).
Proof. unfold out0. rewrite to_byte_arith, N.shiftr_div_pow2. reflexivity. Qed.
Lemma out1_arith v : out1 v = ascii_of_N ((v / 256) mod 256).
Proof. unfold out1. rewrite to_byte_arith, N.shiftr_div_pow2. reflexivity. Qed.
Lemma out2_arith v : out2 v = ascii_of_N (v mod 256).
Proof. unfold out2. apply to_byte_arith. Qed.

Lemma byte_val_lt c : byte_val c < 256.
Proof. apply N_ascii_bounded. Qed.

Lemma byte_back c n : n = byte_val c -> ascii_of_N n = c.
Proof. intros ->. apply ascii_N_embedding. Qed.

(* a full group of three bytes *)
Lemma group3 x y z :
  let val := val3 (byte_val x) (byte_val y) (byte_val z) in
  let val' := val4 (sext val 18) (sext val 12) (sext val 6) (sext val 0) in
  out0 val' = x /\ out1 val' = y /\ out2 val' = z.
Proof.
  intros val val'. pose proof (byte_val_lt x) as Hx. pose proof (byte_val_lt y) as Hy.
  pose proof (byte_val_lt z) as Hz.
  assert (Hv : val = byte_val x * 65536 + byte_val y * 256 + byte_val z) by (now apply val3_arith).
  assert (Hv' : val' = val) by (apply digits_value; lia).
  rewrite Hv'. rewrite out0_arith, out1_arith, out2_arith. rewrite Hv. clear Hv Hv' val val'.
  remember (byte_val x) as bx eqn:Ex. remember (byte_val y) as by_ eqn:Ey.
  remember (byte_val z) as bz eqn:Ez.
  split; [|split]; apply byte_back; [rewrite <- Ex|rewrite <- Ey|rewrite <- Ez]; clear Ex Ey Ez.
  - ndm (bx * 65536 + by_ * 256 + bz) 65536. ndm q 256. lia.
  - ndm (bx * 65536 + by_ * 256 + bz) 256. ndm q 256. lia.
  - ndm (bx * 65536 + by_ * 256 + bz) 256. lia.
Qed.

(* a rest of two bytes *)
Lemma group2 x y :
  let val := N.lor (N.shiftl (byte_val x) 16) (N.shiftl (byte_val y) 8) in
  let val' := val4 (sext val 18) (sext val 12) (sext val 6) 0 in
  out0 val' = x /\ out1 val' = y.
Proof.
  intros val val'. pose proof (byte_val_lt x) as Hx. pose proof (byte_val_lt y) as Hy.
  assert (Hv : val = byte_val x * 65536 + byte_val y * 256).
  { unfold val. rewrite lor_shiftl_small.
    - rewrite N.shiftl_mul_pow2. change (2 ^ 16) with 65536. change (2 ^ 8) with 256. lia.
    - rewrite N.shiftl_mul_pow2. change (2 ^ 16) with 65536. change (2 ^ 8) with 256. lia. }
  assert (Hm : val mod 64 = 0).
  { rewrite Hv. replace (byte_val x * 65536 + byte_val y * 256) with ((byte_val x * 1024 + byte_val y * 4) * 64) by lia.
    apply N.mod_mul. discriminate. }
  assert (Hv' : val' = val) by (apply digits_value3; [lia|exact Hm]).
  rewrite Hv'. rewrite out0_arith, out1_arith. rewrite Hv. clear Hm Hv Hv' val val'.
  remember (byte_val x) as bx eqn:Ex. remember (byte_val y) as by_ eqn:Ey.
  split; apply byte_back; [rewrite <- Ex|rewrite <- Ey]; clear Ex Ey.
  - ndm (bx * 65536 + by_ * 256) 65536. ndm q 256. lia.
  - ndm (bx * 65536 + by_ * 256) 256. ndm q 256. lia.
Qed.

(* a rest of one byte *)
Lemma group1 x :
  let val := N.shiftl (byte_val x) 16 in
  out0 (val4 (sext val 18) (sext val 12) 0 0) = x.
Proof.
  intros val. pose proof (byte_val_lt x) as Hx.
  assert (Hv : val = byte_val x * 65536).
  { unfold val. rewrite N.shiftl_mul_pow2. reflexivity. }
  assert (Hm : val mod 64 = 0).
  { rewrite Hv. replace (byte_val x * 65536) with ((byte_val x * 1024) * 64) by lia.
    apply N.mod_mul. discriminate. }
  assert (Hm2 : (val / 64) mod 64 = 0).
  { rewrite Hv. replace (byte_val x * 65536) with ((byte_val x * 1024) * 64) by lia.
    rewrite N.div_mul by discriminate.
    replace (byte_val x * 1024) with ((byte_val x * 16) * 64) by lia. apply N.mod_mul. discriminate. }
  rewrite digits_value2 by (auto; lia). rewrite out0_arith. apply byte_back. rewrite Hv.
  remember (byte_val x) as bx eqn:Ex. clear - Hx.
  ndm (bx * 65536) 65536. ndm q 256. lia.
Qed.

(* ---------- the alphabet ---------- *)
Definition digits64 : list N := map N.of_nat (seq 0 64).

Lemma in_digits64 n : n < 64 -> In n digits64.
Proof.
  intros H. unfold digits64. rewrite <- (N2Nat.id n). apply in_map. apply in_seq. lia.
Qed.

Lemma alphabet_sweep :
  forallb (fun n => match b64_digit (b64_char n) with Some m => N.eqb m n | None => false end
                    && negb (is_nl (b64_char n)) && negb (Ascii.eqb (b64_char n) pad_char)) digits64 = true.
Proof. vm_compute. reflexivity. Qed.

Lemma digit_char n : n < 64 -> b64_digit (b64_char n) = Some n.
Proof.
  intros H. pose proof (proj1 (forallb_forall _ _) alphabet_sweep n (in_digits64 n H)) as Hs.
  apply andb_prop in Hs. destruct Hs as [Hs _]. apply andb_prop in Hs. destruct Hs as [Hs _].
  destruct (b64_digit (b64_char n)); [|discriminate]. apply N.eqb_eq in Hs. now subst.
Qed.

Lemma char_not_nl n : n < 64 -> is_nl (b64_char n) = false.
Proof.
  intros H. pose proof (proj1 (forallb_forall _ _) alphabet_sweep n (in_digits64 n H)) as Hs.
  apply andb_prop in Hs. destruct Hs as [Hs _]. apply andb_prop in Hs. destruct Hs as [_ Hs].
  now apply negb_true_iff in Hs.
Qed.

(* the padding character and the newlines are not digits *)
Lemma pad_not_digit : b64_digit pad_char = None /\ is_nl pad_char = false.
Proof. vm_compute. split; reflexivity. Qed.

(* ---------- one decoding step ---------- *)
Lemma dec_digit st ch t x : b64_digit ch = Some x ->
  b64_decode_from st (String ch t) =
  match st with
  | Q0 => b64_decode_from (Q1 x) t
  | Q1 a => b64_decode_from (Q2 a x) t
  | Q2 a b => b64_decode_from (Q3 a b x) t
  | Q3 a b c =>
      let val := val4 a b c x in
      match b64_decode_from Q0 t with
      | Some r => Some (String (out0 val) (String (out1 val) (String (out2 val) r)))
      | None => None
      end
  end.
Proof. intros H. cbn [b64_decode_from]. now rewrite H. Qed.

Lemma dec_pad st t :
  b64_decode_from st (String pad_char t) =
  match st with
  | Q2 a b => if pad_tail t then Some (String (out0 (val4 a b 0 0)) EmptyString) else None
  | Q3 a b c =>
      if only_nl t
      then let val := val4 a b c 0 in Some (String (out0 val) (String (out1 val) EmptyString))
      else None
  | _ => None
  end.
Proof. reflexivity. Qed.

Lemma enc3 x y z t :
  b64_encode (String x (String y (String z t))) =
  let val := val3 (byte_val x) (byte_val y) (byte_val z) in
  String (b64_char (sext val 18)) (String (b64_char (sext val 12))
    (String (b64_char (sext val 6)) (String (b64_char (sext val 0)) (b64_encode t)))).
Proof. reflexivity. Qed.

Lemma enc2 x y :
  b64_encode (String x (String y EmptyString)) =
  let val := N.lor (N.shiftl (byte_val x) 16) (N.shiftl (byte_val y) 8) in
  String (b64_char (sext val 18)) (String (b64_char (sext val 12))
    (String (b64_char (sext val 6)) (String pad_char EmptyString))).
Proof. reflexivity. Qed.

Lemma enc1 x :
  b64_encode (String x EmptyString) =
  let val := N.shiftl (byte_val x) 16 in
  String (b64_char (sext val 18)) (String (b64_char (sext val 12))
    (String pad_char (String pad_char EmptyString))).
Proof. reflexivity. Qed.

Local Close Scope N_scope.

(* ---------- the round trip ---------- *)
Lemma b64_roundtrip_len n : forall s, String.length s < n -> b64_decode (b64_encode s) = Some s.
Proof.
  induction n as [|n IH]; intros s Hlen; [inversion Hlen|].
  destruct s as [|x [|y [|z t]]].
  - reflexivity.
  - rewrite enc1. cbv zeta. unfold b64_decode.
    rewrite (dec_digit Q0) with (x := sext (N.shiftl (byte_val x) 16) 18) by (apply digit_char, sext_lt).
    rewrite (dec_digit (Q1 _)) with (x := sext (N.shiftl (byte_val x) 16) 12) by (apply digit_char, sext_lt).
    rewrite dec_pad. cbn [pad_tail only_nl]. change (is_nl pad_char) with false.
    change (Ascii.eqb pad_char pad_char) with true. cbv iota.
    now rewrite group1.
  - rewrite enc2. cbv zeta. unfold b64_decode.
    set (val := N.lor (N.shiftl (byte_val x) 16) (N.shiftl (byte_val y) 8)).
    rewrite (dec_digit Q0) with (x := sext val 18) by (apply digit_char, sext_lt).
    rewrite (dec_digit (Q1 _)) with (x := sext val 12) by (apply digit_char, sext_lt).
    rewrite (dec_digit (Q2 _ _)) with (x := sext val 6) by (apply digit_char, sext_lt).
    rewrite dec_pad. cbn [only_nl]. cbv zeta.
    destruct (group2 x y) as [H0 H1]. fold val in H0, H1. now rewrite H0, H1.
  - rewrite enc3. cbv zeta. unfold b64_decode.
    set (val := val3 (byte_val x) (byte_val y) (byte_val z)).
    rewrite (dec_digit Q0) with (x := sext val 18) by (apply digit_char, sext_lt).
    rewrite (dec_digit (Q1 _)) with (x := sext val 12) by (apply digit_char, sext_lt).
    rewrite (dec_digit (Q2 _ _)) with (x := sext val 6) by (apply digit_char, sext_lt).
    rewrite (dec_digit (Q3 _ _ _)) with (x := sext val 0) by (apply digit_char, sext_lt).
    cbv zeta. fold b64_decode. rewrite IH by (simpl in Hlen; lia).
    destruct (group3 x y z) as (H0 & H1 & H2). fold val in H0, H1, H2. now rewrite H0, H1, H2.
Qed.

Theorem b64_roundtrip s : b64_decode (b64_encode s) = Some s.
Proof. apply (b64_roundtrip_len (S (String.length s))). lia. Qed.

Theorem b64_encode_injective s1 s2 : b64_encode s1 = b64_encode s2 -> s1 = s2.
Proof.
  intros H. pose proof (b64_roundtrip s1) as H1. rewrite H, b64_roundtrip in H1. now inversion H1.
Qed.

(* encoded text consists of alphabet characters and padding: every character of it is a digit
   or '=' (so a stored record has no newline and no character the decoder rejects) *)
Fixpoint all_chars (p : ascii -> bool) (s : string) : bool :=
  match s with EmptyString => true | String c t => p c && all_chars p t end.

Definition b64_text_char (c : ascii) : bool :=
  match b64_digit c with Some _ => true | None => Ascii.eqb c pad_char end.

Lemma text_char_digit n : (n < 64)%N -> b64_text_char (b64_char n) = true.
Proof. intros H. unfold b64_text_char. now rewrite digit_char. Qed.

Lemma b64_encode_text_len n : forall s, String.length s < n -> all_chars b64_text_char (b64_encode s) = true.
Proof.
  induction n as [|n IH]; intros s Hlen; [inversion Hlen|].
  destruct s as [|x [|y [|z t]]].
  - reflexivity.
  - rewrite enc1. cbv zeta. cbn [all_chars]. rewrite !text_char_digit by apply sext_lt. reflexivity.
  - rewrite enc2. cbv zeta. cbn [all_chars]. rewrite !text_char_digit by apply sext_lt. reflexivity.
  - rewrite enc3. cbv zeta. cbn [all_chars]. rewrite !text_char_digit by apply sext_lt.
    rewrite IH by (simpl in Hlen; lia). reflexivity.
Qed.

Theorem b64_encode_text s : all_chars b64_text_char (b64_encode s) = true.
Proof. apply (b64_encode_text_len (S (String.length s))). lia. Qed.

(* ---------- what the decoder rejects ---------- *)
(* a character that is neither a digit, nor a newline, nor '=' makes the whole input corrupt,
   wherever it stands before the padding *)
Lemma b64_reject_char st ch t :
  b64_digit ch = None -> is_nl ch = false -> Ascii.eqb ch pad_char = false ->
  b64_decode_from st (String ch t) = None.
Proof. intros H1 H2 H3. cbn [b64_decode_from]. now rewrite H1, H2, H3. Qed.

(* newlines are skipped wherever they stand *)
Lemma b64_skip_nl st ch t : is_nl ch = true -> b64_decode_from st (String ch t) = b64_decode_from st t.
Proof.
  intros H. cbn [b64_decode_from].
  assert (Hd : b64_digit ch = None).
  { unfold is_nl in H. apply orb_prop in H. destruct H as [H|H]; apply Ascii.eqb_eq in H; subst; reflexivity. }
  now rewrite Hd, H.
Qed.

Theorem b64_newlines_and_rejects (st : quantum) (ch : ascii) (t : string) :
  (is_nl ch = true -> b64_decode_from st (String ch t) = b64_decode_from st t) /\
  (b64_digit ch = None -> is_nl ch = false -> Ascii.eqb ch pad_char = false ->
     b64_decode_from st (String ch t) = None).
Proof. split; [apply b64_skip_nl|apply b64_reject_char]. Qed.

Lemma b64_examples :
  b64_encode "AB" = "QUI=" /\ b64_decode "QUI=" = Some "AB" /\ b64_decode "QQ=" = None /\
  b64_decode "QR==" = Some "A" /\ b64_decode "QQ==QQ==" = None /\ b64_decode "QU-D" = None.
Proof. vm_compute. repeat split. Qed.

(* Proofs about the storage models (C10). *)
From Coq Require Import List String Ascii Bool Arith Lia DecimalString DecimalNat Decimal.
From Helm Require Import Common.Assoc Common.Strs Storage.Spec Storage.Mem Storage.Kube.
Import ListNotations.
Local Open Scope string_scope.

(* ---------- strings ---------- *)
Lemma prefix_app p s : String.prefix p (p ++ s) = true.
Proof.
  induction p as [|c p IH]; simpl; [now destruct s|].
  destruct (ascii_dec c c); [assumption|congruence].
Qed.

Lemma length_app (a b : string) : String.length (a ++ b) = String.length a + String.length b.
Proof. induction a; simpl; auto. Qed.

Lemma substring_all s : substring 0 (String.length s) s = s.
Proof. induction s; simpl; congruence. Qed.

Lemma substring_drop p s : substring (String.length p) (String.length s) (p ++ s) = s.
Proof. induction p; simpl; auto using substring_all. Qed.

Lemma trim_prefix_app p s : trim_prefix p (p ++ s) = s.
Proof.
  unfold trim_prefix. rewrite prefix_app, length_app.
  replace (String.length p + String.length s - String.length p) with (String.length s) by lia.
  apply substring_drop.
Qed.

Lemma no_dot_uint d : no_dot (NilEmpty.string_of_uint d) = true.
Proof. induction d; simpl; auto. Qed.

Lemma split_no_dot s : no_dot s = true -> split_last_dotv s = None.
Proof.
  induction s as [|c s IH]; simpl; auto.
  intros H. apply andb_prop in H. destruct H as [Hc Hs]. rewrite (IH Hs).
  destruct s; auto. destruct (Ascii.eqb c "."); [discriminate|]. reflexivity.
Qed.

Lemma split_cons c s :
  split_last_dotv (String c s) =
  match split_last_dotv s with
  | Some (a, b) => Some (String c a, b)
  | None => match s with
            | String c2 rest => if Ascii.eqb c "." && Ascii.eqb c2 "v" then Some (EmptyString, rest) else None
            | EmptyString => None
            end
  end.
Proof. reflexivity. Qed.

Lemma split_dotv_app name t : no_dot t = true -> split_last_dotv (name ++ ".v" ++ t) = Some (name, t).
Proof.
  intros Ht. induction name as [|c n IH].
  - change ("" ++ ".v" ++ t) with (String "." (String "v" t)).
    rewrite split_cons.
    assert (Hv : split_last_dotv (String "v" t) = None) by (apply split_no_dot; exact Ht).
    rewrite Hv. reflexivity.
  - change (String c n ++ ".v" ++ t) with (String c (n ++ ".v" ++ t)).
    rewrite split_cons, IH. reflexivity.
Qed.

Lemma succ_nonnil d : Decimal.Little.succ d <> Decimal.Nil.
Proof. destruct d; simpl; discriminate. Qed.

Lemma to_little_nonnil n : forall acc, acc <> Decimal.Nil -> Nat.to_little_uint n acc <> Decimal.Nil.
Proof. induction n as [|n IH]; simpl; intros acc H; auto. apply IH, succ_nonnil. Qed.

Lemma revapp_nonnil d : forall acc, acc <> Decimal.Nil -> Decimal.revapp d acc <> Decimal.Nil.
Proof. induction d; simpl; intros acc H; auto; apply IHd; discriminate. Qed.

Lemma to_uint_nonnil n : Nat.to_uint n <> Decimal.Nil.
Proof.
  unfold Nat.to_uint, Decimal.rev.
  assert (H : Nat.to_little_uint n Decimal.zero <> Decimal.Nil) by (apply to_little_nonnil; discriminate).
  destruct (Nat.to_little_uint n Decimal.zero); [congruence| ..]; simpl; apply revapp_nonnil; discriminate.
Qed.

Lemma show_nat_nonempty n : show_nat n <> "".
Proof.
  unfold show_nat. pose proof (to_uint_nonnil n) as H.
  destruct (Nat.to_uint n); simpl; congruence.
Qed.

Lemma atoi_show_nat n : atoi (show_nat n) = Some n.
Proof.
  unfold atoi. pose proof (show_nat_nonempty n) as H.
  destruct (show_nat n) eqn:E; [congruence|]. rewrite <- E. unfold show_nat.
  rewrite NilEmpty.usu. simpl. now rewrite Unsigned.of_to.
Qed.

Lemma make_key_shape name ver :
  make_key name ver = (storage_prefix ++ ".") ++ (name ++ ".v" ++ show_nat ver).
Proof. reflexivity. Qed.

Lemma parse_make_key name ver : mem_parse_key (make_key name ver) = Some (name, ver).
Proof.
  unfold mem_parse_key. rewrite make_key_shape, trim_prefix_app.
  rewrite split_dotv_app by apply no_dot_uint. now rewrite atoi_show_nat.
Qed.

Lemma make_key_inj n1 v1 n2 v2 : make_key n1 v1 = make_key n2 v2 -> n1 = n2 /\ v1 = v2.
Proof.
  intros H. pose proof (parse_make_key n1 v1) as H1. rewrite H, parse_make_key in H1.
  inversion H1. auto.
Qed.

(* C10: the consequences of the two refinement theorems that the property text spells
   out, each for the state reached by an arbitrary call sequence. *)
From Coq Require Import List String Ascii Bool Arith Lia Permutation.
From Helm Require Import Common.Assoc Common.Strs Storage.Spec Storage.Mem Storage.Kube
  Storage.Proofs Storage.Lemmas Storage.Refine Storage.MemProofs Storage.KubeProofs.
Import ListNotations.
Local Open Scope string_scope.

Lemma pair_eta {A B} (p : A * B) a b : fst p = a -> snd p = b -> p = (a, b).
Proof. destruct p; simpl; congruence. Qed.

Lemma spec_exec_app s l1 l2 : spec_exec s (l1 ++ l2) = spec_exec (spec_exec s l1) l2.
Proof. revert s. induction l1; simpl; auto. Qed.

Lemma mem_exec_app m l1 l2 : mem_exec m (l1 ++ l2) = mem_exec (mem_exec m l1) l2.
Proof. revert m. induction l1; simpl; auto. Qed.

(* ---------- memory driver ---------- *)
(* any call the reference map fails is failed by the driver with the same class, and the
   driver is left exactly as it was *)
Lemma mem_error_unchanged ns0 ops o e :
  Forall (op_in_ns ns0) ops -> op_in_ns ns0 o ->
  snd (spec_step (spec_exec [] ops) o) = RErr e ->
  mem_step (mem_exec (mkMem ns0 []) ops) o = (mem_exec (mkMem ns0 []) ops, RErr e).
Proof.
  intros Hops Ho He. destruct (mem_step_after ns0 ops o Hops Ho) as [Hout Herr].
  rewrite He in *. apply pair_eta.
  - apply Herr. now exists e.
  - inversion Hout; subst; auto.
Qed.

Lemma mem_create_existing ns0 ops r :
  Forall (op_in_ns ns0) ops -> ns_of r = ns0 ->
  aget (key_of r) (spec_exec [] ops) <> None ->
  mem_step (mem_exec (mkMem ns0 []) ops) (OCreate r) = (mem_exec (mkMem ns0 []) ops, RErr EExists).
Proof.
  intros Hops Hns Hex. apply mem_error_unchanged; auto. simpl.
  destruct (aget (key_of r) (spec_exec [] ops)); [reflexivity|congruence].
Qed.

Lemma mem_missing_key ns0 ops n v :
  Forall (op_in_ns ns0) ops ->
  aget (make_key n v) (spec_exec [] ops) = None ->
  let m := mem_exec (mkMem ns0 []) ops in
  mem_step m (OGet n v) = (m, RErr ENotFound) /\
  mem_step m (ODelete n v) = (m, RErr ENotFound) /\
  (forall r, rname r = n -> rver r = v -> ns_of r = ns0 -> mem_step m (OUpdate r) = (m, RErr ENotFound)).
Proof.
  intros Hops Hmiss m. repeat split.
  - apply mem_error_unchanged; simpl; auto. now rewrite Hmiss.
  - apply mem_error_unchanged; simpl; auto. now rewrite Hmiss.
  - intros r Hn Hv Hns. apply mem_error_unchanged; simpl; auto.
    unfold key_of. rewrite Hn, Hv. now rewrite Hmiss.
Qed.

Lemma mem_delete_returns ns0 ops n v r :
  Forall (op_in_ns ns0) ops ->
  aget (make_key n v) (spec_exec [] ops) = Some r ->
  let m := mem_exec (mkMem ns0 []) ops in
  snd (mem_step m (ODelete n v)) = RRel r /\
  snd (mem_step (fst (mem_step m (ODelete n v))) (OGet n v)) = RErr ENotFound.
Proof.
  intros Hops Hs m. split.
  - destruct (mem_step_after ns0 ops (ODelete n v) Hops I) as [Hout _].
    simpl in Hout. rewrite Hs in Hout. simpl in Hout. inversion Hout; subst; auto.
  - assert (Hops' : Forall (op_in_ns ns0) (ops ++ [ODelete n v])).
    { apply Forall_app. split; auto. constructor; simpl; auto. }
    pose proof (mem_error_unchanged ns0 (ops ++ [ODelete n v]) (OGet n v) ENotFound Hops' I) as H.
    rewrite mem_exec_app, spec_exec_app in H.
    change (mem_exec (mem_exec (mkMem ns0 []) ops) [ODelete n v]) with (fst (mem_step m (ODelete n v))) in H.
    rewrite H; auto.
    cbn [spec_exec spec_step fst]. rewrite Hs. cbn [fst snd]. now rewrite aget_adel_eq.
Qed.

Lemma mem_query_exact ns0 ops q :
  Forall (op_in_ns ns0) ops ->
  let m := mem_exec (mkMem ns0 []) ops in
  let stored := map snd (spec_exec [] ops) in
  match snd (mem_step m (OQuery q)) with
  | RRels l => l <> [] /\ forall r, In r l <-> (In r stored /\ sys_match q r = true)
  | RErr e => e = ENotFound /\ forall r, In r stored -> sys_match q r = false
  | _ => False
  end.
Proof.
  intros Hops m stored. destruct (mem_step_after ns0 ops (OQuery q) Hops I) as [Hout _].
  fold m in Hout. set (om := snd (mem_step m (OQuery q))) in *. clearbody om.
  simpl spec_step in Hout. fold stored in Hout.
  destruct (filter (sys_match q) stored) as [|a l] eqn:E; simpl in Hout; inversion Hout; subst.
  - split; auto. intros r Hin. destruct (sys_match q r) eqn:Em; auto.
    assert (H : In r (filter (sys_match q) stored)) by (apply filter_In; auto).
    rewrite E in H. destruct H.
  - split.
    + intros ->. match goal with H : Permutation [] _ |- _ => apply Permutation_nil in H; discriminate end.
    + intros r. rewrite <- filter_In, E. split; apply Permutation_in; auto using Permutation_sym.
Qed.

Lemma mem_list_exact ns0 ops :
  Forall (op_in_ns ns0) ops ->
  exists l, snd (mem_step (mem_exec (mkMem ns0 []) ops) OList) = RRels l /\
            Permutation l (map snd (spec_exec [] ops)).
Proof.
  intros Hops. destruct (mem_step_after ns0 ops OList Hops I) as [Hout _].
  set (om := snd (mem_step (mem_exec (mkMem ns0 []) ops) OList)) in *. clearbody om.
  simpl in Hout. inversion Hout; subst. eauto.
Qed.

(* ---------- Secret / ConfigMap drivers ---------- *)
Section KubeCor.
  Variable B : Type.
  Variable enc : rel -> B.
  Variable dec : B -> option rel.
  Variable valid_label_value : string -> bool.
  Hypothesis codec : forall r, dec (enc r) = Some r.

  Notation kstep := (kube_step B enc dec valid_label_value).
  Notation kexec := (kube_exec B enc dec valid_label_value).
  Notation op_ok := (kube_op_ok valid_label_value).

  Lemma kube_error_unchanged ops o e :
    Forall op_ok ops -> op_ok o ->
    snd (spec_step (spec_exec [] ops) o) = RErr e ->
    exists e', err_refines e' e /\ kstep (kexec [] ops) o = (kexec [] ops, RErr e').
  Proof.
    intros Hops Ho He.
    destruct (kube_step_after B enc dec valid_label_value codec ops o Hops Ho) as (Hout & _ & Herr).
    rewrite He in *. destruct Herr as ([e' He'] & Hk & _); [now exists e|].
    exists e'. rewrite He' in Hout. simpl in Hout. inversion Hout; subst. split; auto.
    now apply pair_eta.
  Qed.

  Lemma kube_create_existing ops r :
    Forall op_ok ops -> labels_ok (rlabels r) ->
    aget (key_of r) (spec_exec [] ops) <> None ->
    kstep (kexec [] ops) (OCreate r) = (kexec [] ops, RErr EExists).
  Proof.
    intros Hops Hok Hex.
    destruct (kube_error_unchanged ops (OCreate r) EExists Hops Hok) as (e' & [->|[_ H]] & E); auto; try discriminate.
    simpl. destruct (aget (key_of r) (spec_exec [] ops)); [reflexivity|congruence].
  Qed.

  Lemma kube_missing_key ops n v :
    Forall op_ok ops ->
    aget (make_key n v) (spec_exec [] ops) = None ->
    let k := kexec [] ops in
    kstep k (OGet n v) = (k, RErr ENotFound) /\
    kstep k (ODelete n v) = (k, RErr ENotFound) /\
    (forall r, rname r = n -> rver r = v -> labels_ok (rlabels r) ->
       exists e, kstep k (OUpdate r) = (k, RErr e) /\ e <> EExists).
  Proof.
    intros Hops Hmiss k.
    assert (Hr : krel B enc (kexec [] ops) (spec_exec [] ops))
      by (apply kube_exec_rel; auto; apply krel_nil).
    fold k in Hr. repeat split.
    - unfold kube_step. rewrite (kube_get_sim B enc dec valid_label_value codec k _ _ Hr). now rewrite Hmiss.
    - unfold kube_step. rewrite (kube_get_sim B enc dec valid_label_value codec k _ _ Hr). now rewrite Hmiss.
    - intros r Hn Hv Hok.
      destruct (kube_error_unchanged ops (OUpdate r) ENotFound Hops Hok) as (e' & He & E).
      + simpl. unfold key_of. rewrite Hn, Hv. now rewrite Hmiss.
      + exists e'. split; auto. destruct He as [->|[-> _]]; discriminate.
  Qed.

  Lemma kube_delete_returns ops n v r :
    Forall op_ok ops ->
    aget (make_key n v) (spec_exec [] ops) = Some r ->
    let k := kexec [] ops in
    snd (kstep k (ODelete n v)) = RRel r /\
    snd (kstep (fst (kstep k (ODelete n v))) (OGet n v)) = RErr ENotFound.
  Proof.
    intros Hops Hs k.
    assert (Hr : krel B enc (kexec [] ops) (spec_exec [] ops))
      by (apply kube_exec_rel; auto; apply krel_nil).
    fold k in Hr.
    assert (E : kstep k (ODelete n v) = (adel (make_key n v) k, RRel r)).
    { unfold kube_step. rewrite (kube_get_sim B enc dec valid_label_value codec k _ _ Hr). now rewrite Hs. }
    rewrite E. simpl. split; auto. unfold kube_get. now rewrite aget_adel_eq.
  Qed.

  Lemma kube_query_exact ops q :
    Forall op_ok ops -> op_ok (OQuery q) ->
    let k := kexec [] ops in
    let stored := map snd (spec_exec [] ops) in
    match snd (kstep k (OQuery q)) with
    | RRels l => l <> [] /\ forall r, In r (map strip_rel l) <-> (In r stored /\ sys_match q r = true)
    | RErr e => e <> EExists /\ forall r, In r stored -> sys_match q r = false
    | _ => False
    end.
  Proof.
    intros Hops Hq k stored.
    destruct (kube_step_after B enc dec valid_label_value codec ops (OQuery q) Hops Hq) as (Hout & _ & Herr).
    fold k in Hout, Herr. set (ok := snd (kstep k (OQuery q))) in *. clearbody ok.
    simpl spec_step in Hout, Herr. fold stored in Hout, Herr.
    destruct (filter (sys_match q) stored) as [|a l] eqn:E; simpl in Hout, Herr.
    - destruct Herr as ([e' He'] & _); [now exists ENotFound|].
      rewrite He' in *. simpl in Hout. inversion Hout as [|? ? Hre| |]; subst.
      split.
      + destruct Hre as [->|[-> _]]; discriminate.
      + intros r Hin. destruct (sys_match q r) eqn:Em; auto.
        assert (H : In r (filter (sys_match q) stored)) by (apply filter_In; auto).
        rewrite E in H. destruct H.
    - destruct ok as [|e|r0|l0]; simpl in Hout; inversion Hout; subst.
      split.
      + intros ->. simpl in *. match goal with H : Permutation [] _ |- _ => apply Permutation_nil in H; discriminate end.
      + intros r. rewrite <- filter_In, E. split; apply Permutation_in; auto using Permutation_sym.
  Qed.

  Lemma kube_list_exact ops :
    Forall op_ok ops ->
    exists l, snd (kstep (kexec [] ops) OList) = RRels l /\
              Permutation (map strip_rel l) (map snd (spec_exec [] ops)).
  Proof.
    intros Hops.
    destruct (kube_step_after B enc dec valid_label_value codec ops OList Hops I) as (Hout & _).
    set (ok := snd (kstep (kexec [] ops) OList)) in *. clearbody ok.
    destruct ok as [|e|r0|l0]; simpl in Hout; inversion Hout; subst.
    eauto.
  Qed.
End KubeCor.

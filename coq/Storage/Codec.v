(* pkg/storage/driver/util.go encodeRelease / decodeRelease, transcribed; base64 is
   Storage/Base64.v, encoding/json and compress/gzip stay third party (Section variables).

   encodeRelease   json.Marshal -> gzip (BestCompression) -> b64.EncodeToString
   decodeRelease   b64.DecodeString; if len(b) > 3 && bytes.Equal(b[0:3], magicGzip) then gunzip
                   (records written before compression was introduced are plain JSON and skip
                   this); json.Unmarshal.
   Definitions only. *)
From Coq Require Import List String Ascii Bool Arith NArith.
From Helm Require Import Common.Strs Storage.Spec Storage.Base64.
Import ListNotations.
Open Scope string_scope.

(* var magicGzip = []byte{0x1f, 0x8b, 0x08}; Gen.CodecConsts is checked equal in Props/C10.v *)
Definition magic_gzip_bytes : list nat := [31; 139; 8].
Definition magic_gzip : string := bs magic_gzip_bytes.

(* len(b) > 3 && bytes.Equal(b[0:3], magicGzip) *)
Definition has_gzip_magic (b : string) : bool :=
  Nat.ltb 3 (String.length b) && String.eqb (substring 0 3 b) magic_gzip.

Section Codec.
  Variable json : rel -> string.                 (* json.Marshal(rls) *)
  Variable unjson : string -> option rel.        (* json.Unmarshal(b, &rls), nil Info replaced *)
  Variable gzip : string -> string.              (* gzip.NewWriterLevel(BestCompression); Write; Close *)
  Variable gunzip : string -> option string.     (* gzip.NewReader; io.ReadAll *)

  Definition encode_release (r : rel) : string := b64_encode (gzip (json r)).

  Definition decode_release (data : string) : option rel :=
    match b64_decode data with
    | None => None
    | Some b =>
        if has_gzip_magic b then
          match gunzip b with
          | Some b2 => unjson b2
          | None => None
          end
        else unjson b
    end.

  (* a record of the time before compression: base64 of the JSON text *)
  Definition encode_release_legacy (r : rel) : string := b64_encode (json r).
End Codec.

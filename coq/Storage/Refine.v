(* Vocabulary of the C10 refinement statements: final-state functions, the result
   equivalences, and the hypotheses on operation sequences.  Definitions only. *)
From Coq Require Import List String Bool Arith NArith Permutation.
From Helm Require Import Common.Assoc Common.Strs Storage.Spec Storage.Mem Storage.Kube.
Import ListNotations.
Open Scope string_scope.

(* ---------- states reached by a call sequence ---------- *)
Fixpoint spec_exec (s : spec) (ops : list op) : spec :=
  match ops with
  | [] => s
  | o :: t => spec_exec (fst (spec_step s o)) t
  end.

Fixpoint mem_exec (m : mem) (ops : list op) : mem :=
  match ops with
  | [] => m
  | o :: t => mem_exec (fst (mem_step m o)) t
  end.

Section KubeExec.
  Variable B : Type.
  Variable enc : rel -> B.
  Variable dec : B -> option rel.
  Variable valid_label_value : string -> bool.

  Fixpoint kube_exec (s : kube B) (ops : list op) : kube B :=
    match ops with
    | [] => s
    | o :: t => kube_exec (fst (kube_step B enc dec valid_label_value s o)) t
    end.
End KubeExec.

(* ---------- comparing results ---------- *)
(* same outcome; the list-valued results (List, Query) are equal as multisets — the
   drivers promise no order (Go map iteration, API list order) *)
Inductive out_equiv : out -> out -> Prop :=
| oe_ok : out_equiv ROk ROk
| oe_err e : out_equiv (RErr e) (RErr e)
| oe_rel r : out_equiv (RRel r) (RRel r)
| oe_rels l1 l2 : Permutation l1 l2 -> out_equiv (RRels l1) (RRels l2).

(* the Kubernetes drivers wrap the API's NotFound on Update: the caller sees "an error"
   where the reference map says not-found; every other error class is the same *)
Definition err_refines (impl sp : err) : Prop := impl = sp \/ (impl = EOther /\ sp = ENotFound).

Inductive out_refines : out -> out -> Prop :=
| or_ok : out_refines ROk ROk
| or_err e1 e2 : err_refines e1 e2 -> out_refines (RErr e1) (RErr e2)
| or_rel r : out_refines (RRel r) (RRel r)
| or_rels l1 l2 : Permutation l1 l2 -> out_refines (RRels l1) (RRels l2).

Definition is_err (o : out) : Prop := exists e, o = RErr e.

(* ---------- hypotheses on call sequences ---------- *)
(* memory driver: every written release lives in namespace ns0 *)
Definition op_in_ns (ns0 : string) (o : op) : Prop :=
  match o with
  | OCreate r | OUpdate r => ns_of r = ns0
  | _ => True
  end.

(* user labels form a map (no duplicate keys) and do not use the system label names;
   Helm's actions reject the latter (ContainsSystemLabels) *)
Definition labels_ok (l : list (string * string)) : Prop :=
  NoDup (map fst l) /\ forall k, In k (map fst l) -> ~ In k system_label_keys.

(* Kubernetes drivers: written releases have well-formed user labels; queries select on the
   system labels name/owner/status/version with valid label values *)
Definition kube_op_ok (valid_label_value : string -> bool) (o : op) : Prop :=
  match o with
  | OCreate r | OUpdate r => labels_ok (rlabels r)
  | OQuery q => forall k v, In (k, v) q -> In k sys_keys /\ valid_label_value v = true
  | _ => True
  end.

(* the labels attached to a stored object: user labels, one time stamp, system labels *)
Definition is_stamp (k : string) : Prop := k = "createdAt" \/ k = "modifiedAt".

Definition decorated (r' : rel) : Prop :=
  exists stamp tv, is_stamp stamp /\
    rlabels r' = (rlabels (strip_rel r') ++ (stamp, tv) :: sys_labels r')%list.

(* C10_labels: what the label sets of results look like *)
Inductive labels_shape : out -> Prop :=
| ls_ok : labels_shape ROk
| ls_err e : labels_shape (RErr e)
| ls_rel r : labels_ok (rlabels r) -> labels_shape (RRel r)
| ls_rels l : Forall decorated l -> labels_shape (RRels l).

(* ---------- pre-fix key parsing (F4), kept for the refutation ---------- *)
(* strings.Split(key, ".v") must have exactly two elements *)
Definition mem_parse_key_prefix (key : string) : option (string * nat) :=
  let s := trim_prefix (storage_prefix ++ ".") key in
  if Nat.eqb (count_dotv s) 1 then
    match split_last_dotv s with
    | Some (name, ver) => match atoi ver with Some v => Some (name, v) | None => None end
    | None => None
    end
  else None.

(* C17 — who is trusted, and which verification strategy every caller selects.

   Transcribed from (pin 879d158 + fix commits):
     pkg/provenance/sign.go            Signatory{Entity, KeyRing}, NewFromFiles, NewFromKeyring
                                       (the GnuPG-like "contains" look-up of the signing entity),
                                       verifySignature (the key list handed to
                                       openpgp.CheckDetachedSignature is s.KeyRing and nothing else)
     pkg/action/pull.go                Pull.Run: Verify / VerifyLater -> c.Verify
     pkg/action/install.go             ChartPathOptions.LocateChart: Verify -> dl.Verify, and the
                                       VerifyChart call on the local-file branch
     pkg/cmd/dependency_update.go      client.Verify -> man.Verify
     pkg/cmd/dependency_build.go       client.Verify -> man.Verify (VerifyAlways since ec82a5f)
     pkg/downloader/manager.go         downloadAll: ChartDownloader{Verify: m.Verify}

   The second half defines the small expression language in which the translator
   (harness/cmd/hx/gentables_c17.go -> Gen/C17Strategy.v) prints what it reads from those
   functions with go/ast: the value of the downloader's Verify field at the DownloadTo call as a
   decision tree over the flag fields. *)
From Coq Require Import List String Ascii Bool.
From Helm Require Import Common.Assoc Misc.Prov.
Import ListNotations.
Local Open Scope string_scope.

(* strings.Contains *)
Definition contains (sub s : string) : bool :=
  match String.index 0 sub s with Some _ => true | None => false end.

Section Trust.
  Variables keyring key sigbody signer : Type.
  Variable clearsign_decode : string -> option (string * sigbody).
  Variable check_sig : keyring -> string -> sigbody -> option signer.
  Variable sha256 : string -> string.
  Variable yaml_meta_ok : string -> bool.
  Variable yaml_sums : string -> option (list (string * string)).
  (* the entities of a keyring in file order, each with its identity names
     ("NAME (COMMENT) <EMAIL>"; Go iterates the Identities map, so for an entity with several
     identities the order within the inner list is not fixed by the language) *)
  Variable ring_entities : keyring -> list (key * list string).

  (* provenance.Signatory: Entity "is used for signing", KeyRing "is used for verification" *)
  Record signatory := mkSignatory { s_entity : option key; s_keyring : keyring }.

  (* Signatory.verifySignature: CheckDetachedSignature(s.KeyRing, block.Bytes, body) —
     the Entity is not consulted *)
  Definition verify_signature (s : signatory) (bytes : string) (sg : sigbody) : option signer :=
    check_sig (s_keyring s) bytes sg.

  (* Signatory.Verify = Prov.verify with the signatory in the place of the keyring *)
  Definition signatory_verify (s : signatory) (prov name archive : string) : vres signer :=
    verify signatory sigbody signer clearsign_decode verify_signature sha256 yaml_meta_ok yaml_sums
           s prov name archive.

  (* ---------------------------------------------------------------- constructors *)
  (* NewFromFiles(keyfile, keyringfile): None = the file does not load *)
  Definition new_from_files (keyfile : option key) (ringfile : option keyring) : option signatory :=
    match keyfile with
    | None => None
    | Some e => match ringfile with
                | None => None
                | Some r => Some (mkSignatory (Some e) r)
                end
    end.

  (* the loop of NewFromKeyring: an identity equal to id returns that entity at once; an
     identity that contains id makes its entity the candidate, a second such identity (of the
     same or another entity) makes the look-up vague *)
  Inductive lookup := LExact (k : key) | LScan (cand : option key) (vague : bool).

  Fixpoint scan_names (id : string) (e : key) (names : list string) (cand : option key) (vague : bool) : lookup :=
    match names with
    | [] => LScan cand vague
    | n :: t =>
        if String.eqb n id then LExact e
        else if contains id n
             then scan_names id e t (Some e) (match cand with Some _ => true | None => vague end)
             else scan_names id e t cand vague
    end.

  Fixpoint scan_ring (id : string) (ring : list (key * list string)) (cand : option key) (vague : bool) : lookup :=
    match ring with
    | [] => LScan cand vague
    | (e, names) :: t =>
        match scan_names id e names cand vague with
        | LExact k => LExact k
        | LScan c v => scan_ring id t c v
        end
    end.

  (* NewFromKeyring(keyringfile, id).  An id that matches nothing is NOT an error: the Signatory
     comes back without Entity (the doc comment says otherwise; ClearSign then fails with
     "private key not found") *)
  Definition new_from_keyring (ringfile : option keyring) (id : string) : option signatory :=
    match ringfile with
    | None => None
    | Some ring =>
        if String.eqb id "" then Some (mkSignatory None ring)
        else match scan_ring id (ring_entities ring) None false with
             | LExact k => Some (mkSignatory (Some k) ring)
             | LScan _ true => None
             | LScan c false => Some (mkSignatory c ring)
             end
    end.

  (* the variant an independently seeded change introduced (C17-7): the signing entity is
     prepended to the key list.  [ring_cons] = EntityList{e} ++ ring.  Kept for the refutation
     C17_entity_trusting_variant_refuted only. *)
  Section Variant.
    Variable ring_cons : key -> keyring -> keyring.
    Definition verify_signature_entity_first (s : signatory) (bytes : string) (sg : sigbody) : option signer :=
      check_sig (match s_entity s with Some e => ring_cons e (s_keyring s) | None => s_keyring s end) bytes sg.
    Definition signatory_verify_entity_first (s : signatory) (prov name archive : string) : vres signer :=
      verify signatory sigbody signer clearsign_decode verify_signature_entity_first sha256 yaml_meta_ok yaml_sums
             s prov name archive.
  End Variant.
End Trust.

Arguments mkSignatory {keyring key}.
Arguments s_entity {keyring key}.
Arguments s_keyring {keyring key}.

(* ------------------------------------------------------------------ strategy selection *)
(* the two verification flags of the command line: --verify (ChartPathOptions.Verify,
   action.Dependency.Verify) and --prov (Pull.VerifyLater; `helm pull` only) *)
Record vflags := mkFlags { f_verify : bool; f_prov : bool }.

Definition all_flags : list vflags :=
  [mkFlags false false; mkFlags false true; mkFlags true false; mkFlags true true].

Inductive caller := CPull | CLocateChart | CDepUpdate | CDepBuild.
Definition all_callers : list caller := [CPull; CLocateChart; CDepUpdate; CDepBuild].

(* the strategy with which the caller's ChartDownloader (or Manager) runs DownloadTo *)
Definition caller_strategy (c : caller) (f : vflags) : strategy :=
  match c with
  | CPull => pull_strategy (f_verify f) (f_prov f)
  | CLocateChart => locate_strategy (f_verify f)
  | CDepUpdate => dep_update_strategy (f_verify f)
  | CDepBuild => dep_build_strategy (f_verify f)
  end.

Definition all_strategies : list strategy := [VerifyNever; VerifyIfPossible; VerifyAlways; VerifyLater].

Definition strategy_eqb (a b : strategy) : bool :=
  match a, b with
  | VerifyNever, VerifyNever | VerifyIfPossible, VerifyIfPossible
  | VerifyAlways, VerifyAlways | VerifyLater, VerifyLater => true
  | _, _ => false
  end.

(* Manager.downloadAll: the strategy of the per-dependency downloader is the Manager's own *)
Definition manager_strategy (m_verify : strategy) : strategy := m_verify.

(* ------------------------------------------------------------------ what the translator prints *)
(* a condition over flag fields: p.Verify, client.Verify, p.VerifyLater, ... *)
Inductive bexp :=
| BFlag (name : string) | BTrue | BFalse
| BNot (b : bexp) | BAnd (a b : bexp) | BOr (a b : bexp).

(* the value of <downloader>.Verify: a constant of the VerificationStrategy block, a field of the
   enclosing object handed through (m.Verify), or a choice *)
Inductive sexp :=
| SConst (name : string) | SField (name : string)
| SIf (c : bexp) (a b : sexp).

Definition flag_of_name (f : vflags) (n : string) : option bool :=
  if String.eqb n "Verify" then Some (f_verify f)
  else if String.eqb n "VerifyLater" then Some (f_prov f)
  else None.

Definition strategy_of_name (n : string) : option strategy :=
  if String.eqb n "VerifyNever" then Some VerifyNever
  else if String.eqb n "VerifyIfPossible" then Some VerifyIfPossible
  else if String.eqb n "VerifyAlways" then Some VerifyAlways
  else if String.eqb n "VerifyLater" then Some VerifyLater
  else None.

Fixpoint eval_b (f : vflags) (b : bexp) : option bool :=
  match b with
  | BFlag n => flag_of_name f n
  | BTrue => Some true
  | BFalse => Some false
  | BNot x => match eval_b f x with Some v => Some (negb v) | None => None end
  | BAnd x y => match eval_b f x, eval_b f y with Some v, Some w => Some (v && w) | _, _ => None end
  | BOr x y => match eval_b f x, eval_b f y with Some v, Some w => Some (v || w) | _, _ => None end
  end.

(* [field] = the value of the enclosing object's own Verify field (SField "Verify") *)
Fixpoint eval_s (f : vflags) (field : strategy) (s : sexp) : option strategy :=
  match s with
  | SConst n => strategy_of_name n
  | SField n => if String.eqb n "Verify" then Some field else None
  | SIf c a b =>
      match eval_b f c, eval_s f field a, eval_s f field b with
      | Some true, Some x, Some _ => Some x
      | Some false, Some _, Some y => Some y
      | _, _, _ => None
      end
  end.

Definition opt_strategy_eqb (a : option strategy) (b : strategy) : bool :=
  match a with Some x => strategy_eqb x b | None => false end.

(* the source expression of a caller selects, for every flag assignment, the model's strategy
   (a field handed through does not occur in a caller that maps flags) *)
Definition src_agrees (c : caller) (s : sexp) : bool :=
  forallb (fun f => forallb (fun fld => opt_strategy_eqb (eval_s f fld s) (caller_strategy c f)) all_strategies) all_flags.

(* the source expression of Manager.downloadAll hands the Manager's strategy through *)
Definition src_hands_through (s : sexp) : bool :=
  forallb (fun f => forallb (fun fld => opt_strategy_eqb (eval_s f fld s) (manager_strategy fld)) all_strategies) all_flags.

(* a guard (LocateChart's local-file branch) is the --verify flag *)
Definition guard_is_verify_flag (b : bexp) : bool :=
  forallb (fun f => match eval_b f b with Some v => Bool.eqb v (f_verify f) | None => false end) all_flags.

(* ------------------------------------------------------------------ a caller's download *)
Section Callers.
  Variables keyring sigbody signer : Type.
  Variable clearsign_decode : string -> option (string * sigbody).
  Variable check_sig : keyring -> string -> sigbody -> option signer.
  Variable sha256 : string -> string.
  Variable yaml_meta_ok : string -> bool.
  Variable yaml_sums : string -> option (list (string * string)).

  (* what the caller gets from DownloadTo under the strategy its flags select
     (Pull.Run, LocateChart on a remote reference, Manager.downloadAll per dependency) *)
  Definition caller_download (c : caller) (f : vflags) (kr : option keyring) (chart provf : option string) (name : string) : dres :=
    download_to keyring sigbody signer clearsign_decode check_sig sha256 yaml_meta_ok yaml_sums
                (caller_strategy c f) kr chart provf name.
End Callers.

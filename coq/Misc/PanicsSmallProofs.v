(* Proofs about Misc/PanicsSmall.v: the index expressions of PrepareCommands and of
   parseMessageBlock are in range for every input and every behaviour of the library functions
   around them; without their length tests they are not. *)
From Coq Require Import List String Ascii Bool ZArith Lia.
From Helm Require Import Misc.Panics Misc.PanicsSmall.
Import ListNotations.
Local Open Scope string_scope.

Section Plugin.
  Variable eq_fold : string -> string -> bool.
  Variable goos goarch : string.
  Variable expand : string -> string.
  Variable split_space : string -> list string.
  Variable name_ok : string -> bool.

  Lemma prepare_commands_no_panic : forall cmds expand_args extra,
    no_panic (prepare_commands eq_fold goos goarch expand split_space true cmds expand_args extra).
  Proof.
    intros cmds ea extra. unfold prepare_commands.
    destruct (gpc eq_fold goos goarch split_space cmds [] [] false false) as [parts args].
    destruct parts as [|p rest]; [exact I|].
    cbn [andb List.length Nat.eqb]. unfold index. cbn [Z.ltb Z.compare Z.to_nat nth_error bind].
    destruct (len0 p); [exact I|].
    destruct rest as [|q rest']; cbn [List.length Nat.ltb Nat.leb]; [exact I|].
    unfold slice_from_s. cbn [Z.ltb Z.compare].
    destruct (Z.ltb (Z.of_nat (List.length (p :: q :: rest'))) 1) eqn:E.
    - apply Z.ltb_lt in E. simpl List.length in E. lia.
    - exact I.
  Qed.

  Lemma validate_plugin_some : forall md m,
    validate_plugin name_ok md = Ok m -> True.
  Proof. trivial. Qed.

  Theorem load_and_prepare_no_panic : forall md extra,
    no_panic (load_and_prepare eq_fold goos goarch expand split_space name_ok md extra).
  Proof.
    intros md extra. unfold load_and_prepare.
    destruct (validate_plugin name_ok md) as [m| |w] eqn:V.
    - cbn [bind]. unfold prepare_command. cbn [deref bind]. apply prepare_commands_no_panic.
    - exact I.
    - unfold validate_plugin in V.
      destruct (negb (name_ok (pm_name match md with Some m => m | None => empty_pmeta end))); [discriminate|].
      destruct (_ && _); [discriminate|]. destruct (_ && _); discriminate.
  Qed.
End Plugin.

(* a Plugin built without LoadDir (nil Metadata) does reach the nil dereference, and without
   the length test an empty platformCommand list reaches cmdParts[0] *)
Lemma plugin_unguarded_panics :
  is_panic (prepare_command eq_fold_ascii "linux" "amd64" (fun s => s) split_space_s true None []) = true /\
  is_panic (prepare_commands eq_fold_ascii "linux" "amd64" (fun s => s) split_space_s false [] true []) = true /\
  prepare_commands eq_fold_ascii "linux" "amd64" (fun s => s) split_space_s true [] true [] = Err.
Proof. repeat split; reflexivity. Qed.

Lemma plugin_example :
  load_and_prepare eq_fold_ascii "linux" "amd64" (fun s => s) split_space_s (fun _ => true)
    (Some (mkPmeta "p" "" [mkPcmd "" "" "default cmd" ["d"]; mkPcmd "Linux" "" "sh -c" ["x"]; mkPcmd "linux" "AMD64" "exact one" []] false 0 0))
    ["extra"] = Ok ("exact", ["one"; "extra"]).
Proof. reflexivity. Qed.

Theorem parse_message_block_no_panic : forall (B : Type) (um1 um2 : B -> bool) (parts : list B),
  no_panic (parse_message_block B um1 um2 2 parts).
Proof.
  intros B um1 um2 parts. unfold parse_message_block.
  destruct parts as [|a [|b rest]]; try exact I.
  replace (Z.ltb (Z.of_nat (List.length (a :: b :: rest))) 2) with false.
  - unfold index. cbn [Z.ltb Z.compare Z.to_nat nth_error bind].
    destruct (um1 a); cbn [negb]; [|exact I].
    change (Pos.to_nat 1) with 1%nat. cbn [nth_error bind]. destruct (um2 b); exact I.
  - symmetry. apply Z.ltb_ge. simpl List.length. lia.
Qed.

Lemma parse_message_block_unguarded_panics :
  is_panic (parse_message_block string (fun _ => true) (fun _ => true) 1 ["only one part"]) = true /\
  parse_message_block string (fun _ => true) (fun _ => true) 2 ["only one part"] = Err.
Proof. split; reflexivity. Qed.

(* bytes.Split never returns an empty slice *)
Lemma split_sep_go_nonempty : forall sep s skip cur, split_sep_go sep skip cur s <> [].
Proof.
  induction s as [|c t IH]; intros skip cur; cbn [split_sep_go]; [intro H; discriminate H|].
  destruct skip; [|apply IH]. destruct (String.prefix sep (String c t)); [intro H; discriminate H|apply IH].
Qed.

(* Proofs about the credential model (Misc/Creds.v). *)
From Coq Require Import List String Ascii Bool.
From Helm Require Import Misc.Creds.
Import ListNotations.
Local Open Scope string_scope.

Lemma nonempty_true s : nonempty s = true <-> s <> "".
Proof.
  unfold nonempty. rewrite negb_true_iff. split; intro H.
  - intro E. subst. discriminate.
  - apply String.eqb_neq. exact H.
Qed.

Lemma same_origin_true u1 u2 :
  same_origin u1 u2 = true <-> u_scheme u1 = u_scheme u2 /\ u_host u1 = u_host u2.
Proof.
  unfold same_origin. rewrite andb_true_iff, !String.eqb_eq. tauto.
Qed.

(* HTTPGetter.get attaches basic auth exactly when ... *)
Lemma getter_get_auth_iff (parse : string -> option url) (o : gopts) (href : string) (c : cred) :
  getter_get parse o href = GReq (Some c) <->
  exists u1 u2, parse (g_url o) = Some u1 /\ parse href = Some u2 /\
    (g_pass_all o = true \/ (u_scheme u1 = u_scheme u2 /\ u_host u1 = u_host u2)) /\
    g_user o <> "" /\ g_pass o <> "" /\ c = Cred (g_user o) (g_pass o) (g_src o).
Proof.
  unfold getter_get. split.
  - destruct (parse (g_url o)) as [u1|] eqn:E1; [|discriminate].
    destruct (parse href) as [u2|] eqn:E2; [|discriminate].
    destruct ((g_pass_all o || same_origin u1 u2) && (nonempty (g_user o) && nonempty (g_pass o))) eqn:E; [|discriminate].
    intro H. injection H as <-.
    apply andb_true_iff in E as [Ea Eb]. apply andb_true_iff in Eb as [Eu Ep].
    exists u1, u2. repeat split; auto.
    + apply orb_true_iff in Ea as [Ea|Ea]; [left; exact Ea|right; apply same_origin_true; exact Ea].
    + apply nonempty_true; exact Eu.
    + apply nonempty_true; exact Ep.
  - intros (u1 & u2 & E1 & E2 & Ho & Hu & Hp & ->). rewrite E1, E2.
    assert (Ea : (g_pass_all o || same_origin u1 u2) = true).
    { apply orb_true_iff. destruct Ho as [Ho|Ho]; [left; exact Ho|right; apply same_origin_true; exact Ho]. }
    apply nonempty_true in Hu. apply nonempty_true in Hp. rewrite Ea, Hu, Hp. reflexivity.
Qed.

(* the getter never invents a request error into a credentialed request, and without a
   configured URL ("" parses to the empty URL) nothing is attached unless pass_all *)
Lemma getter_get_no_url (parse : string -> option url) o href u2 c :
  parse (g_url o) = Some (mkUrl "" "" "" None "") -> parse href = Some u2 ->
  u_scheme u2 <> "" ->
  getter_get parse o href = GReq (Some c) -> g_pass_all o = true.
Proof.
  intros E1 E2 Hs H. apply getter_get_auth_iff in H as (u1 & u2' & E1' & E2' & Ho & _).
  rewrite E1 in E1'. injection E1' as <-. rewrite E2 in E2'. injection E2' as <-.
  destruct Ho as [Ho|[Hsch _]]; [exact Ho|]. simpl in Hsch. congruence.
Qed.

(* later options win *)
Lemma apply_opts_app o l1 l2 : apply_opts o (l1 ++ l2) = apply_opts (apply_opts o l1) l2.
Proof. unfold apply_opts. apply fold_left_app. Qed.

Example getter_example_same_origin :
  let parse := fun s => if String.eqb s "https://r.example/charts" then Some (mkUrl "https" "r.example" "/charts" None s)
                        else if String.eqb s "https://r.example/charts/a-1.tgz" then Some (mkUrl "https" "r.example" "/charts/a-1.tgz" None s)
                        else if String.eqb s "https://cdn.example/a-1.tgz" then Some (mkUrl "https" "cdn.example" "/a-1.tgz" None s)
                        else None in
  let o := apply_opts gopts0 [OUrl "https://r.example/charts"; OBasicAuth "u" "p" "https://r.example/charts"; OPassAll false] in
  getter_get parse o "https://r.example/charts/a-1.tgz" = GReq (Some (Cred "u" "p" "https://r.example/charts"))
  /\ getter_get parse o "https://cdn.example/a-1.tgz" = GReq None
  /\ getter_get parse (apply_opt o (OPassAll true)) "https://cdn.example/a-1.tgz" = GReq (Some (Cred "u" "p" "https://r.example/charts")).
Proof. vm_compute. repeat split. Qed.

(* Proofs about the credential model (Misc/Creds.v). *)
From Coq Require Import List String Ascii Bool.
From Helm Require Import Misc.Creds.
Import ListNotations.
Local Open Scope string_scope.

Lemma nonempty_true s : nonempty s = true <-> s <> "".
Proof.
  unfold nonempty. rewrite negb_true_iff. split; intro H.
  - intro E. subst. discriminate.
  - apply String.eqb_neq. exact H.
Qed.

Lemma same_origin_true u1 u2 :
  same_origin u1 u2 = true <-> u_scheme u1 = u_scheme u2 /\ u_host u1 = u_host u2.
Proof.
  unfold same_origin. rewrite andb_true_iff, !String.eqb_eq. tauto.
Qed.

(* HTTPGetter.get attaches basic auth exactly when ... *)
Lemma getter_get_auth_iff (parse : string -> option url) (o : gopts) (href : string) (c : cred) :
  getter_get parse o href = GReq (Some c) <->
  exists u1 u2, parse (g_url o) = Some u1 /\ parse href = Some u2 /\
    (g_pass_all o = true \/ (u_scheme u1 = u_scheme u2 /\ u_host u1 = u_host u2)) /\
    g_user o <> "" /\ g_pass o <> "" /\ c = Cred (g_user o) (g_pass o) (g_src o).
Proof.
  unfold getter_get. split.
  - destruct (parse (g_url o)) as [u1|] eqn:E1; [|discriminate].
    destruct (parse href) as [u2|] eqn:E2; [|discriminate].
    destruct ((g_pass_all o || same_origin u1 u2) && (nonempty (g_user o) && nonempty (g_pass o))) eqn:E; [|discriminate].
    intro H. injection H as <-.
    apply andb_true_iff in E as [Ea Eb]. apply andb_true_iff in Eb as [Eu Ep].
    exists u1, u2. repeat split; auto.
    + apply orb_true_iff in Ea as [Ea|Ea]; [left; exact Ea|right; apply same_origin_true; exact Ea].
    + apply nonempty_true; exact Eu.
    + apply nonempty_true; exact Ep.
  - intros (u1 & u2 & E1 & E2 & Ho & Hu & Hp & ->). rewrite E1, E2.
    assert (Ea : (g_pass_all o || same_origin u1 u2) = true).
    { apply orb_true_iff. destruct Ho as [Ho|Ho]; [left; exact Ho|right; apply same_origin_true; exact Ho]. }
    apply nonempty_true in Hu. apply nonempty_true in Hp. rewrite Ea, Hu, Hp. reflexivity.
Qed.

(* the getter never invents a request error into a credentialed request, and without a
   configured URL ("" parses to the empty URL) nothing is attached unless pass_all *)
Lemma getter_get_no_url (parse : string -> option url) o href u2 c :
  parse (g_url o) = Some (mkUrl "" "" "" None "") -> parse href = Some u2 ->
  u_scheme u2 <> "" ->
  getter_get parse o href = GReq (Some c) -> g_pass_all o = true.
Proof.
  intros E1 E2 Hs H. apply getter_get_auth_iff in H as (u1 & u2' & E1' & E2' & Ho & _).
  rewrite E1 in E1'. injection E1' as <-. rewrite E2 in E2'. injection E2' as <-.
  destruct Ho as [Ho|[Hsch _]]; [exact Ho|]. simpl in Hsch. congruence.
Qed.

(* later options win *)
Lemma apply_opts_app o l1 l2 : apply_opts o (l1 ++ l2) = apply_opts (apply_opts o l1) l2.
Proof. unfold apply_opts. apply fold_left_app. Qed.

Example getter_example_same_origin :
  let parse := fun s => if String.eqb s "https://r.example/charts" then Some (mkUrl "https" "r.example" "/charts" None s)
                        else if String.eqb s "https://r.example/charts/a-1.tgz" then Some (mkUrl "https" "r.example" "/charts/a-1.tgz" None s)
                        else if String.eqb s "https://cdn.example/a-1.tgz" then Some (mkUrl "https" "cdn.example" "/a-1.tgz" None s)
                        else None in
  let o := apply_opts gopts0 [OUrl "https://r.example/charts"; OBasicAuth "u" "p" "https://r.example/charts"; OPassAll false] in
  getter_get parse o "https://r.example/charts/a-1.tgz" = GReq (Some (Cred "u" "p" "https://r.example/charts"))
  /\ getter_get parse o "https://cdn.example/a-1.tgz" = GReq None
  /\ getter_get parse (apply_opt o (OPassAll true)) "https://cdn.example/a-1.tgz" = GReq (Some (Cred "u" "p" "https://r.example/charts")).
Proof. vm_compute. repeat split. Qed.

(* ================================================================== call paths *)

Lemma same_origin_refl u : same_origin u u = true.
Proof. unfold same_origin. rewrite !String.eqb_refl. reflexivity. Qed.

Lemma same_origin_sym u v : same_origin u v = true -> same_origin v u = true.
Proof. rewrite !same_origin_true. intros [-> ->]. auto. Qed.

Lemma same_origin_trans u v w : same_origin u v = true -> same_origin v w = true -> same_origin u w = true.
Proof. rewrite !same_origin_true. intros [-> ->] [-> ->]. auto. Qed.

Section Scope.
  Variable parse : string -> option url.
  Variable url_equal : string -> string -> bool.
  Variable lookup : entry -> string -> string -> option string.
  Variable index_url : string -> option string.
  Variable find_in : string -> string -> string -> option string.
  Variable dep_url : entry -> string -> string -> string -> option string.

  (* the two strings name URLs of the same scheme and host(:port) *)
  Definition so (a b : string) : Prop :=
    exists ua ub, parse a = Some ua /\ parse b = Some ub /\ same_origin ua ub = true.

  Lemma so_trans a b c : so a b -> so b c -> so a c.
  Proof.
    intros (ua & ub & Ea & Eb & H1) (ub' & uc & Eb' & Ec & H2).
    rewrite Eb in Eb'. injection Eb' as <-. exists ua, uc. repeat split; auto.
    eapply same_origin_trans; eauto.
  Qed.

  Lemma so_refl a u : parse a = Some u -> so a a.
  Proof. intro E. exists u, u. repeat split; auto. apply same_origin_refl. Qed.

  Definition has_c (o : gopts) : bool := nonempty (g_user o) && nonempty (g_pass o).
  Definition cred_of (o : gopts) : cred := Cred (g_user o) (g_pass o) (g_src o).
  Definition abs3 (u : url) : bool := nonempty (u_scheme u) && nonempty (u_host u) && nonempty (u_path u).

  (* what one getter call guarantees, in terms of [so] *)
  Lemma getter_get_so o href c :
    getter_get parse o href = GReq (Some c) ->
    c = cred_of o /\ has_c o = true /\ (g_pass_all o = true \/ so (g_url o) href).
  Proof.
    intro H. apply getter_get_auth_iff in H as (u1 & u2 & E1 & E2 & Ho & Hu & Hp & ->).
    split; [reflexivity|]. split.
    - unfold has_c. apply nonempty_true in Hu. apply nonempty_true in Hp. rewrite Hu, Hp. reflexivity.
    - destruct Ho as [Ho|Ho]; [left; exact Ho|right]. exists u1, u2. repeat split; auto. apply same_origin_true. exact Ho.
  Qed.

  Lemma scan_In u repos rc : scan url_equal u repos = Some rc -> In rc repos.
  Proof.
    induction repos as [|r t IH]; simpl; [discriminate|].
    destruct (existsb (url_equal u) (index_urls r)); [intro H; injection H as <-; auto|auto].
  Qed.

  Lemma pick_In n repos rc : pick_by_name n repos = Some rc -> In rc repos.
  Proof.
    induction repos as [|r t IH]; simpl; [discriminate|].
    destruct (String.eqb (e_name r) n); [|auto].
    destruct (nonempty (e_url r)); [intro H; injection H as <-; auto|discriminate].
  Qed.

  Lemma find_repo_In d repos cr : find_repo url_equal d repos = Some cr -> In cr repos /\ url_equal d (e_url cr) = true.
  Proof.
    induction repos as [|r t IH]; simpl; [discriminate|].
    destruct (url_equal d (e_url r)) eqn:E; [intro H; injection H as <-; auto|].
    intro H. apply IH in H as [H1 H2]. auto.
  Qed.

  (* effective options after the tail ResolveChartVersion appends for a repository entry *)
  Lemma apply_entry_tail o rc :
    apply_opts o ((OUrl (e_url rc) :: OOther :: entry_cred_opts rc) ++ [OOther]) =
    if has_creds rc then mkOpts (e_url rc) (e_user rc) (e_pass rc) (e_url rc) (e_pass_all rc)
    else mkOpts (e_url rc) (g_user o) (g_pass o) (g_src o) (g_pass_all o).
  Proof. unfold entry_cred_opts. destruct (has_creds rc); reflexivity. Qed.

  (* the state of the getter during a DownloadTo, by the branch ResolveChartVersion took *)
  Inductive branch (o0 : gopts) (ref : string) (repos : list entry) (u : url) (st : gopts) : Prop :=
  | BNoOwner : parse ref = Some u -> abs3 u = true ->
               st = mkOpts ref (g_user o0) (g_pass o0) (g_src o0) (g_pass_all o0) -> branch o0 ref repos u st
  | BOwnCreds rc : In rc repos -> has_creds rc = true ->
               st = mkOpts (e_url rc) (e_user rc) (e_pass rc) (e_url rc) (e_pass_all rc) -> branch o0 ref repos u st
  | BOwnerNoCreds rc : parse ref = Some u -> abs3 u = true -> In rc repos ->
               st = mkOpts (e_url rc) (g_user o0) (g_pass o0) (g_src o0) (g_pass_all o0) -> branch o0 ref repos u st
  | BNamedNoCreds u0 rn cn rc : parse ref = Some u0 -> abs3 u0 = false ->
               split_slash (u_path u0) = Some (rn, cn) -> pick_by_name rn repos = Some rc ->
               st = mkOpts (e_url rc) (g_user o0) (g_pass o0) (g_src o0) (g_pass_all o0) -> branch o0 ref repos u st.

  Lemma resolve_branch copts ref ver repos u opts :
    resolve parse url_equal lookup copts ref ver repos = ROk u opts ->
    branch (apply_opts gopts0 copts) ref repos u (apply_opts gopts0 (opts ++ [OOther])).
  Proof.
    unfold resolve. destruct (parse ref) as [u0|] eqn:Ep; [|discriminate].
    fold (abs3 u0). destruct (abs3 u0) eqn:Ea.
    - destruct (scan url_equal ref repos) as [rc|] eqn:Es.
      + intro H. injection H as <- <-. apply scan_In in Es.
        rewrite <- app_assoc, apply_opts_app, apply_entry_tail.
        destruct (has_creds rc) eqn:Ec.
        * eapply BOwnCreds; eauto.
        * eapply BOwnerNoCreds; eauto.
      + intro H. injection H as <- <-. rewrite <- app_assoc, apply_opts_app. simpl.
        eapply BNoOwner; eauto.
    - destruct (split_slash (u_path u0)) as [[rn cn]|] eqn:Ess; [|discriminate].
      destruct (pick_by_name rn repos) as [rc|] eqn:Epk; [|discriminate].
      destruct (parse (e_url rc)); [|discriminate].
      destruct (lookup rc cn ver) as [resolved|]; [|discriminate].
      destruct (parse resolved) as [ru|]; [|discriminate].
      intro H. injection H as <- <-.
      rewrite <- app_assoc, apply_opts_app, apply_entry_tail.
      destruct (has_creds rc) eqn:Ec.
      + eapply BOwnCreds; eauto. eapply pick_In; eauto.
      + eapply BNamedNoCreds; eauto.
  Qed.

  (* the requests of one DownloadTo are made with one getter state, to u.String() and to
     u.String() + ".prov" *)
  Lemma download_to_requests copts ref ver repos wp ok href c :
    In (href, GReq (Some c)) (download_to parse url_equal lookup copts ref ver repos wp ok) ->
    exists u opts, resolve parse url_equal lookup copts ref ver repos = ROk u opts /\
      (href = u_str u \/ href = u_str u ++ ".prov") /\
      getter_get parse (apply_opts gopts0 (opts ++ [OOther])) href = GReq (Some c).
  Proof.
    unfold download_to. destruct (resolve parse url_equal lookup copts ref ver repos) as [|u opts] eqn:Er; [intros []|].
    destruct (http_scheme (u_scheme u)); [|intros []].
    unfold http_get. cbn [fst snd apply_opts fold_left].
    fold (apply_opts gopts0 (opts ++ [OOther])).
    destruct (getter_get parse (apply_opts gopts0 (opts ++ [OOther])) (u_str u)) as [|a] eqn:Eg.
    - intros [H|[]]. discriminate.
    - destruct (wp && ok).
      + intros [H|[H|[]]].
        * injection H as H1 H2. subst href a. exists u, opts. repeat split; auto.
        * injection H as H1 H2. subst href. exists u, opts. repeat split; auto.
      + intros [H|[]]. injection H as H1 H2. subst href a. exists u, opts. repeat split; auto.
  Qed.

  (* facts about net/url the scope theorems rest on (checked by the harness on every case):
     String() re-parses to the same scheme and host; appending ".prov" to the string of a
     URL that has a path leaves scheme and host alone *)
  Hypothesis Hstr : forall s u, parse s = Some u -> so s (u_str u).
  Hypothesis Hprov : forall s u, parse s = Some u -> nonempty (u_path u) = true -> so s (u_str u ++ ".prov").

  (* who may receive a credential: its repository's origin, or anything if the pass-all
     flag configured together with it is on *)
  Definition repo_cred_ok (repos : list entry) (c : cred) (href : string) : Prop :=
    exists rc, In rc repos /\ has_creds rc = true /\ c = Cred (e_user rc) (e_pass rc) (e_url rc) /\
               (e_pass_all rc = true \/ so (e_url rc) href).
  Definition caller_cred_ok (o0 : gopts) (c : cred) (href : string) : Prop :=
    c = cred_of o0 /\ has_c o0 = true /\ (g_pass_all o0 = true \/ so (g_src o0) href).

  (* ChartDownloader.DownloadTo: with the caller's options effective as o0, every request that
     carries credentials carries either a repository entry's own (scoped to that entry) or
     the caller's — and those stay in scope provided the caller configured them for the
     reference (absolute reference) resp. for the named repository *)
  Lemma download_to_scope copts ref ver repos wp ok href c :
    let o0 := apply_opts gopts0 copts in
    (has_c o0 = true -> g_pass_all o0 = false ->
       forall u0, parse ref = Some u0 ->
         if abs3 u0 then so (g_src o0) ref
         else forall rn cn rc, split_slash (u_path u0) = Some (rn, cn) -> pick_by_name rn repos = Some rc ->
                               g_src o0 = e_url rc) ->
    In (href, GReq (Some c)) (download_to parse url_equal lookup copts ref ver repos wp ok) ->
    caller_cred_ok o0 c href \/ repo_cred_ok repos c href.
  Proof.
    intros o0 Hcaller Hin.
    apply download_to_requests in Hin as (u & opts & Er & Hhref & Hg).
    apply resolve_branch in Er. fold o0 in Er.
    apply getter_get_so in Hg as (Hc & Hhas & Hsc).
    assert (Hpa : forall b, b = true \/ b = false) by (intros []; auto).
    destruct Er as [Ep Ea Est | rc Hrc Hcr Est | rc Ep Ea Hrc Est | u0 rn cn rc Ep Ea Ess Epk Est];
      rewrite Est in Hc, Hhas, Hsc; unfold cred_of, has_c in Hc, Hhas; cbn [g_user g_pass g_src g_url g_pass_all] in Hc, Hhas, Hsc.
    - (* no owner repository: the getter URL is the reference itself *)
      left. split; [exact Hc|]. split; [exact Hhas|].
      destruct Hsc as [Hsc|Hsc]; [left; exact Hsc|].
      destruct (Hpa (g_pass_all o0)) as [Hp|Hp]; [left; exact Hp|right].
      specialize (Hcaller Hhas Hp u Ep). rewrite Ea in Hcaller. eapply so_trans; eauto.
    - right. exists rc. repeat split; auto.
    - (* an owner repository without credentials: the caller's credentials, scoped by the owner's URL *)
      left. split; [exact Hc|]. split; [exact Hhas|].
      destruct (Hpa (g_pass_all o0)) as [Hp|Hp]; [left; exact Hp|right].
      specialize (Hcaller Hhas Hp u Ep). rewrite Ea in Hcaller.
      eapply so_trans; [exact Hcaller|].
      destruct Hhref as [->| ->]; [apply Hstr; exact Ep|apply Hprov; [exact Ep|]].
      unfold abs3 in Ea. apply andb_true_iff in Ea as [_ Ea]. exact Ea.
    - (* a named repository without credentials: the caller's, scoped by that repository's URL *)
      left. split; [exact Hc|]. split; [exact Hhas|].
      destruct Hsc as [Hsc|Hsc]; [left; exact Hsc|].
      destruct (Hpa (g_pass_all o0)) as [Hp|Hp]; [left; exact Hp|right].
      specialize (Hcaller Hhas Hp u0 Ep). rewrite Ea in Hcaller.
      rewrite (Hcaller rn cn rc Ess Epk). exact Hsc.
  Qed.

  (* ChartRepository.DownloadIndexFile: the entry's credentials, scoped to the entry's URL *)
  Lemma download_index_scope e href c :
    In (href, GReq (Some c)) (download_index parse index_url e) ->
    c = Cred (e_user e) (e_pass e) (e_url e) /\ has_creds e = true /\ (e_pass_all e = true \/ so (e_url e) href).
  Proof.
    unfold download_index. destruct (index_url (e_url e)) as [iu|]; [|intros []].
    intros [H|[]]. injection H as <- H. unfold http_get in H. cbn [snd] in H.
    apply getter_get_so in H as (Hc & Hh & Hs). cbn in Hc, Hh, Hs. auto.
  Qed.

  Lemma so_sym a b : so a b -> so b a.
  Proof. intros (ua & ub & Ea & Eb & H). exists ub, ua. repeat split; auto. apply same_origin_sym. exact H. Qed.

  (* ---------------------------------------------------------------- the call paths *)
  (* FindChartInRepoURL and normalizeURL resolve against an absolute base: what they return
     is an absolute URL with a host and a path (checked by the harness on every case) *)
  Hypothesis Hfind : forall r n v cu u, find_in r n v = Some cu -> parse cu = Some u -> abs3 u = true.
  Hypothesis Hdep : forall cr d n v cu u, dep_url cr d n v = Some cu -> parse cu = Some u -> abs3 u = true.
  (* urlutil.Equal compares the serialised URLs after path cleaning: equal means same scheme and host *)
  Hypothesis Hequal : forall a b ua, url_equal a b = true -> parse a = Some ua -> so a b.

  (* the credentials given on the command line, as effective options *)
  Definition cli_opts (c : cpo) (name : string) (repos : list entry) : gopts :=
    mkOpts "" (c_user c) (c_pass c) (cmdline_src parse c name repos) (c_pass_all c).

  Definition path_ok (c : cpo) (name : string) (repos : list entry) (cr : cred) (href : string) : Prop :=
    caller_cred_ok (cli_opts c name repos) cr href \/ repo_cred_ok repos cr href.

  Lemma caller_ok_transfer o0 o1 cr href :
    caller_cred_ok o0 cr href -> g_user o0 = g_user o1 -> g_pass o0 = g_pass o1 -> g_src o0 = g_src o1 ->
    g_pass_all o0 = g_pass_all o1 -> caller_cred_ok o1 cr href.
  Proof.
    unfold caller_cred_ok, cred_of, has_c. intros (Hc & Hh & Hs) E1 E2 E3 E4.
    rewrite <- E1, <- E2, <- E3, <- E4. auto.
  Qed.

  Lemma cmdline_src_repo c name repos : nonempty (c_repo_url c) = true -> cmdline_src parse c name repos = c_repo_url c.
  Proof. unfold cmdline_src. intros ->. reflexivity. Qed.

  (* obligations of download_to_scope when the command-line credentials are passed on
     without a --repo lookup *)
  Lemma cmdline_obligation c name repos :
    nonempty (c_repo_url c) = false ->
    forall u0, parse name = Some u0 ->
      if abs3 u0 then so (cmdline_src parse c name repos) name
      else forall rn cn rc, split_slash (u_path u0) = Some (rn, cn) -> pick_by_name rn repos = Some rc ->
                            cmdline_src parse c name repos = e_url rc.
  Proof.
    intros Hr u0 Ep. unfold cmdline_src. rewrite Hr, Ep. fold (abs3 u0).
    destruct (abs3 u0) eqn:Ea.
    - eapply so_refl; eauto.
    - intros rn cn rc Ess Epk. rewrite Ess, Epk. reflexivity.
  Qed.

  Lemma locate_scope c name repos ok href cr :
    In (href, GReq (Some cr)) (locate_chart parse url_equal lookup index_url find_in c name repos ok) ->
    path_ok c name repos cr href.
  Proof.
    unfold locate_chart, path_ok. destruct (nonempty (c_repo_url c)) eqn:Hr.
    - assert (Hidx : forall h x, In (h, GReq (Some x)) (download_index parse index_url (adhoc_entry (c_repo_url c) (c_user c) (c_pass c) (c_pass_all c))) ->
                caller_cred_ok (cli_opts c name repos) x h).
      { intros h x Hin. apply download_index_scope in Hin as (Hc & Hh & Hs). cbn in Hc, Hh, Hs.
        unfold caller_cred_ok, cred_of, has_c, cli_opts. cbn. rewrite (cmdline_src_repo c name repos Hr). auto. }
      destruct (find_in (c_repo_url c) name (c_version c)) as [chart_url|] eqn:Ef; [|intro H; left; eauto].
      destruct (parse (c_repo_url c)) as [u1|] eqn:E1; [|intro H; left; eauto].
      destruct (parse chart_url) as [u2|] eqn:E2; [|intro H; left; eauto].
      intro H. apply in_app_or in H as [H|H]; [left; eauto|].
      rewrite (cmdline_src_repo c name repos Hr) in H.
      apply download_to_scope in H.
      + destruct H as [H|H]; [left|right; exact H].
        rewrite apply_opts_app in H. cbn in H.
        destruct (c_pass_all c || same_origin u1 u2) eqn:Eo; cbn in H.
        * eapply caller_ok_transfer; [exact H| | | |]; cbn; auto. rewrite (cmdline_src_repo c name repos Hr). reflexivity.
        * destruct H as (_ & Hh & _). cbn in Hh. discriminate.
      + rewrite apply_opts_app. cbn.
        destruct (c_pass_all c || same_origin u1 u2) eqn:Eo; cbn; [|intros Hh; discriminate].
        intros _ Hpa u0 Ep. rewrite E2 in Ep. injection Ep as <-.
        rewrite (Hfind _ _ _ _ _ Ef E2). rewrite Hpa in Eo. simpl in Eo.
        exists u1, u2. auto.
    - intro H. apply download_to_scope in H.
      + destruct H as [H|H]; [left|right; exact H].
        rewrite apply_opts_app in H. cbn in H.
        eapply caller_ok_transfer; [exact H| | | |]; reflexivity.
      + rewrite apply_opts_app. cbn. intros _ _. apply cmdline_obligation. exact Hr.
  Qed.

  Lemma pull_scope c name repos wp ok href cr :
    In (href, GReq (Some cr)) (pull parse url_equal lookup index_url find_in c name repos wp ok) ->
    path_ok c name repos cr href.
  Proof.
    unfold pull, path_ok. destruct (nonempty (c_repo_url c)) eqn:Hr.
    - assert (Hidx : forall h x, In (h, GReq (Some x)) (download_index parse index_url (adhoc_entry (c_repo_url c) (c_user c) (c_pass c) (c_pass_all c))) ->
                caller_cred_ok (cli_opts c name repos) x h).
      { intros h x Hin. apply download_index_scope in Hin as (Hc & Hh & Hs). cbn in Hc, Hh, Hs.
        unfold caller_cred_ok, cred_of, has_c, cli_opts. cbn. rewrite (cmdline_src_repo c name repos Hr). auto. }
      destruct (find_in (c_repo_url c) name (c_version c)) as [chart_url|] eqn:Ef; [|intro H; left; eauto].
      destruct (parse (c_repo_url c)) as [u1|] eqn:E1; [|intro H; left; eauto].
      destruct (parse chart_url) as [u2|] eqn:E2; [|intro H; left; eauto].
      intro H. apply in_app_or in H as [H|H]; [left; eauto|].
      rewrite (cmdline_src_repo c name repos Hr) in H.
      apply download_to_scope in H.
      + destruct H as [H|H]; [left|right; exact H].
        rewrite apply_opts_app in H.
        destruct (negb (c_pass_all c) && negb (same_origin u1 u2)) eqn:Eo; cbn in H.
        * destruct H as (_ & Hh & _). cbn in Hh. discriminate.
        * eapply caller_ok_transfer; [exact H| | | |]; cbn; auto. rewrite (cmdline_src_repo c name repos Hr). reflexivity.
      + rewrite apply_opts_app.
        destruct (negb (c_pass_all c) && negb (same_origin u1 u2)) eqn:Eo; cbn; [intros Hh; discriminate|].
        intros _ Hpa u0 Ep. rewrite E2 in Ep. injection Ep as <-.
        rewrite (Hfind _ _ _ _ _ Ef E2). rewrite Hpa in Eo. simpl in Eo. apply negb_false_iff in Eo.
        exists u1, u2. auto.
    - intro H. apply download_to_scope in H.
      + destruct H as [H|H]; [left|right; exact H].
        cbn in H. eapply caller_ok_transfer; [exact H| | | |]; reflexivity.
      + cbn. intros _ _. apply cmdline_obligation. exact Hr.
  Qed.

  (* dependency download: only repository entries' own credentials, each within its scope *)
  Lemma manager_scope dep_repo name ver repos wp ok href cr :
    In (href, GReq (Some cr)) (manager_dep parse url_equal lookup index_url find_in dep_url dep_repo name ver repos wp ok) ->
    repo_cred_ok repos cr href.
  Proof.
    unfold manager_dep, manager_dep_gen.
    destruct (find_repo url_equal dep_repo repos) as [cr0|] eqn:Efr.
    - apply find_repo_In in Efr as [Hin Heq].
      destruct (dep_url cr0 dep_repo name ver) as [churl|] eqn:Ed; [|intros []].
      destruct (scoped_creds parse dep_repo churl (e_user cr0) (e_pass cr0) (e_pass_all cr0)) as [us pw] eqn:Esc.
      intro H. apply download_to_scope in H.
      + destruct H as [H|H]; [|exact H]. cbn in H. destruct H as (Hc & Hh & Hs). unfold has_c in Hh. cbn in Hc, Hh, Hs.
        assert (us = e_user cr0 /\ pw = e_pass cr0) as [-> ->].
        { unfold scoped_creds in Esc.
          destruct (negb (e_pass_all cr0) && (nonempty (e_user cr0) || nonempty (e_pass cr0))).
          - destruct (parse dep_repo); [destruct (parse churl); [destruct (same_origin _ _)|]|];
              injection Esc as <- <-; auto; discriminate.
          - injection Esc as <- <-. auto. }
        exists cr0. repeat split; auto.
      + cbn. unfold has_c. cbn. intros Hh Hpa u0 Ep. rewrite (Hdep _ _ _ _ _ _ Ed Ep).
        unfold scoped_creds in Esc. rewrite Hpa in Esc. cbn in Esc.
        destruct (nonempty (e_user cr0) || nonempty (e_pass cr0)) eqn:Ene.
        * destruct (parse dep_repo) as [u1|] eqn:E1; [|injection Esc as <- <-; discriminate].
          rewrite Ep in Esc. destruct (same_origin u1 u0) eqn:Eso; [|injection Esc as <- <-; discriminate].
          apply so_trans with dep_repo.
          -- apply so_sym. eapply Hequal; eauto.
          -- exists u1, u0. auto.
        * injection Esc as <- <-. apply orb_false_iff in Ene as [E _]. rewrite E in Hh. discriminate.
    - assert (Hidx : forall h x, ~ In (h, GReq (Some x)) (download_index parse index_url (adhoc_entry dep_repo "" "" false))).
      { intros h x Hin. apply download_index_scope in Hin as (_ & Hh & _). discriminate. }
      destruct (find_in dep_repo name ver) as [churl|]; [|intro H; exfalso; eapply Hidx; eauto].
      intro H. apply in_app_or in H as [H|H]; [exfalso; eapply Hidx; eauto|].
      apply download_to_scope in H.
      + destruct H as [H|H]; [|exact H]. destruct H as (_ & Hh & _). discriminate.
      + cbn. intros Hh. discriminate.
  Qed.
End Scope.

(* ================================================================== refutations and examples *)
(* A table-driven URL parser for the examples: scheme://host/path, host = up to the first '/' *)
Definition ex_urls : list (string * url) :=
  [ ("https://private.corp.test/charts", mkUrl "https" "private.corp.test" "/charts" None "https://private.corp.test/charts");
    ("https://private.corp.test/charts/index.yaml", mkUrl "https" "private.corp.test" "/charts/index.yaml" None "https://private.corp.test/charts/index.yaml");
    ("https://private.corp.test/charts/a-1.0.0.tgz", mkUrl "https" "private.corp.test" "/charts/a-1.0.0.tgz" None "https://private.corp.test/charts/a-1.0.0.tgz");
    ("https://public.example/charts", mkUrl "https" "public.example" "/charts" None "https://public.example/charts");
    ("https://public.example/charts/a-1.0.0.tgz", mkUrl "https" "public.example" "/charts/a-1.0.0.tgz" None "https://public.example/charts/a-1.0.0.tgz");
    ("https://public.example/charts/a-1.0.0.tgz.prov", mkUrl "https" "public.example" "/charts/a-1.0.0.tgz.prov" None "https://public.example/charts/a-1.0.0.tgz.prov");
    ("https://cdn.other.test/a-1.0.0.tgz", mkUrl "https" "cdn.other.test" "/a-1.0.0.tgz" None "https://cdn.other.test/a-1.0.0.tgz");
    ("private/a", mkUrl "" "" "private/a" None "private/a");
    ("", mkUrl "" "" "" None "") ].
Definition ex_parse (s : string) : option url :=
  (fix go (l : list (string * url)) := match l with [] => None | (k, u) :: t => if String.eqb k s then Some u else go t end) ex_urls.
Definition ex_index_url (s : string) : option string := Some (s ++ "/index.yaml").

Definition ex_public := mkEntry "public" "https://public.example/charts" "" "" false [("a", "1.0.0", ["https://public.example/charts/a-1.0.0.tgz"])].
Definition ex_private := mkEntry "private" "https://private.corp.test/charts" "user-private" "pw-private" false
                                 [("a", "1.0.0", ["https://public.example/charts/a-1.0.0.tgz"])].

(* K (repaired, 0ca3ebf): before the repair a dependency on the private repository whose index
   lists an absolute URL that an earlier credential-less repository lists too sent the
   private credentials to the other host *)
Lemma manager_unrepaired_refuted :
  In ("https://public.example/charts/a-1.0.0.tgz", GReq (Some (Cred "user-private" "pw-private" "https://private.corp.test/charts")))
     (manager_dep_unrepaired ex_parse String.eqb (fun _ _ _ => None) ex_index_url (fun _ _ _ => None)
        (fun _ _ _ _ => Some "https://public.example/charts/a-1.0.0.tgz")
        "https://private.corp.test/charts" "a" "1.0.0" [ex_public; ex_private] false true).
Proof. vm_compute. left. reflexivity. Qed.

Lemma manager_repaired_example :
  manager_dep ex_parse String.eqb (fun _ _ _ => None) ex_index_url (fun _ _ _ => None)
        (fun _ _ _ _ => Some "https://public.example/charts/a-1.0.0.tgz")
        "https://private.corp.test/charts" "a" "1.0.0" [ex_public; ex_private] false true
  = [("https://public.example/charts/a-1.0.0.tgz", GReq None)].
Proof. vm_compute. reflexivity. Qed.

Definition ex_cpo := mkCpo "https://private.corp.test/charts" "user-cli" "pw-cli" false "" false.

(* (repaired, 6d7787e): helm pull --repo sent the command-line credentials to a chart URL on another host *)
Lemma pull_unrepaired_refuted :
  In ("https://cdn.other.test/a-1.0.0.tgz", GReq (Some (Cred "user-cli" "pw-cli" "https://private.corp.test/charts")))
     (pull_unrepaired ex_parse String.eqb (fun _ _ _ => None) ex_index_url (fun _ _ _ => Some "https://cdn.other.test/a-1.0.0.tgz")
        ex_cpo "a" [] false true).
Proof. vm_compute. right. left. reflexivity. Qed.

Lemma pull_repaired_example :
  pull ex_parse String.eqb (fun _ _ _ => None) ex_index_url (fun _ _ _ => Some "https://cdn.other.test/a-1.0.0.tgz") ex_cpo "a" [] false true
  = [("https://private.corp.test/charts/index.yaml", GReq (Some (Cred "user-cli" "pw-cli" "https://private.corp.test/charts")));
     ("https://cdn.other.test/a-1.0.0.tgz", GReq None)]
  /\ locate_chart ex_parse String.eqb (fun _ _ _ => None) ex_index_url (fun _ _ _ => Some "https://cdn.other.test/a-1.0.0.tgz") ex_cpo "a" [] true
  = [("https://private.corp.test/charts/index.yaml", GReq (Some (Cred "user-cli" "pw-cli" "https://private.corp.test/charts")));
     ("https://cdn.other.test/a-1.0.0.tgz", GReq None)].
Proof. vm_compute. split; reflexivity. Qed.

(* the hypotheses of the scope theorems hold of the example parser, and a credentialed
   request does occur: a named reference to the private repository *)
Lemma ex_hypotheses :
  (forall s u, ex_parse s = Some u -> so ex_parse s (u_str u)) /\
  (forall a b ua, String.eqb a b = true -> ex_parse a = Some ua -> so ex_parse a b).
Proof.
  split.
  - intros s u H. assert (E : u_str u = s).
    { unfold ex_parse, ex_urls in H.
      repeat (match type of H with
              | (if String.eqb ?k s then _ else _) = _ =>
                  let Q := fresh "Q" in
                  destruct (String.eqb k s) eqn:Q;
                  [apply String.eqb_eq in Q; subst s; injection H as H; subst u; reflexivity|]
              end).
      discriminate. }
    rewrite E. exists u, u. repeat split; auto. apply same_origin_refl.
  - intros a b ua E H. apply String.eqb_eq in E. subst b. exists ua, ua. repeat split; auto. apply same_origin_refl.
Qed.

Example paths_example :
  download_to ex_parse String.eqb (fun _ _ _ => Some "https://private.corp.test/charts/a-1.0.0.tgz") [] "private/a" "" [ex_public; ex_private] false true
  = [("https://private.corp.test/charts/a-1.0.0.tgz", GReq (Some (Cred "user-private" "pw-private" "https://private.corp.test/charts")))]
  /\ download_to ex_parse String.eqb (fun _ _ _ => Some "https://cdn.other.test/a-1.0.0.tgz") [] "private/a" "" [ex_public; ex_private] false true
  = [("https://cdn.other.test/a-1.0.0.tgz", GReq None)].
Proof. vm_compute. split; reflexivity. Qed.

(* all call paths in one statement (Props/C19.v) *)
Lemma paths_scope :
  forall (parse : string -> option url) (url_equal : string -> string -> bool)
         (lookup : entry -> string -> string -> option string) (index_url : string -> option string)
         (find_in : string -> string -> string -> option string)
         (dep_url : entry -> string -> string -> string -> option string),
    (forall s u, parse s = Some u -> so parse s (u_str u)) ->
    (forall s u, parse s = Some u -> nonempty (u_path u) = true -> so parse s (u_str u ++ ".prov")) ->
    (forall r n v cu u, find_in r n v = Some cu -> parse cu = Some u -> abs3 u = true) ->
    (forall cr d n v cu u, dep_url cr d n v = Some cu -> parse cu = Some u -> abs3 u = true) ->
    (forall a b ua, url_equal a b = true -> parse a = Some ua -> so parse a b) ->
    (forall e href c, In (href, GReq (Some c)) (download_index parse index_url e) ->
       c = Cred (e_user e) (e_pass e) (e_url e) /\ has_creds e = true /\ (e_pass_all e = true \/ so parse (e_url e) href))
    /\ (forall copts ref ver repos wp ok href c,
          (has_c (apply_opts gopts0 copts) = true -> g_pass_all (apply_opts gopts0 copts) = false ->
           forall u0, parse ref = Some u0 ->
             if abs3 u0 then so parse (g_src (apply_opts gopts0 copts)) ref
             else forall rn cn rc, split_slash (u_path u0) = Some (rn, cn) -> pick_by_name rn repos = Some rc ->
                                   g_src (apply_opts gopts0 copts) = e_url rc) ->
          In (href, GReq (Some c)) (download_to parse url_equal lookup copts ref ver repos wp ok) ->
          caller_cred_ok parse (apply_opts gopts0 copts) c href \/ repo_cred_ok parse repos c href)
    /\ (forall c name repos ok href cr,
          In (href, GReq (Some cr)) (locate_chart parse url_equal lookup index_url find_in c name repos ok) ->
          caller_cred_ok parse (cli_opts parse c name repos) cr href \/ repo_cred_ok parse repos cr href)
    /\ (forall c name repos wp ok href cr,
          In (href, GReq (Some cr)) (pull parse url_equal lookup index_url find_in c name repos wp ok) ->
          caller_cred_ok parse (cli_opts parse c name repos) cr href \/ repo_cred_ok parse repos cr href)
    /\ (forall dep_repo name ver repos wp ok href cr,
          In (href, GReq (Some cr)) (manager_dep parse url_equal lookup index_url find_in dep_url dep_repo name ver repos wp ok) ->
          repo_cred_ok parse repos cr href).
Proof.
  intros parse url_equal lookup index_url find_in dep_url Hstr Hprov Hfind Hdep Hequal.
  split; [|split; [|split; [|split]]].
  - intros e href c. apply download_index_scope.
  - intros copts ref ver repos wp ok href c. apply download_to_scope; assumption.
  - intros c name repos ok href cr. apply (locate_scope parse url_equal lookup index_url find_in Hstr Hprov Hfind).
  - intros c name repos wp ok href cr. apply (pull_scope parse url_equal lookup index_url find_in Hstr Hprov Hfind).
  - intros dep_repo name ver repos wp ok href cr.
    apply (manager_scope parse url_equal lookup index_url find_in dep_url Hstr Hprov Hdep Hequal).
Qed.

(* ================================================================== several dependencies *)
(* Manager.downloadAll builds the option list of every dependency afresh: what is requested,
   and with which credentials, for one dependency is [manager_dep] of that dependency's own
   repository, name and version - whatever the dependencies before and after it are. *)
Section DownloadAll.
  Variable parse : string -> option url.
  Variable url_equal : string -> string -> bool.
  Variable lookup : entry -> string -> string -> option string.
  Variable index_url : string -> option string.
  Variable find_in : string -> string -> string -> option string.
  Variable dep_url : entry -> string -> string -> string -> option string.

  Let dall := download_all parse url_equal lookup index_url find_in dep_url.
  Let mdep := manager_dep parse url_equal lookup index_url find_in dep_url.

  Definition dep_ok (d : string * string * string * bool) : bool := snd d.

  Lemma download_all_independent pre dr n v ok post repos wp :
    forallb dep_ok pre = true ->
    dall (pre ++ (dr, n, v, ok) :: post)%list repos wp =
    (dall pre repos wp ++ mdep dr n v repos wp ok ++ (if ok then dall post repos wp else []))%list.
  Proof.
    unfold dall, mdep. induction pre as [|[[[dr0 n0] v0] ok0] pre IH]; intro H; simpl.
    - reflexivity.
    - simpl in H. apply andb_true_iff in H as [H0 H]. unfold dep_ok in H0. simpl in H0. subst ok0.
      rewrite (IH H). rewrite <- !app_assoc. reflexivity.
  Qed.

  Lemma download_all_In deps repos wp x :
    In x (dall deps repos wp) -> exists dr n v ok, In (dr, n, v, ok) deps /\ In x (mdep dr n v repos wp ok).
  Proof.
    unfold dall, mdep. induction deps as [|[[[dr n] v] ok] t IH]; simpl; [intros []|].
    intro H. apply in_app_or in H as [H|H].
    - exists dr, n, v, ok. auto.
    - destruct ok; [|destruct H]. destruct (IH H) as (dr' & n' & v' & ok' & Hin & Hx). exists dr', n', v', ok'. auto.
  Qed.

  Hypothesis Hstr : forall s u, parse s = Some u -> so parse s (u_str u).
  Hypothesis Hprov : forall s u, parse s = Some u -> nonempty (u_path u) = true -> so parse s (u_str u ++ ".prov").
  Hypothesis Hdep : forall cr d n v cu u, dep_url cr d n v = Some cu -> parse cu = Some u -> abs3 u = true.
  Hypothesis Hequal : forall a b ua, url_equal a b = true -> parse a = Some ua -> so parse a b.

  (* hence every request of a dependency update that carries a pair carries a repository
     entry's own pair within that entry's scope - however many dependencies, in any order *)
  Lemma download_all_scope deps repos wp href cr :
    In (href, GReq (Some cr)) (dall deps repos wp) -> repo_cred_ok parse repos cr href.
  Proof.
    intro H. apply download_all_In in H as (dr & n & v & ok & _ & H).
    exact (manager_scope parse url_equal lookup index_url find_in dep_url Hstr Hprov Hdep Hequal _ _ _ _ _ _ _ _ H).
  Qed.
End DownloadAll.

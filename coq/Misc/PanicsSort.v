(* C20_sort_manifests — pkg/release/util/manifest_sorter.go: SortManifests :77,
   manifestFile.sort :139, hasAnyAnnotation :218, calculateHookWeight :227,
   operateAnnotationValues :237, and kind_sorter.go sortManifestsByKind :120 (the
   manifests[i].Head.Kind dereference).
   A document is what sigs.k8s.io/yaml made of it: a parse error, or a SimpleHead whose
   Metadata pointer may be nil and whose Annotations map may be nil or empty. *)
From Coq Require Import List String Bool ZArith.
From Helm Require Import Common.Assoc Misc.Panics.
Import ListNotations.
Local Open Scope string_scope.

Record hmeta := mkHMeta {
  hm_name : string;
  hm_ann : option (list (string * string))      (* None: nil map (key absent or null) *)
}.

Record head := mkHead {
  h_kind : string;
  h_meta : option hmeta                         (* None: entry.Metadata == nil *)
}.

Inductive doc := DBad | DHead (h : head).

Record mfile := mkMFile {
  mf_path : string;
  mf_partial : bool;      (* strings.HasPrefix(path.Base(filePath), "_") *)
  mf_blank : bool;        (* strings.TrimSpace(content) == "" *)
  mf_docs : list doc      (* SplitManifests(content), in order, each parsed *)
}.

Record hook := mkHook {
  hk_name : string;
  hk_kind : string;
  hk_path : string;
  hk_weight : Z;
  hk_events : list string;
  hk_delete : list string;
  hk_log : list string
}.

(* Manifest{Name, Content, Head *SimpleHead} *)
Record manifest := mkManifest { mn_path : string; mn_head : option head }.

Definition hook_annotation := "helm.sh/hook".
Definition hook_weight_annotation := "helm.sh/hook-weight".
Definition hook_delete_annotation := "helm.sh/hook-delete-policy".
Definition hook_log_annotation := "helm.sh/hook-output-log-policy".

Section Sort.
  Variable atoi : string -> option Z.            (* strconv.Atoi *)
  Variable norm_item : string -> string.         (* strings.ToLower(strings.TrimSpace(s)) *)
  Variable event_of : string -> option string.   (* e, ok := events[hookType] *)

  (* hasAnyAnnotation; [guard_meta] = false is the mutant without the Metadata != nil test *)
  Definition has_any_annotation (guard_meta : bool) (e : head) : res bool :=
    if guard_meta then
      match h_meta e with
      | None => Ok false
      | Some m => match hm_ann m with
                  | None => Ok false
                  | Some a => Ok (negb (Nat.eqb (List.length a) 0))
                  end
      end
    else
      m <- deref "entry.Metadata.Annotations" (h_meta e) ;;
      match hm_ann m with
      | None => Ok false
      | Some a => Ok (negb (Nat.eqb (List.length a) 0))
      end.

  (* entry.Metadata.Annotations[k]: reading a nil map is fine, going through a nil Metadata is not *)
  Definition annotation (e : head) (k : string) : res (option string) :=
    m <- deref "entry.Metadata.Annotations" (h_meta e) ;;
    Ok (match hm_ann m with Some a => aget k a | None => None end).

  Definition hook_weight (e : head) : res Z :=
    hws <- annotation e hook_weight_annotation ;;
    Ok (match atoi (match hws with Some s => s | None => EmptyString end) with
        | Some n => n
        | None => 0%Z
        end).

  Definition annotation_values (e : head) (k : string) : res (list string) :=
    v <- annotation e k ;;
    Ok (match v with Some dps => map norm_item (split_comma dps) | None => [] end).

  (* the events loop: None = an unknown hook type was met *)
  Fixpoint events_of (l : list string) : option (list string) :=
    match l with
    | [] => Some []
    | t :: r => match event_of (norm_item t) with
                | Some e => match events_of r with Some es => Some (e :: es) | None => None end
                | None => None
                end
    end.

  (* one entry of manifestFile.sort; result: hooks and generic manifests it adds *)
  Definition sort_entry (guard_meta : bool) (path : string) (d : doc) : res (list hook * list manifest) :=
    match d with
    | DBad => Err                                               (* YAML parse error *)
    | DHead entry =>
        any <- has_any_annotation guard_meta entry ;;
        if negb any then Ok ([], [mkManifest path (Some entry)])
        else
          ht <- annotation entry hook_annotation ;;
          match ht with
          | None => Ok ([], [mkManifest path (Some entry)])
          | Some hook_types =>
              hw <- hook_weight entry ;;
              m <- deref "entry.Metadata.Name" (h_meta entry) ;;
              match events_of (split_comma hook_types) with
              | None => Ok ([], [])                              (* unknown hook: skipped *)
              | Some evs =>
                  del <- annotation_values entry hook_delete_annotation ;;
                  lg <- annotation_values entry hook_log_annotation ;;
                  Ok ([mkHook (hm_name m) (h_kind entry) path hw evs del lg], [])
              end
          end
    end.

  Fixpoint sort_docs (guard_meta : bool) (path : string) (ds : list doc) : res (list hook * list manifest) :=
    match ds with
    | [] => Ok ([], [])
    | d :: t =>
        a <- sort_entry guard_meta path d ;;
        b <- sort_docs guard_meta path t ;;
        Ok ((fst a ++ fst b)%list, (snd a ++ snd b)%list)
    end.

  Fixpoint sort_files (guard_meta : bool) (fs : list mfile) : res (list hook * list manifest) :=
    match fs with
    | [] => Ok ([], [])
    | f :: t =>
        if mf_partial f || mf_blank f then sort_files guard_meta t
        else
          a <- sort_docs guard_meta (mf_path f) (mf_docs f) ;;
          b <- sort_files guard_meta t ;;
          Ok ((fst a ++ fst b)%list, (snd a ++ snd b)%list)
    end.

  (* sortManifestsByKind: sort.SliceStable calls the less function, which reads
     manifests[i].Head.Kind, on every element as soon as there are two *)
  Fixpoint all_kinds (ms : list manifest) : res (list string) :=
    match ms with
    | [] => Ok []
    | m :: t => h <- deref "manifests[i].Head.Kind" (mn_head m) ;; r <- all_kinds t ;; Ok (h_kind h :: r)
    end.

  Variable kind_sort_m : list manifest -> list manifest.
  Variable kind_sort_h : list hook -> list hook.

  Definition sort_manifests_by_kind (ms : list manifest) : res (list manifest) :=
    if Nat.ltb (List.length ms) 2 then Ok ms else _ <- all_kinds ms ;; Ok (kind_sort_m ms).

  (* SortManifests(files, _, ordering); files are taken in sorted path order *)
  Definition sort_manifests (guard_meta : bool) (fs : list mfile) : res (list hook * list manifest) :=
    r <- sort_files guard_meta fs ;;
    g <- sort_manifests_by_kind (snd r) ;;
    Ok (kind_sort_h (fst r), g).
End Sort.

(* Version constraints as Helm sees them through github.com/Masterminds/semver/v3 (v3.3.0,
   constraints.go): [new_constraint] mirrors semver.NewConstraint and [constraints_check]
   mirrors Constraints.Check.  Definitions only; proofs are in ConstraintProofs.v.

   The library parses with four regular expressions (constraints.go:160-206).  They are
   transcribed here as syntax trees ([constraint_re], [range_re], [find_re], [valid_re]) and
   run by a small backtracking matcher with the semantics of Go's regexp package: the
   leftmost match, and among the matches at that position the one a backtracking search
   finds first (alternatives left to right, greedy repetition), sub-matches accordingly.
   [show_re] prints a tree back to its source text; Props/C18.v proves that the four texts
   are the ones constraints.go builds (translator table Gen/C18Semver.v).

   Quirks kept on purpose (they are what the library does):
   - the segment class is [0-9|x|X|\*]: "|" belongs to it, and any mixture such as "1x" or
     "**" passes the regular expressions and fails later in NewVersion ("constraint Parser
     Error") — unless it is exactly x, X or *;
   - the alternation of operators contains the empty operator; "==" is not an operator;
   - hyphen ranges are rewritten textually BEFORE the string is split at "||", by replacing the
     first occurrence of each matched text;
   - a wildcard major ("*", "x.1.2") gives 0.0.0 with [dirty] only, so that e.g. "<=*" accepts
     only 0.0.z and "!=*" everything except 0.0.0;
   - the pre-release rule is applied per operator function, and "!=" with a full version does
     not apply it;
   - "~0.0.0" accepts every release. *)
From Coq Require Import List String Ascii Bool NArith Arith.
From Helm Require Import Misc.Semver.
Import ListNotations.
Local Open Scope string_scope.

(* ======================= regular expressions ======================= *)

(* an element of a bracket expression: a-b, c, \c *)
Inductive citem := CRange (a b : ascii) | CChar (c : ascii) | CEsc (c : ascii).

Inductive re :=
| RLit (c : ascii)              (* the byte c *)
| REsc (c : ascii)              (* \c, an escaped punctuation byte *)
| RSpace                        (* \s *)
| RClass (l : list citem)       (* [...] *)
| REmpty                        (* the empty expression, e.g. the second alternative of =||!= *)
| RSeq (a b : re)
| RAlt (a b : re)               (* a|b, a preferred *)
| RStar (a : re)                (* a*, greedy *)
| RPlus (a : re)                (* a+, greedy *)
| ROpt (a : re)                 (* a?, greedy *)
| RGroup (n : nat) (a : re)     (* (a), the n-th capturing group *)
| RNGroup (a : re)              (* (?:a) *)
| RBol                          (* ^ *)
| REol.                         (* $ *)

Definition in_item (x : ascii) (i : citem) : bool :=
  match i with
  | CRange a b => (N_of_ascii a <=? N_of_ascii x)%N && (N_of_ascii x <=? N_of_ascii b)%N
  | CChar c => Ascii.eqb x c
  | CEsc c => Ascii.eqb x c
  end.

(* \s of RE2: [\t\n\f\r ] *)
Definition is_space (x : ascii) : bool :=
  let n := N_of_ascii x in
  (n =? 9)%N || (n =? 10)%N || (n =? 12)%N || (n =? 13)%N || (n =? 32)%N.

Fixpoint str_take (n : nat) (s : string) : string :=
  match n, s with
  | S n', String c t => String c (str_take n' t)
  | _, _ => EmptyString
  end.

(* sub-matches: group number -> text; a group that took no part reads as "" *)
Definition caps := list (nat * string).

Fixpoint cap (c : caps) (n : nat) : string :=
  match c with
  | [] => EmptyString
  | (m, s) :: t => if Nat.eqb m n then s else cap t n
  end.

Definition mres := option (string * caps).        (* rest of the subject, sub-matches *)
Definition mcont := string -> caps -> mres.

(* greedy iteration: one more round first, then the continuation.  A round that consumes
   nothing is not taken (none of the bodies used here can match the empty string). *)
Fixpoint star_loop (body : string -> caps -> mcont -> mres) (fuel : nat)
         (s : string) (c : caps) (k : mcont) : mres :=
  match fuel with
  | O => k s c
  | S f =>
      match body s c (fun s' c' => if Nat.ltb (String.length s') (String.length s)
                                   then star_loop body f s' c' k else None) with
      | Some x => Some x
      | None => k s c
      end
  end.

Definition one_byte (p : ascii -> bool) (s : string) (c : caps) (k : mcont) : mres :=
  match s with
  | String x t => if p x then k t c else None
  | EmptyString => None
  end.

(* [total] = length of the whole subject (for ^) *)
Fixpoint rmatch (total : nat) (r : re) (s : string) (c : caps) (k : mcont) {struct r} : mres :=
  match r with
  | RLit ch => one_byte (fun x => Ascii.eqb x ch) s c k
  | REsc ch => one_byte (fun x => Ascii.eqb x ch) s c k
  | RSpace => one_byte is_space s c k
  | RClass l => one_byte (fun x => existsb (in_item x) l) s c k
  | REmpty => k s c
  | RSeq a b => rmatch total a s c (fun s' c' => rmatch total b s' c' k)
  | RAlt a b =>
      match rmatch total a s c k with
      | Some x => Some x
      | None => rmatch total b s c k
      end
  | RStar a => star_loop (rmatch total a) (S (String.length s)) s c k
  | RPlus a =>
      rmatch total a s c (fun s' c' => star_loop (rmatch total a) (S (String.length s')) s' c' k)
  | ROpt a =>
      match rmatch total a s c k with
      | Some x => Some x
      | None => k s c
      end
  | RGroup n a =>
      rmatch total a s c
             (fun s' c' => k s' ((n, str_take (String.length s - String.length s') s) :: c'))
  | RNGroup a => rmatch total a s c k
  | RBol => if Nat.eqb (String.length s) total then k s c else None
  | REol => match s with EmptyString => k s c | _ => None end
  end.

(* a match starting exactly at [s]: matched text, sub-matches, rest *)
Definition match_here (r : re) (total : nat) (s : string) : option (string * caps * string) :=
  match rmatch total r s [] (fun s' c' => Some (s', c')) with
  | Some (rest, c) => Some (str_take (String.length s - String.length rest) s, c, rest)
  | None => None
  end.

(* the leftmost match in [s] *)
Fixpoint search (r : re) (total : nat) (s : string) : option (string * caps * string) :=
  match match_here r total s with
  | Some x => Some x
  | None => match s with
            | String _ t => search r total t
            | EmptyString => None
            end
  end.

(* Regexp.MatchString *)
Definition re_matches (r : re) (s : string) : bool :=
  match search r (String.length s) s with Some _ => true | None => false end.

(* Regexp.FindStringSubmatch: nil -> None *)
Definition find_submatch (r : re) (s : string) : option (string * caps) :=
  match search r (String.length s) s with
  | Some (txt, c, _) => Some (txt, c)
  | None => None
  end.

(* Regexp.FindAllStringSubmatch(s, -1): successive non-overlapping matches.  After an empty
   match the search moves one byte on (the expressions used here never match the empty string). *)
Fixpoint find_all_from (r : re) (total : nat) (fuel : nat) (s : string) : list (string * caps) :=
  match fuel with
  | O => []
  | S f =>
      match search r total s with
      | None => []
      | Some (txt, c, rest) =>
          match txt, rest with
          | EmptyString, EmptyString => [(txt, c)]
          | EmptyString, String _ t => (txt, c) :: find_all_from r total f t
          | _, _ => (txt, c) :: find_all_from r total f rest
          end
      end
  end.

Definition find_all (r : re) (s : string) : list (string * caps) :=
  find_all_from r (String.length s) (S (String.length s)) s.

(* ---- printing an expression back to its source text ---- *)

Definition chr (c : ascii) : string := String c EmptyString.

Definition show_item (i : citem) : string :=
  match i with
  | CRange a b => chr a ++ "-" ++ chr b
  | CChar c => chr c
  | CEsc c => "\" ++ chr c
  end.

Fixpoint show_re (r : re) : string :=
  match r with
  | RLit c => chr c
  | REsc c => "\" ++ chr c
  | RSpace => "\s"
  | RClass l => "[" ++ String.concat "" (map show_item l) ++ "]"
  | REmpty => ""
  | RSeq a b => show_re a ++ show_re b
  | RAlt a b => show_re a ++ "|" ++ show_re b
  | RStar a => show_re a ++ "*"
  | RPlus a => show_re a ++ "+"
  | ROpt a => show_re a ++ "?"
  | RGroup _ a => "(" ++ show_re a ++ ")"
  | RNGroup a => "(?:" ++ show_re a ++ ")"
  | RBol => "^"
  | REol => "$"
  end.

(* capturing groups are numbered by their opening parenthesis: [numbered r n] = the next free
   number after [r] when the groups of [r] are n, n+1, ... in that order *)
Fixpoint numbered (r : re) (n : nat) : option nat :=
  match r with
  | RSeq a b | RAlt a b =>
      match numbered a n with Some m => numbered b m | None => None end
  | RStar a | RPlus a | ROpt a | RNGroup a => numbered a n
  | RGroup g a => if Nat.eqb g n then numbered a (S n) else None
  | _ => Some n
  end.

(* ---- the expressions of constraints.go ---- *)

Fixpoint seq (l : list re) : re :=
  match l with
  | [] => REmpty
  | [a] => a
  | a :: t => RSeq a (seq t)
  end.

Fixpoint alt (l : list re) : re :=
  match l with
  | [] => REmpty
  | [a] => a
  | a :: t => RAlt a (alt t)
  end.

Fixpoint lits (s : string) : re :=
  match s with
  | EmptyString => REmpty
  | String c EmptyString => RLit c
  | String c t => RSeq (RLit c) (lits t)
  end.

(* [0-9|x|X|\*] *)
Definition seg_class : re :=
  RClass [CRange "0" "9"; CChar "|"; CChar "x"; CChar "|"; CChar "X"; CChar "|"; CEsc "*"].
(* [0-9A-Za-z\-] *)
Definition id_class : re :=
  RClass [CRange "0" "9"; CRange "A" "Z"; CRange "a" "z"; CEsc "-"].

(* cvRegex, its nine groups numbered from b: an optional v, the major segment, two optional
   dotted segments, an optional pre-release group (hyphen, dot-separated identifiers), an
   optional metadata group (plus sign, dot-separated identifiers).  The source text is
   [show_re (cv_re b)], compared with the library's in Props/C18.v. *)
Definition cv_re (b : nat) : re :=
  seq [ ROpt (RLit "v");
        RGroup b (RPlus seg_class);
        ROpt (RGroup (b + 1) (RSeq (REsc ".") (RPlus seg_class)));
        ROpt (RGroup (b + 2) (RSeq (REsc ".") (RPlus seg_class)));
        ROpt (RGroup (b + 3)
                (RSeq (RLit "-")
                      (RGroup (b + 4)
                         (RSeq (RPlus id_class)
                               (RStar (RGroup (b + 5) (RSeq (REsc ".") (RPlus id_class))))))));
        ROpt (RGroup (b + 6)
                (RSeq (REsc "+")
                      (RGroup (b + 7)
                         (RSeq (RPlus id_class)
                               (RStar (RGroup (b + 8) (RSeq (REsc ".") (RPlus id_class)))))))) ].

(* ops := `=||!=|>|<|>=|=>|<=|=<|~|~>|\^` *)
Definition ops_re : re :=
  alt [ lits "="; REmpty; lits "!="; lits ">"; lits "<"; lits ">="; lits "=>"; lits "<=";
        lits "=<"; lits "~"; lits "~>"; REsc "^" ].

Definition sp_star := RStar RSpace.
Definition sp_plus := RPlus RSpace.

(* constraintRegex: blanks, (ops), blanks, (cvRegex), blanks, anchored at both ends *)
Definition constraint_re : re :=
  seq [RBol; sp_star; RGroup 1 ops_re; sp_star; RGroup 2 (cv_re 3); sp_star; REol].

(* constraintRangeRegex: blanks, (cvRegex), blanks+, a hyphen, blanks+, (cvRegex), blanks *)
Definition range_re : re :=
  seq [sp_star; RGroup 1 (cv_re 2); sp_plus; RLit "-"; sp_plus; RGroup 11 (cv_re 12); sp_star].

(* findConstraintRegex: (ops), blanks, (cvRegex) *)
Definition find_re : re :=
  seq [RGroup 1 ops_re; sp_star; RGroup 2 (cv_re 3)].

(* validConstraintRegex: one operator-version pair surrounded by optional blanks, then any
   number of further pairs each introduced by blanks or a comma, anchored at both ends *)
Definition valid_re : re :=
  seq [ RBol;
        RGroup 1 (seq [sp_star; RGroup 2 ops_re; sp_star; RGroup 3 (cv_re 4); sp_star]);
        RStar (RGroup 13 (seq [ RNGroup (RAlt sp_plus (RSeq (RLit ",") sp_star));
                                RGroup 14 ops_re; sp_star; RGroup 15 (cv_re 16); sp_star ]));
        REol ].

(* ======================= string helpers ======================= *)

Fixpoint str_prefix (p s : string) : option string :=      (* the rest of s after the prefix p *)
  match p, s with
  | EmptyString, _ => Some s
  | String a p', String b s' => if Ascii.eqb a b then str_prefix p' s' else None
  | String _ _, EmptyString => None
  end.

(* strings.Replace(s, old, new, 1) for a non-empty [old] *)
Fixpoint replace_first (old new s : string) : string :=
  match str_prefix old s with
  | Some rest => new ++ rest
  | None => match s with
            | String c t => String c (replace_first old new t)
            | EmptyString => EmptyString
            end
  end.

(* strings.Split(s, "||") *)
Fixpoint split_oror (s : string) : list string :=
  match s with
  | EmptyString => [EmptyString]
  | String "|" (String "|" t) => EmptyString :: split_oror t
  | String c t =>
      match split_oror t with
      | h :: r => String c h :: r
      | [] => [String c EmptyString]
      end
  end.

Fixpoint map_opt {A B : Type} (f : A -> option B) (l : list A) : option (list B) :=
  match l with
  | [] => Some []
  | a :: t => match f a with
              | None => None
              | Some b => match map_opt f t with Some r => Some (b :: r) | None => None end
              end
  end.

(* ======================= NewConstraint ======================= *)

(* the constraint functions of the map constraintOps *)
Inductive cfunc := FTildeOrEqual | FNotEqual | FGreaterThan | FLessThan | FGreaterThanEqual
                 | FLessThanEqual | FTilde | FCaret.

(* constraintOps (constraints.go:168-181) *)
Definition constraint_ops : list (string * cfunc) :=
  [ ("", FTildeOrEqual); ("=", FTildeOrEqual); ("!=", FNotEqual); (">", FGreaterThan);
    ("<", FLessThan); (">=", FGreaterThanEqual); ("=>", FGreaterThanEqual);
    ("<=", FLessThanEqual); ("=<", FLessThanEqual); ("~", FTilde); ("~>", FTilde);
    ("^", FCaret) ].

Fixpoint lookup_op (o : string) (l : list (string * cfunc)) : option cfunc :=
  match l with
  | [] => None
  | (k, f) :: t => if String.eqb o k then Some f else lookup_op o t
  end.

(* type constraint: con, origfunc (resolved through constraintOps), the dirty flags *)
Record constr := mkConstr {
  k_fn : cfunc;
  k_con : version;
  k_minor_dirty : bool;
  k_dirty : bool;
  k_patch_dirty : bool
}.

Definition is_x (s : string) : bool :=
  String.eqb s "x" || String.eqb s "*" || String.eqb s "X".

Definition trim_dot (s : string) : string :=               (* strings.TrimPrefix(s, ".") *)
  match s with String "." t => t | _ => s end.

Definition zero_version : version := mkVersion 0 0 0 [] "" "0.0.0".

(* rewriteRange (constraints.go:575-588) *)
Definition rewrite_range (i : string) : string :=
  fold_left (fun o m => let '(txt, c) := m in
                        replace_first txt (">= " ++ cap c 1 ++ ", <= " ++ cap c 11 ++ " ") o)
            (find_all range_re i) i.

(* parseConstraint (constraints.go:236-297); None = error *)
Definition parse_constraint (c : string) : option constr :=
  match c with
  | EmptyString => Some (mkConstr FTildeOrEqual zero_version false true false)
  | _ =>
      match find_submatch constraint_re c with
      | None => None                                        (* improper constraint *)
      | Some (_, m) =>
          let g := cap m in
          let '(ver, minor_dirty, dirty, patch_dirty) :=
            if is_x (g 3) || str_is_empty (g 3) then ("0.0.0" ++ g 6, false, true, false)
            else if is_x (trim_dot (g 4)) || str_is_empty (g 4)
                 then (g 3 ++ ".0.0" ++ g 6, true, true, false)
            else if is_x (trim_dot (g 5)) || str_is_empty (g 5)
                 then (g 3 ++ g 4 ++ ".0" ++ g 6, false, true, true)
            else (g 2, false, false, false) in
          match parse_version ver with
          | None => None                                    (* constraint Parser Error *)
          | Some con =>
              match lookup_op (g 1) constraint_ops with
              | Some f => Some (mkConstr f con minor_dirty dirty patch_dirty)
              | None => None          (* not reached: group 1 matches keys of the map only *)
              end
          end
      end
  end.

(* one element of strings.Split(c, "||") *)
Definition parse_and_group (v : string) : option (list constr) :=
  if negb (re_matches valid_re v) then None                  (* improper constraint *)
  else
    let cs := map fst (find_all find_re v) in
    let cs := match cs with [] => [v] | _ => cs end in
    map_opt parse_constraint cs.

(* semver.NewConstraint; None = error *)
Definition new_constraint (c : string) : option (list (list constr)) :=
  map_opt parse_and_group (split_oror (rewrite_range c)).

(* ======================= Check ======================= *)

Definition has_pre (v : version) : bool := negb (is_stable v).

(* v.Prerelease() != "" && c.con.Prerelease() == "" *)
Definition pre_excluded (v : version) (c : constr) : bool :=
  has_pre v && is_stable (k_con c).

Definition vgt (a b : version) : bool := match vcompare a b with Gt => true | _ => false end.
Definition vle (a b : version) : bool := negb (vgt a b).

Definition c_tilde (v : version) (c : constr) : bool :=
  let con := k_con c in
  if pre_excluded v c then false
  else if vless v con then false
  else if (vmajor con =? 0)%N && (vminor con =? 0)%N && (vpatch con =? 0)%N &&
          negb (k_minor_dirty c) && negb (k_patch_dirty c) then true
  else if negb (vmajor v =? vmajor con)%N then false
  else if negb (vminor v =? vminor con)%N && negb (k_minor_dirty c) then false
  else true.

Definition c_tilde_or_equal (v : version) (c : constr) : bool :=
  if pre_excluded v c then false
  else if k_dirty c then c_tilde v c
  else veqb v (k_con c).

Definition c_not_equal (v : version) (c : constr) : bool :=
  let con := k_con c in
  let fall := negb (veqb v con) in
  if k_dirty c then
    if pre_excluded v c then false
    else if negb (vmajor con =? vmajor v)%N then true
    else if negb (vminor con =? vminor v)%N && negb (k_minor_dirty c) then true
    else if k_minor_dirty c then false
    else if negb (vpatch con =? vpatch v)%N && negb (k_patch_dirty c) then true
    else if k_patch_dirty c then
           if has_pre v || has_pre con
           then match pre_lex (vpre v) (vpre con) with Eq => false | _ => true end
           else false
    else fall
  else fall.

Definition c_greater_than (v : version) (c : constr) : bool :=
  let con := k_con c in
  if pre_excluded v c then false
  else if negb (k_dirty c) then vgt v con
  else if (vmajor con <? vmajor v)%N then true
  else if (vmajor v <? vmajor con)%N then false
  else if k_minor_dirty c then false
  else if k_patch_dirty c then (vminor con <? vminor v)%N
  else vgt v con.

Definition c_less_than (v : version) (c : constr) : bool :=
  if pre_excluded v c then false else vless v (k_con c).

Definition c_greater_than_equal (v : version) (c : constr) : bool :=
  if pre_excluded v c then false else vgeb v (k_con c).

Definition c_less_than_equal (v : version) (c : constr) : bool :=
  let con := k_con c in
  if pre_excluded v c then false
  else if negb (k_dirty c) then vle v con
  else if (vmajor con <? vmajor v)%N then false
  else if (vmajor v =? vmajor con)%N && (vminor con <? vminor v)%N && negb (k_minor_dirty c)
       then false
  else true.

Definition c_caret (v : version) (c : constr) : bool :=
  let con := k_con c in
  if pre_excluded v c then false
  else if vless v con then false
  else if (0 <? vmajor con)%N || k_minor_dirty c then (vmajor v =? vmajor con)%N
  else if (vmajor con =? 0)%N && (0 <? vmajor v)%N then false
  else if (0 <? vminor con)%N || k_patch_dirty c then (vminor v =? vminor con)%N
  else if (vminor con =? 0)%N && (0 <? vminor v)%N then false
  else (vpatch con =? vpatch v)%N.

(* constraint.check *)
Definition ccheck (v : version) (c : constr) : bool :=
  match k_fn c with
  | FTildeOrEqual => c_tilde_or_equal v c
  | FNotEqual => c_not_equal v c
  | FGreaterThan => c_greater_than v c
  | FLessThan => c_less_than v c
  | FGreaterThanEqual => c_greater_than_equal v c
  | FLessThanEqual => c_less_than_equal v c
  | FTilde => c_tilde v c
  | FCaret => c_caret v c
  end.

(* Constraints.Check: some OR-group all of whose constraints hold *)
Definition constraints_check (cs : list (list constr)) (v : version) : bool :=
  existsb (forallb (ccheck v)) cs.

(* ======================= the interface used by Index.v ======================= *)

(* semver.NewConstraint(c) succeeds *)
Definition cvalid (c : string) : bool :=
  match new_constraint c with Some _ => true | None => false end.

(* the constraint parsed from c accepts v (false when c does not parse) *)
Definition sat (c : string) (v : version) : bool :=
  match new_constraint c with
  | Some cs => constraints_check cs v
  | None => false
  end.

(* C20_strvals (stretch) — pkg/strvals/parser.go: parse :158, key :179 (with its deferred
   recover :180), listItem :335, setIndex :299 (with its deferred recover :303 and the
   MaxIndex bound :312), keyIndex :324; literal_parser.go has the same skeleton.
   The lexical helpers (runesUntil, valList, val, typedVal, emptyVal, keyIndex) are those of
   Misc/PanicsStrvalsLex.v, a frozen copy of the C04 model's (they have no panicking operation); this file
   re-transcribes key / listItem / setIndex with every panicking operation explicit:
     data[kk].([]interface{})  data[k].(map[string]interface{})  list[i].([]interface{})
     list[i]  list[index] = val  make([]interface{}, index+1)
   and with two outcomes that the error-only model of Values/Strvals.v merges into "error":
     Panic  — a Go panic, turned into an error by the recover() of key / setIndex;
     Fatal  — stack exhaustion by unbounded recursion, which recover() cannot catch.
   The recursion is driven by [fuel]; running out of it is Fatal, so the theorem that the
   result is never Fatal for fuel = length of the input + 1 is the statement that the
   recursion depth is bounded by the input length. *)
From Coq Require Import List String Ascii Bool Arith ZArith.
From Helm Require Import Values.Tree Misc.PanicsStrvalsLex Misc.Panics.
Import ListNotations.
Local Open Scope string_scope.

Inductive fres (A : Type) : Type :=
| Fatal
| Ret (r : res A).
Arguments Fatal {A}.
Arguments Ret {A} r.

Definition fbind {A B : Type} (x : fres A) (f : A -> fres B) : fres B :=
  match x with
  | Fatal => Fatal
  | Ret (Ok a) => f a
  | Ret Err => Ret Err
  | Ret (Panic w) => Ret (Panic w)
  end.

(* defer func() { if r := recover(); r != nil { err = ... } }() *)
Definition frecover {A : Type} (on : bool) (x : fres A) : fres A :=
  match x with
  | Ret (Panic w) => if on then Ret Err else Ret (Panic w)
  | y => y
  end.

Definition lift {A : Type} (r : res A) : fres A := Ret r.

Definition safe {A : Type} (x : fres A) : Prop :=
  match x with
  | Fatal => False
  | Ret r => no_panic r
  end.

Inductive kout := KOk (d : vmap) (rest : string) | KEof (d : vmap).      (* nil / io.EOF *)
Inductive lout := LOk (l : list val) (rest : string) | LEof (l : list val).

Section SV.
  Variable cfg : pcfg.
  Variable recover_on : bool.        (* false: key and setIndex without their recover() *)
  Variable max_idx : Z.              (* MaxIndex *)
  Variable max_lvl : nat.            (* MaxNestedNameLevel *)
  Variable alloc_limit : Z.          (* largest slice length make() can provide *)
  Variable count_items : bool.       (* true: listItem counts '[' and '.' as nesting levels (since f627983) *)

  Definition lit : bool := match pmode_of cfg with MLiteral => true | _ => false end.

  (* make([]interface{}, n) *)
  Definition make_slice (n : Z) : res unit :=
    if (n <? 0)%Z then Panic "makeslice: len out of range"
    else if (alloc_limit <? n)%Z then Panic "makeslice: len out of range / out of memory"
    else Ok tt.

  (* list[index] = val *)
  Definition write_at (l : list val) (i : Z) (v : val) : res (list val) :=
    if in_range l i then Ok (set_nth (Z.to_nat i) v l)
    else Panic "index out of range".

  (* setIndex without its recover *)
  Definition set_index_body (l : list val) (i : Z) (v : val) : res (list val) :=
    if (i <? 0)%Z then Err
    else if (max_idx <? i)%Z then Err
    else
      l' <- (if (Z.of_nat (List.length l) <=? i)%Z
             then _ <- make_slice (i + 1) ;; Ok (set_nth (Z.to_nat i) VNull l)     (* newlist; copy *)
             else Ok l) ;;
      write_at l' i v.

  Definition set_index_r (l : list val) (i : Z) (v : val) : res (list val) :=
    match set_index_body l i v with
    | Panic w => if recover_on then Err else Panic w
    | x => x
    end.

  (* the value after "=": no panicking operation (Values/Strvals.v) *)
  Definition value_r (s : string) : res (option (val * string)) :=     (* None = io.EOF from valList *)
    match value_after_eq cfg s with
    | VOk v rest => Ok (Some (v, rest))
    | VEof => Ok None
    | _ => Err
    end.

  (* the body of key below its recover, with the two recursive calls as parameters *)
  Definition key_step (rk : vmap -> nat -> string -> fres kout)
                      (ri : list val -> Z -> nat -> string -> fres lout)
                      (d : vmap) (lvl : nat) (s : string) : fres kout :=
    let '(k, last, rest) := runes_until (negb lit) (if lit then stop_key_lit else stop_key) s in
    match last with
    | None => match k with EmptyString => Ret (Ok (KEof d)) | _ => Ret Err end
    | Some ch =>
        if ch_eq ch c_lbr then
          match key_index (negb lit) rest with
          | None => Ret Err
          | Some (i, rest1) =>
              fbind (lift (match mget k d with
                           | None => Ok []
                           | Some x => cast_list (Some x)                  (* data[kk].([]interface{}) *)
                           end))
                (fun l =>
                   match ri l i lvl rest1 with
                   | Fatal => Fatal
                   | Ret (Ok (LOk l' rest2)) => Ret (Ok (KOk (set k (VList l') d) rest2))
                   | Ret (Ok (LEof l')) => Ret (Ok (KEof (set k (VList l') d)))
                   | Ret Err => Ret Err
                   | Ret (Panic w) => Ret (Panic w)
                   end)
          end
        else if ch_eq ch c_eq then
          match value_r rest with
          | Ok (Some (v, rest1)) => Ret (Ok (KOk (set k v d) rest1))
          | Ok None => Ret (Ok (KEof (set k (VStr EmptyString) d)))
          | Err => Ret Err
          | Panic w => Ret (Panic w)
          end
        else if ch_eq ch c_comma then Ret Err
        else (* '.' *)
          if Nat.ltb max_lvl (S lvl) then Ret Err
          else
            fbind (lift (match mget k d with
                         | None => Ok ([], false)
                         | Some x => m <- cast_map (Some x) ;; Ok (m, true)   (* data[k].(map[string]interface{}) *)
                         end))
              (fun ie =>
                 let '(inner, existed) := ie in
                 let writeback (inner' : vmap) :=
                   if existed then mset k (VMap inner') d
                   else match inner' with [] => d | _ => set k (VMap inner') d end in
                 match rk inner (S lvl) rest with
                 | Fatal => Fatal
                 | Ret (Ok (KOk inner' rest1)) =>
                     match inner' with
                     | [] => Ret Err
                     | _ => Ret (Ok (KOk (writeback inner') rest1))
                     end
                 | Ret (Ok (KEof inner')) => Ret (Ok (KEof (writeback inner')))
                 | Ret Err => Ret Err
                 | Ret (Panic w) => Ret (Panic w)
                 end)
    end.

  (* the body of listItem (it has no recover of its own) *)
  Definition item_step (rk : vmap -> nat -> string -> fres kout)
                       (ri : list val -> Z -> nat -> string -> fres lout)
                       (l : list val) (i : Z) (lvl : nat) (s : string) : fres lout :=
    if (i <? 0)%Z then Ret Err
    else
      let '(k, last, rest) := runes_until (negb lit) stop_item s in
      match k with
      | String _ _ => Ret Err
      | EmptyString =>
          match last with
          | None => Ret (Ok (LEof l))
          | Some ch =>
              if ch_eq ch c_eq then
                match value_r rest with
                | Ok (Some (v, rest1)) => lift (l' <- set_index_r l i v ;; Ok (LOk l' rest1))
                | Ok None => lift (l' <- set_index_r l i (VStr EmptyString) ;; Ok (LOk l' EmptyString))
                | Err => Ret Err
                | Panic w => Ret (Panic w)
                end
              else if ch_eq ch c_lbr then
                if count_items && Nat.ltb max_lvl (S lvl) then Ret Err             (* nestedNameLevel++ ; > MaxNestedNameLevel *)
                else
                let lvl := if count_items then S lvl else lvl in
                match key_index (negb lit) rest with
                | None => Ret Err
                | Some (nexti, rest1) =>
                    fbind (lift (if (i <? Z.of_nat (List.length l))%Z            (* len(list) > i *)
                                 then
                                   existed <- index l i ;;                        (* list[i] *)
                                   match existed with
                                   | VNull => Ok ([], false)
                                   | x => c <- cast_list (Some x) ;; Ok (c, true)  (* list[i].([]interface{}) *)
                                   end
                                 else Ok ([], false)))
                      (fun ce =>
                         let '(crt, existed) := ce in
                         match ri crt nexti lvl rest1 with
                         | Fatal => Fatal
                         | Ret (Ok (LOk l2 rest2)) => lift (l' <- set_index_r l i (VList l2) ;; Ok (LOk l' rest2))
                         | Ret (Ok (LEof l2)) =>
                             match l2 with
                             | _ :: _ => lift (l' <- set_index_r l i (VList l2) ;; Ok (LEof l'))
                             | [] => Ret (Ok (LEof (if existed then set_nth (Z.to_nat i) (VList l2) l else l)))
                             end
                         | Ret Err => Ret Err
                         | Ret (Panic w) => Ret (Panic w)
                         end)
                end
              else (* '.' *)
                if count_items && Nat.ltb max_lvl (S lvl) then Ret Err
                else
                let lvl := if count_items then S lvl else lvl in
                fbind (lift (if (i <? Z.of_nat (List.length l))%Z
                             then
                               x <- index l i ;;
                               match x with
                               | VMap m => Ok (l, m, true)
                               | _ => l1 <- write_at l i (VMap []) ;; Ok (l1, [], true)   (* list[i] = map...{} *)
                               end
                             else Ok (l, [], false)))
                  (fun t =>
                     let '(l1, inner, inplace) := t in
                     match rk inner lvl rest with
                     | Fatal => Fatal
                     | Ret (Ok (KOk inner' rest1)) => lift (l' <- set_index_r l1 i (VMap inner') ;; Ok (LOk l' rest1))
                     | Ret (Ok (KEof inner')) =>
                         match inner' with
                         | _ :: _ => lift (l' <- set_index_r l1 i (VMap inner') ;; Ok (LEof l'))
                         | [] => Ret (Ok (LEof (if inplace then set_nth (Z.to_nat i) (VMap inner') l1 else l1)))
                         end
                     | Ret Err => Ret Err
                     | Ret (Panic w) => Ret (Panic w)
                     end)
          end
      end.

  (* key = key_body under the deferred recover; every Go-level call takes one unit of fuel *)
  Fixpoint key_body (f : nat) (d : vmap) (lvl : nat) (s : string) {struct f} : fres kout :=
    match f with
    | O => Fatal
    | S f' => key_step (key f') (list_item f') d lvl s
    end
  with key (f : nat) (d : vmap) (lvl : nat) (s : string) {struct f} : fres kout :=
    match f with
    | O => Fatal
    | S f' => frecover recover_on (key_body f' d lvl s)
    end
  with list_item (f : nat) (l : list val) (i : Z) (lvl : nat) (s : string) {struct f} : fres lout :=
    match f with
    | O => Fatal
    | S f' => item_step (key f') (list_item f') l i lvl s
    end.

  (* parse(): for { err := t.key(t.data, 0); nil -> continue; io.EOF -> return nil; else return err } *)
  Fixpoint parse_loop (n : nat) (d : vmap) (s : string) : fres vmap :=
    match n with
    | O => Fatal
    | S n' =>
        match key (2 * String.length s + 2) d 0 s with
        | Fatal => Fatal
        | Ret (Ok (KOk d' rest)) => parse_loop n' d' rest
        | Ret (Ok (KEof d')) => Ret (Ok d')
        | Ret Err => Ret Err
        | Ret (Panic w) => Ret (Panic w)
        end
    end.

  Definition parse (d : vmap) (s : string) : fres vmap := parse_loop (S (String.length s)) d s.
End SV.

(* Order theory of semantic-version precedence as defined in Semver.v: [vcompare] is a total
   preorder on ALL versions (reflexive, transitive, total) and is antisymmetric up to build
   metadata / original spelling (Eq exactly when the precedence keys coincide). *)
From Coq Require Import List String Ascii Bool NArith Lia.
From Helm Require Import Misc.Semver.
Import ListNotations.

Record good_cmp {A : Type} (c : A -> A -> comparison) : Prop := mkGood {
  gc_eq : forall x y, c x y = Eq <-> x = y;
  gc_sym : forall x y, c y x = CompOpp (c x y);
  gc_trans : forall x y z, c x y = Lt -> c y z = Lt -> c x z = Lt
}.

Section Derived.
  Context {A : Type} (c : A -> A -> comparison) (G : good_cmp c).

  Lemma gc_refl x : c x x = Eq.
  Proof. now apply (gc_eq c G). Qed.

  Lemma gc_gt_lt x y : c x y = Gt <-> c y x = Lt.
  Proof. rewrite (gc_sym c G x y). destruct (c x y); simpl; split; congruence. Qed.

  Lemma gc_le_trans x y z : c x y <> Gt -> c y z <> Gt -> c x z <> Gt.
  Proof.
    intros H1 H2.
    destruct (c x y) eqn:E1; try congruence; destruct (c y z) eqn:E2; try congruence.
    - apply (gc_eq c G) in E1, E2. subst. rewrite gc_refl. congruence.
    - apply (gc_eq c G) in E1. subst. congruence.
    - apply (gc_eq c G) in E2. subst. congruence.
    - rewrite (gc_trans c G _ _ _ E1 E2). congruence.
  Qed.

  Lemma gc_total x y : c x y <> Gt \/ c y x <> Gt.
  Proof. rewrite (gc_sym c G x y). destruct (c x y); simpl; [left|left|right]; congruence. Qed.

  Lemma gc_ge_trans x y z : c x y <> Lt -> c y z <> Lt -> c x z <> Lt.
  Proof.
    intros H1 H2 H3.
    assert (Hzx : c z x <> Gt).
    { apply gc_le_trans with y.
      - rewrite (gc_sym c G y z). destruct (c y z); simpl; congruence.
      - rewrite (gc_sym c G x y). destruct (c x y); simpl; congruence. }
    rewrite (gc_sym c G x z), H3 in Hzx. simpl in Hzx. congruence.
  Qed.
End Derived.

(* ---- lexicographic composition ---- *)

Section Lex.
  Context {A : Type} (c : A -> A -> comparison) (G : good_cmp c).

  Lemma lex_eq x y r : lex (c x y) r = Eq <-> x = y /\ r = Eq.
  Proof.
    unfold lex. destruct (c x y) eqn:E.
    - apply (gc_eq c G) in E. tauto.
    - split; [discriminate|]. intros [H _]. apply (gc_eq c G) in H. congruence.
    - split; [discriminate|]. intros [H _]. apply (gc_eq c G) in H. congruence.
  Qed.

  Lemma lex_sym x y r r' : r' = CompOpp r -> lex (c y x) r' = CompOpp (lex (c x y) r).
  Proof. intros ->. rewrite (gc_sym c G x y). unfold lex. destruct (c x y); reflexivity. Qed.

  Lemma lex_trans x y z rxy ryz rxz :
    (rxy = Lt -> ryz = Lt -> rxz = Lt) ->
    lex (c x y) rxy = Lt -> lex (c y z) ryz = Lt -> lex (c x z) rxz = Lt.
  Proof.
    intros Hr. unfold lex.
    destruct (c x y) eqn:E1; try discriminate.
    - apply (gc_eq c G) in E1. subst y.
      destruct (c x z) eqn:E2; try discriminate; auto.
    - destruct (c y z) eqn:E2; try discriminate.
      + apply (gc_eq c G) in E2. subst z. rewrite E1. auto.
      + rewrite (gc_trans c G _ _ _ E1 E2). auto.
  Qed.
End Lex.

(* ---- the component orders ---- *)

Lemma good_N : good_cmp N.compare.
Proof.
  constructor.
  - intros; apply N.compare_eq_iff.
  - intros; apply N.compare_antisym.
  - intros x y z. rewrite !N.compare_lt_iff. apply N.lt_trans.
Qed.

Lemma good_ascii : good_cmp Ascii.compare.
Proof.
  constructor.
  - intros x y. split.
    + apply Ascii.compare_eq_iff.
    + intros ->. unfold Ascii.compare. apply N.compare_refl.
  - intros x y. apply Ascii.compare_antisym.
  - intros x y z. unfold Ascii.compare. apply (gc_trans _ good_N).
Qed.

Lemma string_compare_cons a s b t :
  String.compare (String a s) (String b t) = lex (Ascii.compare a b) (String.compare s t).
Proof. simpl. unfold lex. destruct (Ascii.compare a b); reflexivity. Qed.

Lemma good_string : good_cmp String.compare.
Proof.
  constructor.
  - intros x y. split.
    + apply String.compare_eq_iff.
    + intros ->. induction y as [|a y IH]; simpl; auto.
      rewrite (gc_refl _ good_ascii). exact IH.
  - intros x y. apply String.compare_antisym.
  - induction x as [|a x IH]; intros [|b y] [|d z];
      try (simpl; intros; (discriminate || reflexivity)).
    rewrite !string_compare_cons. apply (lex_trans _ good_ascii). apply IH.
Qed.

Lemma string_compare_cons_lex a x b y :
  match Ascii.compare a b with Eq => String.compare x y | Lt => Lt | Gt => Gt end
  = lex (Ascii.compare a b) (String.compare x y).
Proof. unfold lex. destruct (Ascii.compare a b); reflexivity. Qed.

Lemma good_ident : good_cmp ident_compare.
Proof.
  constructor.
  - intros [x|s] [y|t]; simpl; split; try discriminate.
    + intros H. apply N.compare_eq_iff in H. congruence.
    + intros H. injection H as ->. apply N.compare_refl.
    + intros H. apply (gc_eq _ good_string) in H. congruence.
    + intros H. injection H as ->. apply (gc_refl _ good_string).
  - intros [x|s] [y|t]; simpl; auto.
    + apply N.compare_antisym.
    + apply (gc_sym _ good_string).
  - intros [x|s] [y|t] [z|u]; simpl; try discriminate; auto.
    + apply (gc_trans _ good_N).
    + apply (gc_trans _ good_string).
Qed.

Lemma good_pre_lex : good_cmp pre_lex.
Proof.
  constructor.
  - induction x as [|a x IH]; intros [|b y]; simpl; split; try discriminate; auto.
    + intros H. apply (lex_eq _ good_ident) in H. destruct H as [-> H].
      apply IH in H. congruence.
    + intros H. injection H as -> ->. apply (lex_eq _ good_ident). split; auto. now apply IH.
  - induction x as [|a x IH]; intros [|b y]; simpl; auto.
    apply (lex_sym _ good_ident). apply IH.
  - induction x as [|a x IH]; intros [|b y] [|d z]; simpl; try discriminate; auto.
    apply (lex_trans _ good_ident). apply IH.
Qed.

Lemma pre_compare_cons a x b y : pre_compare (a :: x) (b :: y) = pre_lex (a :: x) (b :: y).
Proof. reflexivity. Qed.

Lemma good_pre : good_cmp pre_compare.
Proof.
  constructor.
  - intros [|a x] [|b y]; try (simpl; split; (discriminate || auto); fail).
    rewrite pre_compare_cons. apply (gc_eq _ good_pre_lex).
  - intros [|a x] [|b y]; try reflexivity.
    rewrite !pre_compare_cons. apply (gc_sym _ good_pre_lex).
  - intros [|a x] [|b y] [|d z]; try (simpl; intros; (discriminate || reflexivity)).
    rewrite !pre_compare_cons. apply (gc_trans _ good_pre_lex).
Qed.

Lemma good_key : good_cmp key_compare.
Proof.
  constructor.
  - intros [[[a1 a2] a3] ap] [[[b1 b2] b3] bp]. unfold key_compare.
    rewrite (lex_eq _ good_N), (lex_eq _ good_N), (lex_eq _ good_N), (gc_eq _ good_pre).
    split.
    + intros (-> & -> & -> & ->). reflexivity.
    + intros H. injection H as -> -> -> ->. auto.
  - intros [[[a1 a2] a3] ap] [[[b1 b2] b3] bp]. unfold key_compare.
    apply (lex_sym _ good_N). apply (lex_sym _ good_N). apply (lex_sym _ good_N).
    apply (gc_sym _ good_pre).
  - intros [[[a1 a2] a3] ap] [[[b1 b2] b3] bp] [[[d1 d2] d3] dp]. unfold key_compare.
    apply (lex_trans _ good_N). apply (lex_trans _ good_N). apply (lex_trans _ good_N).
    apply (gc_trans _ good_pre).
Qed.

(* ---- precedence of versions ---- *)

Lemma vcompare_refl a : vcompare a a = Eq.
Proof. apply (gc_refl _ good_key). Qed.

Lemma vcompare_antisym a b : vcompare b a = CompOpp (vcompare a b).
Proof. apply (gc_sym _ good_key). Qed.

Lemma vcompare_lt_trans a b c : vcompare a b = Lt -> vcompare b c = Lt -> vcompare a c = Lt.
Proof. apply (gc_trans _ good_key). Qed.

Lemma vcompare_le_trans a b c : vcompare a b <> Gt -> vcompare b c <> Gt -> vcompare a c <> Gt.
Proof. apply (gc_le_trans _ good_key). Qed.

Lemma vcompare_ge_trans a b c : vcompare a b <> Lt -> vcompare b c <> Lt -> vcompare a c <> Lt.
Proof. apply (gc_ge_trans _ good_key). Qed.

Lemma vcompare_total a b : vcompare a b <> Gt \/ vcompare b a <> Gt.
Proof. apply (gc_total _ good_key). Qed.

Lemma vcompare_eq_key a b : vcompare a b = Eq <-> vkey a = vkey b.
Proof. apply (gc_eq _ good_key). Qed.

(* build metadata and the original spelling are invisible to precedence *)
Lemma vcompare_ignores_meta a1 a2 a3 p m o m' o' b :
  vcompare (mkVersion a1 a2 a3 p m o) b = vcompare (mkVersion a1 a2 a3 p m' o') b.
Proof. reflexivity. Qed.

(* the five claims in one statement, as quoted by Props/C18.v *)
Lemma vcompare_total_preorder :
  (forall a, vcompare a a = Eq) /\
  (forall a b c, vcompare a b <> Gt -> vcompare b c <> Gt -> vcompare a c <> Gt) /\
  (forall a b, vcompare a b <> Gt \/ vcompare b a <> Gt) /\
  (forall a b, vcompare b a = CompOpp (vcompare a b)) /\
  (forall a b, vcompare a b = Eq <-> vkey a = vkey b).
Proof.
  repeat split.
  - apply vcompare_refl.
  - apply vcompare_le_trans.
  - apply vcompare_total.
  - apply vcompare_antisym.
  - apply vcompare_eq_key.
  - apply vcompare_eq_key.
Qed.

Lemma vless_false_ge a b : vless a b = false <-> vcompare a b <> Lt.
Proof. unfold vless. destruct (vcompare a b); split; congruence. Qed.

Lemma vgeb_true a b : vgeb a b = true <-> vcompare a b <> Lt.
Proof. unfold vgeb. rewrite negb_true_iff. apply vless_false_ge. Qed.

(* LessThan is a strict weak order: what sort.Sort needs of its Less *)
Lemma vless_irrefl a : vless a a = false.
Proof. unfold vless. now rewrite vcompare_refl. Qed.

Lemma vless_trans a b c : vless a b = true -> vless b c = true -> vless a c = true.
Proof.
  unfold vless. intros H1 H2.
  destruct (vcompare a b) eqn:E1; try discriminate.
  destruct (vcompare b c) eqn:E2; try discriminate.
  now rewrite (vcompare_lt_trans _ _ _ E1 E2).
Qed.

Lemma vless_incomparable_trans a b c :
  vless a b = false -> vless b a = false -> vless b c = false -> vless c b = false ->
  vless a c = false /\ vless c a = false.
Proof.
  rewrite !vless_false_ge. intros H1 H2 H3 H4. split.
  - eapply vcompare_ge_trans; eauto.
  - eapply vcompare_ge_trans; eauto.
Qed.

(* section 11 of the semver 2.0 specification, the example chain *)
Local Open Scope string_scope.
Definition spec11_chain : list string :=
  ["1.0.0-alpha"; "1.0.0-alpha.1"; "1.0.0-alpha.beta"; "1.0.0-beta"; "1.0.0-beta.2";
   "1.0.0-beta.11"; "1.0.0-rc.1"; "1.0.0"; "2.0.0"; "2.1.0"; "2.1.1"].

Fixpoint chain_lt (l : list string) : bool :=
  match l with
  | a :: ((b :: _) as t) =>
      match parse_version a, parse_version b with
      | Some x, Some y => vless x y && chain_lt t
      | _, _ => false
      end
  | _ => true
  end.

Lemma spec11_chain_ok : chain_lt spec11_chain = true.
Proof. vm_compute. reflexivity. Qed.

(* coercion: "v1.1", "1.1.0+b1" and "1.1.0" are one precedence class *)
Lemma coerced_same_class :
  match parse_version "v1.1", parse_version "1.1.0+b1", parse_version "1.1.0" with
  | Some a, Some b, Some c => vcompare a b = Eq /\ vcompare b c = Eq /\ vorig a <> vorig c
  | _, _, _ => False
  end.
Proof. vm_compute. repeat split; discriminate. Qed.

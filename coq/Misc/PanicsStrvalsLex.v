(* Lexical layer of pkg/strvals/parser.go used by Misc/PanicsStrvals.v: runesUntil, typedVal,
   keyIndex, emptyVal, valList, the readers, set / setIndex padding.  A frozen copy of the
   corresponding definitions of Values/Strvals.v (the C04 model, which is compared with the
   real parser's tables on every C04 run), kept here so that this development does not break
   when that file evolves; none of these functions has a panicking operation. *)
From Coq Require Import List String Ascii Bool Arith ZArith Lia.
From Helm Require Import Values.Tree.
Import ListNotations.
Local Open Scope string_scope.

(* ---------- characters ---------- *)
Definition ch_eq := Ascii.eqb.
Definition c_eq : ascii := "=".
Definition c_lbr : ascii := "[".
Definition c_rbr : ascii := "]".
Definition c_comma : ascii := ",".
Definition c_dot : ascii := ".".
Definition c_bsl : ascii := "\".
Definition c_lbrace : ascii := "{".
Definition c_rbrace : ascii := "}".

Definition stop_key (c : ascii) : bool := ch_eq c c_eq || ch_eq c c_lbr || ch_eq c c_comma || ch_eq c c_dot.
Definition stop_key_lit (c : ascii) : bool := ch_eq c c_eq || ch_eq c c_lbr || ch_eq c c_dot.
Definition stop_item (c : ascii) : bool := ch_eq c c_lbr || ch_eq c c_dot || ch_eq c c_eq.
Definition stop_rbr (c : ascii) : bool := ch_eq c c_rbr.
Definition stop_comma (c : ascii) : bool := ch_eq c c_comma.
Definition stop_none (c : ascii) : bool := false.

(* unicode.IsSpace on ASCII *)
Definition is_space (c : ascii) : bool :=
  let n := nat_of_ascii c in (Nat.eqb n 32) || ((Nat.leb 9 n) && (Nat.leb n 13)).

(* runesUntil (esc = true) / runesUntilLiteral (esc = false):
   (collected, Some stop-char | None at EOF, rest).  A backslash takes the next character
   literally; a backslash at the very end is EOF. *)
Fixpoint runes_until (esc : bool) (stop : ascii -> bool) (s : string) : string * option ascii * string :=
  match s with
  | EmptyString => (EmptyString, None, EmptyString)
  | String c t =>
      if stop c then (EmptyString, Some c, t)
      else if esc && ch_eq c c_bsl then
        match t with
        | EmptyString => (EmptyString, None, EmptyString)
        | String n t' => let '(v, l, r) := runes_until esc stop t' in (String n v, l, r)
        end
      else let '(v, l, r) := runes_until esc stop t in (String c v, l, r)
  end.

(* ---------- numbers ---------- *)
Definition digit_of (c : ascii) : option Z :=
  let n := nat_of_ascii c in
  if (Nat.leb 48 n) && (Nat.leb n 57) then Some (Z.of_nat (n - 48)) else None.

Fixpoint digits_val (acc : Z) (s : string) : option Z :=
  match s with
  | EmptyString => Some acc
  | String c t => match digit_of c with Some d => digits_val (acc * 10 + d) t | None => None end
  end.

Definition int64_min : Z := (- 9223372036854775808)%Z.
Definition int64_max : Z := 9223372036854775807%Z.

(* strconv.ParseInt(s, 10, 64) / strconv.Atoi on a 64-bit platform:
   optional sign, at least one digit, digits only, value in the int64 range *)
Definition parse_int (s : string) : option Z :=
  let '(neg, body) :=
    match s with
    | String c t => if ch_eq c "-" then (true, t) else if ch_eq c "+" then (false, t) else (false, s)
    | EmptyString => (false, s)
    end in
  match body with
  | EmptyString => None
  | _ => match digits_val 0 body with
         | Some n => let z := if neg then (- n)%Z else n in
                     if (int64_min <=? z)%Z && (z <=? int64_max)%Z then Some z else None
         | None => None
         end
  end.

Definition lower (c : ascii) : ascii :=
  let n := nat_of_ascii c in if (Nat.leb 65 n) && (Nat.leb n 90) then ascii_of_nat (n + 32) else c.

(* strings.EqualFold against an ASCII lower-case word (ASCII folding only) *)
Fixpoint eq_fold (s w : string) : bool :=
  match s, w with
  | EmptyString, EmptyString => true
  | String a s', String b w' => ch_eq (lower a) b && eq_fold s' w'
  | _, _ => false
  end.

(* typedVal(v, st) *)
Definition typed_val (st : bool) (v : string) : val :=
  if st then VStr v
  else if eq_fold v "true" then VBool true
  else if eq_fold v "false" then VBool false
  else if eq_fold v "null" then VNull
  else if eq_fold v "0" then VNum 0
  else match v with
       | String c _ =>
           if ch_eq c "0" then VStr v
           else match parse_int v with Some n => VNum n | None => VStr v end
       | EmptyString => VStr v
       end.

(* ---------- parser configuration ---------- *)
Inductive pmode := MTyped | MString | MFile | MJson | MLiteral.

Record pcfg := mkCfg {
  pmode_of : pmode;
  pfiles : list (string * string);            (* --set-file: path -> content *)
  pjdec : list (nat * (val * nat))            (* --set-json: remaining length -> (value, bytes used) *)
}.

Definition esc_of (c : pcfg) : bool := match pmode_of c with MLiteral => false | _ => true end.

Fixpoint assoc_str (k : string) (l : list (string * string)) : option string :=
  match l with
  | [] => None
  | (k', v) :: t => if String.eqb k k' then Some v else assoc_str k t
  end.

Fixpoint assoc_nat {A} (k : nat) (l : list (nat * A)) : option A :=
  match l with
  | [] => None
  | (k', v) :: t => if Nat.eqb k k' then Some v else assoc_nat k t
  end.

(* t.reader(rs): None = the reader failed (only the file reader can) *)
Definition reader (c : pcfg) (rs : string) : option val :=
  match pmode_of c with
  | MTyped => Some (typed_val false rs)
  | MString => Some (typed_val true rs)
  | MFile => option_map VStr (assoc_str rs (pfiles c))
  | MJson | MLiteral => None                     (* never called in these modes *)
  end.

(* set(data, key, val): an empty key is not set *)
Definition set (k : string) (v : val) (d : vmap) : vmap :=
  match k with EmptyString => d | _ => mset k v d end.

(* ---------- lists ---------- *)
Fixpoint set_nth (i : nat) (v : val) (l : list val) : list val :=
  match i, l with
  | O, _ :: t => v :: t
  | O, [] => [v]
  | S i', x :: t => x :: set_nth i' v t
  | S i', [] => VNull :: set_nth i' v []       (* make([]interface{}, index+1): nil padding *)
  end.

Definition max_index : Z := 65536.
Definition max_nested_name_level : nat := 30.

(* setIndex(list, index, val): None = error *)
Definition set_index (l : list val) (i : Z) (v : val) : option (list val) :=
  if (i <? 0)%Z then None
  else if (max_index <? i)%Z then None
  else Some (set_nth (Z.to_nat i) v l).

Definition in_range (l : list val) (i : Z) : bool := (i <? Z.of_nat (List.length l))%Z && (0 <=? i)%Z.

(* keyIndex: runesUntil ']' then strconv.Atoi *)
Definition key_index (esc : bool) (s : string) : option (Z * string) :=
  match runes_until esc stop_rbr s with
  | (v, Some _, rest) => match parse_int v with Some i => Some (i, rest) | None => None end
  | (_, None, _) => None
  end.

(* emptyVal: skip blanks; true when a comma or the end follows (the comma is consumed) *)
Fixpoint empty_val (s : string) : bool * string :=
  match s with
  | EmptyString => (true, EmptyString)
  | String c t =>
      if ch_eq c c_comma then (true, t)
      else if is_space c then empty_val t
      else (false, s)
  end.

Fixpoint drop (n : nat) (s : string) : string :=
  match n, s with
  | O, _ => s
  | S n', String _ t => drop n' t
  | S _, EmptyString => EmptyString
  end.

(* valList: a brace list {a,b,c} *)
Inductive vlres := VLOk (l : list val) (rest : string) | VLNotList | VLEof | VLErr.

(* the loop of valList after the opening brace; [cur] is the item being read *)
Fixpoint val_list_loop (c : pcfg) (cur : string) (acc : list val) (s : string) : vlres :=
  match s with
  | EmptyString => VLErr                                   (* "list must terminate with '}'" *)
  | String ch t =>
      if ch_eq ch c_rbrace then
        let rest := match t with String c2 t2 => if ch_eq c2 c_comma then t2 else t | EmptyString => t end in
        match reader c cur with
        | Some v => VLOk (acc ++ [v])%list rest
        | None => VLErr
        end
      else if ch_eq ch c_comma then
        match reader c cur with
        | Some v => val_list_loop c EmptyString (acc ++ [v])%list t
        | None => VLErr
        end
      else if ch_eq ch c_bsl then
        match t with
        | EmptyString => VLErr
        | String n t' => val_list_loop c (cur ++ String n EmptyString) acc t'
        end
      else val_list_loop c (cur ++ String ch EmptyString) acc t
  end.

Definition val_list (c : pcfg) (s : string) : vlres :=
  match s with
  | EmptyString => VLEof
  | String ch t => if ch_eq ch c_lbrace then val_list_loop c EmptyString [] t else VLNotList
  end.


(* the value after "name=" for the typed / string / file parsers:
   Some (v, rest, eof): eof = valList hit the end of input (the key is set to "" and io.EOF
   is returned) *)
Inductive vres := VOk (v : val) (rest : string) | VEof | VErr.

Definition value_after_eq (c : pcfg) (s : string) : vres :=
  match pmode_of c with
  | MLiteral => VOk (VStr s) EmptyString
  | MJson =>
      let '(emp, rest) := empty_val s in
      if emp then VOk VNull rest
      else match assoc_nat (String.length rest) (pjdec c) with
           | Some (v, used) => VOk v (snd (empty_val (drop used rest)))
           | None => VErr
           end
  | _ =>
      match val_list c s with
      | VLOk l rest => VOk (VList l) rest
      | VLEof => VEof
      | VLErr => VErr
      | VLNotList =>
          let '(rs, _, rest) := runes_until true stop_comma s in
          match reader c rs with Some v => VOk v rest | None => VErr end
      end
  end.


(* C17 — the translator's reading of the source (Gen/C17Strategy.v, regenerated from /repo on
   every run) against the model's decision functions (Misc/ProvTrust.v): equal for every
   assignment of the flags (finite domain, by computation). *)
From Coq Require Import List String Ascii Bool.
From Helm Require Import Misc.Prov Misc.ProvTrust Misc.ProvTrustProofs Gen.C17Strategy.
Import ListNotations.
Local Open Scope string_scope.

Lemma opt_strategy_eqb_eq a b : opt_strategy_eqb a b = true -> a = Some b.
Proof. destruct a as [x|]; simpl; [|discriminate]. intro H. apply strategy_eqb_eq in H. subst. reflexivity. Qed.

Lemma src_agrees_spec c s :
  src_agrees c s = true -> forall f fld, eval_s f fld s = Some (caller_strategy c f).
Proof.
  unfold src_agrees. intros H f fld. rewrite forallb_forall in H.
  specialize (H f (all_flags_complete f)). rewrite forallb_forall in H.
  specialize (H fld (all_strategies_complete fld)). apply opt_strategy_eqb_eq. exact H.
Qed.

Lemma src_hands_through_spec s :
  src_hands_through s = true -> forall f fld, eval_s f fld s = Some fld.
Proof.
  unfold src_hands_through. intros H f fld. rewrite forallb_forall in H.
  specialize (H f (all_flags_complete f)). rewrite forallb_forall in H.
  specialize (H fld (all_strategies_complete fld)). apply opt_strategy_eqb_eq. exact H.
Qed.

Lemma guard_is_verify_flag_spec b :
  guard_is_verify_flag b = true -> forall f, eval_b f b = Some (f_verify f).
Proof.
  unfold guard_is_verify_flag. intros H f. rewrite forallb_forall in H.
  specialize (H f (all_flags_complete f)). destruct (eval_b f b) as [v|]; [|discriminate].
  apply eqb_prop in H. subst. reflexivity.
Qed.

(* the numbering the harness and RunC17.strat use is the source's iota order *)
Lemma strategy_consts_source :
  verification_strategy_consts = ["VerifyNever"; "VerifyIfPossible"; "VerifyAlways"; "VerifyLater"].
Proof. reflexivity. Qed.

Lemma strategy_source_agrees :
  (forall f fld, eval_s f fld pull_run_strategy_src = Some (caller_strategy CPull f)) /\
  (forall f fld, eval_s f fld locate_chart_strategy_src = Some (caller_strategy CLocateChart f)) /\
  (forall f fld, eval_s f fld dep_update_strategy_src = Some (caller_strategy CDepUpdate f)) /\
  (forall f fld, eval_s f fld dep_build_strategy_src = Some (caller_strategy CDepBuild f)) /\
  (forall f fld, eval_s f fld manager_download_all_strategy_src = Some (manager_strategy fld)) /\
  (forall f, eval_b f locate_chart_local_guard_src = Some (f_verify f)).
Proof.
  split; [|split; [|split; [|split; [|split]]]].
  - apply src_agrees_spec. vm_compute. reflexivity.
  - apply src_agrees_spec. vm_compute. reflexivity.
  - apply src_agrees_spec. vm_compute. reflexivity.
  - apply src_agrees_spec. vm_compute. reflexivity.
  - apply src_hands_through_spec. vm_compute. reflexivity.
  - apply guard_is_verify_flag_spec. vm_compute. reflexivity.
Qed.

(* verifySignature hands the signatory's KeyRing, and nothing else, to CheckDetachedSignature *)
Lemma signature_keys_source : verify_signature_keys_src = "s.KeyRing".
Proof. reflexivity. Qed.

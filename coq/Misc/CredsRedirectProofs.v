(* Proofs about net/http's redirect header policy (Misc/CredsRedirect.v) composed with the
   getter's first-hop decision. *)
From Coq Require Import List String Ascii Bool Arith.
From Helm Require Import Misc.Creds Misc.CredsProofs Misc.CredsUrl Misc.CredsUrlProofs Misc.CredsRedirect.
Import ListNotations.
Local Open Scope string_scope.

(* ------------------------------------------------------------------ strings: reverse, prefix *)
Lemma str_rev_aux_app s acc : str_rev_aux s acc = str_rev_aux s "" ++ acc.
Proof.
  revert acc. induction s as [|c s IH]; intro acc; simpl; [reflexivity|].
  rewrite (IH (String c acc)), (IH (String c "")). rewrite app_assoc_s. reflexivity.
Qed.

Lemma str_rev_cons c s : str_rev (String c s) = str_rev s ++ String c "".
Proof. unfold str_rev. simpl. apply str_rev_aux_app. Qed.

Lemma str_rev_app a b : str_rev (a ++ b) = str_rev b ++ str_rev a.
Proof.
  induction a as [|c a IH]; simpl.
  - rewrite app_nil_r_s. reflexivity.
  - rewrite !str_rev_cons, IH, app_assoc_s. reflexivity.
Qed.

Lemma str_rev_involutive s : str_rev (str_rev s) = s.
Proof.
  induction s as [|c s IH]; [reflexivity|].
  rewrite str_rev_cons, str_rev_app, IH. reflexivity.
Qed.

Lemma prefix_iff p s : String.prefix p s = true <-> exists t, s = p ++ t.
Proof.
  revert s. induction p as [|c p IH]; intro s; simpl.
  - split; [intros _; exists s; reflexivity|intros _; destruct s; reflexivity].
  - destruct s as [|d s]; [split; [discriminate|intros [t H]; discriminate]|].
    simpl. destruct (ascii_dec c d) as [->|N].
    + destruct (IH s) as [I1 I2]. split.
      * intro H. destruct (I1 H) as [t Ht]. exists t. rewrite Ht. reflexivity.
      * intros [t H]. injection H as H. apply I2. exists t. exact H.
    + split; [discriminate|intros [t H]; injection H as H _; congruence].
Qed.

(* sub ends with "." ++ parent *)
Lemma dot_suffix_iff sub parent :
  dot_suffix sub parent = true <-> exists label, sub = label ++ "." ++ parent.
Proof.
  unfold dot_suffix. rewrite prefix_iff. split.
  - intros [t H]. exists (str_rev t).
    rewrite <- (str_rev_involutive sub), H, !str_rev_app, str_rev_involutive. reflexivity.
  - intros [l H]. exists (str_rev l). rewrite H, !str_rev_app. simpl. rewrite !app_assoc_s. reflexivity.
Qed.

(* isDomainOrSubdomain, readably *)
Lemma is_domain_or_subdomain_spec sub parent :
  is_domain_or_subdomain sub parent = true <->
  sub = parent \/ (mem_byte ":" sub = false /\ mem_byte "%" sub = false /\ exists label, sub = label ++ "." ++ parent).
Proof.
  unfold is_domain_or_subdomain. rewrite orb_true_iff, String.eqb_eq, andb_true_iff, negb_true_iff, orb_false_iff, dot_suffix_iff.
  tauto.
Qed.

(* ------------------------------------------------------------------ the chain *)
Local Open Scope list_scope.
Definition related (ih : string) (d : url) : bool := String.eqb ih (u_host d) || should_copy ih d.

(* the Host test adds nothing: equal Host means equal host name *)
Lemma related_should_copy ih d : related ih d = should_copy ih d.
Proof.
  unfold related. destruct (String.eqb ih (u_host d)) eqn:E; [|reflexivity].
  apply String.eqb_eq in E. subst ih. unfold should_copy, is_domain_or_subdomain.
  rewrite String.eqb_refl. reflexivity.
Qed.

Lemma follow_stripped ih hops : follow ih true hops = repeat false (List.length hops).
Proof. induction hops as [|d t IH]; simpl; [reflexivity|]. rewrite IH. reflexivity. Qed.

Lemma follow_length ih s hops : List.length (follow ih s hops) = List.length hops.
Proof. revert s. induction hops as [|d t IH]; intro s; simpl; [reflexivity|]. rewrite IH. reflexivity. Qed.

Lemma In_combine_repeat_false {A} (l : list A) x : ~ In (x, true) (combine l (repeat false (List.length l))).
Proof. induction l as [|a l IH]; simpl; [tauto|]. intros [H|H]; [discriminate|auto]. Qed.

(* a hop that still carries the initial request's sensitive headers is related to the initial
   host — and so is every hop before it (the strip is sticky) *)
Lemma follow_keeps_related ih hops pre d post :
  hops = pre ++ d :: post ->
  nth_error (follow ih false hops) (List.length pre) = Some true ->
  Forall (fun x => should_copy ih x = true) (pre ++ [d]).
Proof.
  revert hops. induction pre as [|p pre IH]; intros hops -> H; simpl in *.
  - constructor; [|constructor].
    rewrite <- related_should_copy. unfold related.
    destruct (String.eqb ih (u_host d)); simpl in *; [reflexivity|].
    destruct (should_copy ih d); simpl in *; [reflexivity|]. injection H as H. discriminate.
  - destruct (negb (String.eqb ih (u_host p)) && negb (should_copy ih p)) eqn:E; simpl in H.
    + rewrite follow_stripped in H. apply nth_error_In in H. apply repeat_spec in H. discriminate.
    + constructor; [|eapply IH; eauto].
      rewrite <- related_should_copy. unfold related.
      destruct (String.eqb ih (u_host p)); simpl in *; [reflexivity|].
      destruct (should_copy ih p); simpl in *; [reflexivity|discriminate].
Qed.

Lemma combine_map_nth {A} (a : option cred) (hops : list A) (l : list bool) n x c :
  nth_error (combine hops (map (fun keep : bool => if keep then a else None) l)) n = Some (x, Some c) ->
  nth_error hops n = Some x /\ nth_error l n = Some true /\ a = Some c.
Proof.
  revert l n. induction hops as [|y t IH]; intros l n H; destruct l as [|b l]; destruct n; simpl in *; try discriminate.
  - injection H as -> H. destruct b; [auto|discriminate].
  - exact (IH _ _ H).
Qed.

(* in terms of the pairs (hop, carried header) *)
Lemma hop_auths_related initial a hops d c :
  In (d, Some c) (combine hops (hop_auths initial a hops)) ->
  a = Some c /\ should_copy (req_host (u_host initial)) d = true.
Proof.
  unfold hop_auths. set (ih := req_host (u_host initial)).
  intro H. apply In_nth_error in H as [n H].
  apply combine_map_nth in H as Hn.
  destruct Hn as (Hd & Hk & Ha). split; [exact Ha|].
  apply nth_error_split in Hd as (pre & post & -> & Hlen). subst n.
  pose proof (follow_keeps_related ih _ pre d post eq_refl Hk) as F.
  apply Forall_app in F as [_ F]. inversion F. assumption.
Qed.

(* ------------------------------------------------------------------ composed with the getter *)
(* Every request of one Get — first hop and redirect follow-ups — that carries the pair Helm
   attached: pass-credentials is on, or the first hop is on the configured URL's scheme and
   host:port and the request's host NAME is that host name or a sub-domain of it.  Port and
   scheme of a follow-up are NOT constrained: see redirect_related_refuted. *)
Theorem get_with_redirects_scope (parse : string -> option url) o href c u hops d :
  getter_get parse o href = GReq (Some c) -> parse href = Some u ->
  In (d, Some c) (combine (u :: hops) (Some c :: hop_auths u (Some c) hops)) ->
  g_pass_all o = true \/
  exists u1, parse (g_url o) = Some u1 /\ same_origin u1 u = true /\
             (d = u \/ is_domain_or_subdomain (hostname (u_host d)) (hostname (req_host (u_host u1))) = true).
Proof.
  intros Hg Hu Hin. apply getter_get_auth_iff in Hg as (u1 & u2 & E1 & E2 & Ho & _).
  rewrite Hu in E2. injection E2 as <-.
  destruct Ho as [Ho|Ho]; [left; exact Ho|right].
  exists u1. split; [exact E1|]. split; [apply same_origin_true; exact Ho|].
  destruct Hin as [Hin|Hin]; [left; injection Hin as <-; reflexivity|right].
  apply hop_auths_related in Hin as [_ Hin]. unfold should_copy in Hin.
  destruct Ho as [_ Hh]. rewrite Hh. exact Hin.
Qed.

(* the clause the property text spells out: a redirect to an unrelated domain (neither the
   initial host name nor a sub-domain of it) carries no header Helm attached — nor does any
   later hop of the chain *)
Theorem redirect_unrelated_stripped initial a pre d post :
  should_copy (req_host (u_host initial)) d = false ->
  forall x c, In (x, Some c) (combine (pre ++ d :: post) (hop_auths initial a (pre ++ d :: post))) -> In x pre.
Proof.
  intros Hd x c Hin. unfold hop_auths in Hin. set (ih := req_host (u_host initial)) in *.
  apply In_nth_error in Hin as [n Hn].
  apply combine_map_nth in Hn as (Hx & Hk & _).
  destruct (Nat.lt_ge_cases n (List.length pre)) as [Hlt|Hge].
  - rewrite nth_error_app1 in Hx by exact Hlt. eapply nth_error_In; eauto.
  - exfalso. apply nth_error_split in Hx as (p2 & q2 & E & Hlen). subst n.
    pose proof (follow_keeps_related ih _ p2 x q2 E Hk) as F.
    (* d occurs in p2 ++ [x] because |p2| >= |pre| *)
    assert (In d (p2 ++ [x])) as Hind.
    { assert (nth_error (p2 ++ x :: q2) (List.length pre) = Some d) as Hd'.
      { rewrite <- E. rewrite nth_error_app2 by auto. rewrite Nat.sub_diag. reflexivity. }
      destruct (Nat.eq_dec (List.length pre) (List.length p2)) as [Eq|Ne].
      - rewrite Eq, nth_error_app2, Nat.sub_diag in Hd' by auto. injection Hd' as <-. apply in_or_app. right. left. reflexivity.
      - rewrite nth_error_app1 in Hd' by (apply Nat.le_neq; split; [exact Hge|exact Ne]).
        apply in_or_app. left. eapply nth_error_In; eauto. }
    rewrite Forall_forall in F. rewrite (F d Hind) in Hd. discriminate.
Qed.

(* ------------------------------------------------------------------ what does NOT hold (known finding K-C19-1) *)
(* A repository at https://repo.example with a pair, pass-credentials off: a redirect to
   another port, to plain http, or to a sub-domain is followed with the pair although the
   target's origin differs from the repository's. *)
Definition k1_parse : string -> option url := go_parse (fun s => s).
Definition k1_opts : gopts := mkOpts "https://repo.example/charts" "user" "pw" "https://repo.example/charts" false.
Definition k1_witness (loc : string) : bool :=
  match k1_parse "https://repo.example/charts/a-1.0.0.tgz", k1_parse loc, k1_parse (g_url k1_opts) with
  | Some u, Some d, Some u1 =>
      match getter_get k1_parse k1_opts "https://repo.example/charts/a-1.0.0.tgz" with
      | GReq (Some c) =>
          match hop_auths u (Some c) [d] with
          | [Some c'] => negb (origin_eqb (origin_of u1) (origin_of d))
          | _ => false
          end
      | _ => false
      end
  | _, _, _ => false
  end.

Lemma redirect_related_refuted :
  k1_witness "https://repo.example:8443/_landed/a-1.0.0.tgz" = true /\
  k1_witness "http://repo.example:8080/_landed/a-1.0.0.tgz" = true /\
  k1_witness "https://cdn.repo.example/_landed/a-1.0.0.tgz" = true.
Proof. vm_compute. repeat split. Qed.

(* ... while an unrelated domain, a look-alike prefix / suffix, and the way back from an
   unrelated domain get nothing *)
Lemma redirect_unrelated_example :
  match k1_parse "https://repo.example/charts/a-1.0.0.tgz" with
  | Some u =>
      hop_auths u (Some (Cred "user" "pw" "")) 
        (map (fun s => match k1_parse s with Some d => d | None => u end)
             ["https://repo.example.evil.test/x"; "https://evilrepo.example/x"; "https://repo.example/back"])
      = [None; None; None]
  | None => False
  end.
Proof. vm_compute. reflexivity. Qed.

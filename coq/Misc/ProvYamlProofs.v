(* Proofs about the sums text (Misc/ProvYaml.v): print/parse round trip, the printed text meets
   the conditions of C17_sign_then_verify, the digest line is what Verify compares. *)
From Coq Require Import List String Ascii Bool Arith Lia.
From Helm Require Import Common.Assoc Misc.Prov Misc.ProvProofs Misc.ProvYaml.
Import ListNotations.
Local Open Scope string_scope.

(* ------------------------------------------------------------------ characters *)
Definition textc (c : ascii) : bool := negb (is_blank c) && negb (Ascii.eqb c LF).

Lemma key_char_text c : key_char c = true -> textc c = true /\ Ascii.eqb c ":" = false.
Proof. destruct c as [[] [] [] [] [] [] [] []]; vm_compute; intro H; try discriminate; split; reflexivity. Qed.

Lemma hex_char_text c : hex_char c = true -> textc c = true.
Proof. destruct c as [[] [] [] [] [] [] [] []]; vm_compute; intro H; try discriminate; reflexivity. Qed.

Lemma all_chars_app p a b : all_chars p (a ++ b) = all_chars p a && all_chars p b.
Proof. induction a as [|c a IH]; simpl; [reflexivity|]. rewrite IH. apply andb_assoc. Qed.

Lemma all_chars_impl (p q : ascii -> bool) s :
  (forall c, p c = true -> q c = true) -> all_chars p s = true -> all_chars q s = true.
Proof.
  intro H. induction s as [|c s IH]; simpl; [auto|]. intro E. apply andb_true_iff in E as [E1 E2].
  rewrite (H c E1), (IH E2). reflexivity.
Qed.

Definition no_lf (s : string) : bool := all_chars (fun c => negb (Ascii.eqb c LF)) s.

Lemma text_no_lf s : all_chars textc s = true -> no_lf s = true.
Proof. apply all_chars_impl. intros c H. unfold textc in H. apply andb_true_iff in H as [_ H]. exact H. Qed.

(* ------------------------------------------------------------------ lines *)
Lemma lines_nonempty s : lines s <> [].
Proof. destruct s as [|c t]; simpl; [discriminate|]. destruct (Ascii.eqb c LF); [discriminate|]. destruct (lines t); discriminate. Qed.

Lemma lines_app a b : no_lf a = true -> lines (a ++ String LF b) = a :: lines b.
Proof.
  induction a as [|c a IH]; intro H; simpl.
  - reflexivity.
  - simpl in H. apply andb_true_iff in H as [Hc Ha]. apply negb_true_iff in Hc. rewrite Hc.
    rewrite (IH Ha). reflexivity.
Qed.

(* ------------------------------------------------------------------ one line *)
Lemma span_key_spec s k r : span_key s = (k, r) -> s = k ++ r.
Proof.
  revert k r. induction s as [|c t IH]; intros k r H; simpl in H.
  - injection H as <- <-. reflexivity.
  - destruct (key_char c).
    + destruct (span_key t) as [k' r'] eqn:E. injection H as <- <-. simpl. f_equal. apply IH. reflexivity.
    + injection H as <- <-. reflexivity.
Qed.

Lemma span_key_app k c t :
  all_chars key_char k = true -> key_char c = false -> span_key (k ++ String c t) = (k, String c t).
Proof.
  intros Hk Hc. induction k as [|d k IH]; simpl.
  - rewrite Hc. reflexivity.
  - simpl in Hk. apply andb_true_iff in Hk as [Hd Hk]. rewrite Hd, (IH Hk). reflexivity.
Qed.

Definition line_text (kv : string * string) : string := "  " ++ fst kv ++ ": " ++ snd kv.

Lemma parse_line_print k v :
  name_ok k = true -> value_ok v = true -> parse_line (line_text (k, v)) = Some (k, v).
Proof.
  intros Hk Hv. unfold line_text, parse_line. simpl.
  assert (Hkc : all_chars key_char k = true) by (unfold name_ok in Hk; apply andb_true_iff in Hk; tauto).
  change (k ++ String ":" (String " " v)) with (k ++ String ":" (String " " v)).
  rewrite (span_key_app k ":" (String " " v) Hkc eq_refl). rewrite Hk, Hv. reflexivity.
Qed.

Lemma parse_line_spec l k v : parse_line l = Some (k, v) -> l = line_text (k, v) /\ name_ok k = true /\ value_ok v = true.
Proof.
  unfold parse_line, line_text. destruct l as [|a [|b rest]]; try discriminate.
  - destruct a as [[] [] [] [] [] [] [] []]; discriminate.
  - destruct (ascii_dec a " ") as [->|Na].
    2:{ intro H. exfalso. destruct a as [[] [] [] [] [] [] [] []]; try discriminate; apply Na; reflexivity. }
    destruct (ascii_dec b " ") as [->|Nb].
    2:{ intro H. exfalso. destruct b as [[] [] [] [] [] [] [] []]; try discriminate; apply Nb; reflexivity. }
    destruct (span_key rest) as [k' after] eqn:Es.
    destruct after as [|c [|d v']]; try discriminate.
    + destruct c as [[] [] [] [] [] [] [] []]; discriminate.
    + destruct (ascii_dec c ":") as [->|Nc].
      2:{ intro H. exfalso. destruct c as [[] [] [] [] [] [] [] []]; try discriminate; apply Nc; reflexivity. }
      destruct (ascii_dec d " ") as [->|Nd].
      2:{ intro H. exfalso. destruct d as [[] [] [] [] [] [] [] []]; try discriminate; apply Nd; reflexivity. }
      destruct (name_ok k' && value_ok v') eqn:E; [|discriminate].
      intro H. injection H as <- <-. apply andb_true_iff in E as [E1 E2].
      apply span_key_spec in Es. subst rest. simpl. auto.
Qed.

(* ------------------------------------------------------------------ the body *)
Definition entry_ok (kv : string * string) : bool := name_ok (fst kv) && value_ok (snd kv).

Lemma drop_prefix p s : String.prefix p s = true -> s = p ++ drop (String.length p) s.
Proof.
  revert s. induction p as [|c p IH]; intros s H; simpl; [reflexivity|].
  destruct s as [|d s]; simpl in H; [discriminate|].
  destruct (ascii_dec c d) as [->|]; [|discriminate]. simpl. f_equal. apply IH. exact H.
Qed.

Lemma value_ok_text v : value_ok v = true -> v <> "" /\ all_chars textc v = true.
Proof.
  unfold value_ok. intro H. apply andb_true_iff in H as [Hp Hd].
  pose proof (drop_prefix "sha256:" v Hp) as E. simpl String.length in E.
  destruct (drop 7 v) as [|c d] eqn:Ed; [discriminate|].
  split; [rewrite E; discriminate|]. rewrite E, all_chars_app. apply andb_true_iff. split; [reflexivity|].
  apply (all_chars_impl hex_char); [apply hex_char_text|exact Hd].
Qed.

Lemma name_ok_text k : name_ok k = true -> k <> "" /\ all_chars textc k = true.
Proof.
  unfold name_ok. intro H. apply andb_true_iff in H as [Hc Ht]. split.
  - intros ->. discriminate.
  - apply (all_chars_impl key_char); [intros c Hk; apply key_char_text in Hk; tauto|exact Hc].
Qed.

Lemma line_text_chars k v : name_ok k = true -> value_ok v = true -> no_lf (line_text (k, v)) = true.
Proof.
  intros Hk Hv. apply name_ok_text in Hk as [_ Hk]. apply value_ok_text in Hv as [_ Hv].
  unfold line_text, no_lf. simpl. rewrite all_chars_app. simpl.
  apply text_no_lf in Hk. apply text_no_lf in Hv. unfold no_lf in Hk, Hv. rewrite Hk, Hv. reflexivity.
Qed.

Lemma print_line_eq kv : print_line kv = line_text kv ++ String LF "".
Proof.
  unfold print_line, line_text, LFs. destruct kv as [k v]. simpl.
  f_equal. f_equal. rewrite !append_assoc. reflexivity.
Qed.

Lemma lines_print_body l :
  forallb entry_ok l = true -> lines (print_body l) = (map line_text l ++ [""])%list.
Proof.
  induction l as [|[k v] t IH]; intro H; [reflexivity|].
  simpl in H. apply andb_true_iff in H as [He Ht]. unfold entry_ok in He. simpl in He.
  apply andb_true_iff in He as [Hk Hv]. cbn [print_body map app].
  rewrite print_line_eq, append_assoc. cbn [append].
  rewrite (lines_app _ _ (line_text_chars k v Hk Hv)). rewrite (IH Ht). reflexivity.
Qed.

Lemma parse_body_print l :
  forallb entry_ok l = true -> parse_body (map line_text l ++ [""])%list = Some l.
Proof.
  induction l as [|[k v] t IH]; intro H; [reflexivity|].
  simpl in H. apply andb_true_iff in H as [He Ht]. unfold entry_ok in He. simpl in He.
  apply andb_true_iff in He as [Hk Hv].
  specialize (IH Ht). cbn [map app].
  destruct (map line_text t ++ [""])%list as [|x xs] eqn:E.
  - destruct t; discriminate.
  - change (parse_body (line_text (k, v) :: x :: xs))
      with (match parse_line (line_text (k, v)), parse_body (x :: xs) with
            | Some kv, Some r => Some (kv :: r)
            | _, _ => None
            end).
    rewrite (parse_line_print k v Hk Hv). rewrite IH. reflexivity.
Qed.

(* print, then parse *)
Lemma sums_roundtrip_list l :
  l <> [] -> forallb entry_ok l = true -> keys_distinct l = true ->
  parse_sums (print_sums_list l) = SIn l.
Proof.
  intros Hne Hok Hd. unfold parse_sums, print_sums_list.
  change ("files:" ++ LFs ++ print_body l) with ("files:" ++ String LF (print_body l)).
  rewrite (lines_app "files:" (print_body l) eq_refl). rewrite String.eqb_refl.
  rewrite (lines_print_body l Hok), (parse_body_print l Hok).
  destruct l as [|e r]; [congruence|]. rewrite Hd. reflexivity.
Qed.

Lemma sums_roundtrip name v :
  name_ok name = true -> value_ok v = true -> parse_sums (print_sums name v) = SIn [(name, v)].
Proof.
  intros Hk Hv. apply sums_roundtrip_list; [discriminate| |reflexivity].
  simpl. unfold entry_ok. simpl. rewrite Hk, Hv. reflexivity.
Qed.

(* ------------------------------------------------------------------ clean, no separator *)
Lemma clean_go_text st w rest :
  all_chars textc w = true ->
  clean_go st (w ++ rest) = match w with EmptyString => clean_go st rest | _ => clean_go LText rest end.
Proof.
  revert st. induction w as [|c w IH]; intros st H; [reflexivity|].
  simpl in H. apply andb_true_iff in H as [Hc Hw]. unfold textc in Hc.
  apply andb_true_iff in Hc as [Hb Hl]. apply negb_true_iff in Hb. apply negb_true_iff in Hl.
  simpl. rewrite Hl, Hb. rewrite (IH LText Hw). destruct w; reflexivity.
Qed.

Lemma clean_print_line k v : name_ok k = true -> value_ok v = true -> clean (print_line (k, v)) = true.
Proof.
  intros Hk Hv. apply name_ok_text in Hk as [Hkn Hk]. apply value_ok_text in Hv as [Hvn Hv].
  unfold clean, print_line, LFs. simpl.
  rewrite (clean_go_text LBlank k _ Hk). destruct k as [|kc k']; [congruence|].
  simpl. rewrite (clean_go_text LBlank v _ Hv). destruct v as [|vc v']; [congruence|]. reflexivity.
Qed.

Lemma clean_print_body l : forallb entry_ok l = true -> clean (print_body l) = true.
Proof.
  induction l as [|[k v] t IH]; intro H; [reflexivity|].
  simpl in H. apply andb_true_iff in H as [He Ht]. unfold entry_ok in He. simpl in He.
  apply andb_true_iff in He as [Hk Hv]. cbn [print_body]. apply clean_app; [apply clean_print_line; assumption|apply IH; exact Ht].
Qed.

Lemma clean_print_sums_list l : forallb entry_ok l = true -> clean (print_sums_list l) = true.
Proof.
  intro H. unfold print_sums_list.
  change ("files:" ++ LFs ++ print_body l) with (("files:" ++ LFs) ++ print_body l).
  apply clean_app; [reflexivity|]. apply clean_print_body. exact H.
Qed.

Lemma nosep_app_nolf w rest : no_lf w = true -> nosep (w ++ rest) = nosep rest.
Proof.
  induction w as [|c w IH]; intro H; [reflexivity|].
  simpl in H. apply andb_true_iff in H as [Hc Hw]. apply negb_true_iff in Hc.
  cbn [append nosep]. rewrite (IH Hw).
  assert (E : String.prefix DOTS (String c (w ++ rest)) = false).
  { change (String.prefix DOTS (String c (w ++ rest)))
      with (if ascii_dec LF c then String.prefix ("..." ++ String LF "") (w ++ rest) else false).
    destruct (ascii_dec LF c) as [<-|]; [|reflexivity]. rewrite Ascii.eqb_refl in Hc. discriminate. }
  rewrite E. reflexivity.
Qed.

(* a line feed followed by nothing or by a blank does not start the separator *)
Lemma nosep_lf_blank rest :
  nosep rest = true -> (rest = "" \/ exists t, rest = String " " t) -> nosep (String LF rest) = true.
Proof.
  intros H [->|[t ->]]; cbn [nosep]; [reflexivity|].
  apply andb_true_iff. split; [reflexivity|exact H].
Qed.

Lemma print_body_head l : print_body l = "" \/ exists t, print_body l = String " " t.
Proof. destruct l as [|[k v] t]; [left; reflexivity|right]. simpl. eexists. reflexivity. Qed.

Lemma nosep_print_body l : forallb entry_ok l = true -> nosep (print_body l) = true.
Proof.
  induction l as [|[k v] t IH]; intro H; [reflexivity|].
  simpl in H. apply andb_true_iff in H as [He Ht]. unfold entry_ok in He. simpl in He.
  apply andb_true_iff in He as [Hk Hv]. cbn [print_body].
  rewrite print_line_eq, append_assoc. rewrite (nosep_app_nolf _ _ (line_text_chars k v Hk Hv)).
  simpl append. apply nosep_lf_blank; [apply IH; exact Ht|apply print_body_head].
Qed.

Lemma nosep_print_sums_list l : forallb entry_ok l = true -> nosep (print_sums_list l) = true.
Proof.
  intro H. unfold print_sums_list, LFs.
  rewrite (nosep_app_nolf "files:" _ eq_refl). simpl append.
  apply nosep_lf_blank; [apply nosep_print_body; exact H|apply print_body_head].
Qed.

(* ------------------------------------------------------------------ the digest line *)
Lemma aget_in (k v : string) l : aget k l = Some v -> In (k, v) l.
Proof.
  induction l as [|[k' v'] t IH]; simpl; [discriminate|].
  destruct (String.eqb k k') eqn:E.
  - intro H. injection H as <-. apply String.eqb_eq in E. subst. auto.
  - intro H. right. apply IH. exact H.
Qed.

Lemma in_aget_distinct (k v : string) l : keys_distinct l = true -> In (k, v) l -> aget k l = Some v.
Proof.
  induction l as [|[k' v'] t IH]; simpl; [tauto|].
  destruct (aget k' t) as [x|] eqn:Ea; [discriminate|]. intros Hd [E|Hin].
  - injection E as -> ->. rewrite String.eqb_refl. reflexivity.
  - destruct (String.eqb k k') eqn:E.
    + apply String.eqb_eq in E. subst k'. rewrite (IH Hd Hin) in Ea. discriminate.
    + apply IH; assumption.
Qed.

Lemma parse_body_lines ls fs :
  parse_body ls = Some fs ->
  (forall kv, In kv fs -> In (line_text kv) ls /\ entry_ok kv = true) /\
  (forall l, In l ls -> l = "" \/ exists kv, In kv fs /\ l = line_text kv).
Proof.
  revert fs. induction ls as [|l t IH]; intros fs H; [discriminate|].
  destruct t as [|x xs].
  - simpl in H. destruct (String.eqb l "") eqn:E; [|discriminate]. injection H as <-.
    apply String.eqb_eq in E. subst. split; [intros kv []|]. intros l [<-|[]]. auto.
  - change (parse_body (l :: x :: xs))
      with (match parse_line l, parse_body (x :: xs) with
            | Some kv, Some r => Some (kv :: r)
            | _, _ => None
            end) in H.
    destruct (parse_line l) as [[k v]|] eqn:El; [|discriminate].
    destruct (parse_body (x :: xs)) as [r|] eqn:Er; [|discriminate]. injection H as <-.
    apply parse_line_spec in El as (-> & Hk & Hv). destruct (IH r eq_refl) as [I1 I2]. split.
    + intros kv [<-|Hin].
      * split; [left; reflexivity|]. unfold entry_ok. simpl. rewrite Hk, Hv. reflexivity.
      * destruct (I1 kv Hin) as [A B]. split; [right; exact A|exact B].
    + intros l' [<-|Hin].
      * right. exists (k, v). split; [left; reflexivity|reflexivity].
      * destruct (I2 l' Hin) as [->|(kv & A & ->)]; [auto|]. right. exists kv. split; [right; exact A|reflexivity].
Qed.

Lemma parse_sums_spec p fs :
  parse_sums p = SIn fs ->
  exists rest, lines p = "files:" :: rest /\ parse_body rest = Some fs /\ keys_distinct fs = true.
Proof.
  unfold parse_sums. destruct (lines p) as [|first rest]; [discriminate|].
  destruct (String.eqb first "files:") eqn:E; [|discriminate]. apply String.eqb_eq in E. subst.
  destruct (parse_body rest) as [[|e r]|] eqn:Eb; try discriminate.
  destruct (keys_distinct (e :: r)) eqn:Ed; [|discriminate]. intro H. injection H as <-.
  exists rest. auto.
Qed.

Lemma line_text_inj k v k' v' :
  name_ok k = true -> value_ok v = true -> name_ok k' = true -> value_ok v' = true ->
  line_text (k, v) = line_text (k', v') -> k = k' /\ v = v'.
Proof.
  intros Hk Hv Hk' Hv' E.
  pose proof (parse_line_print k v Hk Hv) as P. rewrite E, (parse_line_print k' v' Hk' Hv') in P.
  injection P as <- <-. auto.
Qed.

(* on a text of the modelled shape the entry of a name is the text's line "  <name>: <value>" *)
Lemma digest_line p fs name v :
  parse_sums p = SIn fs -> name_ok name = true -> value_ok v = true ->
  (aget name fs = Some v <-> In (line_text (name, v)) (lines p)).
Proof.
  intros Hp Hn Hv. apply parse_sums_spec in Hp as (rest & Hl & Hb & Hd). rewrite Hl.
  destruct (parse_body_lines rest fs Hb) as [I1 I2]. split.
  - intro H. apply aget_in in H. right. apply I1. exact H.
  - intros [E|Hin].
    + exfalso. unfold line_text in E. simpl in E. discriminate.
    + destruct (I2 _ Hin) as [E|((k', v') & Hkv & E)].
      * unfold line_text in E. simpl in E. discriminate.
      * destruct (I1 _ Hkv) as [_ Hok]. unfold entry_ok in Hok. simpl in Hok.
        apply andb_true_iff in Hok as [Hk' Hv'].
        destruct (line_text_inj name v k' v' Hn Hv Hk' Hv' E) as [-> ->].
        apply in_aget_distinct; assumption.
Qed.

Section YamlVerify.
  Variables keyring sigbody signer key : Type.
  Variable clearsign_decode : string -> option (string * sigbody).
  Variable check_sig : keyring -> string -> sigbody -> option signer.
  Variable sha256 : string -> string.
  Variable yaml_meta_ok : string -> bool.
  Variable yaml_sums : string -> option (list (string * string)).

  Notation verify := (verify keyring sigbody signer clearsign_decode check_sig sha256 yaml_meta_ok yaml_sums).

  (* the digest line for the archive's base name in the signed text is what Verify compares *)
  Lemma verify_digest_line kr prov name archive msg sg p0 p1 rest fs by_ h :
    agrees_on_subset yaml_sums ->
    clearsign_decode prov = Some (msg, sg) -> split_sep DOTS msg = p0 :: p1 :: rest ->
    parse_sums p1 = SIn fs -> name_ok name = true -> value_ok ("sha256:" ++ sha256 archive) = true ->
    (verify kr prov name archive = VOk by_ h <->
     check_sig kr (canon msg) sg = Some by_ /\ yaml_meta_ok p0 = true /\
     In (line_text (name, "sha256:" ++ sha256 archive)) (lines p1) /\ h = "sha256:" ++ sha256 archive).
  Proof.
    intros Hy Hd Hs Hp Hn Hv. pose proof (Hy p1 fs Hp) as Hys. split.
    - intro H. apply verify_iff in H as (msg' & sg' & p0' & p1' & rest' & files & Ed & Ec & Es & Em & Ey & Ea & ->).
      rewrite Hd in Ed. injection Ed as <- <-. rewrite Hs in Es. injection Es as <- <- <-.
      rewrite Hys in Ey. injection Ey as <-.
      repeat split; auto. apply (digest_line p1 fs name _ Hp Hn Hv). exact Ea.
    - intros (Ec & Em & Hin & ->). apply verify_iff.
      exists msg, sg, p0, p1, rest, fs. repeat split; auto.
      apply (digest_line p1 fs name _ Hp Hn Hv). exact Hin.
  Qed.

  Variable sign : key -> string -> sigbody.
  Variable clearsign_encode : string -> sigbody -> string.
  Variable sums_yaml : string -> string -> string.
  Variable public_of : keyring -> key -> option signer.

  (* C17_sign_then_verify with the sums inside the model: the YAML library is assumed to print
     names / digests of the modelled shape as print_sums does and to read texts of that shape as
     parse_sums does; that the printed sums are clean, free of the separator and parse back is
     then proved, not assumed.  The metadata part stays as in C17_sign_then_verify. *)
  Lemma sign_then_verify_sums_modelled :
    (forall msg sg, clean msg = true -> clearsign_decode (clearsign_encode msg sg) = Some (msg, sg)) ->
    (forall kr k by_ msg, public_of kr k = Some by_ -> clean msg = true -> check_sig kr (canon msg) (sign k msg) = Some by_) ->
    agrees_on_subset yaml_sums ->
    (forall n v, name_ok n = true -> value_ok v = true -> sums_yaml n v = print_sums n v) ->
    forall (kr : keyring) (k : key) (by_ : signer) (meta name archive : string),
      public_of kr k = Some by_ ->
      name_ok name = true -> value_ok ("sha256:" ++ sha256 archive) = true ->
      clean meta = true -> nosep_before meta = true -> yaml_meta_ok meta = true ->
      verify kr (clear_sign sigbody key sha256 sign clearsign_encode sums_yaml k meta name archive) name archive
      = VOk by_ ("sha256:" ++ sha256 archive).
  Proof.
    intros Hdec Hsig Hy Hpr kr k by_ meta name archive Hpub Hn Hv Hcm Hnm Hmeta.
    assert (Hok : forallb entry_ok [(name, "sha256:" ++ sha256 archive)] = true).
    { cbn [forallb]. unfold entry_ok. cbn [fst snd]. rewrite Hn, Hv. reflexivity. }
    apply (sign_then_verify keyring sigbody signer key clearsign_decode check_sig sha256 yaml_meta_ok yaml_sums
             sign clearsign_encode sums_yaml public_of Hdec Hsig); auto;
      rewrite (Hpr name _ Hn Hv).
    - apply (clean_print_sums_list _ Hok).
    - apply (nosep_print_sums_list _ Hok).
    - apply Hy. apply sums_roundtrip; assumption.
  Qed.
End YamlVerify.

(* non-vacuity: a chart name and a digest of the modelled shape *)
Example sums_example :
  name_ok "web-2.5.2-rc.1+b4.tgz" = true /\ value_ok "sha256:19bf3172" = true /\
  parse_sums (print_sums "web-2.5.2-rc.1+b4.tgz" "sha256:19bf3172") = SIn [("web-2.5.2-rc.1+b4.tgz", "sha256:19bf3172")] /\
  parse_sums ("files:" ++ LFs ++ "  a.tgz: ""sha256:""" ++ LFs) = SOutside /\
  parse_sums ("files:" ++ LFs ++ "  a.tgz: sha256:1f" ++ LFs ++ "  a.tgz: sha256:2e" ++ LFs) = SOutside.
Proof. vm_compute. repeat split. Qed.

(* C17 — the file layer of provenance verification: what Signatory.Verify and
   downloader.VerifyChart do with the two PATHS they are given, before and around the
   verification proper (Misc/Prov.v, where archive and provenance file are byte strings).

   Transcribed from (pin 879d158 + fix commits):
     pkg/provenance/sign.go   Signatory.Verify: os.Stat of chartpath, then of sigpath (missing ->
                              error, directory -> error); decodeSignature (os.ReadFile);
                              verifySignature; DigestFile(chartpath) = os.Open + Digest(io.Copy
                              into SHA-256; since fix fda75d8 a read error is returned — before,
                              Digest answered "" with a nil error); parseMessageBlock; the
                              comparison under filepath.Base(chartpath)
     pkg/downloader/chart_downloader.go   VerifyChart: os.Stat(path) (missing / directory / not
                              .tgz), provfile = path + ".prov", os.Stat(provfile) (a directory
                              passes this test and fails in Verify), NewFromKeyring, Verify

   A path is in one of four states; [FUnreadable] = a file that opens but whose reads fail
   (an I/O error; on Linux e.g. a link to /proc/self/mem). *)
From Coq Require Import List String Ascii Bool.
From Helm Require Import Common.Assoc Misc.Prov.
Import ListNotations.
Local Open Scope string_scope.

Inductive fstate := FMissing | FDir | FUnreadable | FFile (content : string).

Inductive ferr :=
| FEStat        (* os.Stat failed *)
| FEIsDirectory (* "... cannot be a directory" *)
| FERead        (* os.ReadFile of the provenance file failed *)
| FEDigest      (* DigestFile failed *)
| FECore (e : verr).

Section Files.
  Variables keyring sigbody signer : Type.
  Variable clearsign_decode : string -> option (string * sigbody).
  Variable check_sig : keyring -> string -> sigbody -> option signer.
  Variable sha256 : string -> string.
  Variable yaml_meta_ok : string -> bool.
  Variable yaml_sums : string -> option (list (string * string)).

  Inductive fres := FOk (by_ : signer) (hash : string) | FErr (e : ferr).

  Definition lift (v : vres signer) : fres :=
    match v with VOk b h => FOk b h | VErr e => FErr (FECore e) end.

  (* the stat loop of Signatory.Verify over [chartpath; sigpath] *)
  Definition stat_gate (f : fstate) : option ferr :=
    match f with FMissing => Some FEStat | FDir => Some FEIsDirectory | _ => None end.

  (* Signatory.Verify(chartpath, sigpath); name = filepath.Base(chartpath).
     [digest_of_unreadable]: what DigestFile answers for a file whose reads fail —
     None = an error (the code since fda75d8), Some d = digest d without error *)
  Definition verify_files_with (digest_of_unreadable : option string)
             (kr : keyring) (chart prov : fstate) (name : string) : fres :=
    match stat_gate chart with
    | Some e => FErr e
    | None =>
        match stat_gate prov with
        | Some e => FErr e
        | None =>
            match prov with
            | FFile pv =>
                match chart with
                | FFile a =>
                    lift (verify keyring sigbody signer clearsign_decode check_sig sha256 yaml_meta_ok yaml_sums kr pv name a)
                | _ =>
                    (* decode and signature check come first, then DigestFile *)
                    match clearsign_decode pv with
                    | None => FErr (FECore EDecode)
                    | Some (msg, sg) =>
                        match check_sig kr (canon msg) sg with
                        | None => FErr (FECore ESig)
                        | Some _ =>
                            match digest_of_unreadable with
                            | None => FErr FEDigest
                            | Some d =>
                                lift (verify keyring sigbody signer clearsign_decode check_sig (fun _ => d) yaml_meta_ok yaml_sums kr pv name "")
                            end
                        end
                    end
                end
            | _ => FErr FERead
            end
        end
    end.

  (* the code as it is (Digest returns the read error) *)
  Definition verify_files := verify_files_with None.
  (* before fix fda75d8: Digest answered "" and no error *)
  Definition verify_files_unrepaired := verify_files_with (Some "").

  (* downloader.VerifyChart(path, keyringfile): [prov] = state of path + ".prov" *)
  Definition verify_chart_files (kr : option keyring) (chart prov : fstate) (name : string) : fres :=
    match chart with
    | FMissing => FErr FEStat
    | FDir => FErr (FECore EIsDir)
    | _ =>
        if negb (is_tgz name) then FErr (FECore ENotTgz)
        else match prov with
             | FMissing => FErr (FECore ENoProv)
             | _ =>
                 match kr with
                 | None => FErr (FECore EKeyring)
                 | Some k => verify_files k chart prov name
                 end
             end
    end.
End Files.

Arguments FOk {signer}.
Arguments FErr {signer}.

(* Proofs for Misc/PanicsStorage.v *)
From Coq Require Import List String Bool ZArith Lia.
From Helm Require Import Common.Assoc Misc.Panics Misc.PanicsStorage.
Import ListNotations.
Local Open Scope string_scope.

Lemma no_panic_bind {A B} (r : res A) (f : A -> res B) :
  no_panic r -> (forall a, r = Ok a -> no_panic (f a)) -> no_panic (bind r f).
Proof. destruct r; simpl; auto. Qed.

Section P.
  Variable B : Type.
  Variable empty : B.
  Variable dec : B -> option srel.
  Variable valid_label : string -> bool.
  Variable is_system : string -> bool.

  Lemma drv_get_no_panic st key : no_panic (drv_get B empty dec is_system st key).
  Proof.
    unfold drv_get. destruct (api_get B st key); simpl; auto.
    destruct (dec (data_release B empty s)); simpl; auto.
  Qed.

  Lemma drv_get_undecodable st key o :
    api_get B st key = Some o -> dec (data_release B empty o) = None ->
    drv_get B empty dec is_system st key = Err.
  Proof. unfold drv_get. intros -> ->. reflexivity. Qed.

  Lemma drv_get_decodable st key o r :
    api_get B st key = Some o -> dec (data_release B empty o) = Some r ->
    drv_get B empty dec is_system st key =
      Ok (with_labels r (user_labels is_system (so_labels o))).
  Proof. unfold drv_get. intros -> ->. reflexivity. Qed.

  (* the loop with a total boolean filter returns exactly the decodable records that pass *)
  Lemma list_loop_spec (f : srel -> bool) items :
    list_loop B empty dec (fun r => Ok (f r)) items = Ok (filter f (decodable empty dec items)).
  Proof.
    induction items as [|it t IH]; simpl; auto.
    destruct (dec (data_release B empty it)) as [r|]; simpl.
    - rewrite IH. simpl. destruct (f (with_labels r (so_labels it))); reflexivity.
    - exact IH.
  Qed.

  Lemma list_loop_ext f g items :
    (forall r, f r = g r) -> list_loop B empty dec f items = list_loop B empty dec g items.
  Proof.
    intros H. induction items as [|it t IH]; simpl; auto.
    destruct (dec (data_release B empty it)) as [r|]; simpl; auto.
    rewrite H, IH. reflexivity.
  Qed.

  Lemma list_loop_no_panic flt items :
    (forall r, no_panic (flt r)) -> no_panic (list_loop B empty dec flt items).
  Proof.
    intros H. induction items as [|it t IH]; simpl; auto.
    destruct (dec (data_release B empty it)) as [r|]; simpl; auto.
    specialize (H (with_labels r (so_labels it))).
    destruct (flt (with_labels r (so_labels it))); simpl in *; auto.
    destruct (list_loop B empty dec flt t); simpl in *; auto.
  Qed.

  Lemma drv_list_spec st (f : srel -> bool) :
    drv_list B empty dec st (fun r => Ok (f r)) =
      Ok (filter f (decodable empty dec (api_list B st [("owner", "helm")]))).
  Proof. unfold drv_list. apply list_loop_spec. Qed.

  Lemma drv_list_no_panic st flt :
    (forall r, no_panic (flt r)) -> no_panic (drv_list B empty dec st flt).
  Proof. intros. unfold drv_list. now apply list_loop_no_panic. Qed.

  Lemma filter_true {A} (l : list A) : filter (fun _ => true) l = l.
  Proof. induction l; simpl; congruence. Qed.

  Lemma drv_query_no_panic st q : no_panic (drv_query B empty dec valid_label st q).
  Proof.
    unfold drv_query. destruct (negb _); simpl; auto.
    destruct (api_list B st q) eqn:E; [simpl; auto|].
    apply list_loop_no_panic. simpl. auto.
  Qed.

  Lemma drv_query_spec st q :
    forallb (fun kv => valid_label (snd kv)) q = true ->
    api_list B st q <> [] ->
    drv_query B empty dec valid_label st q = Ok (decodable empty dec (api_list B st q)).
  Proof.
    intros Hv Hne. unfold drv_query. rewrite Hv. simpl.
    destruct (api_list B st q) eqn:E; [congruence|].
    rewrite (list_loop_spec (fun _ => true)). now rewrite filter_true.
  Qed.

  Lemma status_filter_total status r :
    status_filter status r =
      Ok (match sr_status r with Some s => String.eqb s status | None => false end).
  Proof. unfold status_filter. destruct (sr_status r); reflexivity. Qed.

  Lemma list_deployed_spec st :
    list_deployed B empty dec st =
      Ok (filter (fun r => match sr_status r with Some s => String.eqb s "deployed" | None => false end)
                 (decodable empty dec (api_list B st [("owner", "helm")]))).
  Proof.
    unfold list_deployed. rewrite <- drv_list_spec. unfold drv_list.
    apply list_loop_ext. intros r. apply status_filter_total.
  Qed.

  Lemma list_uninstalled_spec st :
    list_uninstalled B empty dec st =
      Ok (filter (fun r => match sr_status r with Some s => String.eqb s "uninstalled" | None => false end)
                 (decodable empty dec (api_list B st [("owner", "helm")]))).
  Proof.
    unfold list_uninstalled. rewrite <- drv_list_spec. unfold drv_list.
    apply list_loop_ext. intros r. apply status_filter_total.
  Qed.

  Lemma index0_no_panic {A} (l : list A) : l <> [] -> no_panic (index l 0).
  Proof. destruct l; simpl; [congruence|auto]. Qed.

  Section Sorted.
    Variable rev_sort : list srel -> list srel.
    Hypothesis rev_sort_length : forall l, List.length (rev_sort l) = List.length l.

    Lemma rev_sort_nonempty l : Nat.eqb (List.length l) 0 = false -> rev_sort l <> [].
    Proof.
      intros H E. apply (f_equal (@List.length _)) in E. rewrite rev_sort_length in E.
      simpl in E. rewrite E in H. discriminate.
    Qed.

    Lemma deployed_no_panic st name :
      no_panic (deployed B empty dec valid_label rev_sort st name).
    Proof.
      unfold deployed.
      pose proof (drv_query_no_panic st [("name", name); ("owner", "helm"); ("status", "deployed")]) as H.
      destruct (drv_query _ _ _ _ _ _); simpl in *; auto.
      destruct (Nat.eqb (List.length a) 0) eqn:E; simpl; auto.
      apply index0_no_panic. now apply rev_sort_nonempty.
    Qed.

    Lemma last_no_panic st name :
      no_panic (last B empty dec valid_label rev_sort st name).
    Proof.
      unfold last, history.
      pose proof (drv_query_no_panic st [("name", name); ("owner", "helm")]) as H.
      destruct (drv_query _ _ _ _ _ _); simpl in *; auto.
      destruct (Nat.eqb (List.length a) 0) eqn:E; simpl; auto.
      apply index0_no_panic. now apply rev_sort_nonempty.
    Qed.
  End Sorted.
End P.

(* since 1478473 a decoded release always has an info object, so even the StatusFilter of
   before b7c9b57 cannot dereference nil any more *)
Lemma decode_release_has_info {B : Type} (raw : B -> option srel) b r :
  decode_release raw b = Some r -> sr_status r <> None.
Proof.
  unfold decode_release. destruct (raw b) as [r0|]; simpl; [|discriminate].
  intros H. inversion H; subst. unfold norm_info. destruct (sr_status r0) eqn:E; simpl; congruence.
Qed.

Lemma list_loop_prefix_filter_no_panic {B : Type} (empty : B) (raw : B -> option srel) status items :
  no_panic (list_loop B empty (decode_release raw) (status_filter_prefix status) items).
Proof.
  induction items as [|it t IH]; simpl; auto.
  destruct (decode_release raw (data_release B empty it)) as [r|] eqn:E; simpl; auto.
  apply decode_release_has_info in E.
  unfold status_filter_prefix at 1. simpl. destruct (sr_status r) as [s|]; [|congruence]. simpl.
  destruct (list_loop B empty (decode_release raw) (status_filter_prefix status) t); simpl in *; auto.
Qed.

Lemma list_deployed_prefix_normalised_no_panic {B : Type} (empty : B) (raw : B -> option srel) st :
  no_panic (list_deployed_prefix B empty (decode_release raw) st).
Proof. unfold list_deployed_prefix, drv_list. apply list_loop_prefix_filter_no_panic. Qed.

(* ---- the two repaired defects, on the pre-fix transcriptions ---- *)

Definition dec_never : nat -> option srel := fun _ => None.
Definition dec_noinfo : nat -> option srel := fun _ => Some (mkSrel "x" 1 None []).
Definition one_record : list (sobj nat) :=
  [mkSobj "sh.helm.release.v1.x.v1" [("owner", "helm")] (Some [("release", 7)])].

Lemma secrets_get_prefix_panics :
  is_panic (secrets_get_prefix nat 0 dec_never (fun _ => false) one_record "sh.helm.release.v1.x.v1") = true.
Proof. vm_compute. reflexivity. Qed.

Lemma list_deployed_prefix_panics :
  is_panic (list_deployed_prefix nat 0 dec_noinfo one_record) = true.
Proof. vm_compute. reflexivity. Qed.

(* the mutant that stops at the first undecodable record loses the readable ones *)
Lemma strict_list_loses_records :
  let dec := fun b : nat => if Nat.eqb b 0 then None else Some (mkSrel "x" 1 (Some "deployed") []) in
  let st := [mkSobj "a" [("owner", "helm")] (Some [("release", 0)]);
             mkSobj "b" [("owner", "helm")] (Some [("release", 1)])] in
  list_loop_strict nat 0 dec (fun _ => Ok true) st = Err /\
  exists r, list_loop nat 0 dec (fun _ => Ok true) st = Ok [r].
Proof. vm_compute. split; [reflexivity|eexists; reflexivity]. Qed.

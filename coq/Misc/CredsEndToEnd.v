(* C19 — the call-path theorems restated with the origin the property text means
   (scheme, case-folded host name, effective port: Misc/CredsUrl.v origin_of), and the
   whole flow of one download composed: option lists -> getter decision -> redirect policy. *)
From Coq Require Import List String Ascii Bool.
From Helm Require Import Misc.Creds Misc.CredsProofs Misc.CredsUrl Misc.CredsUrlProofs Misc.CredsRedirect Misc.CredsRedirectProofs.
Import ListNotations.
Local Open Scope string_scope.

Section Origin.
  Variable parse : string -> option url.

  (* the two strings name URLs of the same origin as the property means it *)
  Definition same_prop_origin (a b : string) : Prop :=
    exists ua ub, parse a = Some ua /\ parse b = Some ub /\ origin_of ua = origin_of ub.

  Lemma so_prop_origin a b : so parse a b -> same_prop_origin a b.
  Proof.
    intros (ua & ub & Ea & Eb & H). exists ua, ub. repeat split; auto. apply same_origin_origin_of. exact H.
  Qed.

  (* whose pair a request may carry *)
  Definition repo_cred_origin_ok (repos : list entry) (c : cred) (href : string) : Prop :=
    exists rc, In rc repos /\ has_creds rc = true /\ c = Cred (e_user rc) (e_pass rc) (e_url rc) /\
               (e_pass_all rc = true \/ same_prop_origin (e_url rc) href).
  Definition caller_cred_origin_ok (o0 : gopts) (c : cred) (href : string) : Prop :=
    c = cred_of o0 /\ has_c o0 = true /\ (g_pass_all o0 = true \/ same_prop_origin (g_src o0) href).

  Lemma repo_ok_origin repos c href : repo_cred_ok parse repos c href -> repo_cred_origin_ok repos c href.
  Proof.
    intros (rc & Hin & Hc & E & H). exists rc. repeat split; auto.
    destruct H as [H|H]; [left; exact H|right; apply so_prop_origin; exact H].
  Qed.

  Lemma caller_ok_origin o c href : caller_cred_ok parse o c href -> caller_cred_origin_ok o c href.
  Proof.
    intros (E & Hc & H). repeat split; auto.
    destruct H as [H|H]; [left; exact H|right; apply so_prop_origin; exact H].
  Qed.
End Origin.

(* every entry point, first hops: a request that carries a pair carries a repository entry's
   own pair — and then that entry has pass-credentials on or the request is on the origin of
   the entry's URL — or the command-line pair under the same condition.  A chart URL that
   several repositories list is covered (the entry is the one whose pair it is, not the
   first one that lists the URL). *)
Lemma paths_origin :
  forall (parse : string -> option url) (url_equal : string -> string -> bool)
         (lookup : entry -> string -> string -> option string) (index_url : string -> option string)
         (find_in : string -> string -> string -> option string)
         (dep_url : entry -> string -> string -> string -> option string),
    (forall s u, parse s = Some u -> so parse s (u_str u)) ->
    (forall s u, parse s = Some u -> nonempty (u_path u) = true -> so parse s (u_str u ++ ".prov")) ->
    (forall r n v cu u, find_in r n v = Some cu -> parse cu = Some u -> abs3 u = true) ->
    (forall cr d n v cu u, dep_url cr d n v = Some cu -> parse cu = Some u -> abs3 u = true) ->
    (forall a b ua, url_equal a b = true -> parse a = Some ua -> so parse a b) ->
    (forall e href c, In (href, GReq (Some c)) (download_index parse index_url e) ->
       c = Cred (e_user e) (e_pass e) (e_url e) /\ has_creds e = true /\
       (e_pass_all e = true \/ same_prop_origin parse (e_url e) href))
    /\ (forall c name repos ok href cr,
          In (href, GReq (Some cr)) (locate_chart parse url_equal lookup index_url find_in c name repos ok) ->
          caller_cred_origin_ok parse (cli_opts parse c name repos) cr href \/ repo_cred_origin_ok parse repos cr href)
    /\ (forall c name repos wp ok href cr,
          In (href, GReq (Some cr)) (pull parse url_equal lookup index_url find_in c name repos wp ok) ->
          caller_cred_origin_ok parse (cli_opts parse c name repos) cr href \/ repo_cred_origin_ok parse repos cr href)
    /\ (forall dep_repo name ver repos wp ok href cr,
          In (href, GReq (Some cr)) (manager_dep parse url_equal lookup index_url find_in dep_url dep_repo name ver repos wp ok) ->
          repo_cred_origin_ok parse repos cr href).
Proof.
  intros parse url_equal lookup index_url find_in dep_url Hstr Hprov Hfind Hdep Hequal.
  destruct (paths_scope parse url_equal lookup index_url find_in dep_url Hstr Hprov Hfind Hdep Hequal)
    as (P1 & _ & P3 & P4 & P5).
  split; [|split; [|split]].
  - intros e href c H. destruct (P1 _ _ _ H) as (E & Hc & Ho). repeat split; auto.
    destruct Ho as [Ho|Ho]; [left; exact Ho|right; apply so_prop_origin; exact Ho].
  - intros c name repos ok href cr H. destruct (P3 _ _ _ _ _ _ H) as [A|A];
      [left; apply caller_ok_origin; exact A|right; apply repo_ok_origin; exact A].
  - intros c name repos wp ok href cr H. destruct (P4 _ _ _ _ _ _ _ H) as [A|A];
      [left; apply caller_ok_origin; exact A|right; apply repo_ok_origin; exact A].
  - intros dep_repo name ver repos wp ok href cr H. apply repo_ok_origin. exact (P5 _ _ _ _ _ _ _ _ H).
Qed.

(* ------------------------------------------------------------------ with redirects *)
(* One request of a call path and the hops net/http sends it along: every hop that carries
   the pair is the first hop itself, or has the first hop's host NAME or a sub-domain of it. *)
Lemma hop_scope (parse : string -> option url) href c u hops d :
  parse href = Some u ->
  In (d, Some c) (combine (u :: hops) (Some c :: hop_auths u (Some c) hops)) ->
  d = u \/ is_domain_or_subdomain (hostname (u_host d)) (hostname (req_host (u_host u))) = true.
Proof.
  intros Hu [Hin|Hin]; [left; injection Hin as <-; reflexivity|right].
  apply hop_auths_related in Hin as [_ Hin]. exact Hin.
Qed.

(* C19 — the little language the translator (harness/cmd/hx/gentables_c19.go) prints the
   credential decisions of the Go source in (coq/Gen/C19Origin.v), its evaluator, and the
   model's decision functions the printed terms are proved equal to (Misc/CredsSrcProofs.v).

   Atoms (what a condition may test):
     APassAll   the pass-credentials flag in force (g.opts.passCredentialsAll, c./p.PassCredentialsAll,
                passcredentialsall of findChartURL)
     ASchemeEq  X.Scheme == Y.Scheme  for the two url.Parse results the function compares
     AHostEq    X.Host == Y.Host
     AHasUser   user name != ""        AHasPass   password != ""
     ARepoSet   --repo given (c./p.RepoURL != "")
     AErr1 / AErr2   url.Parse of the first / second compared URL failed (downloadAll tests them)
   Any other condition is printed as COther "<go text>" and evaluates to one extra boolean. *)
From Coq Require Import List String Bool.
Import ListNotations.
Local Open Scope string_scope.

Inductive atom := APassAll | ASchemeEq | AHostEq | AHasUser | AHasPass | ARepoSet | AErr1 | AErr2.

Inductive cexp :=
| CTrue | CFalse
| CAtom (a : atom)
| COther (text : string)
| CNot (c : cexp)
| CAnd (a b : cexp)
| COr (a b : cexp).

(* a string-valued argument: "", the configured user name / password, the repository URL,
   the chart reference, or something else *)
Inductive tok := TEmpty | TUser | TPass | TRepoUrl | TRef | TOtherTok (text : string).

Inductive sval :=
| SV (t : tok)
| SIte (c : cexp) (a b : sval).

(* a getter option as the source builds it: constructor name and string arguments; a
   boolean argument (WithPassCredentialsAll) is printed as its condition *)
Inductive oitem := OI (name : string) (sargs : list sval) (bargs : list cexp).

Record assignment := mkA { v_pass_all : bool; v_scheme_eq : bool; v_host_eq : bool; v_has_user : bool;
                           v_has_pass : bool; v_repo_set : bool; v_err1 : bool; v_err2 : bool; v_other : bool }.

Definition eval_atom (r : assignment) (a : atom) : bool :=
  match a with
  | APassAll => v_pass_all r | ASchemeEq => v_scheme_eq r | AHostEq => v_host_eq r
  | AHasUser => v_has_user r | AHasPass => v_has_pass r | ARepoSet => v_repo_set r
  | AErr1 => v_err1 r | AErr2 => v_err2 r
  end.

Fixpoint eval_c (r : assignment) (c : cexp) : bool :=
  match c with
  | CTrue => true | CFalse => false
  | CAtom a => eval_atom r a
  | COther _ => v_other r
  | CNot x => negb (eval_c r x)
  | CAnd x y => eval_c r x && eval_c r y
  | COr x y => eval_c r x || eval_c r y
  end.

Fixpoint eval_s (r : assignment) (s : sval) : tok :=
  match s with
  | SV t => t
  | SIte c a b => if eval_c r c then eval_s r a else eval_s r b
  end.

Definition tok_eqb (a b : tok) : bool :=
  match a, b with
  | TEmpty, TEmpty | TUser, TUser | TPass, TPass | TRepoUrl, TRepoUrl | TRef, TRef => true
  | TOtherTok x, TOtherTok y => String.eqb x y
  | _, _ => false
  end.

(* the options in force under an assignment: guards evaluated, arguments evaluated *)
Definition eval_item (r : assignment) (i : oitem) : string * list tok * list bool :=
  match i with OI n sa ba => (n, map (eval_s r) sa, map (eval_c r) ba) end.

Fixpoint eval_l (r : assignment) (l : list (cexp * oitem)) : list (string * list tok * list bool) :=
  match l with
  | [] => []
  | (g, i) :: t => if eval_c r g then eval_item r i :: eval_l r t else eval_l r t
  end.

(* getter.options after the list, the fields that matter: last WithURL, last WithBasicAuth,
   last WithPassCredentialsAll (later options win); None = never set by the list *)
Record sopts := mkSO { so_url : option tok; so_auth : option (tok * tok); so_pass_all : option bool }.

Definition apply_sitem (o : sopts) (x : string * list tok * list bool) : sopts :=
  match x with
  | ("WithURL", [u], _) => mkSO (Some u) (so_auth o) (so_pass_all o)
  | ("WithBasicAuth", [u; p], _) => mkSO (so_url o) (Some (u, p)) (so_pass_all o)
  | ("WithPassCredentialsAll", _, [b]) => mkSO (so_url o) (so_auth o) (Some b)
  | _ => o
  end.

Definition sopts0 : sopts := mkSO None None None.
Definition apply_slist (l : list (string * list tok * list bool)) : sopts := fold_left apply_sitem l sopts0.

Definition opt_eqb {A} (f : A -> A -> bool) (a b : option A) : bool :=
  match a, b with
  | None, None => true
  | Some x, Some y => f x y
  | _, _ => false
  end.

Definition sopts_eqb (a b : sopts) : bool :=
  opt_eqb tok_eqb (so_url a) (so_url b)
  && opt_eqb (fun x y => tok_eqb (fst x) (fst y) && tok_eqb (snd x) (snd y)) (so_auth a) (so_auth b)
  && opt_eqb Bool.eqb (so_pass_all a) (so_pass_all b).

(* every assignment *)
Definition bools : list bool := [false; true].
Definition all_assignments : list assignment :=
  flat_map (fun a => flat_map (fun b => flat_map (fun c => flat_map (fun d => flat_map (fun e =>
  flat_map (fun f => flat_map (fun g => flat_map (fun h => map (fun i => mkA a b c d e f g h i) bools)
  bools) bools) bools) bools) bools) bools) bools) bools.

(* ------------------------------------------------------------------ the model's decisions *)
(* HTTPGetter.get: SetBasicAuth is called *)
Definition getter_attach (r : assignment) : bool :=
  (v_pass_all r || (v_scheme_eq r && v_host_eq r)) && (v_has_user r && v_has_pass r).

(* ChartPathOptions.LocateChart: the pair handed to the downloader is the command-line pair
   (otherwise it is "", "") *)
Definition locate_keep (r : assignment) : bool :=
  if v_repo_set r then v_pass_all r || (v_scheme_eq r && v_host_eq r) else true.

(* Pull.Run (after repair 6d7787e) *)
Definition pull_keep (r : assignment) : bool :=
  negb (v_repo_set r && (negb (v_pass_all r) && negb (v_scheme_eq r && v_host_eq r))).

(* Manager.downloadAll (after repair 0ca3ebf) *)
Definition manager_keep (r : assignment) : bool :=
  if negb (v_pass_all r) && (v_has_user r || v_has_pass r)
  then negb (v_err1 r) && negb (v_err2 r) && (v_scheme_eq r && v_host_eq r)
  else true.

(* ResolveChartVersion, a repository entry rc: its URL scopes the getter; its pair and its
   flag are appended only when both user name and password are set *)
Definition entry_sopts (r : assignment) : sopts :=
  if v_has_user r && v_has_pass r then mkSO (Some TRepoUrl) (Some (TUser, TPass)) (Some (v_pass_all r))
  else mkSO (Some TRepoUrl) None None.

(* the pair a caller hands on: the configured one when kept, "" "" when dropped *)
Definition kept_auth (keep : bool) : option (tok * tok) := Some (if keep then (TUser, TPass) else (TEmpty, TEmpty)).

(* the option slice snapshotted at the call is built in the function (in the loop iteration)
   itself: the translator prints OI "$<slice>" for "whatever the slice held before" when it is
   appended to without having been constructed on this path *)
Definition fresh_list (l : list (cexp * oitem)) : bool :=
  forallb (fun gi => match snd gi with OI n _ _ => negb (String.prefix "$" n) end) l.

(* C20_index — pkg/repo/index.go: loadIndex :347 (the clean-up loop :358-:379), SortEntries
   :171 with ChartVersions.Less :66, Get :181, Merge :254 (after fix 7353d5a).
   An entry list is what YAML/JSON decoding of `entries: {name: [...]}` can produce:
   each item is null (None), an object with no metadata field at all (the embedded
   *chart.Metadata stays nil: Some None) or an object with metadata (Some (Some m)).
   Metadata.Validate (metadata.go:88) is Helm-owned and nil-safe; its verdict is the
   Section variable [validate] (fail = removed from the index; the "more than one
   dependency" error is skippable, index.go:403, and counts as pass). *)
From Coq Require Import List String Bool ZArith.
From Helm Require Import Common.Assoc Misc.Panics Misc.PanicsDeps.
Import ListNotations.
Local Open Scope string_scope.

Record imeta := mkIMeta {
  im_name : string;
  im_version : string;
  im_api : string
}.

Definition centry := option (option imeta).

Definition empty_imeta : imeta := mkIMeta EmptyString EmptyString EmptyString.
Definition set_api (m : imeta) (a : string) : imeta := mkIMeta (im_name m) (im_version m) a.

(* l[i:] *)
Definition slice_from {A : Type} (l : list A) (n : Z) : res (list A) :=
  if Z.ltb n 0 then Panic "slice bounds out of range (negative)"
  else if Z.ltb (Z.of_nat (List.length l)) n then Panic "slice bounds out of range"
  else Ok (skipn (Z.to_nat n) l).

(* cvs = append(cvs[:idx], cvs[idx+1:]...) *)
Definition remove_at (cvs : list centry) (idx : Z) : res (list centry) :=
  a <- slice_to cvs idx ;;
  b <- slice_from cvs (idx + 1) ;;
  Ok (a ++ b)%list.

Fixpoint replace_at {A : Type} (l : list A) (i : nat) (x : A) : list A :=
  match l, i with
  | [], _ => []
  | _ :: t, O => x :: t
  | a :: t, S i' => a :: replace_at t i' x
  end.

Section Index.
  Variable validate : imeta -> bool.                 (* ignoreSkippableChartValidationError(cvs[idx].Validate()) == nil *)
  Variable valid_semver : string -> bool.            (* semver.NewVersion(v) succeeds *)
  Variable C : Type.
  Variable parse_constraint : string -> option C.    (* semver.NewConstraint *)
  Variable check : C -> string -> bool.              (* constraint.Check(version) for a parsable version *)

  (* for idx := len(cvs) - 1; idx >= 0; idx-- { ... }  — [k] = idx + 1.
     [fixed] = true: as after 161cdc1; false: `continue` without removing the nil entry *)
  Fixpoint load_loop (fixed : bool) (k : nat) (cvs : list centry) : res (list centry) :=
    match k with
    | O => Ok cvs
    | S idx =>
        e <- index cvs (Z.of_nat idx) ;;
        match e with
        | None =>                                                   (* cvs[idx] == nil *)
            if fixed then cvs' <- remove_at cvs (Z.of_nat idx) ;; load_loop fixed idx cvs'
            else load_loop fixed idx cvs
        | Some md =>
            let m := match md with Some m => m | None => empty_imeta end in
            let m := if String.eqb (im_api m) EmptyString then set_api m "v1" else m in
            let cvs1 := replace_at cvs idx (Some (Some m)) in
            if validate m then load_loop fixed idx cvs1
            else cvs' <- remove_at cvs1 (Z.of_nat idx) ;; load_loop fixed idx cvs'
        end
    end.

  (* c[a].Version — through the entry pointer and the embedded metadata pointer *)
  Definition entry_version (e : centry) : res string :=
    cv <- deref "c[a]" e ;;
    m <- deref "c[a].Metadata.Version" cv ;;
    Ok (im_version m).

  Fixpoint all_versions (l : list centry) : res (list string) :=
    match l with
    | [] => Ok []
    | e :: t => v <- entry_version e ;; r <- all_versions t ;; Ok (v :: r)
    end.

  (* sort.Sort(sort.Reverse(versions)): with fewer than two elements Less is never called;
     otherwise every element takes part in at least one comparison, so Less dereferences
     every element.  The resulting order is C18's subject: [sorter] is any function. *)
  Variable sorter : list centry -> list centry.

  Definition sort_versions (l : list centry) : res (list centry) :=
    if Nat.ltb (List.length l) 2 then Ok l
    else _ <- all_versions l ;; Ok (sorter l).

  Fixpoint load_entries (fixed : bool) (es : list (string * list centry)) : res (list (string * list centry)) :=
    match es with
    | [] => Ok []
    | (name, cvs) :: t =>
        cvs' <- load_loop fixed (List.length cvs) cvs ;;
        t' <- load_entries fixed t ;;
        Ok ((name, cvs') :: t')
    end.

  Fixpoint sort_entries (es : list (string * list centry)) : res (list (string * list centry)) :=
    match es with
    | [] => Ok []
    | (name, cvs) :: t =>
        cvs' <- sort_versions cvs ;;
        t' <- sort_entries t ;;
        Ok ((name, cvs') :: t')
    end.

  (* the decoded file: apiVersion and the entries map; entries = None is a nil map *)
  Record rawindex := mkRaw { ri_api : string; ri_entries : option (list (string * list centry)) }.

  Definition entries_of (r : rawindex) := match ri_entries r with Some es => es | None => [] end.

  (* loadIndex after a successful unmarshal *)
  Definition load_index (fixed : bool) (r : rawindex) : res rawindex :=
    es <- load_entries fixed (entries_of r) ;;
    es' <- sort_entries es ;;
    if String.eqb (ri_api r) EmptyString then Err                     (* ErrNoAPIVersion *)
    else Ok (mkRaw (ri_api r) (match ri_entries r with Some _ => Some es' | None => None end)).

  (* Get(name, version) *)
  Fixpoint exact_loop (version : string) (vs : list centry) : res (option centry) :=
    match vs with
    | [] => Ok None
    | ver :: t =>
        v <- entry_version ver ;;
        if String.eqb version v then Ok (Some ver) else exact_loop version t
    end.

  Fixpoint check_loop (c : C) (vs : list centry) : res (option centry) :=
    match vs with
    | [] => Ok None
    | ver :: t =>
        v <- entry_version ver ;;
        if negb (valid_semver v) then check_loop c t
        else if check c v then Ok (Some ver) else check_loop c t
    end.

  Definition get (idx : rawindex) (name version : string) : res centry :=
    match aget name (entries_of idx) with
    | None => Err                                                      (* ErrNoChartName *)
    | Some vs =>
        if Nat.eqb (List.length vs) 0 then Err                         (* ErrNoChartVersion *)
        else
          let cons := if String.eqb version EmptyString
                      then Ok (parse_constraint "*")                   (* constraint, _ = NewConstraint("*") *)
                      else match parse_constraint version with
                           | Some c => Ok (Some c)
                           | None => Err
                           end in
          oc <- cons ;;
          ex <- (if negb (String.eqb version EmptyString) then exact_loop version vs else Ok None) ;;
          match ex with
          | Some ver => Ok ver
          | None =>
              c <- deref "constraint.Check" oc ;;
              r <- check_loop c vs ;;
              match r with Some ver => Ok ver | None => Err end
          end
    end.

  (* Merge(f): i.Entries[cv.Name] = append(e, cv) — a write into i.Entries.
     [guarded] = true: as after 7353d5a *)
  Definition merge (guarded : bool) (i f : rawindex) : res rawindex :=
    let start := match ri_entries i with
                 | Some es => Ok es
                 | None => if guarded then Ok [] else
                             match flat_map snd (entries_of f) with
                             | [] => Ok []                                   (* no write happens *)
                             | _ => Panic "assignment to entry in nil map"
                             end
                 end in
    es <- start ;;
    (fix go (cvs : list centry) (es : list (string * list centry)) : res rawindex :=
       match cvs with
       | [] => Ok (mkRaw (ri_api i) (match ri_entries i, es with None, [] => None | _, _ => Some es end))
       | cv :: t =>
           e <- deref "cv.Name" cv ;;
           m <- deref "cv.Metadata.Name" e ;;
           let cur := match aget (im_name m) es with Some l => l | None => [] end in
           (* i.Has(cv.Name, cv.Version): Get(...) returned no error *)
           match get (mkRaw (ri_api i) (Some es)) (im_name m) (im_version m) with
           | Panic w => Panic w
           | Ok _ => go t es
           | Err => go t (aset (im_name m) (cur ++ [cv])%list es)
           end
       end) (flat_map snd (entries_of f)) es.
  (* pkg/cmd/search/search.go AddRepo :64 (what `helm search repo` does with every cached index):
       ind.SortEntries()
       for name, ref := range ind.Entries {
           if len(ref) == 0 { continue }                       (* the guard *)
           if !all { lines[fname] = indstr(rname, ref[0]); charts[fname] = ref[0]; continue }
           for _, rr := range ref { versionedName := fname + verSep + rr.Version; ... indstr(rname, rr) }
       }
     indstr reads ref.Name / Description / Keywords through the entry and its embedded metadata.
     [len_guard] = false is the guard `ref == nil`: [nil_slice name] then says which names hold a
     nil slice (`name: null`); `name: []`, or a list that loadIndex emptied, is empty but not nil.
     Result: the keys added to the search index. *)
  Definition indstr_reads (e : centry) : res string :=
    cv <- deref "ref.Name" e ;;
    m <- deref "ref.Metadata.Name" cv ;;
    Ok (im_name m).

  Fixpoint add_all (fname : string) (ref : list centry) : res (list string) :=
    match ref with
    | [] => Ok []
    | rr :: t =>
        v <- entry_version rr ;;                                (* rr.Version *)
        _ <- indstr_reads rr ;;
        rest <- add_all fname t ;;
        Ok ((fname ++ "$$" ++ v) :: rest)
    end.

  Fixpoint add_repo_loop (len_guard : bool) (nil_slice : string -> bool) (all : bool) (rname : string)
           (es : list (string * list centry)) : res (list string) :=
    match es with
    | [] => Ok []
    | (name, ref) :: t =>
        let skip := if len_guard then Nat.eqb (List.length ref) 0 else nil_slice name in
        here <- (if skip then Ok []
                 else
                   let fname := rname ++ "/" ++ name in
                   if all then add_all fname ref
                   else
                     r0 <- index ref 0 ;;                        (* ref[0] *)
                     _ <- indstr_reads r0 ;;
                     Ok [fname]) ;;
        rest <- add_repo_loop len_guard nil_slice all rname t ;;
        Ok (here ++ rest)%list
    end.

  Definition add_repo (len_guard : bool) (nil_slice : string -> bool) (all : bool) (rname : string)
             (ind : rawindex) : res (list string) :=
    es <- sort_entries (entries_of ind) ;;
    add_repo_loop len_guard nil_slice all rname es.
End Index.

(* C20: the translator tables Gen/C20Rec.v (regenerated from engine.go and directory.go on every
   run) against the models Misc/PanicsRec.v and Misc/PanicsGate.v.  Everything here is decided by
   computation over finite domains or by conversion; a change of the Go code that alters how a
   counter key is formed, or which file modes reach os.ReadFile, makes this file fail. *)
From Coq Require Import List String Ascii Bool ZArith.
From Helm Require Import Misc.PanicsRec Misc.PanicsGate Misc.PanicsGateProofs Gen.C20Tables Gen.C20Rec.
Import ListNotations.
Local Open Scope string_scope.

(* ---- engine.go: the counter keys ---- *)
Lemma engine_keys_tie :
  (forall text, engine_tpl_guard_keys text = [rc_tpl_key engine_cfg text]) /\
  (forall text, engine_tpl_inc_keys text = engine_tpl_guard_keys text) /\
  (forall text, engine_tpl_dec_keys text = engine_tpl_inc_keys text) /\
  (forall name, engine_include_guard_keys name =
                (match rc_total engine_cfg with Some k => [k] | None => [] end ++ [rc_inc_key engine_cfg name])%list) /\
  (forall name, engine_include_inc_keys name = engine_include_guard_keys name) /\
  (forall name, engine_include_dec_keys name = engine_include_inc_keys name) /\
  rc_max engine_cfg = engine_recursion_max_nums.
Proof.
  exact (conj (fun _ => eq_refl) (conj (fun _ => eq_refl) (conj (fun _ => eq_refl)
        (conj (fun _ => eq_refl) (conj (fun _ => eq_refl) (conj (fun _ => eq_refl) eq_refl)))))).
Qed.

(* what the bound theorem needs, said about the generated functions themselves: the key that
   tpl checks is the same for every text; include checks a key that is the same for every name *)
Lemma engine_keys_constant :
  (forall t1 t2, engine_tpl_guard_keys t1 = engine_tpl_guard_keys t2) /\
  (forall t, engine_tpl_guard_keys t <> []) /\
  (forall n1 n2, hd_error (engine_include_guard_keys n1) = hd_error (engine_include_guard_keys n2)) /\
  (forall n, hd_error (engine_include_guard_keys n) <> None).
Proof.
  repeat split; intros; try reflexivity; discriminate.
Qed.

(* ---- directory.go: the guards before os.ReadFile ---- *)
Definition open_b (a : action) : bool := match a with AOpen => true | _ => false end.

Definition gate_checks : bool :=
  forallb (fun m => forallb (fun o =>
     implb (loaddir_readfile_reached m o) (is_regular m) &&
     Bool.eqb (loaddir_readfile_reached m o)
              (open_b (walk_fn gate_not_regular (nth 0 o false) (nth 1 o false) m (nth 2 o false) (negb (nth 3 o false)))))
    (bool_lists loaddir_atoms)) all_modes.

Lemma gate_checks_true : gate_checks = true /\ loaddir_atoms = 4%nat.
Proof. split; vm_compute; reflexivity. Qed.

Lemma gate_tie : forall (m : fmode) (o : list bool),
  List.length o = loaddir_atoms ->
  (loaddir_readfile_reached m o = true -> is_regular m = true) /\
  loaddir_readfile_reached m o =
    open_b (walk_fn gate_not_regular (nth 0 o false) (nth 1 o false) m (nth 2 o false) (negb (nth 3 o false))).
Proof.
  intros m o L. pose proof (proj1 gate_checks_true) as H. unfold gate_checks in H.
  rewrite forallb_forall in H. specialize (H m (all_modes_complete m)).
  rewrite forallb_forall in H. rewrite <- L in H. specialize (H o (bool_lists_complete o)).
  apply andb_true_iff in H as [H1 H2]. split.
  - intro R. rewrite R in H1. exact H1.
  - apply eqb_prop. exact H2.
Qed.

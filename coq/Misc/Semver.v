(* Semantic versions as Helm sees them through github.com/Masterminds/semver/v3 (v3.3.0):
   [parse_version] mirrors semver.NewVersion (version.go:142, the anchored regular expression
   semVerRegex + strconv.ParseUint + validatePrerelease/validateMetadata), [vcompare] mirrors
   Version.Compare (version.go:403) with comparePrerelease/comparePrePart (version.go:507-599).
   Definitions only; the order theory is in SemverProofs.v.

   Quirks kept on purpose (they are what the library does):
   - coercion: an optional leading "v", one or two missing numeric segments ("1", "1.2");
   - numeric segments may have leading zeros under NewVersion ("01.2.3" is 1.2.3) and must
     fit in a uint64;
   - a pre-release identifier made of digits only is numeric when it fits in a uint64 and is
     compared as a plain string otherwise (ParseUint fails with a range error);
   - build metadata never takes part in the comparison. *)
From Coq Require Import List String Ascii Bool NArith.
Import ListNotations.
Local Open Scope string_scope.

(* ---- characters ---- *)

Definition is_digit (c : ascii) : bool :=
  let n := N_of_ascii c in (48 <=? n)%N && (n <=? 57)%N.

Definition is_upper (c : ascii) : bool :=
  let n := N_of_ascii c in (65 <=? n)%N && (n <=? 90)%N.

Definition is_lower (c : ascii) : bool :=
  let n := N_of_ascii c in (97 <=? n)%N && (n <=? 122)%N.

(* the class [0-9A-Za-z\-] of the regular expression = the constant [allowed] *)
Definition is_allowed (c : ascii) : bool :=
  is_digit c || is_upper c || is_lower c || Ascii.eqb c "-".

Fixpoint str_forall (p : ascii -> bool) (s : string) : bool :=
  match s with
  | EmptyString => true
  | String c t => p c && str_forall p t
  end.

Definition str_is_empty (s : string) : bool :=
  match s with EmptyString => true | _ => false end.

(* ---- numbers ---- *)

Definition uint64_max : N := 18446744073709551615%N.

Fixpoint digits_val (acc : N) (s : string) : N :=
  match s with
  | EmptyString => acc
  | String c t => digits_val (acc * 10 + (N_of_ascii c - 48))%N t
  end.

(* strconv.ParseUint(s, 10, 64): non-empty, digits only, value at most 2^64-1 *)
Definition parse_uint (s : string) : option N :=
  if str_is_empty s then None
  else if str_forall is_digit s then
         let n := digits_val 0%N s in
         if (n <=? uint64_max)%N then Some n else None
       else None.

(* longest prefix of digits and the rest: the greedy [0-9]+ of the regular expression *)
Fixpoint span_digits (s : string) : string * string :=
  match s with
  | EmptyString => (EmptyString, EmptyString)
  | String c t =>
      if is_digit c then let (d, r) := span_digits t in (String c d, r)
      else (EmptyString, s)
  end.

(* ---- splitting ---- *)

(* strings.Split(s, sep) for a one-byte separator: always at least one element *)
Fixpoint split_on (sep : ascii) (s : string) : list string :=
  match s with
  | EmptyString => [EmptyString]
  | String c t =>
      if Ascii.eqb c sep then EmptyString :: split_on sep t
      else match split_on sep t with
           | h :: r => String c h :: r
           | [] => [String c EmptyString]
           end
  end.

(* everything before the first [sep], and what follows it when there is one *)
Fixpoint cut_at (sep : ascii) (s : string) : string * option string :=
  match s with
  | EmptyString => (EmptyString, None)
  | String c t =>
      if Ascii.eqb c sep then (EmptyString, Some t)
      else let (a, b) := cut_at sep t in (String c a, b)
  end.

(* ---- versions ---- *)

(* a pre-release identifier as comparePrePart classifies it *)
Inductive ident := INum (n : N) | IStr (s : string).

Record version := mkVersion {
  vmajor : N; vminor : N; vpatch : N;
  vpre : list ident;      (* [] = a release (stable) version *)
  vmeta : string;         (* build metadata, "" when absent *)
  vorig : string          (* the string that was parsed: Version.Original() *)
}.

Definition classify (s : string) : ident :=
  match parse_uint s with Some n => INum n | None => IStr s end.

(* one identifier of the regular expression: [0-9A-Za-z\-]+ *)
Definition ident_ok (s : string) : bool := negb (str_is_empty s) && str_forall is_allowed s.

(* validatePrerelease on top of the regular expression: numeric identifiers have no leading 0 *)
Definition pre_ident_ok (s : string) : bool :=
  ident_ok s &&
  negb (str_forall is_digit s &&
        match s with String "0" (String _ _) => true | _ => false end).

Definition valid_pre (p : string) : bool := forallb pre_ident_ok (split_on "." p).
Definition valid_meta (m : string) : bool := forallb ident_ok (split_on "." m).
Definition idents (p : string) : list ident := map classify (split_on "." p).

(* one optional group (\.[0-9]+)?  —  None: the whole match fails (a dot that is not
   followed by a digit can be consumed by nothing else), Some (None, r): group absent *)
Definition opt_segment (r : string) : option (option N * string) :=
  match r with
  | String "." t =>
      let (d, r') := span_digits t in
      match parse_uint d with
      | Some n => Some (Some n, r')
      | None => None       (* no digit after the dot, or the number exceeds uint64 *)
      end
  | _ => Some (None, r)
  end.

(* (-pre)?(\+meta)? up to the end of the string *)
Definition parse_tail (r : string) : option (list ident * string) :=
  match r with
  | EmptyString => Some ([], EmptyString)
  | String "-" t =>
      let (p, m) := cut_at "+" t in
      if valid_pre p then
        match m with
        | None => Some (idents p, EmptyString)
        | Some ms => if valid_meta ms then Some (idents p, ms) else None
        end
      else None
  | String "+" t => if valid_meta t then Some ([], t) else None
  | _ => None
  end.

Definition strip_v (s : string) : string :=
  match s with String "v" t => t | _ => s end.

(* semver.NewVersion; None = error *)
Definition parse_version (s : string) : option version :=
  let (d1, r1) := span_digits (strip_v s) in
  match parse_uint d1 with
  | None => None
  | Some major =>
      match opt_segment r1 with
      | None => None
      | Some (mi, r2) =>
          match opt_segment r2 with
          | None => None
          | Some (pa, r3) =>
              match parse_tail r3 with
              | None => None
              | Some (pre, meta) =>
                  Some (mkVersion major
                          (match mi with Some n => n | None => 0%N end)
                          (match pa with Some n => n | None => 0%N end)
                          pre meta s)
              end
          end
      end
  end.

Definition is_valid_version (s : string) : bool :=
  match parse_version s with Some _ => true | None => false end.

(* ---- precedence ---- *)

Definition lex (c1 c2 : comparison) : comparison :=
  match c1 with Eq => c2 | _ => c1 end.

(* comparePrePart for two non-empty identifiers *)
Definition ident_compare (a b : ident) : comparison :=
  match a, b with
  | INum x, INum y => (x ?= y)%N
  | INum _, IStr _ => Lt
  | IStr _, INum _ => Gt
  | IStr s, IStr t => String.compare s t
  end.

(* the loop of comparePrerelease: a missing identifier is smaller than any identifier *)
Fixpoint pre_lex (p q : list ident) : comparison :=
  match p, q with
  | [], [] => Eq
  | [], _ :: _ => Lt
  | _ :: _, [] => Gt
  | a :: p', b :: q' => lex (ident_compare a b) (pre_lex p' q')
  end.

(* the tail of Compare: no pre-release beats any pre-release *)
Definition pre_compare (p q : list ident) : comparison :=
  match p, q with
  | [], [] => Eq
  | [], _ :: _ => Gt
  | _ :: _, [] => Lt
  | _, _ => pre_lex p q
  end.

(* what precedence looks at *)
Definition vkey (v : version) : N * N * N * list ident :=
  (vmajor v, vminor v, vpatch v, vpre v).

Definition key_compare (a b : N * N * N * list ident) : comparison :=
  let '(a1, a2, a3, ap) := a in
  let '(b1, b2, b3, bp) := b in
  lex (a1 ?= b1)%N (lex (a2 ?= b2)%N (lex (a3 ?= b3)%N (pre_compare ap bp))).

(* Version.Compare: Lt / Eq / Gt for -1 / 0 / 1 *)
Definition vcompare (a b : version) : comparison := key_compare (vkey a) (vkey b).

Definition vless (a b : version) : bool :=          (* a.LessThan(b) *)
  match vcompare a b with Lt => true | _ => false end.
Definition vgeb (a b : version) : bool := negb (vless a b).
Definition veqb (a b : version) : bool :=
  match vcompare a b with Eq => true | _ => false end.

Definition is_stable (v : version) : bool :=
  match vpre v with [] => true | _ => false end.

(* printing, for the correspondence run: the identifiers of Prerelease() *)
From Coq Require Import DecimalString DecimalN.
Definition show_N (n : N) : string := NilEmpty.string_of_uint (N.to_uint n).
Definition show_ident (i : ident) : string :=
  match i with INum n => show_N n | IStr s => s end.

(* C20_storage_read — reading release records whose bodies are arbitrary bytes.
   Transcribes pkg/storage/driver/secrets.go and cfgmaps.go (Get :64/:64, List :85/:89,
   Query :116/:121 — the two files have the same control flow), util.go decodeRelease as a
   Section variable (base64 + gzip + JSON are third-party: ANY function B -> option srel),
   pkg/storage/storage.go (ListDeployed/ListUninstalled :96-:110, Deployed :114, Last :230)
   and pkg/release/util/filter.go (Check :26, StatusFilter :71).
   decodeRelease returns a pointer and an error with exactly two shapes, (nil, err) and
   (&rls, nil): [option srel], None = (nil, err).  A decoded release whose JSON had no
   "info" object has rls.Info == nil: [sr_status = None]. *)
From Coq Require Import List String Bool ZArith.
From Helm Require Import Common.Assoc Misc.Panics.
Import ListNotations.
Local Open Scope string_scope.

Record srel := mkSrel {
  sr_name : string;
  sr_version : Z;
  sr_status : option string;              (* None: rls.Info == nil *)
  sr_labels : list (string * string)
}.

(* a Secret / ConfigMap object; so_data = None is a nil Data map *)
Record sobj (B : Type) := mkSobj {
  so_name : string;
  so_labels : list (string * string);
  so_data : option (list (string * B))
}.
Arguments mkSobj {B}.
Arguments so_name {B}.
Arguments so_labels {B}.
Arguments so_data {B}.

Definition sel_match (sel labels : list (string * string)) : bool :=
  forallb (fun kv => match aget (fst kv) labels with
                     | Some v => String.eqb v (snd kv)
                     | None => false
                     end) sel.

Definition with_labels (r : srel) (l : list (string * string)) : srel :=
  mkSrel (sr_name r) (sr_version r) (sr_status r) l.

(* util.go decodeRelease since 1478473: the third-party decoding (base64, gzip, JSON — [raw])
   followed by `if rls.Info == nil { rls.Info = &rspb.Info{} }`.  The driver functions below
   take ANY decoder; this is the one the drivers use. *)
Definition norm_info (r : srel) : srel :=
  match sr_status r with
  | None => mkSrel (sr_name r) (sr_version r) (Some EmptyString) (sr_labels r)
  | Some _ => r
  end.

Definition decode_release {B : Type} (raw : B -> option srel) (b : B) : option srel :=
  option_map norm_info (raw b).

Section Driver.
  Variable B : Type.
  Variable empty : B.                      (* what item.Data["release"] yields for a missing key or a nil map *)
  Variable dec : B -> option srel.         (* decodeRelease *)
  Variable valid_label : string -> bool.   (* validation.IsValidLabelValue(v) has no errors *)
  Variable is_system : string -> bool.     (* isSystemLabel *)

  (* reading a nil map or a missing key is not a panic in Go: it yields the zero value *)
  Definition data_release (o : sobj B) : B :=
    match so_data o with
    | None => empty
    | Some d => match aget "release" d with Some b => b | None => empty end
    end.

  Definition api_get (st : list (sobj B)) (key : string) : option (sobj B) :=
    find (fun o => String.eqb (so_name o) key) st.

  Definition api_list (st : list (sobj B)) (sel : list (string * string)) : list (sobj B) :=
    filter (fun o => sel_match sel (so_labels o)) st.

  Definition user_labels (l : list (string * string)) : list (string * string) :=
    filter (fun kv => negb (is_system (fst kv))) l.

  (* Get, as it is after fix 2a945c6 (secrets.go) / as it always was (cfgmaps.go) *)
  Definition drv_get (st : list (sobj B)) (key : string) : res srel :=
    match api_get st key with
    | None => Err                                            (* ErrReleaseNotFound *)
    | Some o =>
        let r := dec (data_release o) in                     (* r, err := decodeRelease(...) *)
        match r with
        | None => Err                                        (* if err != nil { return nil, err } *)
        | Some _ =>
            r' <- deref "r.Labels = ..." r ;;                (* r.Labels = filterSystemLabels(obj.Labels) *)
            Ok (with_labels r' (user_labels (so_labels o)))
        end
    end.

  (* Secrets.Get before 2a945c6: the assignment through r came before the error check *)
  Definition secrets_get_prefix (st : list (sobj B)) (key : string) : res srel :=
    match api_get st key with
    | None => Err
    | Some o =>
        let r := dec (data_release o) in
        r' <- deref "r.Labels = ..." r ;;
        match r with
        | Some _ => Ok (with_labels r' (user_labels (so_labels o)))
        | None => Err                                        (* return r, errors.Wrapf(err, ...) *)
        end
    end.

  (* the decode loop of List: undecodable items are skipped (continue) *)
  Fixpoint list_loop (flt : srel -> res bool) (items : list (sobj B)) : res (list srel) :=
    match items with
    | [] => Ok []
    | it :: t =>
        match dec (data_release it) with
        | None => list_loop flt t                            (* slog.Debug(...); continue *)
        | Some _ as p =>
            rls <- deref "rls.Labels = item.Labels" p ;;
            let rls := with_labels rls (so_labels it) in
            keep <- flt rls ;;                               (* a panic of the caller's filter propagates *)
            rest <- list_loop flt t ;;
            Ok (if keep then rls :: rest else rest)
        end
    end.

  Definition drv_list (st : list (sobj B)) (flt : srel -> res bool) : res (list srel) :=
    list_loop flt (api_list st [("owner", "helm")]).

  Definition drv_query (st : list (sobj B)) (q : list (string * string)) : res (list srel) :=
    if negb (forallb (fun kv => valid_label (snd kv)) q) then Err
    else
      let items := api_list st q in
      match items with
      | [] => Err                                            (* ErrReleaseNotFound *)
      | _ => list_loop (fun _ => Ok true) items
      end.

  (* the mutant "List fails on the first undecodable record instead of skipping it" *)
  Fixpoint list_loop_strict (flt : srel -> res bool) (items : list (sobj B)) : res (list srel) :=
    match items with
    | [] => Ok []
    | it :: t =>
        match dec (data_release it) with
        | None => Err
        | Some r =>
            let rls := with_labels r (so_labels it) in
            keep <- flt rls ;;
            rest <- list_loop_strict flt t ;;
            Ok (if keep then rls :: rest else rest)
        end
    end.

  (* ---- pkg/release/util/filter.go and pkg/storage/storage.go ---- *)

  (* StatusFilter(status), after fix b7c9b57 (rls is never nil here: Check tested it) *)
  Definition status_filter (status : string) (rls : srel) : res bool :=
    match sr_status rls with
    | None => Ok false                                       (* if rls.Info == nil { return false } *)
    | Some _ as i =>
        s <- deref "rls.Info.Status" i ;;
        Ok (String.eqb s status)
    end.

  (* before b7c9b57 *)
  Definition status_filter_prefix (status : string) (rls : srel) : res bool :=
    s <- deref "rls.Info.Status" (sr_status rls) ;;
    Ok (String.eqb s status).

  Definition list_deployed (st : list (sobj B)) : res (list srel) :=
    drv_list st (status_filter "deployed").
  Definition list_uninstalled (st : list (sobj B)) : res (list srel) :=
    drv_list st (status_filter "uninstalled").
  Definition list_deployed_prefix (st : list (sobj B)) : res (list srel) :=
    drv_list st (status_filter_prefix "deployed").

  Definition history (st : list (sobj B)) (name : string) : res (list srel) :=
    drv_query st [("name", name); ("owner", "helm")].

  (* Deployed: ls[0] after `if len(ls) == 0 { return nil, err }`; the sort in between
     (Reverse(ls, SortByRevision)) permutes and keeps the length: [rev_sort] is any such function *)
  Variable rev_sort : list srel -> list srel.

  Definition deployed (st : list (sobj B)) (name : string) : res srel :=
    match drv_query st [("name", name); ("owner", "helm"); ("status", "deployed")] with
    | Ok ls =>
        if Nat.eqb (List.length ls) 0 then Err
        else index (rev_sort ls) 0
    | Err => Err
    | Panic w => Panic w
    end.

  (* Last: h[0] after `if len(h) == 0` *)
  Definition last (st : list (sobj B)) (name : string) : res srel :=
    h <- history st name ;;
    if Nat.eqb (List.length h) 0 then Err
    else index (rev_sort h) 0.
End Driver.

(* what List is specified to return: the decodable records among those carrying
   owner=helm, with the object's labels, that pass the filter, in order *)
Definition decodable {B : Type} (empty : B) (dec : B -> option srel) (items : list (sobj B)) : list srel :=
  flat_map (fun it => match dec (data_release B empty it) with
                      | Some r => [with_labels r (so_labels it)]
                      | None => []
                      end) items.

(* Repository index: loading, version queries, tag matching and dependency resolution as
   Helm does them.  Definitions only (proofs: IndexProofs.v).

   pkg/repo/index.go            loadIndex (343-381), ChartVersions.Less (66-77),
                                SortEntries (171-175), IndexFile.Get (181-221)
   pkg/chart/v2/metadata.go     Metadata.Validate (88-152), sanitizeString (168-178)
   pkg/registry/util.go         GetTagMatchingVersionOrConstraint (57-91)
   internal/resolver/resolver.go Resolve (55-206), the cached-index branch

   Third-party parts: the YAML/JSON decoder (its result is the input [index_file]),
   sort.Sort (any function returning a sorted permutation, see IndexProofs.v) and constraint
   parsing/checking of Masterminds/semver ([cvalid], [sat]: parameters of every function). *)
From Coq Require Import List String Ascii Bool NArith.
From Helm Require Import Misc.Semver.
Import ListNotations.
Local Open Scope string_scope.

(* ---- entries ---- *)

(* repo.ChartVersion with the fields the property talks about; Digest identifies the record *)
Record entry := mkEntry {
  ename : string; eversion : string; eapi : string; etype : string;
  eurls : list string; edigest : string
}.

(* an element of the decoded []*ChartVersion: nil, a record whose embedded *Metadata is nil
   (no metadata key in the file), or a record with metadata *)
Inductive cv :=
| CNull
| CNoMeta (urls : list string) (digest : string)
| CFull (e : entry).

Definition set_name (e : entry) (n : string) : entry :=
  mkEntry n (eversion e) (eapi e) (etype e) (eurls e) (edigest e).
Definition set_api (e : entry) (a : string) : entry :=
  mkEntry (ename e) (eversion e) a (etype e) (eurls e) (edigest e).

(* ---- Metadata.Validate ---- *)

(* sanitizeString on ASCII: white space becomes a blank, other control characters vanish;
   bytes >= 128 (well-formed printable UTF-8) are kept *)
Fixpoint sanitize (s : string) : string :=
  match s with
  | EmptyString => EmptyString
  | String c t =>
      let n := N_of_ascii c in
      if (128 <=? n)%N then String c (sanitize t)
      else if ((9 <=? n)%N && (n <=? 13)%N) || (n =? 32)%N then String " " (sanitize t)
      else if (32 <=? n)%N && (n <=? 126)%N then String c (sanitize t)
      else sanitize t
  end.

(* strip trailing slashes *)
Fixpoint rstrip_slash (s : string) : string :=
  match s with
  | EmptyString => EmptyString
  | String c t =>
      let t' := rstrip_slash t in
      if Ascii.eqb c "/" && str_is_empty t' then EmptyString else String c t'
  end.

(* filepath.Base on a slash-separated path *)
Definition filepath_base (s : string) : string :=
  if str_is_empty s then "."
  else let e := last (split_on "/" (rstrip_slash s)) EmptyString in
       if str_is_empty e then "/" else e.

Definition valid_type (t : string) : bool :=
  String.eqb t "" || String.eqb t "application" || String.eqb t "library".

(* Validate on the modelled fields; Some e' = nil error, e' carries the sanitised name *)
Definition validate (e : entry) : option entry :=
  let n := sanitize (ename e) in
  if String.eqb (eapi e) "" then None
  else if String.eqb n "" then None
  else if negb (String.eqb n (filepath_base n)) then None
  else if String.eqb (eversion e) "" then None
  else if negb (is_valid_version (eversion e)) then None
  else if negb (valid_type (etype e)) then None
  else Some (set_name e n).

(* ---- loadIndex, one chart name ---- *)

Fixpoint remove_at {A : Type} (i : nat) (l : list A) : list A :=
  match l, i with
  | [], _ => []
  | _ :: t, O => t
  | x :: t, S j => x :: remove_at j t
  end.

Fixpoint set_at {A : Type} (i : nat) (v : A) (l : list A) : list A :=
  match l, i with
  | [], _ => []
  | _ :: t, O => v :: t
  | x :: t, S j => x :: set_at j v t
  end.

(* the non-nil branch of the loop body: missing metadata -> empty metadata, empty
   apiVersion -> "v1" *)
Definition with_defaults (c : cv) : option entry :=
  match c with
  | CNull => None
  | CNoMeta u d => Some (mkEntry "" "" "v1" "" u d)
  | CFull e => Some (if String.eqb (eapi e) "" then set_api e "v1" else e)
  end.

(* for idx := len(cvs)-1; idx >= 0; idx-- { ... }   with k = idx+1 *)
Fixpoint load_loop (k : nat) (cvs : list cv) : list cv :=
  match k with
  | O => cvs
  | S idx =>
      match nth_error cvs idx with
      | None => cvs                                        (* idx < len(cvs) always *)
      | Some c =>
          match with_defaults c with
          | None => load_loop idx (remove_at idx cvs)      (* nil entry: removed (fix 161cdc1) *)
          | Some e =>
              match validate e with
              | Some e' => load_loop idx (set_at idx (CFull e') cvs)
              | None => load_loop idx (remove_at idx cvs)  (* invalid entry: removed *)
              end
          end
      end
  end.

(* what sort.Sort's Less dereferences: every element must be a record with metadata,
   None = nil-pointer panic *)
Fixpoint all_full (cvs : list cv) : option (list entry) :=
  match cvs with
  | [] => Some []
  | CFull e :: t => option_map (cons e) (all_full t)
  | _ :: _ => None
  end.

(* ChartVersions.Less(a, b) *)
Definition go_less (a b : entry) : bool :=
  match parse_version (eversion a) with
  | None => true                          (* failed parse pushes to the back *)
  | Some i =>
      match parse_version (eversion b) with
      | None => false
      | Some j => vless i j
      end
  end.

Section WithSort.
  (* sort.Sort(sort.Reverse(versions)) *)
  Variable sort : list entry -> list entry.

  Definition load_versions (cvs : list cv) : option (list entry) :=
    option_map sort (all_full (load_loop (List.length cvs) cvs)).

  Fixpoint load_all (es : list (string * list cv)) : option (list (string * list entry)) :=
    match es with
    | [] => Some []
    | (n, cvs) :: t =>
        match load_versions cvs, load_all t with
        | Some vs, Some r => Some ((n, vs) :: r)
        | _, _ => None
        end
    end.
End WithSort.

(* ---- loadIndex, the file ---- *)

(* the result of reading and decoding the file: no bytes, decoder error, or the decoded
   apiVersion and entries map (listed by key) *)
Inductive index_file :=
| IFEmpty
| IFBad
| IFParsed (api : string) (entries : list (string * list cv)).

Inductive load_err := EEmpty | EUnmarshal | ENoAPI.

Inductive load_result :=
| LErr (e : load_err)
| LPanic
| LOk (idx : list (string * list entry)).

Definition load_index (sort : list entry -> list entry) (f : index_file) : load_result :=
  match f with
  | IFEmpty => LErr EEmpty
  | IFBad => LErr EUnmarshal
  | IFParsed api es =>
      match load_all sort es with
      | None => LPanic
      | Some idx => if String.eqb api "" then LErr ENoAPI else LOk idx
      end
  end.

(* ---- a concrete sort: insertion sort by the reversed Less ---- *)

Fixpoint insert_desc (e : entry) (l : list entry) : list entry :=
  match l with
  | [] => [e]
  | x :: t => if go_less e x then x :: insert_desc e t else e :: l
  end.

Fixpoint isort (l : list entry) : list entry :=
  match l with
  | [] => []
  | e :: t => insert_desc e (isort t)
  end.

(* ---- queries ---- *)

Fixpoint assoc {V : Type} (k : string) (l : list (string * V)) : option V :=
  match l with
  | [] => None
  | (k', v) :: t => if String.eqb k k' then Some v else assoc k t
  end.

Section WithConstraints.
  (* semver.NewConstraint(c) succeeds;  constraint.Check(v) *)
  Variable cvalid : string -> bool.
  Variable sat : string -> version -> bool.

  Definition entry_sat (c : string) (e : entry) : bool :=
    match parse_version (eversion e) with
    | Some v => sat c v
    | None => false                      (* unparsable: continue *)
    end.

  Inductive get_result :=
  | GErrNoName | GErrNoVersion | GErrConstraint | GErrNotFound
  | GOk (e : entry).

  (* IndexFile.Get(name, version) *)
  Definition get (idx : list (string * list entry)) (name ver : string) : get_result :=
    match assoc name idx with
    | None => GErrNoName
    | Some [] => GErrNoVersion
    | Some vs =>
        if String.eqb ver "" then
          (* constraint "*" (its parse error is ignored), no exact-match pass *)
          match find (entry_sat "*") vs with
          | Some e => GOk e
          | None => GErrNotFound
          end
        else if negb (cvalid ver) then GErrConstraint
        else
          match find (fun e => String.eqb ver (eversion e)) vs with
          | Some e => GOk e
          | None =>
              match find (entry_sat ver) vs with
              | Some e => GOk e
              | None => GErrNotFound
              end
          end
    end.

  Inductive tag_result := TErrConstraint | TErrNotFound | TOk (t : string).

  Definition tag_sat (c : string) (t : string) : bool :=
    match parse_version t with
    | Some v => sat c v
    | None => false
    end.

  (* registry.GetTagMatchingVersionOrConstraint(tags, versionString): here the exact-match
     pass comes BEFORE the constraint is parsed *)
  Definition tag_match (tags : list string) (ver : string) : tag_result :=
    if String.eqb ver "" then
      match find (tag_sat "*") tags with
      | Some t => TOk t
      | None => TErrNotFound
      end
    else
      match find (String.eqb ver) tags with
      | Some t => TOk t
      | None =>
          if negb (cvalid ver) then TErrConstraint
          else match find (tag_sat ver) tags with
               | Some t => TOk t
               | None => TErrNotFound
               end
      end.

  (* ---- Resolve, dependencies served by one cached repository index ---- *)

  Record dep := mkDep { dname : string; dconstraint : string }.

  Definition has_urls (e : entry) : bool :=
    match eurls e with [] => false | _ => true end.

  Definition dep_candidate (c : string) (e : entry) : bool :=
    match parse_version (eversion e) with
    | Some v => has_urls e && sat c v
    | None => false
    end.

  Inductive dep_result :=
  | DFail                 (* return nil, err  (bad constraint, chart not in the index) *)
  | DMissing              (* appended to [missing] *)
  | DLocked (v : string). (* v.Original() *)

  Definition resolve_one (idx : list (string * list entry)) (d : dep) : dep_result :=
    if negb (cvalid (dconstraint d)) then DFail
    else match assoc (dname d) idx with
         | None => DFail
         | Some vs =>
             match find (dep_candidate (dconstraint d)) vs with
             | Some e => DLocked (eversion e)
             | None => DMissing
             end
         end.

  (* the loop: an immediate failure returns at once, misses are collected and fail at the
     end; Some l = the lock's versions, None = error *)
  Fixpoint resolve_loop (idx : list (string * list entry)) (ds : list dep)
           (missing : bool) (acc : list string) : option (list string) :=
    match ds with
    | [] => if missing then None else Some (rev acc)
    | d :: t =>
        match resolve_one idx d with
        | DFail => None
        | DMissing => resolve_loop idx t true acc
        | DLocked v => resolve_loop idx t missing (v :: acc)
        end
    end.

  Definition resolve (lr : load_result) (ds : list dep) : option (list string) :=
    match ds with
    | [] => Some []                       (* no dependency: the index is never read *)
    | _ =>
        match lr with
        | LOk idx => resolve_loop idx ds false []
        | _ => None                       (* "no cached repository ... found" *)
        end
    end.
End WithConstraints.


(* ---- specification vocabulary (used by the statements in Props/C18.v) ---- *)

(* the valid entry a decoded element stands for, if any: defaults applied, validator passed *)
Definition keep (c : cv) : list entry :=
  match with_defaults c with
  | None => []
  | Some e => match validate e with Some e' => [e'] | None => [] end
  end.

Definition valid_entries (cvs : list cv) : list entry := flat_map keep cvs.

(* a is at least as new as b (both parse) *)
Definition ege (a b : entry) : Prop :=
  exists va vb, parse_version (eversion a) = Some va /\ parse_version (eversion b) = Some vb /\
                vcompare va vb <> Lt.

Definition tge (a b : string) : Prop :=
  exists va vb, parse_version a = Some va /\ parse_version b = Some vb /\ vcompare va vb <> Lt.

(* [r] is an element of [l] accepted by [p] that is at least as new as every accepted element *)
Definition best_entry (p : version -> bool) (l : list entry) (r : entry) : Prop :=
  In r l /\
  (exists v, parse_version (eversion r) = Some v /\ p v = true) /\
  forall e v, In e l -> parse_version (eversion e) = Some v -> p v = true -> ege r e.

Definition none_entry (p : version -> bool) (l : list entry) : Prop :=
  forall e v, In e l -> parse_version (eversion e) = Some v -> p v = false.

Definition best_tag (p : version -> bool) (l : list string) (r : string) : Prop :=
  In r l /\
  (exists v, parse_version r = Some v /\ p v = true) /\
  forall t v, In t l -> parse_version t = Some v -> p v = true -> tge r t.

Definition none_tag (p : version -> bool) (l : list string) : Prop :=
  forall t v, In t l -> parse_version t = Some v -> p v = false.

(* C20 — "no unbounded recursion" in the template engine: the depth accounting of
   pkg/engine/engine.go includeFun / tplFun, transcribed as a state machine.

   One map of counters (includedNames) is shared by every include / tpl closure of one render.
     includeFun(name):   [since 55109f6]  if m[includeDepthKey] > recursionMaxNums -> error
                                          m[includeDepthKey]++ ; defer m[includeDepthKey]--
                         if v, ok := m[name]; ok { if v > recursionMaxNums -> error ; m[name]++ }
                         else { m[name] = 1 }
                         ExecuteTemplate(name)            (* the body: any nested calls *)
                         m[name]--
     tplFun(text):       [since 156f591]  if m[tplDepthKey] > recursionMaxNums -> error
                                          m[tplDepthKey]++ ; defer m[tplDepthKey]--
                         Clone, Parse(text), Execute       (* the body *)
   Every include / tpl starts a NEW text/template execution state, whose own depth counter
   (the `template` action: exec.go walkTemplate, error at depth == maxExecDepth) starts at 0.

   The machine: a call stack of frames (kind, argument, the counter keys the frame incremented,
   the `template` depth of the state it suspended) and the counter map.  What the templates
   do is not modelled: an execution is ANY sequence of enter / leave events (the adversary is
   the chart), and the theorems of PanicsRecProofs.v hold for all of them.  How a counter key
   is formed from the argument is a parameter ([rc_inc_key], [rc_tpl_key]): the translator
   (Gen/C20Rec.v) extracts it from engine.go on every run.  Definitions only. *)
From Coq Require Import List String Ascii Bool ZArith.
From Helm Require Import Common.Assoc.
Import ListNotations.
Local Open Scope string_scope.
Local Open Scope Z_scope.

Inductive kind := KInclude | KTpl | KTemplate.

Definition kind_eqb (a b : kind) : bool :=
  match a, b with KInclude, KInclude | KTpl, KTpl | KTemplate, KTemplate => true | _, _ => false end.

Record rcfg := mkRcfg {
  rc_max : Z;                       (* recursionMaxNums *)
  rc_tmax : Z;                      (* text/template maxExecDepth (100000) *)
  rc_total : option string;         (* includeDepthKey; None = before 55109f6 *)
  rc_inc_key : string -> string;    (* key of the per-name include counter: the name *)
  rc_tpl_on : bool;                 (* false = before 156f591: tpl not counted *)
  rc_tpl_key : string -> string     (* key of the tpl counter as a function of the text *)
}.

Record frame := mkFrame {
  f_kind : kind;
  f_arg : string;
  f_keys : list string;             (* the counters this frame incremented (decremented on return) *)
  f_saved : Z                       (* `template` depth of the execution state it suspended *)
}.

Record rst := mkRst {
  s_stack : list frame;             (* innermost first *)
  s_cnt : list (string * Z);        (* includedNames *)
  s_tdepth : Z                      (* depth of the current text/template execution state *)
}.

Definition rinit : rst := mkRst [] [] 0.

(* m[k] of a Go map[string]int: 0 when absent *)
Definition cget (k : string) (m : list (string * Z)) : Z :=
  match aget k m with Some v => v | None => 0 end.

Definition cinc (k : string) (m : list (string * Z)) := aset k (cget k m + 1) m.
Definition cdec (k : string) (m : list (string * Z)) := aset k (cget k m - 1) m.

Definition push (s : rst) (k : kind) (arg : string) (keys : list string) (m : list (string * Z)) (td : Z) : rst :=
  mkRst (mkFrame k arg keys (s_tdepth s) :: s_stack s) m td.

(* [None]: the call is refused with an error; the counters are as before the call (the deferred
   decrement of the total counter has run) *)
Definition enter (c : rcfg) (s : rst) (k : kind) (arg : string) : option rst :=
  let m := s_cnt s in
  match k with
  | KInclude =>
      let total :=
        match rc_total c with
        | Some tk => if cget tk m >? rc_max c then None else Some (cinc tk m, [tk])
        | None => Some (m, [])
        end in
      match total with
      | None => None
      | Some (m1, ks) =>
          let nk := rc_inc_key c arg in
          match aget nk m1 with
          | Some v => if v >? rc_max c then None
                      else Some (push s KInclude arg (ks ++ [nk]) (aset nk (v + 1) m1) 0)
          | None => Some (push s KInclude arg (ks ++ [nk]) (aset nk 1 m1) 0)
          end
      end
  | KTpl =>
      if rc_tpl_on c then
        let tk := rc_tpl_key c arg in
        if cget tk m >? rc_max c then None
        else Some (push s KTpl arg [tk] (cinc tk m) 0)
      else Some (push s KTpl arg [] m 0)
  | KTemplate =>
      if s_tdepth s =? rc_tmax c then None
      else Some (push s KTemplate arg [] m (s_tdepth s + 1))
  end.

Definition leave (s : rst) : rst :=
  match s_stack s with
  | [] => s
  | f :: t => mkRst t (fold_left (fun m k => cdec k m) (f_keys f) (s_cnt s)) (f_saved f)
  end.

(* ---- executions as event sequences (every prefix of every execution, terminating or not) ---- *)
Inductive ev := EEnter (k : kind) (arg : string) | ELeave.

(* a refused call leaves the state as it was; in the real engine the error then unwinds every
   frame (only leaves follow) — allowing anything to follow is a superset of that *)
Definition step (c : rcfg) (s : rst) (e : ev) : rst :=
  match e with
  | EEnter k arg => match enter c s k arg with Some s' => s' | None => s end
  | ELeave => leave s
  end.

Definition run_trace (c : rcfg) (s : rst) (t : list ev) : rst := fold_left (step c) t s.

Definition count_kind (k : kind) (st : list frame) : nat :=
  List.length (filter (fun f => kind_eqb (f_kind f) k) st).

(* ---- terminating executions as call trees, with the engine's abort-on-error ---- *)
Inductive call := Call (k : kind) (arg : string) (body : list call).

(* the number of calls entered, or None when the render fails (a refused call, or an include /
   template of a name that is not defined: ExecuteTemplate fails after the counters were
   taken) *)
Fixpoint run_call (c : rcfg) (defined : string -> bool) (x : call) (s : rst) (n : Z) {struct x} : option (rst * Z) :=
  match x with
  | Call k arg body =>
      match enter c s k arg with
      | None => None
      | Some s1 =>
          if (match k with KTpl => true | _ => defined arg end) then
            match (fix go (l : list call) (s : rst) (n : Z) {struct l} : option (rst * Z) :=
                     match l with
                     | [] => Some (s, n)
                     | y :: t => match run_call c defined y s n with
                                 | Some (s', n') => go t s' n'
                                 | None => None
                                 end
                     end) body s1 (n + 1) with
            | Some (s2, n2) => Some (leave s2, n2)
            | None => None
            end
          else None
      end
  end.

Fixpoint run_calls (c : rcfg) (defined : string -> bool) (l : list call) (s : rst) (n : Z) : option (rst * Z) :=
  match l with
  | [] => Some (s, n)
  | y :: t => match run_call c defined y s n with
              | Some (s', n') => run_calls c defined t s' n'
              | None => None
              end
  end.

(* [rep] nested calls of the same kind around [inner]; the argument of level i is [arg i] *)
Fixpoint nest (k : kind) (arg : nat -> string) (rep : nat) (inner : list call) : list call :=
  match rep with
  | O => inner
  | S r => [Call k (arg rep) (nest k arg r inner)]
  end.

(* ---- the engine as it stands, and its two predecessors ---- *)
Definition tpl_depth_key : string := String (ascii_of_nat 0) "tpl".
Definition include_depth_key : string := String (ascii_of_nat 0) "include".

Definition engine_cfg : rcfg :=
  mkRcfg 1000 100000 (Some include_depth_key) (fun n => n) true (fun _ => tpl_depth_key).
(* before 55109f6: include counted per name only *)
Definition engine_cfg_per_name : rcfg :=
  mkRcfg 1000 100000 None (fun n => n) true (fun _ => tpl_depth_key).
(* the seeded change C20-7: tpl counted per text *)
Definition engine_cfg_tpl_per_text : rcfg :=
  mkRcfg 1000 100000 (Some include_depth_key) (fun n => n) true (fun t => tpl_depth_key ++ t).

(* distinct short strings *)
Fixpoint pos_str (p : positive) : string :=
  match p with
  | xH => "1"
  | xO q => String "0"%char (pos_str q)
  | xI q => String "1"%char (pos_str q)
  end.
Definition nat_str (n : nat) : string := pos_str (Pos.of_succ_nat n).

(* Proofs for Misc/PanicsIndex.v *)
From Coq Require Import List String Bool ZArith Lia Permutation.
From Helm Require Import Common.Assoc Misc.Panics Misc.PanicsDeps Misc.PanicsDepsProofs Misc.PanicsIndex.
Import ListNotations.
Local Open Scope string_scope.

Definition clean (e : centry) : Prop := exists m, e = Some (Some m).
Definition clean_entries (es : list (string * list centry)) : Prop :=
  Forall (fun ne => Forall clean (snd ne)) es.

Lemma index_nat {A : Type} (l : list A) (i : nat) :
  i < List.length l -> exists a, index l (Z.of_nat i) = Ok a /\ nth_error l i = Some a.
Proof.
  intros H. unfold index.
  destruct (Z.ltb (Z.of_nat i) 0) eqn:E; [apply Z.ltb_lt in E; lia|].
  rewrite Nat2Z.id. destruct (nth_error l i) eqn:N; [eauto|].
  apply nth_error_None in N. lia.
Qed.

Lemma remove_at_ok (cvs : list centry) (i : nat) :
  i < List.length cvs ->
  remove_at cvs (Z.of_nat i) = Ok (firstn i cvs ++ skipn (S i) cvs)%list.
Proof.
  intros H. unfold remove_at, slice_to, slice_from.
  destruct (Z.ltb (Z.of_nat i) 0) eqn:E1; [apply Z.ltb_lt in E1; lia|].
  destruct (Z.ltb (Z.of_nat (List.length cvs)) (Z.of_nat i)) eqn:E2; [apply Z.ltb_lt in E2; lia|].
  simpl.
  destruct (Z.ltb (Z.of_nat i + 1) 0) eqn:E3; [apply Z.ltb_lt in E3; lia|].
  destruct (Z.ltb (Z.of_nat (List.length cvs)) (Z.of_nat i + 1)) eqn:E4; [apply Z.ltb_lt in E4; lia|].
  simpl. rewrite Nat2Z.id. replace (Z.to_nat (Z.of_nat i + 1)) with (S i) by lia. reflexivity.
Qed.

Lemma replace_at_length {A : Type} (l : list A) i x : List.length (replace_at l i x) = List.length l.
Proof. revert i. induction l; intros [|i]; simpl; auto. Qed.

Lemma skipn_replace_at {A : Type} (l : list A) i x :
  i < List.length l -> skipn i (replace_at l i x) = x :: skipn (S i) l.
Proof.
  revert i. induction l as [|a t IH]; intros [|i] H; simpl in *; try lia; auto.
  apply IH. lia.
Qed.

Lemma skipn_S_replace_at {A : Type} (l : list A) i x :
  skipn (S i) (replace_at l i x) = skipn (S i) l.
Proof. revert i. induction l as [|a t IH]; intros [|i]; simpl; auto. apply IH. Qed.

Lemma firstn_replace_at_length {A : Type} (l : list A) i x :
  List.length (firstn i (replace_at l i x)) = List.length (firstn i l).
Proof. rewrite !firstn_length, replace_at_length. reflexivity. Qed.

Lemma skipn_after_remove {A : Type} (l : list A) i :
  i < List.length l -> skipn i (firstn i l ++ skipn (S i) l) = skipn (S i) l.
Proof.
  intros H. rewrite skipn_app.
  rewrite firstn_length. replace (Nat.min i (List.length l)) with i by lia.
  rewrite Nat.sub_diag. simpl.
  rewrite skipn_all2; [reflexivity|]. rewrite firstn_length. lia.
Qed.

Section I.
  Variable validate : imeta -> bool.
  Variable valid_semver : string -> bool.
  Variable C : Type.
  Variable parse_constraint : string -> option C.
  Variable check : C -> string -> bool.
  Variable sorter : list centry -> list centry.
  Hypothesis sorter_perm : forall l, Permutation (sorter l) l.
  Hypothesis star_parses : parse_constraint "*" <> None.

  (* the repaired clean-up loop: every index it uses is in range, and what is left are
     entries with metadata *)
  Lemma load_loop_ok : forall k cvs,
    k <= List.length cvs -> Forall clean (skipn k cvs) ->
    post (Forall clean) (load_loop validate true k cvs).
  Proof.
    induction k as [|idx IH]; intros cvs Hk Hc; simpl; [exact Hc|].
    destruct (index_nat cvs idx) as [e [-> Hn]]; [lia|]. simpl.
    assert (Hrm : forall l, idx < List.length l -> skipn (S idx) l = skipn (S idx) cvs ->
                  post (Forall clean) (bind (remove_at l (Z.of_nat idx)) (load_loop validate true idx))).
    { intros l Hl Hs. rewrite remove_at_ok by exact Hl. cbn [bind]. apply IH.
      - rewrite app_length, firstn_length, skipn_length. lia.
      - rewrite skipn_after_remove by exact Hl. rewrite Hs. exact Hc. }
    destruct e as [md|].
    - match goal with |- context [validate ?m] => set (m' := m) end.
      destruct (validate m').
      + apply IH; [rewrite replace_at_length; lia|].
        rewrite skipn_replace_at by lia. constructor; [eexists; reflexivity|exact Hc].
      + apply Hrm; [rewrite replace_at_length; lia|apply skipn_S_replace_at].
    - apply Hrm; [lia|reflexivity].
  Qed.

  Lemma entry_version_clean e : clean e -> exists v, entry_version e = Ok v.
  Proof. intros [m ->]. unfold entry_version. simpl. eexists. reflexivity. Qed.

  Lemma all_versions_clean l : Forall clean l -> exists vs, all_versions l = Ok vs.
  Proof.
    induction 1 as [|e t He Ht [vs IH]]; simpl; [eauto|].
    destruct (entry_version_clean e He) as [v ->]. simpl. rewrite IH. simpl. eauto.
  Qed.

  Lemma sort_versions_ok l : Forall clean l -> post (Forall clean) (sort_versions sorter l).
  Proof.
    intros H. unfold sort_versions. destruct (Nat.ltb (List.length l) 2); [exact H|].
    destruct (all_versions_clean l H) as [vs ->]. simpl.
    rewrite Forall_forall in *. intros x Hx. apply H.
    eapply Permutation_in; [apply sorter_perm|exact Hx].
  Qed.

  Lemma load_entries_ok es : post clean_entries (load_entries validate true es).
  Proof.
    induction es as [|[name cvs] t IH]; simpl; [constructor|].
    eapply post_bind; [apply load_loop_ok; [lia|]|].
    - rewrite skipn_all. constructor.
    - intros cvs' Hc. eapply post_bind; [apply IH|]. intros t' Ht. simpl. constructor; auto.
  Qed.

  Lemma sort_entries_ok es : clean_entries es -> post clean_entries (sort_entries sorter es).
  Proof.
    induction 1 as [|[name cvs] t Hc Ht IH]; simpl; [constructor|].
    eapply post_bind; [apply sort_versions_ok; exact Hc|]. intros cvs' Hc'.
    eapply post_bind; [apply IH|]. intros t' Ht'. simpl. constructor; auto.
  Qed.

  Theorem load_index_ok r :
    post (fun i => clean_entries (entries_of i)) (load_index validate sorter true r).
  Proof.
    unfold load_index.
    eapply post_bind; [apply load_entries_ok|]. intros es Hes.
    eapply post_bind; [apply sort_entries_ok; exact Hes|]. intros es' Hes'.
    destruct (String.eqb (ri_api r) EmptyString); simpl; auto.
    unfold entries_of. simpl. destruct (ri_entries r); [exact Hes'|constructor].
  Qed.

  Lemma exact_loop_ok version vs :
    Forall clean vs -> post (fun o => match o with Some e => clean e | None => True end) (exact_loop version vs).
  Proof.
    induction 1 as [|e t He Ht IH]; simpl; auto.
    destruct (entry_version_clean e He) as [v ->]. simpl.
    destruct (String.eqb version v); simpl; auto.
  Qed.

  Lemma check_loop_ok c vs :
    Forall clean vs -> post (fun o => match o with Some e => clean e | None => True end) (check_loop valid_semver C check c vs).
  Proof.
    induction 1 as [|e t He Ht IH]; simpl; auto.
    destruct (entry_version_clean e He) as [v ->]. simpl.
    destruct (negb (valid_semver v)); auto.
    destruct (check c v); simpl; auto.
  Qed.

  Lemma aget_clean name es vs : clean_entries es -> aget name es = Some vs -> Forall clean vs.
  Proof.
    intros H E. apply aget_In in E. unfold clean_entries in H. rewrite Forall_forall in H.
    exact (H _ E).
  Qed.

  Theorem get_ok idx name version :
    clean_entries (entries_of idx) ->
    post clean (get valid_semver C parse_constraint check idx name version).
  Proof.
    intros Hc. unfold get.
    destruct (aget name (entries_of idx)) as [vs|] eqn:E; simpl; auto.
    pose proof (aget_clean _ _ _ Hc E) as Hvs.
    destruct (Nat.eqb (List.length vs) 0); simpl; auto.
    assert (Hfin : forall oc, oc <> None ->
      post clean (ex <- (if negb (String.eqb version EmptyString) then exact_loop version vs else Ok None) ;;
                  match ex with
                  | Some ver => Ok ver
                  | None => c <- deref "constraint.Check" oc ;;
                            r <- check_loop valid_semver C check c vs ;;
                            match r with Some ver => Ok ver | None => Err end
                  end)).
    { intros oc Hoc.
      eapply post_bind with (P := fun o => match o with Some e => clean e | None => True end).
      - destruct (negb (String.eqb version EmptyString)); [apply exact_loop_ok; auto|simpl; auto].
      - intros [ver|] Hver; simpl; auto.
        destruct oc as [c|]; [|congruence]. simpl.
        eapply post_bind; [apply check_loop_ok; auto|]. intros [ver|] Hver'; simpl; auto. }
    destruct (String.eqb version EmptyString) eqn:Ev.
    - cbn [bind]. apply Hfin. exact star_parses.
    - destruct (parse_constraint version) as [c|]; [|simpl; auto].
      cbn [bind]. apply Hfin. discriminate.
  Qed.

  Lemma clean_entries_aset name l es :
    clean_entries es -> Forall clean l -> clean_entries (aset name l es).
  Proof.
    unfold clean_entries. induction es as [|[k v] t IH]; simpl; intros H Hl.
    - constructor; auto.
    - inversion H; subst. destruct (String.eqb name k); constructor; auto.
  Qed.

  Theorem merge_ok i f :
    clean_entries (entries_of i) -> clean_entries (entries_of f) ->
    post (fun r => clean_entries (entries_of r)) (merge valid_semver C parse_constraint check true i f).
  Proof.
    intros Hi Hf. unfold merge.
    assert (Hcvs : Forall clean (flat_map snd (entries_of f))).
    { clear - Hf. induction Hf as [|[n l] t Hl Ht IH]; simpl; [constructor|].
      apply Forall_app; split; auto. }
    eapply post_bind with (P := clean_entries).
    - unfold entries_of in Hi. destruct (ri_entries i); simpl; [exact Hi|constructor].
    - intros es Hes. revert es Hes.
      induction Hcvs as [|cv t Hcv Ht IH]; intros es Hes; simpl.
      + unfold entries_of. simpl. destruct (ri_entries i); [exact Hes|].
        destruct es; [constructor|exact Hes].
      + destruct Hcv as [m ->]. simpl.
        pose proof (get_ok (mkRaw (ri_api i) (Some es)) (im_name m) (im_version m) Hes) as Hg.
        destruct (get _ _ _ _ _ _ _); simpl in *; try tauto.
        * apply IH. exact Hes.
        * apply IH. apply clean_entries_aset; auto.
          apply Forall_app; split.
          -- destruct (aget (im_name m) es) eqn:E; [eapply aget_clean; eauto|constructor].
          -- constructor; [eexists; reflexivity|constructor].
  Qed.
  (* ---- search.Index.AddRepo ---- *)
  Lemma indstr_reads_clean e : clean e -> exists n, indstr_reads e = Ok n.
  Proof. intros [m ->]. unfold indstr_reads. simpl. eexists. reflexivity. Qed.

  Lemma add_all_ok fname ref : Forall clean ref -> no_panic (add_all fname ref).
  Proof.
    induction 1 as [|e t He Ht IH]; simpl; auto.
    destruct (entry_version_clean e He) as [v ->]. simpl.
    destruct (indstr_reads_clean e He) as [n ->]. simpl.
    destruct (add_all fname t); simpl in *; auto.
  Qed.

  Lemma add_repo_loop_ok nil_slice all rname es :
    clean_entries es -> no_panic (add_repo_loop true nil_slice all rname es).
  Proof.
    induction 1 as [|[name ref] t Hc Ht IH]; simpl; auto. simpl in Hc.
    match goal with |- no_panic (bind ?r _) => assert (Hh : no_panic r) end.
    { destruct (Nat.eqb (List.length ref) 0) eqn:E; simpl; auto.
      destruct all; [now apply add_all_ok|].
      destruct ref as [|r0 rt]; [discriminate|]. inversion Hc; subst. simpl.
      destruct (indstr_reads_clean r0 ltac:(assumption)) as [n ->]. simpl. auto. }
    match goal with |- no_panic (bind ?r _) => destruct r end; simpl in *; auto.
    destruct (add_repo_loop true nil_slice all rname t); simpl in *; auto.
  Qed.

  Theorem add_repo_ok nil_slice all rname ind :
    clean_entries (entries_of ind) -> no_panic (add_repo sorter true nil_slice all rname ind).
  Proof.
    intros Hc. unfold add_repo.
    pose proof (sort_entries_ok (entries_of ind) Hc) as Hs.
    destruct (sort_entries sorter (entries_of ind)) as [es| |]; simpl in *; auto.
    now apply add_repo_loop_ok.
  Qed.
End I.

(* ---------- the two repaired defects, on the pre-fix transcriptions ---------- *)
Definition idx_f3 : rawindex :=
  mkRaw "v1" (Some [("a", [None; Some (Some (mkIMeta "a" "1.0.0" "v2"))])]).

Lemma load_index_prefix_panics :
  is_panic (load_index (fun _ => true) (fun l => l) false idx_f3) = true.
Proof. vm_compute. reflexivity. Qed.

Lemma load_index_fixed_drops_null :
  load_index (fun _ => true) (fun l => l) true idx_f3 =
    Ok (mkRaw "v1" (Some [("a", [Some (Some (mkIMeta "a" "1.0.0" "v2"))])])).
Proof. vm_compute. reflexivity. Qed.

Lemma merge_unguarded_panics :
  is_panic (merge (fun _ => true) unit (fun _ => Some tt) (fun _ _ => true) false
                  (mkRaw "v1" None)
                  (mkRaw "v1" (Some [("a", [Some (Some (mkIMeta "a" "1.0.0" "v2"))])]))) = true.
Proof. vm_compute. reflexivity. Qed.

Lemma merge_unguarded_refuted :
  exists i f : rawindex,
    ri_entries i = None /\
    is_panic (merge (fun _ => true) unit (fun _ => Some tt) (fun _ _ => true) false i f) = true.
Proof.
  exists (mkRaw "v1" None), (mkRaw "v1" (Some [("a", [Some (Some (mkIMeta "a" "1.0.0" "v2"))])])).
  split; [reflexivity|exact merge_unguarded_panics].
Qed.

(* the guard `ref == nil` instead of `len(ref) == 0`: a name whose list is empty but not nil
   (`a: []`, or only null / invalid entries that loadIndex removed) reaches ref[0] *)
Lemma add_repo_nil_guard_panics :
  is_panic (add_repo (fun l => l) false (fun _ => false) false "repo" (mkRaw "v1" (Some [("a", [])]))) = true.
Proof. vm_compute. reflexivity. Qed.

Lemma add_repo_nil_guard_refuted :
  exists r : rawindex,
    match load_index (fun _ => false) (fun l => l) true r with
    | Ok i => is_panic (add_repo (fun l => l) false (fun _ => false) false "repo" i)
    | _ => false
    end = true.
Proof. exists (mkRaw "v1" (Some [("a", [None; Some None; Some (Some (mkIMeta "a" "bad" ""))])])). vm_compute. reflexivity. Qed.

(* C20_schema_walk — pkg/chart/v2/util/jsonschema.go: ValidateAgainstSchema :32 (the walk over
   the subcharts, after fix a1cf667) and ValidateAgainstSingleSchema :68 (whose body runs
   the third-party JSON-schema compiler/validator under a deferred recover()). *)
From Coq Require Import List String Bool.
From Helm Require Import Values.Tree Misc.Panics.
Import ListNotations.
Local Open Scope string_scope.

Section Schema.
  Variable S : Type.                                   (* schema bytes *)

  Inductive schart := SChart (name : string) (schema : option S) (subs : list schart).

  (* the third-party part of ValidateAgainstSingleSchema: may return valid / invalid / panic *)
  Variable lib_validate : S -> vmap -> res bool.

  (* ValidateAgainstSingleSchema: defer recover() turns a panic of the library into an error;
     true = no error *)
  Definition validate_single (s : S) (values : vmap) : res bool :=
    match recover (lib_validate s values) with
    | Ok b => Ok b
    | Err => Ok false
    | Panic w => Panic w
    end.

  (* ValidateAgainstSchema; result: true = nil error.  [checked] = false is the code before
     a1cf667: subchartValues := values[subchart.Name()].(map[string]interface{}) *)
  Fixpoint validate_schema (checked : bool) (c : schart) (values : vmap) {struct c} : res bool :=
    match c with
    | SChart name schema subs =>
        own <- match schema with
               | Some s => validate_single s values
               | None => Ok true
               end ;;
        rest <- (fix go (l : list schart) : res bool :=
                   match l with
                   | [] => Ok true
                   | (SChart sname _ _ as sub) :: t =>
                       r <- (if checked then
                               match mget sname values with
                               | None | Some VNull => Ok true              (* continue *)
                               | Some (VMap m) => validate_schema checked sub m
                               | Some _ => Ok false                        (* invalid type for values *)
                               end
                             else
                               m <- cast_map (mget sname values) ;;
                               validate_schema checked sub m) ;;
                       r' <- go t ;;
                       Ok (r && r')
                   end) subs ;;
        Ok (own && rest)
    end.
End Schema.

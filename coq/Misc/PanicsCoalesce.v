(* C20 — value computation: pkg/chart/v2/util/coalesce.go (CoalesceValues, MergeValues,
   CoalesceTables, MergeTables and their helpers) in the panic monad of Misc/Panics.v.

   The shared model Values/Coalesce.v gives the VALUES these functions compute (and is compared
   with the real code by several checks); it folds every `istable(x)` test and the type
   assertion behind it into one pattern match, so it cannot say whether an assertion is
   guarded.  Here the two are separate, as in the Go code: [is_table] is the test,
   [cast_map] the unchecked `x.(map[string]interface{})` with its Panic branch, [as_map] the
   checked `m, ok := x.(map[string]interface{})`.  The unchecked assertions of coalesce.go:
     coalesceDeps            dvmap := dv.(map[string]interface{})              (:118)
     coalesceGlobals         deepCopyMap(val.(map[string]interface{}))         (:159)
     coalesceTablesFullKey   dv.(map[string]interface{}), val.(map[...])       (:300)
   ([guard] = false drops the `!istable(c)` error branch of coalesceDeps, for the refutation.)
   The recursion structure is that of Values/Coalesce.v, so that PanicsCoalesceProofs.v can
   show the two agree.  copystructure.Copy is the identity of value semantics (third party;
   its result is asserted to be a map at :81 and in dependencies.go :345 :353).
   Definitions only. *)
From Coq Require Import List String Bool.
From Helm Require Import Values.Tree Values.Coalesce Misc.Panics.
Import ListNotations.
Local Open Scope string_scope.

(* coalesceTablesFullKey(dst, src, merge) *)
Fixpoint ct_p (merge : bool) (dst : vmap) (srcv : val) {struct srcv} : res vmap :=
  match srcv with
  | VMap src =>
      (fix go (src : list (string * val)) (dst : vmap) : res vmap :=
         match src with
         | [] => Ok dst
         | (key, v) :: t =>
             d' <- (match mget key dst with
                    | Some dv =>
                        if negb merge && is_null dv then Ok (mdel key dst)      (* delete(dst, key) *)
                        else if is_table v then
                               if is_table dv then
                                 dvm <- cast_map (Some dv) ;;                     (* dv.(map[string]interface{}) *)
                                 _ <- cast_map (Some v) ;;                        (* val.(map[string]interface{}) *)
                                 r <- ct_p merge dvm v ;;
                                 Ok (mset key (VMap r) dst)
                               else Ok dst                                        (* cannot overwrite table with non table *)
                             else Ok dst
                    | None => Ok (mset key v dst)
                    end) ;;
             go t d'
         end) src dst
  | _ => Ok dst
  end.

Definition coalesce_tables_p (merge : bool) (dst src : vmap) : res vmap := ct_p merge dst (VMap src).

(* coalesceValues: one iteration of `for key, val := range vc` *)
Definition cv_step_p (merge : bool) (deps : list chart) (key : string) (dflt : val) (v : vmap) : res vmap :=
  match mget key v with
  | Some value =>
      if is_null value && negb merge then Ok (mdel key v)
      else match as_map (Some value) with                       (* dest, ok := value.(map...) *)
           | Some dest =>
               match as_map (Some dflt) with                    (* src, ok := val.(map...) *)
               | Some src =>
                   r <- coalesce_tables_p (child_chart_merge_true deps key merge) dest src ;;
                   Ok (mset key (VMap r) v)
               | None => Ok v                                   (* skipped value: Not a table *)
               end
           | None => Ok v
           end
  | None => Ok (mset key dflt v)
  end.

Fixpoint cv_loop_p (merge : bool) (deps : list chart) (vc : vmap) (v : vmap) : res vmap :=
  match vc with
  | [] => Ok v
  | (key, dflt) :: t => v' <- cv_step_p merge deps key dflt v ;; cv_loop_p merge deps t v'
  end.

(* coalesceGlobals: one iteration of `for key, val := range sg` *)
Definition cg_step_p (key : string) (v : val) (dg : vmap) : res vmap :=
  if is_table v then
    vv <- cast_map (Some v) ;;                                  (* deepCopyMap(val.(map[string]interface{})) *)
    match mget key dg with
    | None => Ok (mset key (VMap vv) dg)
    | Some destv =>
        match as_map (Some destv) with                          (* destvmap, ok := destv.(map...) *)
        | None => Ok dg                                         (* cannot merge map onto non-map *)
        | Some destvmap => r <- coalesce_tables_p true vv destvmap ;; Ok (mset key (VMap r) dg)
        end
    end
  else
    match mget key dg with
    | Some dv => if is_table dv then Ok dg else Ok (mset key v dg)
    | None => Ok (mset key v dg)
    end.

Fixpoint cg_loop_p (sg : vmap) (dg : vmap) : res vmap :=
  match sg with
  | [] => Ok dg
  | (key, v) :: t => dg' <- cg_step_p key v dg ;; cg_loop_p t dg'
  end.

Definition coalesce_globals_p (dest src : vmap) : res vmap :=
  match (match mget global_key dest with
         | None => Some []
         | Some g => as_map (Some g)                            (* dg, ok = destglob.(map...) *)
         end),
        (match mget global_key src with
         | None => Some []
         | Some g => as_map (Some g)
         end) with
  | Some dg, Some sg => r <- cg_loop_p sg dg ;; Ok (mset global_key (VMap r) dest)
  | _, _ => Ok dest                                             (* skipping globals *)
  end.

(* coalesce = coalesceValues; coalesceDeps *)
Fixpoint coalesce_p (guard merge : bool) (c : chart) (dest : vmap) {struct c} : res vmap :=
  match c with
  | mkChart name vals deps =>
      d0 <- cv_loop_p merge deps vals dest ;;
      (fix go (ds : list chart) (dest : vmap) : res vmap :=
         match ds with
         | [] => Ok dest
         | sub :: t =>
             dest1 <- (match mget (cname sub) dest with
                       | None => Ok (mset (cname sub) (VMap []) dest)      (* dest[name] = make(map) *)
                       | Some c0 => if negb (is_table c0) && guard then Err   (* type mismatch on <name> *)
                                    else Ok dest
                       end) ;;
             match mget (cname sub) dest1 with                              (* if dv, ok := dest[name]; ok *)
             | Some dv =>
                 dvmap <- cast_map (Some dv) ;;                             (* dv.(map[string]interface{}) *)
                 g <- coalesce_globals_p dvmap dest1 ;;
                 r <- coalesce_p guard merge sub g ;;
                 go t (mset (cname sub) (VMap r) dest1)
             | None => go t dest1
             end
         end) deps d0
  end.

(* CoalesceValues / MergeValues (after copyValues), CoalesceTables / MergeTables *)
Definition coalesce_values_p (c : chart) (vals : vmap) : res vmap := coalesce_p true false c vals.
Definition merge_values_p (c : chart) (vals : vmap) : res vmap := coalesce_p true true c vals.
Definition coalesce_tables_pub_p (dst src : vmap) : res vmap := coalesce_tables_p false dst src.
Definition merge_tables_pub_p (dst src : vmap) : res vmap := coalesce_tables_p true dst src.

(* dependencies.go trimNilValues (the assertion val.(map[string]interface{}) under istable(val), :360) *)
Fixpoint trim_nil_p (v : val) {struct v} : res val :=
  match v with
  | VMap m =>
      r <- (fix go (m : list (string * val)) : res vmap :=
              match m with
              | [] => Ok []
              | (k, x) :: t =>
                  rest <- go t ;;
                  if is_null x then Ok rest                                    (* delete(valsCopyMap, key) *)
                  else if is_table x then
                         _ <- cast_map (Some x) ;;                             (* val.(map[string]interface{}) *)
                         x' <- trim_nil_p x ;;
                         Ok ((k, x') :: rest)
                       else Ok ((k, x) :: rest)
              end) m ;;
      Ok (VMap r)
  | _ => Ok v
  end.

Definition opt_res {A : Type} (o : option A) : res A := match o with Some a => Ok a | None => Err end.

(* C20 — "no hang": which files of a chart directory are opened for reading.
   pkg/chart/v2/loader/directory.go LoadDir (the walk callback) behind internal/sympath/walk.go
   symwalk, transcribed as a decision function over the file type of one directory entry, and
   as a walk over a directory tree.  A named pipe that reaches os.ReadFile blocks in open(2)
   for ever; a character device such as /dev/zero never ends.  Definitions only. *)
From Coq Require Import List String Bool.
Import ListNotations.
Local Open Scope string_scope.

(* the type bits of os.FileMode (ModeType = ModeDir | ModeSymlink | ModeNamedPipe | ModeSocket |
   ModeDevice | ModeCharDevice | ModeIrregular) *)
Record fmode := mkMode {
  m_dir : bool; m_symlink : bool; m_pipe : bool; m_socket : bool;
  m_device : bool; m_chardev : bool; m_irregular : bool
}.

(* FileMode.IsRegular: m&ModeType == 0;  FileMode.IsDir: m&ModeDir != 0 *)
Definition is_regular (m : fmode) : bool :=
  negb (m_dir m || m_symlink m || m_pipe m || m_socket m || m_device m || m_chardev m || m_irregular m).
Definition is_dir (m : fmode) : bool := m_dir m.

Definition bools : list bool := [false; true].
Definition all_modes : list fmode :=
  flat_map (fun a => flat_map (fun b => flat_map (fun c => flat_map (fun d => flat_map (fun e =>
  flat_map (fun f => map (fun g => mkMode a b c d e f g) bools) bools) bools) bools) bools) bools) bools.

(* what Lstat reports for something that is not a symbolic link *)
Inductive ftype := FRegular | FDir | FPipe | FSocket | FDevice | FCharDevice | FIrregular.

Definition all_ftypes : list ftype := [FRegular; FDir; FPipe; FSocket; FDevice; FCharDevice; FIrregular].

Definition mode_of (t : ftype) : fmode :=
  match t with
  | FRegular => mkMode false false false false false false false
  | FDir => mkMode true false false false false false false
  | FPipe => mkMode false false true false false false false
  | FSocket => mkMode false false false true false false false
  | FDevice => mkMode false false false false true false false
  | FCharDevice => mkMode false false false false true true false     (* ModeDevice | ModeCharDevice *)
  | FIrregular => mkMode false false false false false false true
  end.

(* a directory entry: plain, or a symbolic link with what filepath.EvalSymlinks + Lstat of the
   resolved path give (EvalSymlinks resolves completely: never a symlink again) *)
Inductive etype :=
| TPlain (t : ftype)
| TSymlink (target : option ftype).     (* None: dangling / loop / too many links / name too long *)

Definition all_etypes : list etype :=
  (map TPlain all_ftypes ++ TSymlink None :: map (fun t => TSymlink (Some t)) all_ftypes)%list.

Definition resolved (e : etype) : option ftype :=
  match e with TPlain t => Some t | TSymlink r => r end.

Inductive action :=
| AErr          (* the walk, and with it the load, fails *)
| ASkipFile     (* .helmignore matched: return nil *)
| ASkipDir      (* ignored directory: filepath.SkipDir *)
| ADescend      (* directory: its entries are walked *)
| ATop          (* the chart directory itself: nothing to do *)
| AOpen.        (* os.ReadFile(name) is called *)

(* the callback of LoadDir; [gate m] = the condition that refuses the file as irregular
   (as it stands: !fi.Mode().IsRegular()) *)
Definition walk_fn (gate : fmode -> bool) (top lstat_err : bool) (m : fmode)
                   (ignored size_ok : bool) : action :=
  if top then ATop                                  (* n == "" *)
  else if lstat_err then AErr                       (* err != nil *)
  else if is_dir m then (if ignored then ASkipDir else ADescend)
  else if ignored then ASkipFile
  else if gate m then AErr                          (* cannot load irregular file *)
  else if negb size_ok then AErr                    (* larger than MaxDecompressedFileSize *)
  else AOpen.

(* symwalk on one entry: a symbolic link is resolved first, and the callback sees the
   FileInfo of what it resolves to *)
Definition entry_action (gate : fmode -> bool) (top : bool) (e : etype) (ignored size_ok : bool) : action :=
  match e with
  | TSymlink None => AErr                           (* error evaluating symlink *)
  | TSymlink (Some t) => walk_fn gate top false (mode_of t) ignored size_ok
  | TPlain t => walk_fn gate top false (mode_of t) ignored size_ok
  end.

(* the gate as it stands, and the seeded change C20-8 *)
Definition gate_not_regular (m : fmode) : bool := negb (is_regular m).
Definition gate_c20_8 (m : fmode) : bool := m_device m || m_chardev m || m_socket m.

(* ---- the walk over a directory tree ---- *)
Inductive node := Node (name : string) (e : etype) (ignored : bool) (kids : list node).

(* names of the files read, in walk order; None: the walk returned an error *)
Fixpoint walk_node (gate : fmode -> bool) (prefix : string) (n : node) {struct n} : option (list string) :=
  match n with
  | Node name e ign kids =>
      let path := prefix ++ name in
      match entry_action gate false e ign true with
      | AErr => None
      | ASkipFile | ASkipDir | ATop => Some []
      | AOpen => Some [path]
      | ADescend =>
          (fix go (l : list node) : option (list string) :=
             match l with
             | [] => Some []
             | x :: t => match walk_node gate (path ++ "/") x with
                         | None => None
                         | Some a => match go t with None => None | Some b => Some (a ++ b)%list end
                         end
             end) kids
      end
  end.

Fixpoint walk_nodes (gate : fmode -> bool) (prefix : string) (l : list node) : option (list string) :=
  match l with
  | [] => Some []
  | x :: t => match walk_node gate prefix x with
              | None => None
              | Some a => match walk_nodes gate prefix t with None => None | Some b => Some (a ++ b)%list end
              end
  end.

(* every entry of the tree the walk reaches with AOpen *)
Fixpoint opened (gate : fmode -> bool) (n : node) {struct n} : list etype :=
  match n with
  | Node _ e ign kids =>
      match entry_action gate false e ign true with
      | AOpen => [e]
      | ADescend => (fix go (l : list node) : list etype :=
                       match l with [] => [] | x :: t => (opened gate x ++ go t)%list end) kids
      | _ => []
      end
  end.

(* every assignment of n opaque conditions *)
Fixpoint bool_lists (n : nat) : list (list bool) :=
  match n with
  | O => [[]]
  | S k => flat_map (fun l => [false :: l; true :: l]) (bool_lists k)
  end.

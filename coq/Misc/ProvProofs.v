(* Proofs about the provenance model (Misc/Prov.v). *)
From Coq Require Import List String Ascii Bool Arith Lia.
From Helm Require Import Common.Assoc Misc.Prov.
Import ListNotations.
Local Open Scope string_scope.

(* ------------------------------------------------------------------ strings *)

Lemma append_inv_head (p x y : string) : p ++ x = p ++ y -> x = y.
Proof. induction p as [|c p IH]; simpl; intro H; [exact H|]. injection H as H. auto. Qed.

Lemma append_empty_r (s : string) : s ++ "" = s.
Proof. induction s as [|c s IH]; simpl; [reflexivity|]. rewrite IH. reflexivity. Qed.

Fixpoint sskip (n : nat) (s : string) : string :=
  match n, s with
  | O, _ => s
  | S k, EmptyString => EmptyString
  | S k, String _ t => sskip k t
  end.

Lemma sskip_empty n : sskip n "" = "".
Proof. destruct n; reflexivity. Qed.

Lemma prefix_split (p s : string) : String.prefix p s = true -> s = p ++ sskip (String.length p) s.
Proof.
  revert s. induction p as [|c p IH]; intros s H; simpl.
  - reflexivity.
  - destruct s as [|d s]; simpl in H; [discriminate|].
    destruct (ascii_dec c d) as [->|]; [|discriminate].
    simpl. f_equal. apply IH. exact H.
Qed.

(* strings.Join *)
Fixpoint join_sep (sep : string) (l : list string) : string :=
  match l with
  | [] => ""
  | [x] => x
  | x :: t => x ++ sep ++ join_sep sep t
  end.

Lemma join_cons sep x y t : join_sep sep (x :: y :: t) = x ++ sep ++ join_sep sep (y :: t).
Proof. reflexivity. Qed.

(* bytes.Split followed by Join is the identity: the parts are cut out of the text at
   separator occurrences and nothing else is dropped *)
Lemma split_go_join sep : sep <> "" ->
  forall s k, let '(p, ps) := split_go sep s k in join_sep sep (p :: ps) = sskip k s.
Proof.
  intros Hsep s. induction s as [|c t IH]; intro k.
  - simpl. rewrite sskip_empty. reflexivity.
  - destruct k as [|k].
    + cbn [split_go]. destruct (String.prefix sep (String c t)) eqn:Hp.
      * specialize (IH (String.length sep - 1)).
        destruct (split_go sep t (String.length sep - 1)) as [p ps].
        rewrite join_cons. rewrite IH. cbn [sskip append].
        apply prefix_split in Hp.
        transitivity (sep ++ sskip (String.length sep) (String c t)); [|symmetry; exact Hp].
        f_equal. destruct sep as [|d sep']; [congruence|]. simpl. rewrite Nat.sub_0_r. reflexivity.
      * specialize (IH 0). destruct (split_go sep t 0) as [p ps].
        simpl in IH. destruct ps as [|q ps]; simpl in *; rewrite IH; reflexivity.
    + cbn [split_go]. specialize (IH k). destruct (split_go sep t k) as [p ps]. exact IH.
Qed.

Lemma split_sep_join sep s : sep <> "" -> join_sep sep (split_sep sep s) = s.
Proof.
  intro H. unfold split_sep. pose proof (split_go_join sep H s 0) as J.
  destruct (split_go sep s 0) as [p ps]. exact J.
Qed.

Lemma DOTS_nonempty : DOTS <> "".
Proof. discriminate. Qed.

(* the shape the verification relies on: the text is part0, the separator, part1 and —
   only if there are further parts — another separator and the remainder *)
Lemma split_two_parts s p0 p1 rest :
  split_sep DOTS s = p0 :: p1 :: rest ->
  s = p0 ++ DOTS ++ p1 ++ match rest with [] => "" | _ => DOTS ++ join_sep DOTS rest end.
Proof.
  intro H. rewrite <- (split_sep_join DOTS s DOTS_nonempty) at 1. rewrite H.
  rewrite join_cons. f_equal. f_equal.
  destruct rest as [|r rest]; simpl.
  - symmetry. apply append_empty_r.
  - reflexivity.
Qed.

(* ------------------------------------------------------------------ verification *)

Section ProvProofs.
  Variables keyring sigbody signer : Type.
  Variable clearsign_decode : string -> option (string * sigbody).
  Variable check_sig : keyring -> string -> sigbody -> option signer.
  Variable sha256 : string -> string.
  Variable yaml_meta_ok : string -> bool.
  Variable yaml_sums : string -> option (list (string * string)).

  Notation verify := (verify keyring sigbody signer clearsign_decode check_sig sha256 yaml_meta_ok yaml_sums).
  Notation verify_chart := (verify_chart keyring sigbody signer clearsign_decode check_sig sha256 yaml_meta_ok yaml_sums).
  Notation download_to := (download_to keyring sigbody signer clearsign_decode check_sig sha256 yaml_meta_ok yaml_sums).
  Notation locate_local := (locate_local keyring sigbody signer clearsign_decode check_sig sha256 yaml_meta_ok yaml_sums).
  Notation locate_remote := (locate_remote keyring sigbody signer clearsign_decode check_sig sha256 yaml_meta_ok yaml_sums).

  Lemma verify_iff kr prov name archive by_ h :
    verify kr prov name archive = VOk by_ h <->
    exists msg sg p0 p1 rest files,
      clearsign_decode prov = Some (msg, sg) /\
      check_sig kr (canon msg) sg = Some by_ /\
      split_sep DOTS msg = p0 :: p1 :: rest /\
      yaml_meta_ok p0 = true /\
      yaml_sums p1 = Some files /\
      aget name files = Some ("sha256:" ++ sha256 archive) /\
      h = "sha256:" ++ sha256 archive.
  Proof.
    unfold Prov.verify. split.
    - destruct (clearsign_decode prov) as [[msg sg]|] eqn:Ed; [|discriminate].
      destruct (check_sig kr (canon msg) sg) as [b|] eqn:Ec; [|discriminate].
      destruct (split_sep DOTS msg) as [|p0 [|p1 rest]] eqn:Es; try discriminate.
      destruct (yaml_meta_ok p0) eqn:Em; [|discriminate].
      destruct (yaml_sums p1) as [files|] eqn:Ey; [|discriminate].
      destruct (aget name files) as [sha|] eqn:Ea; [|discriminate].
      destruct (String.eqb sha ("sha256:" ++ sha256 archive)) eqn:Eq; [|discriminate].
      intro H. injection H as <- <-. apply String.eqb_eq in Eq. subst sha.
      exists msg, sg, p0, p1, rest, files. repeat split; auto.
    - intros (msg & sg & p0 & p1 & rest & files & Ed & Ec & Es & Em & Ey & Ea & ->).
      rewrite Ed, Ec, Es, Em, Ey, Ea, String.eqb_refl. reflexivity.
  Qed.

  (* a provenance file that verifies one archive verifies no archive with another digest *)
  Lemma tamper_archive kr prov name a a' by_ h :
    verify kr prov name a = VOk by_ h -> sha256 a' <> sha256 a ->
    forall by' h', verify kr prov name a' <> VOk by' h'.
  Proof.
    intros H Hne by' h' H'.
    apply verify_iff in H as (msg & sg & p0 & p1 & rest & files & Ed & _ & Es & _ & Ey & Ea & _).
    apply verify_iff in H' as (msg' & sg' & p0' & p1' & rest' & files' & Ed' & _ & Es' & _ & Ey' & Ea' & _).
    rewrite Ed in Ed'. injection Ed' as <- <-. rewrite Es in Es'. injection Es' as <- <- <-.
    rewrite Ey in Ey'. injection Ey' as <-. rewrite Ea in Ea'. injection Ea' as E.
    congruence.
  Qed.

  (* acceptance under a name means the signed sums list that very name with the archive's digest *)
  Lemma tamper_name kr prov name' a by_ h :
    verify kr prov name' a = VOk by_ h ->
    exists msg sg p0 p1 rest files,
      clearsign_decode prov = Some (msg, sg) /\ split_sep DOTS msg = p0 :: p1 :: rest /\
      yaml_sums p1 = Some files /\ aget name' files = Some ("sha256:" ++ sha256 a).
  Proof.
    intro H. apply verify_iff in H as (msg & sg & p0 & p1 & rest & files & Ed & _ & Es & _ & Ey & Ea & _).
    exists msg, sg, p0, p1, rest, files. auto.
  Qed.

  (* what Helm signs lists exactly one file (messageBlock): under any other name it fails *)
  Lemma tamper_rename kr prov name name' a by_ h msg sg p0 p1 rest v :
    clearsign_decode prov = Some (msg, sg) -> split_sep DOTS msg = p0 :: p1 :: rest ->
    yaml_sums p1 = Some [(name, v)] -> name' <> name ->
    verify kr prov name' a <> VOk by_ h.
  Proof.
    intros Ed Es Ey Hne H.
    apply tamper_name in H as (msg' & sg' & p0' & p1' & rest' & files' & Ed' & Es' & Ey' & Ea').
    rewrite Ed in Ed'. injection Ed' as <- <-. rewrite Es in Es'. injection Es' as <- <- <-.
    rewrite Ey in Ey'. injection Ey' as <-. simpl in Ea'.
    destruct (String.eqb name' name) eqn:E; [apply String.eqb_eq in E; congruence|discriminate].
  Qed.

  (* no signature by a key of the keyring over the canonical text: rejected *)
  Lemma tamper_trust kr prov name a msg sg :
    clearsign_decode prov = Some (msg, sg) -> check_sig kr (canon msg) sg = None ->
    verify kr prov name a = VErr ESig.
  Proof. intros Ed Ec. unfold Prov.verify. rewrite Ed, Ec. reflexivity. Qed.

  Lemma tamper_no_block kr prov name a :
    clearsign_decode prov = None -> verify kr prov name a = VErr EDecode.
  Proof. intros Ed. unfold Prov.verify. rewrite Ed. reflexivity. Qed.

  (* ---------------------------------------------------------------- VerifyChart *)
  Lemma verify_chart_ok is_dir kr prov name a by_ h :
    verify_chart is_dir kr prov name a = VOk by_ h <->
    is_dir = false /\ is_tgz name = true /\
    exists k pv, kr = Some k /\ prov = Some pv /\ verify k pv name a = VOk by_ h.
  Proof.
    unfold Prov.verify_chart. split.
    - destruct is_dir; [discriminate|]. destruct (is_tgz name); [|discriminate]. simpl.
      destruct prov as [pv|]; [|discriminate]. destruct kr as [k|]; [|discriminate].
      intro H. repeat split; auto. exists k, pv. auto.
    - intros (-> & -> & k & pv & -> & -> & H). simpl. exact H.
  Qed.

  (* ---------------------------------------------------------------- strategies *)
  (* VerifyAlways: success means the provenance file was fetched and VerifyChart passed *)
  Lemma always_fails_closed kr chart provf name h :
    download_to VerifyAlways kr chart provf name = DOk h ->
    exists a pv by_ hh, chart = Some a /\ provf = Some pv /\
      verify_chart false kr (Some pv) name a = VOk by_ hh /\ h = Some hh.
  Proof.
    unfold Prov.download_to. destruct chart as [a|]; [|discriminate].
    destruct provf as [pv|]; [|discriminate].
    destruct (verify_chart false kr (Some pv) name a) as [b hh|e] eqn:E; simpl; [|discriminate].
    intro H. injection H as <-. exists a, pv, b, hh. auto.
  Qed.

  Lemma always_error_iff kr a provf name :
    download_to VerifyAlways kr (Some a) provf name = DErr <->
    (provf = None \/ exists pv e, provf = Some pv /\ verify_chart false kr (Some pv) name a = VErr e).
  Proof.
    unfold Prov.download_to. split.
    - destruct provf as [pv|]; [|auto]. destruct (verify_chart false kr (Some pv) name a) as [b hh|e] eqn:E; simpl; [discriminate|].
      intros _. right. exists pv, e. auto.
    - intros [->|(pv & e & -> & E)]; [reflexivity|]. rewrite E. reflexivity.
  Qed.

  (* VerifyIfPossible: a missing provenance file is tolerated (nothing verified); a
     provenance file that is there must verify *)
  Lemma if_possible_spec kr a provf name :
    download_to VerifyIfPossible kr (Some a) provf name =
    match provf with
    | None => DOk None
    | Some pv => hash_of signer (verify_chart false kr (Some pv) name a)
    end.
  Proof. unfold Prov.download_to. destruct provf; reflexivity. Qed.

  Lemma if_possible_bad_prov_fails kr a pv name e :
    verify_chart false kr (Some pv) name a = VErr e ->
    download_to VerifyIfPossible kr (Some a) (Some pv) name = DErr.
  Proof. intro H. rewrite if_possible_spec, H. reflexivity. Qed.

  (* VerifyNever / VerifyLater never verify *)
  Lemma never_later_spec kr a provf name :
    download_to VerifyNever kr (Some a) provf name = DOk None /\
    download_to VerifyLater kr (Some a) provf name = DOk None.
  Proof. unfold Prov.download_to. destruct provf; auto. Qed.

  (* LocateChart with --verify: a local archive must pass VerifyChart, a remote one is
     downloaded with VerifyAlways *)
  Lemma locate_fails_closed kr is_dir prov chart provf name a :
    (locate_local true is_dir kr prov name a = true ->
       exists by_ h, verify_chart is_dir kr prov name a = VOk by_ h) /\
    (locate_remote true kr chart provf name = true ->
       exists a' pv by_ h, chart = Some a' /\ provf = Some pv /\ verify_chart false kr (Some pv) name a' = VOk by_ h).
  Proof.
    split.
    - unfold Prov.locate_local. destruct (verify_chart is_dir kr prov name a) as [b h|e]; [|discriminate].
      intros _. exists b, h. reflexivity.
    - unfold Prov.locate_remote, locate_strategy.
      destruct (download_to VerifyAlways kr chart provf name) as [|h] eqn:E; [discriminate|].
      intros _. apply always_fails_closed in E as (a' & pv & b & hh & -> & -> & H & _).
      exists a', pv, b, hh. auto.
  Qed.

  Lemma required_fails_closed (kr : option keyring) (chart provf : option string) (name : string) :
    (forall h, download_to VerifyAlways kr chart provf name = DOk h ->
       exists a pv by_ hh, chart = Some a /\ provf = Some pv /\
         verify_chart false kr (Some pv) name a = VOk by_ hh /\ h = Some hh)
    /\ (forall is_dir prov a,
          (locate_local true is_dir kr prov name a = true ->
             exists by_ h, verify_chart is_dir kr prov name a = VOk by_ h) /\
          (locate_remote true kr chart provf name = true ->
             exists a' pv by_ h, chart = Some a' /\ provf = Some pv /\
               verify_chart false kr (Some pv) name a' = VOk by_ h))
    /\ (forall a pv e,
          verify_chart false kr (Some pv) name a = VErr e ->
          download_to VerifyIfPossible kr (Some a) (Some pv) name = DErr)
    /\ (forall a, download_to VerifyIfPossible kr (Some a) None name = DOk None).
  Proof.
    split; [|split; [|split]].
    - intros h. apply always_fails_closed.
    - intros is_dir prov a. apply locate_fails_closed.
    - intros a pv e. apply if_possible_bad_prov_fails.
    - intros a. apply if_possible_spec.
  Qed.

  Notation manager_dep_ok := (manager_dep_ok keyring sigbody signer clearsign_decode check_sig sha256 yaml_meta_ok yaml_sums).

  (* helm dependency update --verify / build --verify: a dependency is accepted only if its
     provenance file was fetched and VerifyChart passed *)
  Lemma dependency_verify_fails_closed kr chart provf name :
    (manager_dep_ok (dep_update_strategy true) kr chart provf name = true \/
     manager_dep_ok (dep_build_strategy true) kr chart provf name = true) ->
    exists a pv by_ h, chart = Some a /\ provf = Some pv /\ verify_chart false kr (Some pv) name a = VOk by_ h.
  Proof.
    unfold Prov.manager_dep_ok, dep_update_strategy, dep_build_strategy. intros H.
    assert (H' : exists h, download_to VerifyAlways kr chart provf name = DOk h).
    { destruct H as [H|H]; destruct (download_to VerifyAlways kr chart provf name) as [|h]; try discriminate; eauto. }
    destruct H' as [h E]. apply always_fails_closed in E as (a & pv & b & hh & -> & -> & Hv & _).
    exists a, pv, b, hh. auto.
  Qed.

  (* before repair ec82a5f `helm dependency build --verify` accepted a dependency whose
     provenance file was missing *)
  Lemma dep_build_unrepaired_refuted kr a name :
    manager_dep_ok (dep_build_strategy_unrepaired true) kr (Some a) None name = true.
  Proof. reflexivity. Qed.
End ProvProofs.

(* ------------------------------------------------------------------ sign, then verify *)

Lemma clean_go_app st a b : clean_go st a = true -> clean_go st (a ++ b) = clean_go LStart b.
Proof.
  revert st. induction a as [|c t IH]; intros st H; simpl in *.
  - destruct st; try discriminate. reflexivity.
  - destruct (Ascii.eqb c LF).
    + destruct st; try discriminate; apply IH; exact H.
    + apply IH. exact H.
Qed.

Lemma clean_app a b : clean a = true -> clean b = true -> clean (a ++ b) = true.
Proof. unfold clean. intros Ha Hb. rewrite (clean_go_app _ _ _ Ha). exact Hb. Qed.

Lemma clean_DOTS : clean DOTS = true.
Proof. reflexivity. Qed.

Lemma append_assoc (a b c : string) : (a ++ b) ++ c = a ++ b ++ c.
Proof. induction a as [|x a IH]; simpl; [reflexivity|]. rewrite IH. reflexivity. Qed.

Lemma length_append (a b : string) : String.length (a ++ b) = String.length a + String.length b.
Proof. induction a as [|x a IH]; simpl; [reflexivity|]. rewrite IH. reflexivity. Qed.

(* whether p is a prefix of x ++ y is decided by x alone once x is at least as long as p *)
Lemma prefix_ext p : forall x y, String.length p <= String.length x -> String.prefix p (x ++ y) = String.prefix p x.
Proof.
  induction p as [|a p IH]; intros x y H; [destruct x; [destruct y|]; reflexivity|].
  destruct x as [|b x]; simpl in H; [lia|]. simpl.
  destruct (ascii_dec a b); [|reflexivity]. apply IH. lia.
Qed.

Lemma prefix_self_app p y : String.prefix p (p ++ y) = true.
Proof. induction p as [|a p IH]; simpl; [destruct y; reflexivity|]. destruct (ascii_dec a a); [exact IH|congruence]. Qed.

Lemma split_go_nosep s : nosep s = true -> split_go DOTS s 0 = (s, []).
Proof.
  induction s as [|c t IH]; intro H; [reflexivity|].
  cbn [nosep] in H. apply andb_true_iff in H as [Hp Hn]. apply negb_true_iff in Hp.
  cbn [split_go]. rewrite Hp. rewrite (IH Hn). reflexivity.
Qed.

Lemma split_go_after_DOTS s : split_go DOTS (DOTS ++ s) 0 = ("", let '(p, ps) := split_go DOTS s 0 in p :: ps).
Proof.
  unfold DOTS at 2. cbn [append]. cbn [split_go].
  assert (E : String.prefix DOTS (String LF ("..." ++ String LF s)) = true) by (apply (prefix_self_app DOTS s)).
  cbn [append] in E. rewrite E. reflexivity.
Qed.

Lemma split_go_block m s : nosep_before m = true ->
  split_go DOTS (m ++ DOTS ++ s) 0 = (m, let '(p, ps) := split_go DOTS s 0 in p :: ps).
Proof.
  induction m as [|c t IH]; intro H.
  - apply split_go_after_DOTS.
  - cbn [nosep_before] in H. apply andb_true_iff in H as [Hp Hn]. apply negb_true_iff in Hp.
    assert (Hp' : String.prefix DOTS (String c t ++ DOTS ++ s) = false).
    { rewrite <- append_assoc. rewrite prefix_ext; [exact Hp|].
      rewrite length_append. simpl. lia. }
    change (String c t ++ DOTS ++ s) with (String c (t ++ DOTS ++ s)) in *.
    cbn [split_go]. rewrite Hp'. rewrite (IH Hn). reflexivity.
Qed.

(* the message block splits into exactly the printed metadata and the printed sums *)
Lemma split_block m s : nosep_before m = true -> nosep s = true -> split_sep DOTS (m ++ DOTS ++ s) = [m; s].
Proof.
  intros Hm Hs. unfold split_sep. rewrite (split_go_block m s Hm), (split_go_nosep s Hs). reflexivity.
Qed.

Section SignVerify.
  Variables keyring sigbody signer key : Type.
  Variable clearsign_decode : string -> option (string * sigbody).
  Variable check_sig : keyring -> string -> sigbody -> option signer.
  Variable sha256 : string -> string.
  Variable yaml_meta_ok : string -> bool.
  Variable yaml_sums : string -> option (list (string * string)).
  Variable sign : key -> string -> sigbody.
  Variable clearsign_encode : string -> sigbody -> string.
  Variable sums_yaml : string -> string -> string.
  Variable public_of : keyring -> key -> option signer.    (* the entity of the keyring this secret key belongs to *)

  (* clearsign round trip on clean text; the signature made with a key verifies against a
     keyring holding its public half; the YAML printer and parser agree on the sums *)
  Hypothesis Hdecode : forall msg sg, clean msg = true -> clearsign_decode (clearsign_encode msg sg) = Some (msg, sg).
  Hypothesis Hsig : forall kr k by_ msg, public_of kr k = Some by_ -> clean msg = true ->
                                         check_sig kr (canon msg) (sign k msg) = Some by_.

  Lemma sign_then_verify kr k by_ meta name archive :
    public_of kr k = Some by_ ->
    clean meta = true -> clean (sums_yaml name ("sha256:" ++ sha256 archive)) = true ->
    nosep_before meta = true -> nosep (sums_yaml name ("sha256:" ++ sha256 archive)) = true ->
    yaml_meta_ok meta = true ->
    yaml_sums (sums_yaml name ("sha256:" ++ sha256 archive)) = Some [(name, "sha256:" ++ sha256 archive)] ->
    verify keyring sigbody signer clearsign_decode check_sig sha256 yaml_meta_ok yaml_sums kr
           (clear_sign sigbody key sha256 sign clearsign_encode sums_yaml k meta name archive) name archive
    = VOk by_ ("sha256:" ++ sha256 archive).
  Proof.
    intros Hpub Hcm Hcs Hnm Hns Hmeta Hyaml.
    assert (Hclean : clean (meta ++ DOTS ++ sums_yaml name ("sha256:" ++ sha256 archive)) = true).
    { apply clean_app; [exact Hcm|]. apply clean_app; [apply clean_DOTS|exact Hcs]. }
    apply (verify_iff keyring sigbody signer clearsign_decode check_sig sha256 yaml_meta_ok yaml_sums).
    unfold clear_sign, message_block.
    set (sums := sums_yaml name ("sha256:" ++ sha256 archive)) in *.
    exists (meta ++ DOTS ++ sums), (sign k (meta ++ DOTS ++ sums)), meta, sums, [], [(name, "sha256:" ++ sha256 archive)].
    repeat split.
    - apply Hdecode. exact Hclean.
    - apply Hsig; [exact Hpub|exact Hclean].
    - apply split_block; assumption.
    - exact Hmeta.
    - exact Hyaml.
    - simpl. rewrite String.eqb_refl. reflexivity.
  Qed.
End SignVerify.

(* a concrete instance meeting the hypotheses: the signature body is the key id, the armored
   file is the key id followed by the text *)
Definition sv_decode (p : string) : option (string * ascii) :=
  match p with EmptyString => None | String c m => Some (m, c) end.
Definition sv_encode (msg : string) (sg : ascii) : string := String sg msg.
Definition sv_check (kr : list ascii) (_ : string) (sg : ascii) : option ascii :=
  if existsb (Ascii.eqb sg) kr then Some sg else None.
Definition sv_public (kr : list ascii) (k : ascii) : option ascii := sv_check kr "" k.
Definition sv_sums_yaml (name v : string) : string := "files:" ++ String LF ("  " ++ name ++ ": " ++ v ++ String LF "").
Definition sv_meta : string := "name: a" ++ String LF ("version: 1.0.0" ++ String LF "").
Definition sv_yaml_sums (p : string) : option (list (string * string)) :=
  if String.eqb p (sv_sums_yaml "a-1.0.0.tgz" "sha256:d1") then Some [("a-1.0.0.tgz", "sha256:d1")] else None.

Example sign_then_verify_example :
  verify (list ascii) ascii ascii sv_decode sv_check (fun a => a) (fun _ => true) sv_yaml_sums ["K"%char]
         (clear_sign ascii ascii (fun a => a) (fun k _ => k) sv_encode sv_sums_yaml "K"%char sv_meta "a-1.0.0.tgz" "d1")
         "a-1.0.0.tgz" "d1"
  = VOk "K"%char "sha256:d1".
Proof.
  apply (sign_then_verify (list ascii) ascii ascii ascii sv_decode sv_check (fun a => a) (fun _ => true) sv_yaml_sums
           (fun k _ => k) sv_encode sv_sums_yaml sv_public).
  - intros msg sg _. reflexivity.
  - intros kr k by_ msg H _. exact H.
  - reflexivity.
  - reflexivity.
  - reflexivity.
  - reflexivity.
  - reflexivity.
  - reflexivity.
  - reflexivity.
Qed.

(* ------------------------------------------------------------------ non-vacuity *)
(* a concrete instance: one trusted key, a two-part message, digest function = identity *)
Definition ex_msg : string := "name: a" ++ DOTS ++ "files: x".
Definition ex_decode (p : string) : option (string * nat) := if String.eqb p "PROV" then Some (ex_msg, 7) else None.
Definition ex_check (kr : list nat) (bytes : string) (sg : nat) : option nat :=
  if String.eqb bytes (canon ex_msg) && existsb (Nat.eqb sg) kr then Some sg else None.
Definition ex_sums (p : string) : option (list (string * string)) :=
  if String.eqb p "files: x" then Some [("a-1.tgz", "sha256:d1")] else None.
Definition ex_verify := verify (list nat) nat nat ex_decode ex_check (fun a => a) (fun _ => true) ex_sums.

Example ex_accepts : ex_verify [7] "PROV" "a-1.tgz" "d1" = VOk 7 "sha256:d1".
Proof. vm_compute. reflexivity. Qed.
Example ex_rejects :
  ex_verify [7] "PROV" "a-1.tgz" "d2" = VErr EMismatch /\ ex_verify [7] "PROV" "b-1.tgz" "d1" = VErr ENoSum
  /\ ex_verify [8] "PROV" "a-1.tgz" "d1" = VErr ESig /\ ex_verify [7] "PRO" "a-1.tgz" "d1" = VErr EDecode.
Proof. vm_compute. repeat split. Qed.
Example ex_strategies :
  download_to (list nat) nat nat ex_decode ex_check (fun a => a) (fun _ => true) ex_sums VerifyAlways (Some [7]) (Some "d1") (Some "PROV") "a-1.tgz" = DOk (Some "sha256:d1")
  /\ download_to (list nat) nat nat ex_decode ex_check (fun a => a) (fun _ => true) ex_sums VerifyAlways (Some [7]) (Some "d2") (Some "PROV") "a-1.tgz" = DErr
  /\ download_to (list nat) nat nat ex_decode ex_check (fun a => a) (fun _ => true) ex_sums VerifyIfPossible (Some [7]) (Some "d2") None "a-1.tgz" = DOk None
  /\ download_to (list nat) nat nat ex_decode ex_check (fun a => a) (fun _ => true) ex_sums VerifyIfPossible (Some [7]) (Some "d2") (Some "PROV") "a-1.tgz" = DErr.
Proof. vm_compute. repeat split. Qed.

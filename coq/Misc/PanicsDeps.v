(* C20_deps and C20_import_values — pkg/chart/v2/util/dependencies.go (processDependencyEnabled
   :146, getAliasDependency :95, processDependencyTags :63, processDependencyConditions :37,
   processImportValues :253, processDependencyImportValues :368, pathToMap/set :234),
   values.go (Table :56, tableLookup :88, PathValue :194, pathValue :201), and the load-time
   gate pkg/chart/v2/metadata.go Validate :88 / dependency.go Validate :55 as called by
   loader.LoadFiles :172 for the chart and, recursively, every subchart.

   Pointers that can be nil are options: c.Metadata, the entries of Metadata.Dependencies
   (a YAML `- null` list item); Metadata.Dependencies itself distinguishes the nil slice
   (key absent) from the empty one.  Entries of c.Dependencies() are never nil (the loader
   only appends loaded charts).  Value semantics: getAliasDependency returns copyChart(c) (a
   deep copy of metadata, requirement records and subcharts, since 4157108), which is the
   same value. *)
From Coq Require Import List String Ascii Bool ZArith.
From Helm Require Import Values.Tree Misc.Panics.
Import ListNotations.
Local Open Scope string_scope.

Record dep := mkDep {
  d_name : string;
  d_version : string;
  d_alias : string;
  d_condition : string;
  d_tags : list string;
  d_enabled : bool;
  d_imports : list val             (* import-values: items of any YAML type *)
}.

Record meta := mkMeta {
  m_name : string;
  m_version : string;
  m_deps : option (list (option dep))
}.

Inductive chart := Chart (md : option meta) (vals : vmap) (subs : list chart).

Definition c_md (c : chart) : option meta := let 'Chart md _ _ := c in md.
Definition c_vals (c : chart) : vmap := let 'Chart _ v _ := c in v.
Definition c_subs (c : chart) : list chart := let 'Chart _ _ s := c in s.

(* Chart.Name(): guarded against a nil Metadata *)
Definition chart_name (c : chart) : string :=
  match c_md c with Some m => m_name m | None => EmptyString end.

Definition set_deps (m : meta) (ds : option (list (option dep))) : meta :=
  mkMeta (m_name m) (m_version m) ds.
Definition set_mname (m : meta) (n : string) : meta := mkMeta n (m_version m) (m_deps m).
Definition set_enabled (d : dep) (b : bool) : dep :=
  mkDep (d_name d) (d_version d) (d_alias d) (d_condition d) (d_tags d) b (d_imports d).
Definition set_dname (d : dep) (n : string) : dep :=
  mkDep n (d_version d) (d_alias d) (d_condition d) (d_tags d) (d_enabled d) (d_imports d).
Definition set_imports (d : dep) (l : list val) : dep :=
  mkDep (d_name d) (d_version d) (d_alias d) (d_condition d) (d_tags d) (d_enabled d) l.

Fixpoint chart_depth (c : chart) : nat :=
  match c with
  | Chart _ _ subs => S ((fix go (l : list chart) : nat :=
                            match l with [] => 0 | x :: t => Nat.max (chart_depth x) (go t) end) subs)
  end.

(* ---------- values.go ---------- *)

(* tableLookup: (table, failed) *)
Definition table_lookup (v : vmap) (k : string) : vmap * bool :=
  match mget k v with
  | None => (v, true)
  | Some (VMap m) => (m, false)          (* checked assertion *)
  | Some _ => ([], true)
  end.

Fixpoint table_walk (tb : vmap) (ps : list string) : vmap * bool :=
  match ps with
  | [] => (tb, false)
  | n :: t => let '(tb', e) := table_lookup tb n in
              if e then (tb', true) else table_walk tb' t
  end.

(* Values.Table(name): None = ErrNoTable *)
Definition table (v : vmap) (name : string) : option vmap :=
  let '(t, e) := table_walk v (split_dot name) in if e then None else Some t.

(* path[:n] *)
Definition slice_to {A : Type} (l : list A) (n : Z) : res (list A) :=
  if Z.ltb n 0 then Panic "slice bounds out of range (negative)"
  else if Z.ltb (Z.of_nat (List.length l)) n then Panic "slice bounds out of range"
  else Ok (firstn (Z.to_nat n) l).

Definition non_table (x : option val) : option val :=
  match x with
  | Some k => if is_table k then None else Some k
  | None => None
  end.

(* Values.pathValue(path []string): Ok None = ErrNoValue *)
Definition path_value_l (v : vmap) (path : list string) : res (option val) :=
  let n := Z.of_nat (List.length path) in
  if Z.eqb n 1 then
    p0 <- index path 0 ;;
    Ok (non_table (mget p0 v))
  else
    key <- index path (n - 1) ;;
    pre <- slice_to path (n - 1) ;;
    match table v (join_dot pre) with
    | None => Ok None
    | Some t => Ok (non_table (mget key t))
    end.

(* Values.PathValue(path string): the empty path is an error, reported as Ok None as well
   (every caller treats all errors alike) *)
Definition path_value (v : vmap) (path : string) : res (option val) :=
  if String.eqb path EmptyString then Ok None else path_value_l v (split_dot path).

(* ---------- metadata.go / dependency.go: the load-time gate ---------- *)
Section Validate.
  Variable meta_scalars_ok : meta -> bool.   (* apiVersion, name, version (semver), type, maintainers *)
  Variable alias_ok : string -> bool.        (* aliasNameFormat *)

  Definition dep_key (d : dep) : string :=
    if String.eqb (d_alias d) EmptyString then d_name d else d_alias d.

  (* the loop at metadata.go:138; [seen] is the key set of the local map *)
  Fixpoint validate_deps (seen : list string) (ds : list (option dep)) : bool :=
    match ds with
    | [] => true
    | None :: _ => false                                   (* dependency.Validate(): d == nil *)
    | Some d :: t =>
        if negb (String.eqb (d_alias d) EmptyString) && negb (alias_ok (d_alias d)) then false
        else if existsb (String.eqb (dep_key d)) seen then false
        else validate_deps (dep_key d :: seen) t
    end.

  (* Chart.Validate() = ch.Metadata.Validate(), nil receiver handled *)
  Definition validate_meta (md : option meta) : bool :=
    match md with
    | None => false
    | Some m => meta_scalars_ok m &&
                match m_deps m with None => true | Some ds => validate_deps [] ds end
    end.

  (* LoadFiles validates the chart and, through the recursive LoadFiles/LoadArchive call,
     every subchart; any failure aborts the load *)
  Fixpoint load_ok (c : chart) : bool :=
    match c with
    | Chart md _ subs =>
        validate_meta md &&
        (fix go (l : list chart) : bool :=
           match l with [] => true | x :: t => load_ok x && go t end) subs
    end.
End Validate.

(* ---------- dependencies.go ---------- *)
Section Deps.
  Variable compat : string -> string -> bool.                  (* IsCompatibleRange(constraint, version) *)
  Variable coalesce_values : chart -> vmap -> option vmap.     (* CoalesceValues(c, v): None = error *)
  Variable merge_values : chart -> option vmap.                (* MergeValues(c, nil) *)
  Variable merge_tables : vmap -> vmap -> vmap.                (* MergeTables(dst, src) *)
  Variable trim : string -> string.                            (* strings.TrimSpace *)

  (* processDependencyEnabled, the inner loop of `Loop:`; true = `continue Loop` *)
  Fixpoint listed (existing : chart) (reqs : list (option dep)) : res bool :=
    match reqs with
    | [] => Ok false
    | req :: t =>
        r <- deref "req.Name" req ;;
        if String.eqb (chart_name existing) (d_name r) then
          em <- deref "existing.Metadata.Version" (c_md existing) ;;
          if compat (d_version r) (m_version em) then Ok true else listed existing t
        else listed existing t
    end.

  Fixpoint unlisted (subs : list chart) (reqs : list (option dep)) : res (list chart) :=
    match subs with
    | [] => Ok []
    | e :: t =>
        b <- listed e reqs ;;
        r <- unlisted t reqs ;;
        Ok (if b then r else e :: r)
    end.

  (* getAliasDependency *)
  Fixpoint get_alias (charts : list chart) (d : dep) : res (option chart) :=
    match charts with
    | [] => Ok None
    | c :: t =>
        if negb (String.eqb (chart_name c) (d_name d)) then get_alias t d
        else
          m <- deref "c.Metadata.Version" (c_md c) ;;
          if negb (compat (d_version d) (m_version m)) then get_alias t d
          else
            let m' := if String.eqb (d_alias d) EmptyString then m else set_mname m (d_alias d) in
            Ok (Some (Chart (Some m') (c_vals c) (c_subs c)))
    end.

  (* the loop `for _, req := range c.Metadata.Dependencies { if req == nil { continue } ...` — returns the charts found and the requirement list with aliases applied *)
  Fixpoint alias_pass (subs : list chart) (reqs : list (option dep)) : res (list chart * list (option dep)) :=
    match reqs with
    | [] => Ok ([], [])
    | None :: t =>                                            (* if req == nil { continue } *)
        r <- alias_pass subs t ;;
        Ok (fst r, None :: snd r)
    | Some d :: t =>
        a <- get_alias subs d ;;
        let d' := if String.eqb (d_alias d) EmptyString then d else set_dname d (d_alias d) in
        r <- alias_pass subs t ;;
        Ok ((match a with Some c => [c] | None => [] end ++ fst r)%list, Some d' :: snd r)
    end.

  (* `for _, lr := range c.Metadata.Dependencies { lr.Enabled = true }` — no nil check *)
  Fixpoint enable_all (reqs : list (option dep)) : res (list dep) :=
    match reqs with
    | [] => Ok []
    | lr :: t =>
        d <- deref "lr.Enabled = true" lr ;;
        r <- enable_all t ;;
        Ok (set_enabled d true :: r)
    end.

  (* processDependencyTags; after the loop above every entry is known to be non-nil (a nil one has already panicked) *)
  Definition tags_pass (cvals : vmap) (reqs : list dep) : list dep :=
    match table cvals "tags" with
    | None => reqs
    | Some vt =>
        map (fun r =>
               let has_true := existsb (fun k => match mget k vt with Some (VBool true) => true | _ => false end) (d_tags r) in
               let has_false := existsb (fun k => match mget k vt with Some (VBool false) => true | _ => false end) (d_tags r) in
               if negb has_true && has_false then set_enabled r false else set_enabled r true) reqs
    end.

  (* processDependencyConditions — the loop over the comma-separated condition paths of one requirement *)
  Fixpoint cond_loop (cvals : vmap) (cpath : string) (cs : list string) (cur : bool) : res bool :=
    match cs with
    | [] => Ok cur
    | c :: t =>
        if String.eqb c EmptyString then cond_loop cvals cpath t cur
        else
          pv <- path_value cvals (cpath ++ c) ;;
          match pv with
          | Some (VBool b) => Ok b                            (* r.Enabled = bv; break *)
          | _ => cond_loop cvals cpath t cur
          end
    end.

  Fixpoint conditions_pass (cvals : vmap) (cpath : string) (reqs : list dep) : res (list dep) :=
    match reqs with
    | [] => Ok []
    | r :: t =>
        b <- cond_loop cvals cpath (split_comma (trim (d_condition r))) (d_enabled r) ;;
        rest <- conditions_pass cvals cpath t ;;
        Ok (set_enabled r b :: rest)
    end.

  Definition mem (s : string) (l : list string) : bool := existsb (String.eqb s) l.

  (* `if _, ok := rm[n.Metadata.Name]; !ok` *)
  Fixpoint keep_charts (rm : list string) (cs : list chart) : res (list chart) :=
    match cs with
    | [] => Ok []
    | n :: t =>
        m <- deref "n.Metadata.Name" (c_md n) ;;
        r <- keep_charts rm t ;;
        Ok (if mem (m_name m) rm then r else n :: r)
    end.

  (* processDependencyEnabled; [fuel] only bounds the recursion on subcharts, running out of
     it is reported as a Panic so that the theorem has to show it cannot happen *)
  Fixpoint process_enabled (fuel : nat) (c : chart) (v : vmap) (path : string) : res chart :=
    match fuel with
    | O => Panic "recursion budget exhausted"
    | S fuel' =>
        md <- deref "c.Metadata.Dependencies" (c_md c) ;;
        (* if c.Metadata.Dependencies == nil && len(c.Dependencies()) == 0 { return nil }  (since 20099bc:
           a chart without requirements still has the requirements of its subcharts processed) *)
        if (match m_deps md with None => true | Some _ => false end) && Nat.eqb (List.length (c_subs c)) 0
        then Ok c
        else
            let reqs := match m_deps md with Some r => r | None => [] end in
            extra <- unlisted (c_subs c) reqs ;;
            ap <- alias_pass (c_subs c) reqs ;;
            let chart_deps := (extra ++ fst ap)%list in
            reqs2 <- enable_all (snd ap) ;;
            let c1 := Chart (Some (set_deps md (Some (map Some reqs2)))) (c_vals c) chart_deps in
            match coalesce_values c1 v with
            | None => Err
            | Some cvals =>
                reqs4 <- conditions_pass cvals path (tags_pass cvals reqs2) ;;
                let rm := map d_name (filter (fun r => negb (d_enabled r)) reqs4) in
                cd <- keep_charts rm chart_deps ;;
                let cdm := filter (fun r => negb (mem (d_name r) rm)) reqs4 in
                cd' <- (fix go (l : list chart) : res (list chart) :=
                          match l with
                          | [] => Ok []
                          | t :: rest =>
                              tm <- deref "t.Metadata.Name" (c_md t) ;;
                              t' <- process_enabled fuel' t cvals (path ++ m_name tm ++ ".") ;;
                              rest' <- go rest ;;
                              Ok (t' :: rest')
                          end) cd ;;
                Ok (Chart (Some (set_deps md (match cdm with [] => None | _ => Some (map Some cdm) end)))
                          (c_vals c) cd')
            end
    end.

  (* ---- import-values ---- *)

  Definition iv_pair (child parent : string) : val :=
    VMap [("child", VStr child); ("parent", VStr parent)].

  (* the loop over r.ImportValues, after fix 57bc750.  Result: the rewritten list (outiv) and
     the accumulated table b. *)
  Fixpoint import_loop (cvals : vmap) (rname : string) (ivs : list val) (b : vmap) : res (list val * vmap) :=
    match ivs with
    | [] => Ok ([], b)
    | riv :: t =>
        match riv with
        | VMap iv =>
            match as_string (mget "child" iv), as_string (mget "parent" iv) with
            | Some child, Some parent =>
                let b' := match table cvals (rname ++ "." ++ child) with
                          | None => b                                   (* warn; continue *)
                          | Some vv => merge_tables b vv                (* pathToMap(parent, vv) merged in; content not modelled *)
                          end in
                r <- import_loop cvals rname t b' ;;
                Ok (iv_pair child parent :: fst r, snd r)
            | _, _ => Err                                               (* child and parent must be strings *)
            end
        | VStr s =>
            let child := "exports." ++ s in
            let b' := match table cvals (rname ++ "." ++ child) with
                      | None => b
                      | Some vm => merge_tables b vm
                      end in
            r <- import_loop cvals rname t b' ;;
            Ok (iv_pair child "." :: fst r, snd r)
        | _ => import_loop cvals rname t b                              (* no case matches: dropped *)
        end
    end.

  (* before 57bc750: child := iv["child"].(string); parent := iv["parent"].(string) *)
  Fixpoint import_loop_prefix (cvals : vmap) (rname : string) (ivs : list val) (b : vmap) : res (list val * vmap) :=
    match ivs with
    | [] => Ok ([], b)
    | riv :: t =>
        match riv with
        | VMap iv =>
            child <- cast_string (mget "child" iv) ;;
            parent <- cast_string (mget "parent" iv) ;;
            let b' := match table cvals (rname ++ "." ++ child) with
                      | None => b
                      | Some vv => merge_tables b vv
                      end in
            r <- import_loop_prefix cvals rname t b' ;;
            Ok (iv_pair child parent :: fst r, snd r)
        | VStr s =>
            let child := "exports." ++ s in
            let b' := match table cvals (rname ++ "." ++ child) with
                      | None => b
                      | Some vm => merge_tables b vm
                      end in
            r <- import_loop_prefix cvals rname t b' ;;
            Ok (iv_pair child "." :: fst r, snd r)
        | _ => import_loop_prefix cvals rname t b
        end
    end.

  Section ImportWith.
    Variable loop : vmap -> string -> list val -> vmap -> res (list val * vmap).

    (* processImportValues — for _, r := range c.Metadata.Dependencies { ... r.ImportValues ... } *)
    Fixpoint import_deps (cvals : vmap) (reqs : list (option dep)) (b : vmap) : res (list (option dep) * vmap) :=
      match reqs with
      | [] => Ok ([], b)
      | r :: t =>
          d <- deref "r.ImportValues" r ;;
          o <- loop cvals (d_name d) (d_imports d) b ;;
          rest <- import_deps cvals t (snd o) ;;
          Ok (Some (set_imports d (fst o)) :: fst rest, snd rest)
      end.

    (* processImportValues(c, merge=true) *)
    Definition process_import_values (c : chart) : res chart :=
      md <- deref "c.Metadata.Dependencies" (c_md c) ;;
      match m_deps md with
      | None => Ok c
      | Some reqs =>
          match merge_values c with
          | None => Err
          | Some cvals =>
              o <- import_deps cvals reqs [] ;;
              Ok (Chart (Some (set_deps md (Some (fst o)))) (merge_tables cvals (snd o)) (c_subs c))
          end
      end.

    (* processDependencyImportValues: subcharts first, then the chart itself *)
    Fixpoint process_dependency_import_values (c : chart) : res chart :=
      match c with
      | Chart md vals subs =>
          subs' <- (fix go (l : list chart) : res (list chart) :=
                      match l with
                      | [] => Ok []
                      | d :: t =>
                          d' <- process_dependency_import_values d ;;
                          t' <- go t ;;
                          Ok (d' :: t')
                      end) subs ;;
          process_import_values (Chart md vals subs')
      end.
  End ImportWith.

  (* ProcessDependencies(c, v) *)
  Definition process_dependencies (c : chart) (v : vmap) : res chart :=
    c' <- process_enabled (chart_depth c) c v EmptyString ;;
    process_dependency_import_values import_loop c'.

  Definition process_dependencies_prefix (c : chart) (v : vmap) : res chart :=
    c' <- process_enabled (chart_depth c) c v EmptyString ;;
    process_dependency_import_values import_loop_prefix c'.

  (* the entry point as a user reaches it: load (validate) the chart, then process it *)
  Variable meta_scalars_ok : meta -> bool.
  Variable alias_ok : string -> bool.

  Definition load_and_process (c : chart) (v : vmap) : res chart :=
    if load_ok meta_scalars_ok alias_ok c then process_dependencies c v else Err.
End Deps.

(* C17 — the second part of the signed message as TEXT: the YAML that provenance.messageBlock
   prints for the sums and that parseMessageBlock reads back.

     files:
       <name>: sha256:<hex digest>
       ...

   Misc/Prov.v takes the YAML decoder as a function [yaml_sums] and the printer as [sums_yaml].
   Here the subset of YAML that Helm itself prints is modelled on the text: a printer
   [print_sums] and a parser [parse_sums] that answers [SIn files] on texts of exactly that
   shape and [SOutside] on everything else (there the library decides).  The correspondence run
   compares [parse_sums] with sigs.k8s.io/yaml on part 1 of every decoded block (also of the
   byte-mutated ones whose signature fails), and the printed sums of every signed archive with
   [print_sums].

   The shape, conservatively (nothing in it that YAML 1.1 could read as anything but a string):
     line 0            files:
     every other line  two blanks, a key of [A-Za-z0-9._+-] whose extension is .tgz in any
                       letter case, a colon and a blank, the value sha256: followed by one or
                       more of [0-9a-f]
     keys pairwise different, at least one entry, every line ends with a line feed. *)
From Coq Require Import List String Ascii Bool.
From Helm Require Import Common.Assoc Misc.Prov.
Import ListNotations.
Local Open Scope string_scope.

(* split at line feeds: "a\nb\n" = ["a"; "b"; ""] *)
Fixpoint lines (s : string) : list string :=
  match s with
  | EmptyString => [EmptyString]
  | String c t =>
      if Ascii.eqb c LF then EmptyString :: lines t
      else match lines t with
           | l :: ls => String c l :: ls
           | [] => [String c EmptyString]
           end
  end.

Definition in_range (lo hi : nat) (c : ascii) : bool :=
  let n := nat_of_ascii c in Nat.leb lo n && Nat.leb n hi.

Definition key_char (c : ascii) : bool :=
  in_range 48 57 c || in_range 65 90 c || in_range 97 122 c
  || Ascii.eqb c "."%char || Ascii.eqb c "_"%char || Ascii.eqb c "+"%char || Ascii.eqb c "-"%char.

Definition hex_char (c : ascii) : bool := in_range 48 57 c || in_range 97 102 c.

Fixpoint all_chars (p : ascii -> bool) (s : string) : bool :=
  match s with EmptyString => true | String c t => p c && all_chars p t end.

(* a file name the printer leaves unquoted and the parser reads back as that string *)
Definition name_ok (k : string) : bool := all_chars key_char k && is_tgz k.

Fixpoint drop (n : nat) (s : string) : string :=
  match n, s with
  | O, _ => s
  | S _, EmptyString => EmptyString
  | S k, String _ t => drop k t
  end.

(* "sha256:" and at least one hex digit *)
Definition value_ok (v : string) : bool :=
  String.prefix "sha256:" v &&
  match drop 7 v with
  | EmptyString => false
  | d => all_chars hex_char d
  end.

(* longest prefix of key characters, and the rest *)
Fixpoint span_key (s : string) : string * string :=
  match s with
  | EmptyString => (EmptyString, EmptyString)
  | String c t => if key_char c then let '(k, r) := span_key t in (String c k, r) else (EmptyString, s)
  end.

Definition parse_line (l : string) : option (string * string) :=
  match l with
  | String " " (String " " rest) =>
      let '(k, after) := span_key rest in
      match after with
      | String ":" (String " " v) => if name_ok k && value_ok v then Some (k, v) else None
      | _ => None
      end
  | _ => None
  end.

(* all lines but the last, which must be empty (the text ends with a line feed) *)
Fixpoint parse_body (ls : list string) : option (list (string * string)) :=
  match ls with
  | [] => None
  | [last] => if String.eqb last "" then Some [] else None
  | l :: t =>
      match parse_line l, parse_body t with
      | Some kv, Some r => Some (kv :: r)
      | _, _ => None
      end
  end.

Fixpoint keys_distinct (l : list (string * string)) : bool :=
  match l with
  | [] => true
  | (k, _) :: t => match aget k t with Some _ => false | None => keys_distinct t end
  end.

Inductive sums_parse := SIn (files : list (string * string)) | SOutside.

Definition parse_sums (p : string) : sums_parse :=
  match lines p with
  | first :: rest =>
      if String.eqb first "files:" then
        match parse_body rest with
        | Some (e :: r) => if keys_distinct (e :: r) then SIn (e :: r) else SOutside
        | _ => SOutside
        end
      else SOutside
  | [] => SOutside
  end.

Definition LFs : string := String LF EmptyString.

Definition print_line (kv : string * string) : string := "  " ++ fst kv ++ ": " ++ snd kv ++ LFs.

Fixpoint print_body (l : list (string * string)) : string :=
  match l with [] => "" | kv :: t => print_line kv ++ print_body t end.

(* yaml.Marshal(&SumCollection{Files: l}) for names and values of the shape above *)
Definition print_sums_list (l : list (string * string)) : string := "files:" ++ LFs ++ print_body l.

(* what messageBlock prints: one file *)
Definition print_sums (name v : string) : string := print_sums_list [(name, v)].

(* the yaml decoder as the model uses it where the text is inside the subset *)
Definition agrees_on_subset (yaml_sums : string -> option (list (string * string))) : Prop :=
  forall p files, parse_sums p = SIn files -> yaml_sums p = Some files.

(* C20 — two small pieces of Helm-owned glue with index expressions, in the panic monad:
     pkg/plugin/plugin.go      validatePluginData :258, getPlatformCommand :157, PrepareCommands :199,
                               Plugin.PrepareCommand :237   (cmdParts[0], cmdParts[1:], p.Metadata.X)
     pkg/provenance/sign.go    parseMessageBlock :365       (parts[0], parts[1])
   Third-party code is a Section variable (strings.EqualFold, strings.Split, os.ExpandEnv, the
   plugin-name regexp, yaml.Unmarshal verdicts, bytes.Split).  Definitions only. *)
From Coq Require Import List String Ascii Bool ZArith.
From Helm Require Import Misc.Panics.
Import ListNotations.
Local Open Scope string_scope.

(* l[n:] *)
Definition slice_from_s {A : Type} (l : list A) (n : Z) : res (list A) :=
  if Z.ltb n 0 then Panic "slice bounds out of range (negative)"
  else if Z.ltb (Z.of_nat (List.length l)) n then Panic "slice bounds out of range"
  else Ok (skipn (Z.to_nat n) l).

Definition len0 (s : string) : bool := match s with EmptyString => true | _ => false end.

(* ---------- plugin ---------- *)
Record pcmd := mkPcmd { pc_os : string; pc_arch : string; pc_command : string; pc_args : list string }.

Record pmeta := mkPmeta {
  pm_name : string;
  pm_command : string;
  pm_platform : list pcmd;
  pm_ignore_flags : bool;
  pm_hooks : nat;                 (* len(Hooks) *)
  pm_platform_hooks : nat         (* len(PlatformHooks) *)
}.

Definition empty_pmeta : pmeta := mkPmeta "" "" [] false 0 0.

Section Plugin.
  Variable eq_fold : string -> string -> bool.          (* strings.EqualFold *)
  Variable goos goarch : string.                        (* runtime.GOOS, runtime.GOARCH *)
  Variable expand : string -> string.                   (* os.ExpandEnv *)
  Variable split_space : string -> list string.         (* strings.Split(s, " ") *)
  Variable name_ok : string -> bool.                    (* validPluginName.MatchString *)

  (* validatePluginData on what yaml.UnmarshalStrict left in plug.Metadata (nil for an empty or
     null document) *)
  Definition validate_plugin (md : option pmeta) : res pmeta :=
    let m := match md with Some m => m | None => empty_pmeta end in     (* plug.Metadata = &Metadata{} *)
    if negb (name_ok (pm_name m)) then Err
    else if negb (Nat.eqb (List.length (pm_platform m)) 0) && negb (len0 (pm_command m)) then Err
    else if negb (Nat.eqb (pm_platform_hooks m) 0) && negb (Nat.eqb (pm_hooks m) 0) then Err
    else Ok m.

  (* getPlatformCommand: the loop with its four variables *)
  Fixpoint gpc (cmds : list pcmd) (command args : list string) (found found_os : bool)
    : list string * list string :=
    match cmds with
    | [] => (command, args)
    | c :: t =>
        if eq_fold (pc_os c) goos && eq_fold (pc_arch c) goarch then (split_space (pc_command c), pc_args c)
        else if (negb (len0 (pc_os c)) && negb (eq_fold (pc_os c) goos)) || negb (len0 (pc_arch c))
        then gpc t command args found found_os
        else if negb found_os && negb (len0 (pc_os c)) && eq_fold (pc_os c) goos
        then gpc t (split_space (pc_command c)) (pc_args c) true true
        else if negb found then gpc t (split_space (pc_command c)) (pc_args c) true found_os
        else gpc t command args found found_os
    end.

  (* PrepareCommands; [guard] = false drops `len(cmdParts) == 0 ||` *)
  Definition prepare_commands (guard : bool) (cmds : list pcmd) (expand_args : bool) (extra : list string)
    : res (string * list string) :=
    let '(parts, args) := gpc cmds [] [] false false in
    if guard && Nat.eqb (List.length parts) 0 then Err
    else
      p0 <- index parts 0 ;;                                             (* cmdParts[0] *)
      if len0 p0 then Err
      else
        rest <- (if Nat.ltb 1 (List.length parts) then slice_from_s parts 1 else Ok []) ;;   (* cmdParts[1:] *)
        let ex := fun s => if expand_args then expand s else s in
        Ok (expand p0, (map ex rest ++ map ex args ++ extra)%list).

  (* Plugin.PrepareCommand on a plugin whose Metadata may be nil *)
  Definition prepare_command (guard : bool) (md : option pmeta) (extra : list string) : res (string * list string) :=
    m <- deref "p.Metadata.IgnoreFlags" md ;;
    let extra_in := if pm_ignore_flags m then [] else extra in
    let cmds := if Nat.eqb (List.length (pm_platform m)) 0 && negb (len0 (pm_command m))
                then [mkPcmd "" "" (pm_command m) []] else pm_platform m in
    prepare_commands guard cmds true extra_in.

  (* LoadDir (after the YAML decoder) followed by PrepareCommand *)
  Definition load_and_prepare (md : option pmeta) (extra : list string) : res (string * list string) :=
    m <- validate_plugin md ;;
    prepare_command true (Some m) extra.
End Plugin.

(* ---------- provenance: parseMessageBlock ---------- *)
Section MessageBlock.
  Variable B : Type.                                     (* []byte *)
  Variable unmarshal_md unmarshal_sums : B -> bool.      (* yaml.Unmarshal into Metadata / SumCollection: ok? *)

  (* parts = bytes.Split(data, "\n...\n"); [min_parts] = 2 as the code stands *)
  Definition parse_message_block (min_parts : Z) (parts : list B) : res unit :=
    if Z.ltb (Z.of_nat (List.length parts)) min_parts then Err
    else
      p0 <- index parts 0 ;;
      if negb (unmarshal_md p0) then Err
      else
        p1 <- index parts 1 ;;
        if unmarshal_sums p1 then Ok tt else Err.
End MessageBlock.

(* bytes.Split(s, sep) for a non-empty separator: non-overlapping, left to right *)
Fixpoint split_sep_go (sep : string) (skip : nat) (cur : string) (s : string) : list string :=
  match s with
  | EmptyString => [cur]
  | String c t =>
      match skip with
      | S k => split_sep_go sep k cur t
      | O => if String.prefix sep s then cur :: split_sep_go sep (String.length sep - 1) EmptyString t
             else split_sep_go sep 0 (cur ++ String c EmptyString) t
      end
  end.
Definition split_sep (sep s : string) : list string := split_sep_go sep 0 EmptyString s.

Definition split_space_s (s : string) : list string := split_sep " " s.

(* strings.EqualFold on ASCII *)
Definition lower_c (c : ascii) : ascii :=
  let n := nat_of_ascii c in if Nat.leb 65 n && Nat.leb n 90 then ascii_of_nat (n + 32) else c.
Fixpoint eq_fold_ascii (a b : string) : bool :=
  match a, b with
  | EmptyString, EmptyString => true
  | String x s, String y t => Ascii.eqb (lower_c x) (lower_c y) && eq_fold_ascii s t
  | _, _ => false
  end.

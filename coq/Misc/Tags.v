(* The tag list of an OCI repository as Helm builds it, and the version queries on top of it.
   Definitions only (proofs: TagsProofs.v).

   pkg/registry/client.go   Client.Tags (773-814): the callback oras-go invokes once per page
                            of /v2/<repo>/tags/list collects, from ALL pages, the tags that
                            semver.StrictNewVersion accepts after "_" has been turned back into
                            "+"; the collection is sorted once, newest first
                            (sort.Sort(sort.Reverse(semver.Collection))), and rendered with
                            Version.String().
                            Client.ValidateReference (836-900), the branch for a reference
                            without tag and digest: an explicit version (semver.NewVersion
                            succeeds) is taken as it is, otherwise Tags + "no tags" error +
                            GetTagMatchingVersionOrConstraint (Index.tag_match).
   internal/resolver/resolver.go  Resolve, the OCI branch (134-196) for one dependency.
   semver v3.3.0 version.go StrictNewVersion (68-136), String (227-239), Compare (403-431).

   Quirks of StrictNewVersion kept: no leading "v", exactly three numeric segments without
   leading zeros; validatePrerelease / validateMetadata accept EMPTY identifiers, so
   "1.2.3-", "1.2.3+", "1.2.3-a..b" are strict versions ("1.2.3-" and "1.2.3+" are then the
   release 1.2.3 and are rendered "1.2.3"); NewVersion refuses the renderings that still have
   an empty identifier, so tag matching skips those tags (an identical string still matches).

   Version.String() prints the numbers with %d; a strict version's segments have no leading
   zeros and fit in 64 bits, so the digits printed are the digits read: [sstring] reuses them.

   Compare on strict versions is restated on keys ([skey], [scompare]): comparePrerelease pads
   the shorter identifier list with "" and comparePrePart puts "" below every identifier, which
   is the lexicographic order on the lists without their trailing empty identifiers, "" being
   the least identifier ([embed]: "" -> 0, the number n -> n+1, other strings unchanged).  The
   literal text is [go_compare_prerelease] / [go_scompare]; TagsProofs.v proves the two equal. *)
From Coq Require Import List String Ascii Bool NArith.
From Helm Require Import Misc.Semver Misc.Index.
Import ListNotations.
Local Open Scope string_scope.

(* strings.ReplaceAll(tag, "_", "+") *)
Fixpoint replace_underscore (s : string) : string :=
  match s with
  | EmptyString => EmptyString
  | String c t => String (if Ascii.eqb c "_" then "+"%char else c) (replace_underscore t)
  end.

(* ---- semver.StrictNewVersion ---- *)

(* the digit strings as read, their values, pre-release and metadata text *)
Record sversion := mkSV {
  s_d1 : string; s_d2 : string; s_d3 : string;
  s_major : N; s_minor : N; s_patch : N;
  s_pre : string; s_meta : string
}.

Definition leading_zero (p : string) : bool :=            (* len(p) > 1 && p[0] == '0' *)
  match p with String "0" (String _ _) => true | _ => false end.

(* validatePrerelease, one part: digits only -> no leading zero; otherwise allowed characters.
   The empty part is "digits only". *)
Definition strict_pre_part_ok (p : string) : bool :=
  if str_forall is_digit p then negb (leading_zero p) else str_forall is_allowed p.

Definition strict_valid_pre (p : string) : bool := forallb strict_pre_part_ok (split_on "." p).
Definition strict_valid_meta (m : string) : bool := forallb (str_forall is_allowed) (split_on "." m).

Definition num_segment_ok (p : string) : bool := str_forall is_digit p && negb (leading_zero p).

Definition strict_parse (v : string) : option sversion :=
  if str_is_empty v then None                                   (* ErrEmptyString *)
  else
    match cut_at "." v with                                     (* strings.SplitN(v, ".", 3) *)
    | (p0, Some r1) =>
        match cut_at "." r1 with
        | (p1, Some p2) =>
            let '(x, meta) := match cut_at "+" p2 with          (* build metadata *)
                              | (x, Some m) => (x, m)
                              | (x, None) => (x, EmptyString)
                              end in
            if negb (strict_valid_meta meta) then None
            else
              let '(n2, pre) := match cut_at "-" x with         (* pre-release *)
                                | (n, Some p) => (n, p)
                                | (n, None) => (n, EmptyString)
                                end in
              if negb (strict_valid_pre pre) then None
              else if negb (num_segment_ok p0 && num_segment_ok p1 && num_segment_ok n2) then None
              else match parse_uint p0, parse_uint p1, parse_uint n2 with
                   | Some a, Some b, Some c => Some (mkSV p0 p1 n2 a b c pre meta)
                   | _, _, _ => None
                   end
        | (_, None) => None                                     (* len(parts) != 3 *)
        end
    | (_, None) => None
    end.

(* Version.String() *)
Definition sstring (s : sversion) : string :=
  s_d1 s ++ "." ++ s_d2 s ++ "." ++ s_d3 s ++
  (if str_is_empty (s_pre s) then "" else "-" ++ s_pre s) ++
  (if str_is_empty (s_meta s) then "" else "+" ++ s_meta s).

(* ---- Version.Compare on strict versions ---- *)

(* comparePrePart as it is: -1 / 0 / 1 as Lt / Eq / Gt *)
Definition go_pre_part (s o : string) : comparison :=
  if String.eqb s o then Eq
  else if str_is_empty s then Lt                   (* o is not empty here *)
  else if str_is_empty o then Gt
  else match parse_uint o, parse_uint s with
       | None, None => match String.compare s o with Gt => Gt | _ => Lt end
       | None, Some _ => Lt                        (* o is a string and s is a number *)
       | Some _, None => Gt
       | Some oi, Some si => if (oi <? si)%N then Gt else Lt
       end.

(* the loop of comparePrerelease over the longer of the two lists, "" for a missing part *)
Fixpoint go_pre_loop (s o : list string) : comparison :=
  match s with
  | [] => (fix rest (o : list string) : comparison :=
             match o with
             | [] => Eq
             | b :: o' => lex (go_pre_part EmptyString b) (rest o')
             end) o
  | a :: s' =>
      match o with
      | [] => lex (go_pre_part a EmptyString) (go_pre_loop s' [])
      | b :: o' => lex (go_pre_part a b) (go_pre_loop s' o')
      end
  end.

Definition go_compare_prerelease (v o : string) : comparison :=
  go_pre_loop (split_on "." v) (split_on "." o).

(* Version.Compare as it is written, on strict versions *)
Definition go_scompare (a b : sversion) : comparison :=
  lex (s_major a ?= s_major b)%N
    (lex (s_minor a ?= s_minor b)%N
       (lex (s_patch a ?= s_patch b)%N
          (if str_is_empty (s_pre a) && str_is_empty (s_pre b) then Eq
           else if str_is_empty (s_pre a) then Gt
           else if str_is_empty (s_pre b) then Lt
           else go_compare_prerelease (s_pre a) (s_pre b)))).

(* keys *)
Fixpoint strip_trailing_empty (l : list string) : list string :=
  match l with
  | [] => []
  | p :: t => match strip_trailing_empty t with
              | [] => if str_is_empty p then [] else [p]
              | t' => p :: t'
              end
  end.

Definition embed (p : string) : ident :=
  if str_is_empty p then INum 0
  else match parse_uint p with
       | Some n => INum (n + 1)
       | None => IStr p
       end.

(* None = no pre-release text at all: a release *)
Definition spre_key (s : sversion) : option (list ident) :=
  if str_is_empty (s_pre s) then None
  else Some (map embed (strip_trailing_empty (split_on "." (s_pre s)))).

Definition skey (s : sversion) : N * N * N * option (list ident) :=
  (s_major s, s_minor s, s_patch s, spre_key s).

Definition opre_compare (p q : option (list ident)) : comparison :=
  match p, q with
  | None, None => Eq
  | None, Some _ => Gt
  | Some _, None => Lt
  | Some a, Some b => pre_lex a b
  end.

Definition skey_compare (a b : N * N * N * option (list ident)) : comparison :=
  let '(a1, a2, a3, ap) := a in
  let '(b1, b2, b3, bp) := b in
  lex (a1 ?= b1)%N (lex (a2 ?= b2)%N (lex (a3 ?= b3)%N (opre_compare ap bp))).

Definition scompare (a b : sversion) : comparison := skey_compare (skey a) (skey b).

Definition sless (a b : sversion) : bool :=               (* Collection.Less *)
  match scompare a b with Lt => true | _ => false end.

(* a concrete sort.Sort(sort.Reverse(..)): insertion sort *)
Fixpoint sinsert_desc (e : sversion) (l : list sversion) : list sversion :=
  match l with
  | [] => [e]
  | x :: t => if sless e x then x :: sinsert_desc e t else e :: l
  end.

Fixpoint sisort (l : list sversion) : list sversion :=
  match l with
  | [] => []
  | e :: t => sinsert_desc e (sisort t)
  end.

(* ---- Client.Tags ---- *)

Definition tag_version (t : string) : list sversion :=
  match strict_parse (replace_underscore t) with
  | Some s => [s]
  | None => []                                  (* not a semver tag: dropped *)
  end.

(* the strict versions of all pages, in the order the callback sees them *)
Definition collected (pages : list (list string)) : list sversion :=
  flat_map tag_version (List.concat pages).

Section WithSort.
  Variable sort : list sversion -> list sversion.

  Definition client_tags (pages : list (list string)) : list string :=
    map sstring (sort (collected pages)).
End WithSort.

(* ---- Client.ValidateReference, reference without tag and digest ---- *)

Section WithConstraints.
  Variable cvalid : string -> bool.
  Variable sat : string -> version -> bool.

  Inductive vr_result := VROk (tag : string) | VRErrNoTags | VRErrConstraint | VRErrNotFound.

  (* the part after Tags returned *)
  Definition validate_reference_tags (tags : list string) (ver : string) : vr_result :=
    if is_valid_version ver then VROk ver              (* explicit version: no listing *)
    else match tags with
         | [] => VRErrNoTags
         | _ => match tag_match cvalid sat tags ver with
                | TOk t => VROk t
                | TErrConstraint => VRErrConstraint
                | TErrNotFound => VRErrNotFound
                end
         end.

  Definition validate_reference (sort : list sversion -> list sversion)
             (pages : list (list string)) (ver : string) : vr_result :=
    validate_reference_tags (client_tags sort pages) ver.

  (* Resolver.Resolve, one dependency kept in an OCI repository (internal/resolver/resolver.go
     134-198; the surrounding loop is Index.resolve_loop): an unparsable range fails at once;
     an explicit version stands for the whole tag list and [found] stays true; otherwise
     Client.Tags, and [found] is reset once the tags were retrieved (fix ac0e5ef): the first tag
     NewVersion reads and the range accepts is locked (no identical-string pass here), none
     is reported as missing. *)
  Definition resolve_oci_tags (tags : list string) (ver : string) : dep_result :=
    if negb (cvalid ver) then DFail
    else if is_valid_version ver then
           match find (tag_sat sat ver) [ver] with
           | Some t => DLocked t                          (* v.Original() *)
           | None => DLocked ver                          (* found is true: the initial Version *)
           end
    else match find (tag_sat sat ver) tags with
         | Some t => DLocked t
         | None => DMissing
         end.

  (* the branch before fix ac0e5ef: [found] started as true and only the index branch reset
     it, so nothing was ever reported as missing here — when no tag was in range the lock kept
     the initial Version, the text of the range itself *)
  Definition resolve_oci_tags_unrepaired (tags : list string) (ver : string) : dep_result :=
    if negb (cvalid ver) then DFail
    else
      let vs := if is_valid_version ver then [ver] else tags in
      match find (tag_sat sat ver) vs with
      | Some t => DLocked t
      | None => DLocked ver
      end.

  Definition resolve_oci (sort : list sversion -> list sversion)
             (pages : list (list string)) (ver : string) : dep_result :=
    resolve_oci_tags (client_tags sort pages) ver.

  Definition resolve_oci_unrepaired (sort : list sversion -> list sversion)
             (pages : list (list string)) (ver : string) : dep_result :=
    resolve_oci_tags_unrepaired (client_tags sort pages) ver.
End WithConstraints.

(* ---- specification vocabulary (used by the statements in Props/C18.v) ---- *)

Definition all_nonempty (s : string) : bool :=
  forallb (fun p => negb (str_is_empty p)) (split_on "." s).

(* no empty identifier: the versions NewVersion can read back *)
Definition sregular (s : sversion) : bool :=
  (str_is_empty (s_pre s) || all_nonempty (s_pre s)) &&
  (str_is_empty (s_meta s) || all_nonempty (s_meta s)).

(* the version NewVersion reads from the rendering of a regular strict version *)
Definition to_version (s : sversion) : version :=
  mkVersion (s_major s) (s_minor s) (s_patch s)
            (if str_is_empty (s_pre s) then [] else idents (s_pre s))
            (s_meta s) (sstring s).

(* the tags of all pages, as Client.Tags renders them, in listing order *)
Definition all_tags (pages : list (list string)) : list string := map sstring (collected pages).

(* two answers are the same answer: the same error, the same tag, or two tags of one
   precedence class (equal up to build metadata) *)
Definition tag_equiv (r r' : tag_result) : Prop :=
  match r, r' with
  | TOk t, TOk t' => t = t' \/ (tge t t' /\ tge t' t)
  | TErrConstraint, TErrConstraint => True
  | TErrNotFound, TErrNotFound => True
  | _, _ => False
  end.


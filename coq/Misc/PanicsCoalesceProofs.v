(* Proofs about Misc/PanicsCoalesce.v: the panic-monad transcription of coalesce.go computes
   exactly what the shared value model Values/Coalesce.v computes (Ok of its result, Err for its
   None) — for every chart tree, every values tree, merge or coalesce — hence none of the
   unchecked type assertions of coalesce.go can fire.  Without the `!istable(c)` branch of
   coalesceDeps the assertion behind it does. *)
From Coq Require Import List String Bool.
From Helm Require Import Values.Tree Values.TreeLemmas Values.Coalesce Misc.Panics Misc.PanicsCoalesce.
Import ListNotations.
Local Open Scope string_scope.

Lemma ct_p_agrees : forall (merge : bool) (srcv : val) (dst : vmap),
  ct_p merge dst srcv = Ok (coalesce_tables_v merge dst srcv).
Proof.
  intros merge srcv. induction srcv using val_ind'; intro dst; try reflexivity.
  simpl. revert dst. induction H as [|[key v] t Hv _ IH]; intro dst; [reflexivity|].
  simpl in Hv. simpl.
  destruct (mget key dst) as [dv|]; [|cbn [bind]; apply IH].
  destruct (negb merge && is_null dv); [cbn [bind]; apply IH|].
  destruct v; cbn [is_table bind]; try apply IH;
    destruct dv; cbn [is_table bind]; try apply IH.
  rewrite Hv. cbn [bind]. apply IH.
Qed.

Lemma coalesce_tables_p_agrees merge dst src :
  coalesce_tables_p merge dst src = Ok (coalesce_tables merge dst src).
Proof. apply ct_p_agrees. Qed.

Lemma cv_step_p_agrees merge deps key dflt v :
  cv_step_p merge deps key dflt v = Ok (cv_step merge deps key dflt v).
Proof.
  unfold cv_step_p, cv_step. destruct (mget key v) as [value|]; [|reflexivity].
  destruct (is_null value && negb merge); [reflexivity|].
  destruct value; try reflexivity. destruct dflt; try reflexivity.
  simpl. rewrite coalesce_tables_p_agrees. reflexivity.
Qed.

Lemma cv_loop_p_agrees merge deps : forall vc v,
  cv_loop_p merge deps vc v = Ok (cv_loop merge deps vc v).
Proof.
  induction vc as [|[key dflt] t IH]; intro v; [reflexivity|].
  simpl. rewrite cv_step_p_agrees. simpl. apply IH.
Qed.

Lemma cg_step_p_agrees key v dg : cg_step_p key v dg = Ok (cg_step key v dg).
Proof.
  unfold cg_step_p, cg_step. destruct v; simpl;
    try (destruct (mget key dg) as [[]|]; reflexivity).
  destruct (mget key dg) as [destv|]; [|reflexivity].
  destruct destv; try reflexivity. simpl. rewrite coalesce_tables_p_agrees. reflexivity.
Qed.

Lemma cg_loop_p_agrees : forall sg dg, cg_loop_p sg dg = Ok (cg_loop sg dg).
Proof.
  induction sg as [|[key v] t IH]; intro dg; [reflexivity|].
  simpl. rewrite cg_step_p_agrees. simpl. apply IH.
Qed.

Lemma coalesce_globals_p_agrees dest src :
  coalesce_globals_p dest src = Ok (coalesce_globals dest src).
Proof.
  unfold coalesce_globals_p, coalesce_globals.
  destruct (mget global_key dest) as [[]|]; simpl;
    destruct (mget global_key src) as [[]|]; simpl; try reflexivity;
    rewrite cg_loop_p_agrees; reflexivity.
Qed.

Theorem coalesce_p_agrees (merge : bool) : forall (c : chart) (dest : vmap),
  coalesce_p true merge c dest = opt_res (coalesce merge c dest).
Proof.
  fix IH 1. intros [name vals deps] dest. simpl. rewrite cv_loop_p_agrees. simpl.
  generalize (cv_loop merge deps vals dest). clear dest.
  induction deps as [|sub t IHt]; intro d; [reflexivity|].
  destruct (mget (cname sub) d) as [c0|] eqn:G.
  - destruct c0; simpl; try reflexivity.
    rewrite G. simpl. rewrite coalesce_globals_p_agrees. simpl. rewrite IH.
    destruct (coalesce merge sub (coalesce_globals m d)); simpl; [apply IHt|reflexivity].
  - simpl. rewrite mget_mset_eq. simpl. rewrite coalesce_globals_p_agrees. simpl. rewrite IH.
    destruct (coalesce merge sub _); simpl; [apply IHt|reflexivity].
Qed.

Theorem coalesce_p_no_panic merge c dest : no_panic (coalesce_p true merge c dest).
Proof. rewrite coalesce_p_agrees. destruct (coalesce merge c dest); exact I. Qed.

Theorem coalesce_tables_p_no_panic merge dst src : no_panic (coalesce_tables_p merge dst src).
Proof. rewrite coalesce_tables_p_agrees. exact I. Qed.

Lemma trim_nil_p_no_panic : forall v, no_panic (trim_nil_p v).
Proof.
  assert (S : forall v, exists r, trim_nil_p v = Ok r).
  { induction v using val_ind'; try (eexists; reflexivity).
    cbn -[cast_map is_null is_table bind].
    assert (L : exists r, (fix go (m : list (string * val)) : res vmap :=
              match m with
              | [] => Ok []
              | (k, x) :: t =>
                  rest <- go t ;;
                  if is_null x then Ok rest
                  else if is_table x then
                         _ <- cast_map (Some x) ;; x' <- trim_nil_p x ;; Ok ((k, x') :: rest)
                       else Ok ((k, x) :: rest)
              end) m = Ok r).
    { induction H as [|[k x] t Hx _ IHt]; [eexists; reflexivity|].
      destruct IHt as [rest Er]. cbn -[cast_map is_null is_table bind trim_nil_p]. rewrite Er.
      cbn [bind]. simpl in Hx. destruct Hx as [x' Ex].
      destruct x; cbn [is_null is_table cast_map bind]; try (eexists; reflexivity).
      rewrite Ex. cbn [bind]. eexists; reflexivity. }
    destruct L as [r Er]. rewrite Er. cbn [bind]. eexists; reflexivity. }
  intro v. destruct (S v) as [r ->]. exact I.
Qed.

(* what the `!istable(c)` branch of coalesceDeps is there for: without it a scalar under a
   subchart's name reaches dv.(map[string]interface{}) *)
Lemma coalesce_unguarded_panics :
  is_panic (coalesce_p false false (mkChart "top" [] [mkChart "sub" [] []]) [("sub", VStr "x")]) = true /\
  coalesce_p true false (mkChart "top" [] [mkChart "sub" [] []]) [("sub", VStr "x")] = Err.
Proof. split; reflexivity. Qed.

(* Proofs about Misc/ProvTrust.v: the trusted keys are the KeyRing and nothing else; with
   --verify every caller selects VerifyAlways, whatever else is set, and fails closed. *)
From Coq Require Import List String Ascii Bool.
From Helm Require Import Common.Assoc Misc.Prov Misc.ProvProofs Misc.ProvTrust.
Import ListNotations.
Local Open Scope string_scope.

Section TrustProofs.
  Variables keyring key sigbody signer : Type.
  Variable clearsign_decode : string -> option (string * sigbody).
  Variable check_sig : keyring -> string -> sigbody -> option signer.
  Variable sha256 : string -> string.
  Variable yaml_meta_ok : string -> bool.
  Variable yaml_sums : string -> option (list (string * string)).
  Variable ring_entities : keyring -> list (key * list string).

  Notation signatory := (signatory keyring key).
  Notation signatory_verify := (signatory_verify keyring key sigbody signer clearsign_decode check_sig sha256 yaml_meta_ok yaml_sums).
  Notation verify := (verify keyring sigbody signer clearsign_decode check_sig sha256 yaml_meta_ok yaml_sums).
  Notation verify_chart := (verify_chart keyring sigbody signer clearsign_decode check_sig sha256 yaml_meta_ok yaml_sums).
  Notation new_from_keyring := (new_from_keyring keyring key ring_entities).
  Notation new_from_files := (new_from_files keyring key).

  (* Signatory.Verify is Prov.verify on the signatory's KeyRing *)
  Lemma signatory_verify_keyring (s : signatory) prov name archive :
    signatory_verify s prov name archive = verify (s_keyring s) prov name archive.
  Proof. reflexivity. Qed.

  (* whether (and with which signer and hash) verification succeeds does not depend on the
     signatory's Entity *)
  Lemma trust_is_the_keyring_only (s : signatory) (e' : option key) prov name archive :
    signatory_verify s prov name archive = signatory_verify (mkSignatory e' (s_keyring s)) prov name archive.
  Proof. reflexivity. Qed.

  Lemma trust_same_ring (s s' : signatory) prov name archive :
    s_keyring s = s_keyring s' ->
    signatory_verify s prov name archive = signatory_verify s' prov name archive.
  Proof. intro H. rewrite !signatory_verify_keyring, H. reflexivity. Qed.

  (* the iff of C17_verify_iff for a signatory with an arbitrary entity *)
  Lemma signatory_verify_iff (s : signatory) prov name archive by_ h :
    signatory_verify s prov name archive = VOk by_ h <->
    exists msg sg p0 p1 rest files,
      clearsign_decode prov = Some (msg, sg) /\
      check_sig (s_keyring s) (canon msg) sg = Some by_ /\
      split_sep DOTS msg = p0 :: p1 :: rest /\
      yaml_meta_ok p0 = true /\
      yaml_sums p1 = Some files /\
      aget name files = Some ("sha256:" ++ sha256 archive) /\
      h = "sha256:" ++ sha256 archive.
  Proof. rewrite signatory_verify_keyring. apply verify_iff. Qed.

  (* CheckDetachedSignature answers with an entity of the key list it was given: an accepted
     chart was signed by a key of the KeyRing, also when the signatory carries another Entity *)
  Lemma signer_in_keyring (ring_has : keyring -> signer -> Prop) :
    (forall kr bytes sg by_, check_sig kr bytes sg = Some by_ -> ring_has kr by_) ->
    forall (s : signatory) prov name archive by_ h,
      signatory_verify s prov name archive = VOk by_ h -> ring_has (s_keyring s) by_.
  Proof.
    intros Hc s prov name archive by_ h H.
    apply signatory_verify_iff in H as (msg & sg & _ & _ & _ & _ & _ & Hs & _).
    apply Hc in Hs. exact Hs.
  Qed.

  (* the constructors put the keyring file, and nothing of the key file, into KeyRing *)
  Lemma new_from_files_ring keyfile ringfile s :
    new_from_files keyfile ringfile = Some s ->
    exists e, keyfile = Some e /\ s_entity s = Some e /\ ringfile = Some (s_keyring s).
  Proof.
    unfold ProvTrust.new_from_files. destruct keyfile as [e|]; [|discriminate].
    destruct ringfile as [r|]; [|discriminate]. intro H. injection H as <-. exists e. auto.
  Qed.

  Lemma scan_names_entity id e names cand vague :
    match scan_names key id e names cand vague with
    | LExact _ k => k = e
    | LScan _ c _ => c = cand \/ c = Some e
    end.
  Proof.
    revert cand vague. induction names as [|n t IH]; intros cand vague; simpl; [auto|].
    destruct (String.eqb n id); [reflexivity|].
    destruct (contains id n).
    - specialize (IH (Some e) (match cand with Some _ => true | None => vague end)).
      destruct (scan_names key id e t (Some e) _); [exact IH|]. destruct IH; auto.
    - apply IH.
  Qed.

  Lemma scan_ring_entity id ring cand vague :
    match scan_ring key id ring cand vague with
    | LExact _ k => exists names, In (k, names) ring
    | LScan _ c _ => c = cand \/ exists k names, c = Some k /\ In (k, names) ring
    end.
  Proof.
    revert cand vague. induction ring as [|[e names] t IH]; intros cand vague; simpl; [auto|].
    pose proof (scan_names_entity id e names cand vague) as Hn.
    destruct (scan_names key id e names cand vague) as [k|c v].
    - subst k. exists names. auto.
    - specialize (IH c v). destruct (scan_ring key id t c v) as [k|c' v'].
      + destruct IH as [nm Hin]. exists nm. auto.
      + destruct IH as [->|(k & nm & -> & Hin)].
        * destruct Hn as [->| ->]; [auto|]. right. exists e, names. auto.
        * right. exists k, nm. auto.
  Qed.

  (* NewFromKeyring: KeyRing is the file's keyring; an Entity, if any, is one of its entities *)
  Lemma new_from_keyring_ring ringfile id s :
    new_from_keyring ringfile id = Some s ->
    ringfile = Some (s_keyring s) /\
    (id = "" -> s_entity s = None) /\
    (forall k, s_entity s = Some k -> exists names, In (k, names) (ring_entities (s_keyring s))).
  Proof.
    unfold ProvTrust.new_from_keyring. destruct ringfile as [r|]; [|discriminate].
    destruct (String.eqb id "") eqn:Eid.
    - intro H. injection H as <-. simpl. repeat split; auto. discriminate.
    - pose proof (scan_ring_entity id (ring_entities r) None false) as Hs.
      destruct (scan_ring key id (ring_entities r) None false) as [k|c v].
      + intro H. injection H as <-. simpl. repeat split.
        * intros ->. discriminate.
        * intros k' E. injection E as <-. exact Hs.
      + destruct v; [discriminate|]. intro H. injection H as <-. simpl. repeat split.
        * intros ->. discriminate.
        * intros k' E. destruct Hs as [->|(k & nm & -> & Hin)]; [discriminate|].
          injection E as <-. exists nm. exact Hin.
  Qed.

  (* downloader.VerifyChart verifies with NewFromKeyring(keyring, ""): no Entity *)
  Lemma verify_chart_signatory (kr : option keyring) pv name a :
    is_tgz name = true ->
    verify_chart false kr (Some pv) name a =
    match new_from_keyring kr "" with
    | Some s => signatory_verify s pv name a
    | None => VErr EKeyring
    end.
  Proof.
    intro Ht. unfold Prov.verify_chart, ProvTrust.new_from_keyring. rewrite Ht. simpl.
    destruct kr; reflexivity.
  Qed.
End TrustProofs.

(* ------------------------------------------------------------------ the entity-first variant *)
(* a concrete instance: keys are numbers, a keyring is a list of keys, the signature body is the
   signing key, a signature checks iff its key is in the list *)
Definition tv_decode (p : string) : option (string * nat) :=
  if String.eqb p "PROV" then Some (ex_msg, 7) else None.
Definition tv_check (kr : list nat) (_ : string) (sg : nat) : option nat :=
  if existsb (Nat.eqb sg) kr then Some sg else None.

(* signatory {Entity: 7, KeyRing: [8]}: the keyring-only rule rejects a chart signed by 7, the
   entity-first variant accepts it *)
Lemma entity_trusting_variant_refuted :
  signatory_verify (list nat) nat nat nat tv_decode tv_check (fun a => a) (fun _ => true) ex_sums
                   (mkSignatory (Some 7) [8]) "PROV" "a-1.tgz" "d1" = VErr ESig /\
  signatory_verify_entity_first (list nat) nat nat nat tv_decode tv_check (fun a => a) (fun _ => true) ex_sums cons
                   (mkSignatory (Some 7) [8]) "PROV" "a-1.tgz" "d1" = VOk 7 "sha256:d1".
Proof. vm_compute. split; reflexivity. Qed.

Example signatory_example_accepts :
  signatory_verify (list nat) nat nat nat tv_decode tv_check (fun a => a) (fun _ => true) ex_sums
                   (mkSignatory (Some 8) [7; 8]) "PROV" "a-1.tgz" "d1" = VOk 7 "sha256:d1" /\
  signatory_verify (list nat) nat nat nat tv_decode tv_check (fun a => a) (fun _ => true) ex_sums
                   (mkSignatory None [7]) "PROV" "a-1.tgz" "d1" = VOk 7 "sha256:d1".
Proof. vm_compute. split; reflexivity. Qed.

(* NewFromKeyring on a two-entity ring: exact identity, unique substring, vague substring,
   no match (no error, no entity), empty id *)
Definition tv_ring : list (nat * list string) := [(7, ["Alice <alice@example.test>"]); (8, ["Bob <bob@example.test>"])].
Example new_from_keyring_examples :
  let nfk := new_from_keyring (list (nat * list string)) nat (fun r => r) (Some tv_ring) in
  nfk "Bob <bob@example.test>" = Some (mkSignatory (Some 8) tv_ring) /\
  nfk "Alice" = Some (mkSignatory (Some 7) tv_ring) /\
  nfk "example.test" = None /\
  nfk "Carol" = Some (mkSignatory None tv_ring) /\
  nfk "" = Some (mkSignatory None tv_ring).
Proof. vm_compute. repeat split. Qed.

(* ------------------------------------------------------------------ strategy selection *)
(* --verify selects VerifyAlways for every caller, whatever --prov says; and only --verify does *)
Lemma verify_flag_selects_always_b :
  forallb (fun c => forallb (fun f =>
     Bool.eqb (f_verify f) (strategy_eqb (caller_strategy c f) VerifyAlways)) all_flags) all_callers = true.
Proof. vm_compute. reflexivity. Qed.

Lemma all_flags_complete f : In f all_flags.
Proof. destruct f as [[|] [|]]; simpl; auto. Qed.

Lemma all_callers_complete c : In c all_callers.
Proof. destruct c; simpl; auto. Qed.

Lemma all_strategies_complete st : In st all_strategies.
Proof. destruct st; simpl; auto. Qed.

Lemma strategy_eqb_eq a b : strategy_eqb a b = true <-> a = b.
Proof. destruct a, b; simpl; split; intro H; try reflexivity; discriminate. Qed.

Lemma verify_flag_selects_always c f :
  caller_strategy c f = VerifyAlways <-> f_verify f = true.
Proof.
  pose proof verify_flag_selects_always_b as H.
  rewrite forallb_forall in H. specialize (H c (all_callers_complete c)).
  rewrite forallb_forall in H. specialize (H f (all_flags_complete f)).
  apply eqb_prop in H. rewrite <- strategy_eqb_eq. rewrite H. reflexivity.
Qed.

(* without --verify nothing is ever verified by Pull / LocateChart / the dependency commands
   (VerifyNever or VerifyLater): no caller selects VerifyIfPossible *)
Lemma no_caller_selects_if_possible c f : caller_strategy c f <> VerifyIfPossible.
Proof. destruct c, f as [[|] [|]]; discriminate. Qed.

Section CallerProofs.
  Variables keyring sigbody signer : Type.
  Variable clearsign_decode : string -> option (string * sigbody).
  Variable check_sig : keyring -> string -> sigbody -> option signer.
  Variable sha256 : string -> string.
  Variable yaml_meta_ok : string -> bool.
  Variable yaml_sums : string -> option (list (string * string)).

  Notation verify_chart := (verify_chart keyring sigbody signer clearsign_decode check_sig sha256 yaml_meta_ok yaml_sums).
  Notation caller_download := (caller_download keyring sigbody signer clearsign_decode check_sig sha256 yaml_meta_ok yaml_sums).

  (* verification required (--verify, whatever else is set): the caller's download succeeds
     only if archive and provenance file were fetched and VerifyChart accepted; the returned
     FileHash is the verified one.  Hence a failing verification is an error. *)
  Lemma verify_flag_fails_closed c f kr chart provf name h :
    f_verify f = true ->
    caller_download c f kr chart provf name = DOk h ->
    exists a pv by_ hh, chart = Some a /\ provf = Some pv /\
      verify_chart false kr (Some pv) name a = VOk by_ hh /\ h = Some hh.
  Proof.
    intros Hf. unfold ProvTrust.caller_download.
    rewrite (proj2 (verify_flag_selects_always c f) Hf). apply always_fails_closed.
  Qed.

  Lemma verify_flag_failure_is_error c f kr a provf name :
    f_verify f = true ->
    (provf = None \/ exists pv e, provf = Some pv /\ verify_chart false kr (Some pv) name a = VErr e) ->
    caller_download c f kr (Some a) provf name = DErr.
  Proof.
    intros Hf H. unfold ProvTrust.caller_download.
    rewrite (proj2 (verify_flag_selects_always c f) Hf). apply always_error_iff. exact H.
  Qed.

  (* without --verify the callers never fail because of a provenance file *)
  Lemma no_verify_flag_never_verifies c f kr a provf name :
    f_verify f = false -> caller_download c f kr (Some a) provf name = DOk None.
  Proof.
    intros Hf. unfold ProvTrust.caller_download.
    destruct c, f as [v p]; simpl in Hf; subst v; destruct p; simpl;
      unfold download_to; destruct provf; reflexivity.
  Qed.

  Lemma verify_flag_fails_closed_all c f (kr : option keyring) (chart provf : option string) (name : string) :
    (f_verify f = true ->
       (forall h, caller_download c f kr chart provf name = DOk h ->
          exists a pv by_ hh, chart = Some a /\ provf = Some pv /\
            verify_chart false kr (Some pv) name a = VOk by_ hh /\ h = Some hh) /\
       (forall a, chart = Some a ->
          (provf = None \/ exists pv e, provf = Some pv /\ verify_chart false kr (Some pv) name a = VErr e) ->
          caller_download c f kr chart provf name = DErr)) /\
    (f_verify f = false -> forall a, chart = Some a -> caller_download c f kr chart provf name = DOk None).
  Proof.
    split.
    - intro Hf. split.
      + intro h. apply verify_flag_fails_closed. exact Hf.
      + intros a -> H. apply verify_flag_failure_is_error; assumption.
    - intros Hf a ->. apply no_verify_flag_never_verifies. exact Hf.
  Qed.
End CallerProofs.

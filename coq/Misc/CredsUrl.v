(* C19 — an executable transcription of net/url.Parse (go1.24, src/net/url/url.go) for the
   fields the credential scoping reads: Scheme, User, Host, Path.

   Grammar: every byte string WITHOUT a '%' byte ([in_grammar]).  Without '%' the three
   calls of unescape (host, userinfo, path) return their argument or an error, so the
   parser below is exact on the whole grammar — errors included: control bytes, a colon in
   the first segment of a relative reference, a missing ']', a non-numeric port, a byte a
   host may not contain, an invalid userinfo.  Outside the grammar [go_parse] answers None
   and nothing is claimed.

     Parse          : cut at the first '#', then parse(u, viaRequest = false)
     parse          : control bytes; "*"; getScheme + ToLower; cut at the first '?';
                      opaque / first-segment-colon; "//" authority up to the first '/'
     parseAuthority : LastIndex '@'; parseHost; validUserinfo; Cut ':'
     parseHost      : '[' ... LastIndex ']' + validOptionalPort | LastIndex ':' +
                      validOptionalPort; every ASCII byte must satisfy !shouldEscape(c, encodeHost)
     splitHostPort  : URL.Hostname / URL.Port

   URL.String() is NOT transcribed: [go_parse] takes it as a function [str_of] (the harness
   supplies the real results as a table, as before). *)
From Coq Require Import List String Ascii Bool Arith NArith.
From Helm Require Import Misc.Creds.
Import ListNotations.
Local Open Scope string_scope.

(* ------------------------------------------------------------------ bytes *)
Definition bn (c : ascii) : N := N_of_ascii c.
Definition in_range (lo hi : N) (c : ascii) : bool := (N.leb lo (bn c)) && (N.leb (bn c) hi).
Definition is_lower (c : ascii) : bool := in_range 97 122 c.
Definition is_upper (c : ascii) : bool := in_range 65 90 c.
Definition is_digit (c : ascii) : bool := in_range 48 57 c.
Definition is_alpha (c : ascii) : bool := is_lower c || is_upper c.
Definition is_ctl (c : ascii) : bool := N.ltb (bn c) 32 || N.eqb (bn c) 127.
Definition is_ascii7 (c : ascii) : bool := N.ltb (bn c) 128.

Definition to_lower (c : ascii) : ascii := if is_upper c then ascii_of_N (bn c + 32) else c.
Fixpoint lower (s : string) : string :=
  match s with EmptyString => EmptyString | String c t => String (to_lower c) (lower t) end.

Fixpoint mem_byte (c : ascii) (s : string) : bool :=
  match s with EmptyString => false | String a t => Ascii.eqb a c || mem_byte c t end.

Fixpoint all_bytes (p : ascii -> bool) (s : string) : bool :=
  match s with EmptyString => true | String a t => p a && all_bytes p t end.

Definition has_ctl (s : string) : bool := negb (all_bytes (fun c => negb (is_ctl c)) s).

(* the grammar: no '%' *)
Definition in_grammar (s : string) : bool := negb (mem_byte "%" s).

(* strings.Cut(s, c) for one byte: (before, Some after) at the first c, (s, None) without *)
Fixpoint cut (c : ascii) (s : string) : string * option string :=
  match s with
  | EmptyString => (EmptyString, None)
  | String a t => if Ascii.eqb a c then (EmptyString, Some t)
                  else let '(x, y) := cut c t in (String a x, y)
  end.

(* strings.LastIndex(s, c): Some (s[:i], s[i+1:]) at the last c *)
Fixpoint cut_last (c : ascii) (s : string) : option (string * string) :=
  match s with
  | EmptyString => None
  | String a t =>
      match cut_last c t with
      | Some (x, y) => Some (String a x, y)
      | None => if Ascii.eqb a c then Some (EmptyString, t) else None
      end
  end.

Definition starts_with (p s : string) : bool := String.prefix p s.

(* ------------------------------------------------------------------ getScheme *)
Inductive gs_res := GsErr | GsNone | GsSome (scheme rest : string).

Definition scheme_tail_byte (c : ascii) : bool :=
  is_digit c || Ascii.eqb c "+" || Ascii.eqb c "-" || Ascii.eqb c ".".

Fixpoint get_scheme_from (first : bool) (s : string) : gs_res :=
  match s with
  | EmptyString => GsNone
  | String c t =>
      if is_alpha c || (scheme_tail_byte c && negb first) then
        match get_scheme_from false t with
        | GsSome sc r => GsSome (String c sc) r
        | x => x
        end
      else if scheme_tail_byte c then GsNone            (* i == 0 *)
      else if Ascii.eqb c ":" then (if first then GsErr else GsSome EmptyString t)
      else GsNone
  end.

(* ------------------------------------------------------------------ parseHost *)
(* validOptionalPort: "" or ":" digits *)
Definition valid_optional_port (p : string) : bool :=
  match p with
  | EmptyString => true
  | String c t => Ascii.eqb c ":" && all_bytes is_digit t
  end.

(* !shouldEscape(c, encodeHost) for an ASCII byte; bytes >= 0x80 pass *)
Definition host_byte_ok (c : ascii) : bool :=
  negb (is_ascii7 c)
  || is_alpha c || is_digit c
  || mem_byte c "!$&'()*+,;=:[]<>"""
  || mem_byte c "-_.~".

Definition parse_host (h : string) : option string :=
  let port_ok :=
    if starts_with "[" h then
      match cut_last "]" h with
      | None => false
      | Some (_, colon_port) => valid_optional_port colon_port
      end
    else
      match cut_last ":" h with
      | None => true
      | Some (_, digits) => all_bytes is_digit digits
      end in
  if port_ok && all_bytes host_byte_ok h then Some h else None.

(* ------------------------------------------------------------------ parseAuthority *)
Definition userinfo_byte_ok (c : ascii) : bool :=
  is_alpha c || is_digit c || mem_byte c "-._:~!$&'()*+,;=%@".

(* result: userinfo as spelled ("user" or "user:password"), host *)
Definition parse_authority (a : string) : option (option string * string) :=
  match cut_last "@" a with
  | None => match parse_host a with Some h => Some (None, h) | None => None end
  | Some (ui, h0) =>
      match parse_host h0 with
      | None => None
      | Some h => if all_bytes userinfo_byte_ok ui then Some (Some ui, h) else None
      end
  end.

(* ------------------------------------------------------------------ parse *)
Inductive split_res := SErr | SOk (scheme : string) (user : option string) (host path : string).

Definition go_split (raw : string) : split_res :=
  let u := fst (cut "#" raw) in
  if has_ctl u then SErr
  else if String.eqb u "*" then SOk "" None "" "*"
  else
    match get_scheme_from true u with
    | GsErr => SErr
    | gs =>
        let '(scheme, rest0) := match gs with GsSome sc r => (lower sc, r) | _ => (EmptyString, u) end in
        let rest := fst (cut "?" rest0) in
        if negb (starts_with "/" rest) && negb (String.eqb scheme "") then SOk scheme None "" ""   (* opaque *)
        else if negb (starts_with "/" rest) && mem_byte ":" (fst (cut "/" rest)) then SErr
        else if (negb (String.eqb scheme "") || negb (starts_with "///" rest)) && starts_with "//" rest then
          let a := substring 2 (String.length rest - 2) rest in
          let '(authority, after) := cut "/" a in
          let path := match after with Some p => String "/" p | None => EmptyString end in
          match parse_authority authority with
          | None => SErr
          | Some (us, h) => SOk scheme us h path
          end
        else SOk scheme None "" rest
    end.

(* net/url.Parse on the grammar; URL.String() from the table [str_of] *)
Definition go_parse (str_of : string -> string) (s : string) : option url :=
  if in_grammar s then
    match go_split s with
    | SOk sc us h p => Some (mkUrl sc h p us (str_of s))
    | SErr => None
    end
  else None.

(* ------------------------------------------------------------------ splitHostPort *)
Definition drop_brackets (h : string) : string :=
  if starts_with "[" h && (match cut_last "]" h with Some (_, EmptyString) => true | _ => false end)
  then substring 1 (String.length h - 2) h else h.

(* (URL.Hostname(), URL.Port(), "a colon was split off") *)
Definition split_host_port (hp : string) : string * string * bool :=
  match cut_last ":" hp with
  | Some (h, p) => if all_bytes is_digit p then (drop_brackets h, p, true) else (drop_brackets hp, EmptyString, false)
  | None => (drop_brackets hp, EmptyString, false)
  end.

Definition hostname (hp : string) : string := fst (fst (split_host_port hp)).
Definition port_of (hp : string) : string := snd (fst (split_host_port hp)).

(* ------------------------------------------------------------------ the origin the property means *)
Fixpoint strip_zeros (p : string) : string :=
  match p with
  | String "0" t => match t with EmptyString => p | _ => strip_zeros t end
  | _ => p
  end.

Definition default_port (scheme : string) : string :=
  if String.eqb scheme "http" then "80" else if String.eqb scheme "https" then "443" else "".

(* scheme (already lower case), host name with ASCII case folded, effective port as a number *)
Definition origin_of (u : url) : string * string * string :=
  let p := strip_zeros (port_of (u_host u)) in
  (u_scheme u, lower (hostname (u_host u)), if String.eqb p "" then default_port (u_scheme u) else p).

Definition origin_eqb (a b : string * string * string) : bool :=
  let '(s1, h1, p1) := a in let '(s2, h2, p2) := b in
  String.eqb s1 s2 && String.eqb h1 h2 && String.eqb p1 p2.

(* ------------------------------------------------------------------ the URL grammar, generatively
   scheme "://" [userinfo "@"] host rest, every component as url.Parse accepts it:
     scheme   = ALPHA *( ALPHA / DIGIT / "+" / "-" / "." )            (any case)
     userinfo = bytes validUserinfo allows, without '%'               (may contain '@' and ':')
     host     = what parseHost accepts: reg-name / IPv4 / "[" IPv6 "]", optional ":" digits
                (upper case, trailing dot, empty port "host:" included)
     rest     = "" or "/"... or "?"... or "#"..., no control byte before '#', no '%'      *)
Definition scheme_byte (c : ascii) : bool := is_alpha c || scheme_tail_byte c.
Definition valid_scheme (s : string) : bool :=
  match s with String c t => is_alpha c && all_bytes scheme_byte t | EmptyString => false end.
Definition valid_userinfo (ui : option string) : bool :=
  match ui with Some u => all_bytes userinfo_byte_ok u && negb (mem_byte "%" u) | None => true end.
Definition valid_host (h : string) : bool := match parse_host h with Some _ => true | None => false end.
Definition valid_rest (r : string) : bool :=
  (match r with EmptyString => true | String c _ => mem_byte c "/?#" end)
  && negb (has_ctl (fst (cut "#" r))) && negb (mem_byte "%" r).

Definition build_url (sch : string) (ui : option string) (h rest : string) : string :=
  sch ++ "://" ++ (match ui with Some u => u ++ "@" | None => "" end) ++ h ++ rest.

(* URL.Path of such a URL: the rest up to the first '?' or '#' *)
Definition path_of_rest (r : string) : string := fst (cut "?" (fst (cut "#" r))).

(* Proofs about Misc/Index.v: the load loop keeps exactly the valid entries, any sorted
   permutation of them is newest-first, and the first-match queries over such a list return
   a best match. *)
From Coq Require Import List String Ascii Bool Arith NArith Lia Sorting.Permutation Sorting.Sorted.
From Helm Require Import Misc.Semver Misc.SemverProofs Misc.Index.
Import ListNotations.
Local Open Scope string_scope.
Local Open Scope list_scope.

(* ---------- generic list facts ---------- *)

Lemma nth_error_app_mid {A} (p : list A) c q : nth_error (p ++ c :: q) (List.length p) = Some c.
Proof. induction p; simpl; auto. Qed.

Lemma remove_at_app_mid {A} (p : list A) c q : remove_at (List.length p) (p ++ c :: q) = p ++ q.
Proof. induction p; simpl; auto. now rewrite IHp. Qed.

Lemma set_at_app_mid {A} (p : list A) c d q : set_at (List.length p) d (p ++ c :: q) = p ++ d :: q.
Proof. induction p; simpl; auto. now rewrite IHp. Qed.

Lemma StronglySorted_weaken {A} (R R' : A -> A -> Prop) (P : A -> Prop) l :
  (forall a b, P a -> P b -> R a b -> R' a b) ->
  Forall P l -> StronglySorted R l -> StronglySorted R' l.
Proof.
  intros HR HP HS. induction HS as [|a l HS IH Hall]; constructor.
  - apply IH. now inversion HP.
  - inversion HP; subst. rewrite Forall_forall in *. intros x Hx. apply HR; auto.
Qed.

Lemma find_sorted_max {A} (R : A -> A -> Prop) (p : A -> bool) l e :
  StronglySorted R l -> (forall x, In x l -> p x = true -> R x x) -> find p l = Some e ->
  In e l /\ p e = true /\ forall x, In x l -> p x = true -> R e x.
Proof.
  intros HS. induction HS as [|a l HS IH Hall]; intros Hrefl Hf; simpl in *; [discriminate|].
  destruct (p a) eqn:Pa.
  - injection Hf as <-. repeat split; auto.
    intros x [<-|Hx] Px; [apply Hrefl; auto|].
    rewrite Forall_forall in Hall. auto.
  - destruct IH as (Hin & Pe & Hmax); auto.
    repeat split; auto.
    intros x [<-|Hx] Px; [congruence|auto].
Qed.

Lemma find_filter_imp {A} (p q : A -> bool) l :
  (forall x, p x = true -> q x = true) -> find p (filter q l) = find p l.
Proof.
  intros H. induction l as [|a l IH]; simpl; auto.
  destruct (q a) eqn:Qa; simpl.
  - destruct (p a); auto.
  - destruct (p a) eqn:Pa; auto. apply H in Pa. congruence.
Qed.

Lemma find_eqb_string v l t : find (String.eqb v) l = Some t -> t = v /\ In v l.
Proof.
  intros H. apply find_some in H. destruct H as [Hin He]. apply String.eqb_eq in He. subst. auto.
Qed.

Lemma find_eqb_string_none v l : find (String.eqb v) l = None -> ~ In v l.
Proof. intros H Hin. apply (find_none _ _ H) in Hin. now rewrite String.eqb_refl in Hin. Qed.

(* ---------- Validate ---------- *)

Lemma sanitize_idem s : sanitize (sanitize s) = sanitize s.
Proof.
  induction s as [|c s IH]; simpl; auto.
  destruct (128 <=? N_of_ascii c)%N eqn:E1.
  { simpl. now rewrite E1, IH. }
  destruct ((9 <=? N_of_ascii c)%N && (N_of_ascii c <=? 13)%N || (N_of_ascii c =? 32)%N) eqn:E2.
  { simpl. now rewrite IH. }
  destruct ((32 <=? N_of_ascii c)%N && (N_of_ascii c <=? 126)%N) eqn:E3; auto.
  simpl. now rewrite E1, E2, E3, IH.
Qed.

Lemma validate_some e e' :
  validate e = Some e' ->
  e' = set_name e (sanitize (ename e)) /\ is_valid_version (eversion e) = true.
Proof.
  unfold validate.
  destruct (String.eqb (eapi e) ""); [discriminate|].
  destruct (String.eqb (sanitize (ename e)) ""); [discriminate|].
  destruct (negb (String.eqb (sanitize (ename e)) (filepath_base (sanitize (ename e))))); [discriminate|].
  destruct (String.eqb (eversion e) ""); [discriminate|].
  destruct (is_valid_version (eversion e)); simpl; [|discriminate].
  destruct (negb (valid_type (etype e))); [discriminate|].
  intros H. injection H as <-. auto.
Qed.

(* an accepted entry is a fixed point of the validator: "contains only valid entries" *)
Lemma validate_fixed e e' : validate e = Some e' -> validate e' = Some e'.
Proof.
  intros H. destruct (validate_some _ _ H) as [-> _].
  unfold validate in *. destruct e as [n v a t u d]; simpl in *.
  rewrite sanitize_idem.
  destruct (String.eqb a ""); [discriminate|].
  destruct (String.eqb (sanitize n) ""); [discriminate|].
  destruct (negb (String.eqb (sanitize n) (filepath_base (sanitize n)))); [discriminate|].
  destruct (String.eqb v ""); [discriminate|].
  destruct (negb (is_valid_version v)); [discriminate|].
  destruct (negb (valid_type t)); [discriminate|].
  reflexivity.
Qed.

Definition parses (e : entry) : Prop := parse_version (eversion e) <> None.

Lemma validate_fixed_parses e : validate e = Some e -> parses e.
Proof.
  intros H. destruct (validate_some _ _ H) as [_ Hv]. unfold parses, is_valid_version in *.
  destruct (parse_version (eversion e)); congruence.
Qed.

Lemma keep_valid c e : In e (keep c) -> validate e = Some e.
Proof.
  unfold keep. destruct (with_defaults c) as [e0|]; simpl; [|tauto].
  destruct (validate e0) as [e1|] eqn:V; simpl; [|tauto].
  intros [<-|[]]. eapply validate_fixed; eauto.
Qed.

Lemma valid_entries_valid cvs : Forall (fun e => validate e = Some e) (valid_entries cvs).
Proof.
  apply Forall_forall. intros e H. unfold valid_entries in H. apply in_flat_map in H.
  destruct H as (c & _ & H). eapply keep_valid; eauto.
Qed.

(* ---------- the load loop ---------- *)

Lemma load_loop_spec pre post :
  load_loop (List.length pre) (pre ++ post) = map CFull (valid_entries pre) ++ post.
Proof.
  revert post. induction pre as [|c pre IH] using rev_ind; intros post; simpl; auto.
  rewrite app_length; simpl. rewrite Nat.add_1_r. simpl.
  rewrite <- app_assoc; simpl.
  rewrite nth_error_app_mid.
  unfold valid_entries. rewrite flat_map_app; simpl. rewrite app_nil_r.
  fold (valid_entries pre). unfold keep.
  destruct (with_defaults c) as [e|].
  - destruct (validate e) as [e'|].
    + rewrite set_at_app_mid, IH, map_app, <- app_assoc. reflexivity.
    + rewrite remove_at_app_mid, IH, app_nil_r. reflexivity.
  - rewrite remove_at_app_mid, IH, app_nil_r. reflexivity.
Qed.

Lemma all_full_map l : all_full (map CFull l) = Some l.
Proof. induction l; simpl; auto. now rewrite IHl. Qed.

Lemma load_versions_spec sort cvs : load_versions sort cvs = Some (sort (valid_entries cvs)).
Proof.
  unfold load_versions.
  rewrite <- (app_nil_r cvs) at 2. rewrite load_loop_spec, app_nil_r, all_full_map. reflexivity.
Qed.

(* ---------- sorted permutations are newest first ---------- *)

Lemma go_less_false_ege a b : parses a -> parses b -> go_less a b = false -> ege a b.
Proof.
  unfold parses, go_less, ege. intros Ha Hb.
  destruct (parse_version (eversion a)) as [va|]; [|congruence].
  destruct (parse_version (eversion b)) as [vb|]; [|congruence].
  intros H. exists va, vb. repeat split; auto. now apply vless_false_ge.
Qed.

Section Sorted.
  Variable sort : list entry -> list entry.
  Hypothesis sort_perm : forall l, Permutation l (sort l).
  Hypothesis sort_sorted :
    forall l, Forall (fun e => parse_version (eversion e) <> None) l ->
              StronglySorted (fun a b => go_less a b = false) (sort l).

  Lemma load_versions_wf cvs :
    exists vs, load_versions sort cvs = Some vs /\
               Permutation vs (valid_entries cvs) /\
               StronglySorted ege vs /\
               Forall (fun e => validate e = Some e) vs.
  Proof.
    exists (sort (valid_entries cvs)). split; [apply load_versions_spec|].
    assert (Hv : Forall (fun e => validate e = Some e) (sort (valid_entries cvs))).
    { apply Forall_forall. intros e He.
      apply (Permutation_in _ (Permutation_sym (sort_perm _))) in He.
      pose proof (valid_entries_valid cvs) as H. rewrite Forall_forall in H. auto. }
    repeat split; auto.
    - apply Permutation_sym, sort_perm.
    - apply StronglySorted_weaken with (R := fun a b => go_less a b = false) (P := parses).
      + intros a b Ha Hb. now apply go_less_false_ege.
      + eapply Forall_impl; [|exact Hv]. intros e. apply validate_fixed_parses.
      + apply sort_sorted. eapply Forall_impl; [|apply valid_entries_valid].
        intros e. apply validate_fixed_parses.
  Qed.

  Definition chart_wf (x : string * list cv) (y : string * list entry) : Prop :=
    fst x = fst y /\
    Permutation (snd y) (valid_entries (snd x)) /\
    StronglySorted ege (snd y) /\
    Forall (fun e => validate e = Some e) (snd y).

  Lemma load_all_wf es : exists idx, load_all sort es = Some idx /\ Forall2 chart_wf es idx.
  Proof.
    induction es as [|[n cvs] es IH]; simpl.
    - exists []. split; auto.
    - destruct (load_versions_wf cvs) as (vs & -> & Hp & Hs & Hv).
      destruct IH as (idx & -> & Hall).
      exists ((n, vs) :: idx). split; auto. constructor; auto. repeat split; auto.
  Qed.

  Lemma load_index_wf api es :
    exists idx,
      load_index sort (IFParsed api es) = (if String.eqb api "" then LErr ENoAPI else LOk idx) /\
      Forall2 chart_wf es idx.
  Proof.
    destruct (load_all_wf es) as (idx & H & Hall). exists idx. simpl. rewrite H. auto.
  Qed.

  (* every list in a loaded index is newest-first and made of valid entries *)
  Lemma loaded_assoc_wf api es idx name vs :
    load_index sort (IFParsed api es) = LOk idx -> assoc name idx = Some vs ->
    StronglySorted ege vs /\ Forall (fun e => validate e = Some e) vs /\
    exists cvs, In (name, cvs) es /\ Permutation vs (valid_entries cvs).
  Proof.
    destruct (load_index_wf api es) as (idx' & H & Hall). rewrite H.
    destruct (String.eqb api ""); [discriminate|]. intros E. injection E as <-.
    clear H. induction Hall as [|[n cvs] [n' vs'] es idx' (Hn & Hp & Hs & Hv) Hall IH]; simpl; [discriminate|].
    simpl in *. subst n'.
    destruct (String.eqb name n) eqn:En.
    - intros E. injection E as <-. apply String.eqb_eq in En. subst. repeat split; auto. exists cvs. auto.
    - intros E. destruct (IH E) as (A & B & cvs' & C & D). repeat split; auto. exists cvs'. auto.
  Qed.
End Sorted.

(* ---------- the insertion sort meets the two hypotheses ---------- *)

Lemma insert_desc_perm e l : Permutation (e :: l) (insert_desc e l).
Proof.
  induction l as [|x l IH]; simpl; auto.
  destruct (go_less e x); auto.
  eapply perm_trans; [apply perm_swap|]. now constructor.
Qed.

Lemma isort_perm l : Permutation l (isort l).
Proof.
  induction l as [|e l IH]; simpl; auto.
  eapply perm_trans; [|apply insert_desc_perm]. now constructor.
Qed.

Lemma go_less_parsed a b va vb :
  parse_version (eversion a) = Some va -> parse_version (eversion b) = Some vb ->
  go_less a b = vless va vb.
Proof. unfold go_less. now intros -> ->. Qed.

Lemma go_less_ge_trans a b c :
  parses a -> parses b -> parses c ->
  go_less a b = false -> go_less b c = false -> go_less a c = false.
Proof.
  unfold parses. intros Ha Hb Hc.
  destruct (parse_version (eversion a)) as [va|] eqn:Ea; [|congruence].
  destruct (parse_version (eversion b)) as [vb|] eqn:Eb; [|congruence].
  destruct (parse_version (eversion c)) as [vc|] eqn:Ec; [|congruence].
  rewrite (go_less_parsed _ _ _ _ Ea Eb), (go_less_parsed _ _ _ _ Eb Ec), (go_less_parsed _ _ _ _ Ea Ec).
  rewrite !vless_false_ge. apply vcompare_ge_trans.
Qed.

Lemma go_less_asym a b : parses a -> parses b -> go_less a b = true -> go_less b a = false.
Proof.
  unfold parses. intros Ha Hb.
  destruct (parse_version (eversion a)) as [va|] eqn:Ea; [|congruence].
  destruct (parse_version (eversion b)) as [vb|] eqn:Eb; [|congruence].
  rewrite (go_less_parsed _ _ _ _ Ea Eb), (go_less_parsed _ _ _ _ Eb Ea).
  unfold vless. rewrite (vcompare_antisym va vb). destruct (vcompare va vb); simpl; congruence.
Qed.

Lemma insert_desc_sorted e l :
  parses e -> Forall parses l ->
  StronglySorted (fun a b => go_less a b = false) l ->
  StronglySorted (fun a b => go_less a b = false) (insert_desc e l).
Proof.
  intros He Hl HS. induction HS as [|x l HS IH Hall]; simpl.
  - repeat constructor.
  - inversion Hl as [|? ? Hx Hl']; subst.
    destruct (go_less e x) eqn:E.
    + constructor; auto.
      apply Forall_forall. intros y Hy.
      apply (Permutation_in _ (Permutation_sym (insert_desc_perm e l))) in Hy.
      destruct Hy as [<-|Hy].
      * now apply go_less_asym.
      * rewrite Forall_forall in Hall. auto.
    + constructor; [constructor; auto|].
      constructor; auto.
      apply Forall_forall. intros y Hy.
      rewrite Forall_forall in Hall, Hl'.
      apply go_less_ge_trans with x; auto.
Qed.

Lemma isort_sorted l :
  Forall (fun e => parse_version (eversion e) <> None) l ->
  StronglySorted (fun a b => go_less a b = false) (isort l).
Proof.
  induction l as [|e l IH]; intros H; simpl; [constructor|].
  inversion H; subst. apply insert_desc_sorted; auto.
  apply Forall_forall. intros x Hx.
  apply (Permutation_in _ (Permutation_sym (isort_perm l))) in Hx.
  rewrite Forall_forall in H3. now apply H3.
Qed.

(* ---------- first match over a newest-first list is a best match ---------- *)

Lemma ege_refl e : parses e -> ege e e.
Proof.
  unfold parses, ege. destruct (parse_version (eversion e)) as [v|]; [|congruence].
  intros _. exists v, v. repeat split; auto. rewrite vcompare_refl. congruence.
Qed.

Section Queries.
  Variable cvalid : string -> bool.
  Variable sat : string -> version -> bool.

  Lemma entry_sat_iff c e :
    entry_sat sat c e = true <-> exists v, parse_version (eversion e) = Some v /\ sat c v = true.
  Proof.
    unfold entry_sat. destruct (parse_version (eversion e)) as [v|].
    - split; [intros H; exists v; auto|]. intros (v' & E & H). injection E as <-. auto.
    - split; [discriminate|]. intros (v' & E & _). discriminate.
  Qed.

  Lemma first_sat_best c vs :
    StronglySorted ege vs ->
    match find (entry_sat sat c) vs with
    | Some e => best_entry (sat c) vs e
    | None => none_entry (sat c) vs
    end.
  Proof.
    intros HS. destruct (find (entry_sat sat c) vs) as [e|] eqn:F.
    - destruct (find_sorted_max ege (entry_sat sat c) vs e HS) as (Hin & Pe & Hmax); auto.
      { intros x _ Px. apply entry_sat_iff in Px. destruct Px as (v & E & _).
        apply ege_refl. unfold parses. congruence. }
      split; auto. split; [now apply entry_sat_iff|].
      intros e' v Hin' E S. apply Hmax; auto. apply entry_sat_iff. eauto.
    - intros e v Hin E. pose proof (find_none _ _ F _ Hin) as H.
      unfold entry_sat in H. now rewrite E in H.
  Qed.

  (* Get on a newest-first list *)
  Lemma get_best idx name ver vs :
    assoc name idx = Some vs -> StronglySorted ege vs ->
    (vs = [] -> get cvalid sat idx name ver = GErrNoVersion) /\
    (vs <> [] ->
       (ver = "" ->
          (exists e, get cvalid sat idx name ver = GOk e /\ best_entry (sat "*") vs e) \/
          (get cvalid sat idx name ver = GErrNotFound /\ none_entry (sat "*") vs)) /\
       (ver <> "" -> cvalid ver = false -> get cvalid sat idx name ver = GErrConstraint) /\
       (ver <> "" -> cvalid ver = true ->
          (forall e0, In e0 vs -> eversion e0 = ver ->
             exists e, get cvalid sat idx name ver = GOk e /\ In e vs /\ eversion e = ver) /\
          ((forall e0, In e0 vs -> eversion e0 <> ver) ->
             (exists e, get cvalid sat idx name ver = GOk e /\ best_entry (sat ver) vs e) \/
             (get cvalid sat idx name ver = GErrNotFound /\ none_entry (sat ver) vs)))).
  Proof.
    intros HA HS. unfold get. rewrite HA. split.
    { intros ->. reflexivity. }
    intros Hne. destruct vs as [|e1 vs']; [congruence|]. set (vs := e1 :: vs') in *.
    split; [|split].
    - intros ->. simpl String.eqb. cbv iota.
      pose proof (first_sat_best "*" vs HS) as H.
      destruct (find (entry_sat sat "*") vs) as [e|]; [left; eauto|right; auto].
    - intros Hv Hc. apply String.eqb_neq in Hv. rewrite Hv, Hc. reflexivity.
    - intros Hv Hc. apply String.eqb_neq in Hv. rewrite Hv, Hc. simpl negb. cbv iota. split.
      + intros e0 Hin He.
        destruct (find (fun e => String.eqb ver (eversion e)) vs) as [e|] eqn:F.
        * apply find_some in F. destruct F as [Fi Fe]. apply String.eqb_eq in Fe. eauto.
        * apply (find_none _ _ F) in Hin. rewrite He, String.eqb_refl in Hin. discriminate.
      + intros Hno.
        destruct (find (fun e => String.eqb ver (eversion e)) vs) as [e|] eqn:F.
        * apply find_some in F. destruct F as [Fi Fe]. apply String.eqb_eq in Fe.
          exfalso. eapply Hno; eauto.
        * pose proof (first_sat_best ver vs HS) as H.
          destruct (find (entry_sat sat ver) vs) as [e|]; [left; eauto|right; auto].
  Qed.

  (* ---------- tags ---------- *)

  Lemma tag_sat_iff c t :
    tag_sat sat c t = true <-> exists v, parse_version t = Some v /\ sat c v = true.
  Proof.
    unfold tag_sat. destruct (parse_version t) as [v|].
    - split; [intros H; exists v; auto|]. intros (v' & E & H). injection E as <-. auto.
    - split; [discriminate|]. intros (v' & E & _). discriminate.
  Qed.

  Lemma tge_refl t : is_valid_version t = true -> tge t t.
  Proof.
    unfold is_valid_version, tge. destruct (parse_version t) as [v|]; [|discriminate].
    intros _. exists v, v. repeat split; auto. rewrite vcompare_refl. congruence.
  Qed.

  Lemma first_tag_best c tags :
    StronglySorted tge (filter is_valid_version tags) ->
    match find (tag_sat sat c) tags with
    | Some t => best_tag (sat c) tags t
    | None => none_tag (sat c) tags
    end.
  Proof.
    intros HS.
    assert (Himp : forall x, tag_sat sat c x = true -> is_valid_version x = true).
    { intros x H. apply tag_sat_iff in H. destruct H as (v & E & _).
      unfold is_valid_version. now rewrite E. }
    rewrite <- (find_filter_imp _ is_valid_version tags Himp).
    destruct (find (tag_sat sat c) (filter is_valid_version tags)) as [t|] eqn:F.
    - destruct (find_sorted_max tge (tag_sat sat c) _ t HS) as (Hin & Pt & Hmax); auto.
      { intros x _ Px. apply tge_refl. auto. }
      apply filter_In in Hin. destruct Hin as [Hin _].
      split; auto. split; [now apply tag_sat_iff|].
      intros t' v Hin' E S. apply Hmax.
      + apply filter_In. split; auto. unfold is_valid_version. now rewrite E.
      + apply tag_sat_iff. eauto.
    - intros t v Hin E.
      assert (Hf : In t (filter is_valid_version tags)).
      { apply filter_In. split; auto. unfold is_valid_version. now rewrite E. }
      pose proof (find_none _ _ F _ Hf) as H. unfold tag_sat in H. now rewrite E in H.
  Qed.

  Lemma tag_match_best tags ver :
    StronglySorted tge (filter is_valid_version tags) ->
    (ver = "" ->
       (exists t, tag_match cvalid sat tags ver = TOk t /\ best_tag (sat "*") tags t) \/
       (tag_match cvalid sat tags ver = TErrNotFound /\ none_tag (sat "*") tags)) /\
    (ver <> "" -> In ver tags -> tag_match cvalid sat tags ver = TOk ver) /\
    (ver <> "" -> ~ In ver tags -> cvalid ver = false ->
       tag_match cvalid sat tags ver = TErrConstraint) /\
    (ver <> "" -> ~ In ver tags -> cvalid ver = true ->
       (exists t, tag_match cvalid sat tags ver = TOk t /\ best_tag (sat ver) tags t) \/
       (tag_match cvalid sat tags ver = TErrNotFound /\ none_tag (sat ver) tags)).
  Proof.
    intros HS. unfold tag_match. repeat split.
    - intros ->. simpl String.eqb. cbv iota.
      pose proof (first_tag_best "*" tags HS) as H.
      destruct (find (tag_sat sat "*") tags) as [t|]; [left; eauto|right; auto].
    - intros Hv Hin. apply String.eqb_neq in Hv. rewrite Hv.
      destruct (find (String.eqb ver) tags) as [t|] eqn:F.
      + apply find_eqb_string in F. destruct F as [-> _]. reflexivity.
      + apply find_eqb_string_none in F. contradiction.
    - intros Hv Hnin Hc. apply String.eqb_neq in Hv. rewrite Hv.
      destruct (find (String.eqb ver) tags) as [t|] eqn:F.
      + apply find_eqb_string in F. destruct F as [_ F]. contradiction.
      + now rewrite Hc.
    - intros Hv Hnin Hc. apply String.eqb_neq in Hv. rewrite Hv.
      destruct (find (String.eqb ver) tags) as [t|] eqn:F.
      + apply find_eqb_string in F. destruct F as [_ F]. contradiction.
      + rewrite Hc. simpl negb. cbv iota.
        pose proof (first_tag_best ver tags HS) as H.
        destruct (find (tag_sat sat ver) tags) as [t|]; [left; eauto|right; auto].
  Qed.
End Queries.

(* ---------- Resolve ---------- *)

Lemma StronglySorted_filter {A} (R : A -> A -> Prop) (q : A -> bool) l :
  StronglySorted R l -> StronglySorted R (filter q l).
Proof.
  intros HS. induction HS as [|a l HS IH Hall]; simpl; [constructor|].
  destruct (q a); auto. constructor; auto.
  rewrite Forall_forall in *. intros x Hx. apply filter_In in Hx. apply Hall. tauto.
Qed.

Lemma find_andb_filter {A} (p q : A -> bool) l :
  find (fun x => q x && p x) l = find p (filter q l).
Proof.
  induction l as [|a l IH]; simpl; auto.
  destruct (q a); simpl; auto. destruct (p a); auto.
Qed.

Section Resolve.
  Variable cvalid : string -> bool.
  Variable sat : string -> version -> bool.

  Lemma dep_candidate_split c e : dep_candidate sat c e = has_urls e && entry_sat sat c e.
  Proof.
    unfold dep_candidate, entry_sat. destruct (parse_version (eversion e)); auto.
    now rewrite andb_false_r.
  Qed.

  Lemma find_candidate c vs :
    find (dep_candidate sat c) vs = find (entry_sat sat c) (filter has_urls vs).
  Proof.
    rewrite <- find_andb_filter. induction vs as [|a l IH]; simpl; auto.
    rewrite dep_candidate_split. destruct (has_urls a && entry_sat sat c a); auto.
  Qed.

  (* one dependency against a newest-first list *)
  Lemma resolve_one_spec idx d :
    (forall vs, assoc (dname d) idx = Some vs -> StronglySorted ege vs) ->
    match resolve_one cvalid sat idx d with
    | DLocked v =>
        cvalid (dconstraint d) = true /\
        exists vs e, assoc (dname d) idx = Some vs /\ eversion e = v /\
                     best_entry (sat (dconstraint d)) (filter has_urls vs) e
    | DMissing =>
        cvalid (dconstraint d) = true /\
        exists vs, assoc (dname d) idx = Some vs /\
                   none_entry (sat (dconstraint d)) (filter has_urls vs)
    | DFail => cvalid (dconstraint d) = false \/ assoc (dname d) idx = None
    end.
  Proof.
    intros HS. unfold resolve_one.
    destruct (cvalid (dconstraint d)); simpl; auto.
    destruct (assoc (dname d) idx) as [vs|]; auto.
    rewrite find_candidate.
    pose proof (first_sat_best sat (dconstraint d) (filter has_urls vs)
                  (StronglySorted_filter _ _ _ (HS vs eq_refl))) as H.
    destruct (find (entry_sat sat (dconstraint d)) (filter has_urls vs)) as [e|].
    - split; auto. exists vs, e. auto.
    - split; auto. exists vs. auto.
  Qed.

  Lemma resolve_loop_some idx ds missing acc l :
    resolve_loop cvalid sat idx ds missing acc = Some l ->
    missing = false /\
    exists vs, Forall2 (fun d v => resolve_one cvalid sat idx d = DLocked v) ds vs /\ l = rev acc ++ vs.
  Proof.
    revert missing acc. induction ds as [|d ds IH]; intros missing acc; simpl.
    - destruct missing; [discriminate|]. intros H. injection H as <-. split; auto.
      exists []. split; auto. now rewrite app_nil_r.
    - destruct (resolve_one cvalid sat idx d) eqn:R; [discriminate| |].
      + intros H. apply IH in H. destruct H as [H _]. discriminate.
      + intros H. apply IH in H. destruct H as (Hm & vs & Hall & ->). split; auto.
        exists (v :: vs). split; [constructor; auto|]. simpl. now rewrite <- app_assoc.
  Qed.

  Lemma resolve_loop_none idx ds missing acc :
    resolve_loop cvalid sat idx ds missing acc = None ->
    missing = true \/
    exists d, In d ds /\ (resolve_one cvalid sat idx d = DFail \/ resolve_one cvalid sat idx d = DMissing).
  Proof.
    revert missing acc. induction ds as [|d ds IH]; intros missing acc; simpl.
    - destruct missing; [auto|discriminate].
    - destruct (resolve_one cvalid sat idx d) eqn:R.
      + intros _. right. exists d. auto.
      + intros _. right. exists d. auto.
      + intros H. apply IH in H. destruct H as [H|(d' & Hin & H)]; auto.
        right. exists d'. auto.
  Qed.

  Lemma resolve_spec idx ds :
    (forall name vs, assoc name idx = Some vs -> StronglySorted ege vs) ->
    match resolve cvalid sat (LOk idx) ds with
    | Some locks =>
        Forall2 (fun d v =>
                   cvalid (dconstraint d) = true /\
                   exists vs e, assoc (dname d) idx = Some vs /\ eversion e = v /\
                                best_entry (sat (dconstraint d)) (filter has_urls vs) e)
                ds locks
    | None =>
        exists d, In d ds /\
                  (cvalid (dconstraint d) = false \/ assoc (dname d) idx = None \/
                   exists vs, assoc (dname d) idx = Some vs /\
                              none_entry (sat (dconstraint d)) (filter has_urls vs))
    end.
  Proof.
    intros HS. unfold resolve. destruct ds as [|d0 ds0]; [constructor|].
    set (ds := d0 :: ds0).
    destruct (resolve_loop cvalid sat idx ds false []) as [l|] eqn:E.
    - apply resolve_loop_some in E. destruct E as (_ & vs & Hall & ->). simpl.
      clear -Hall HS. induction Hall as [|d v ds vs H Hall IH]; constructor; auto.
      pose proof (resolve_one_spec idx d (HS (dname d))) as S. rewrite H in S. exact S.
    - apply resolve_loop_none in E. destruct E as [E|(d & Hin & E)]; [discriminate|].
      exists d. split; auto.
      pose proof (resolve_one_spec idx d (HS (dname d))) as S.
      destruct E as [E|E]; rewrite E in S.
      + destruct S; auto.
      + destruct S as (_ & vs & A & B). right; right. eauto.
  Qed.
End Resolve.

(* ---------- extensionality of the "best" predicates in the accepted set ---------- *)

Lemma best_entry_ext p q l r : (forall v, p v = q v) -> best_entry p l r -> best_entry q l r.
Proof.
  intros E (Hin & (v & Hp & Hv) & Hmax). split; auto. split.
  - exists v. rewrite <- E. auto.
  - intros e v' Hi He Hq. rewrite <- E in Hq. eapply Hmax; eauto.
Qed.

Lemma none_entry_ext p q l : (forall v, p v = q v) -> none_entry p l -> none_entry q l.
Proof. intros E H e v Hi He. rewrite <- E. eauto. Qed.

Lemma best_tag_ext p q l r : (forall v, p v = q v) -> best_tag p l r -> best_tag q l r.
Proof.
  intros E (Hin & (v & Hp & Hv) & Hmax). split; auto. split.
  - exists v. rewrite <- E. auto.
  - intros e v' Hi He Hq. rewrite <- E in Hq. eapply Hmax; eauto.
Qed.

Lemma none_tag_ext p q l : (forall v, p v = q v) -> none_tag p l -> none_tag q l.
Proof. intros E H e v Hi He. rewrite <- E. eauto. Qed.

(* ---------- the statements quoted by Props/C18.v ---------- *)

Lemma load_wf_thm :
  forall sort : list entry -> list entry,
    (forall l, Permutation l (sort l)) ->
    (forall l, Forall (fun e => parse_version (eversion e) <> None) l ->
               StronglySorted (fun a b => go_less a b = false) (sort l)) ->
    forall (api : string) (es : list (string * list cv)),
    exists idx,
      load_index sort (IFParsed api es) = (if String.eqb api "" then LErr ENoAPI else LOk idx) /\
      Forall2 (fun x y => fst x = fst y /\
                          Permutation (snd y) (valid_entries (snd x)) /\
                          StronglySorted ege (snd y) /\
                          Forall (fun e => validate e = Some e) (snd y)) es idx.
Proof. intros sort Hp Hs api es. exact (load_index_wf sort Hp Hs api es). Qed.

Lemma get_best_thm :
  forall sort : list entry -> list entry,
    (forall l, Permutation l (sort l)) ->
    (forall l, Forall (fun e => parse_version (eversion e) <> None) l ->
               StronglySorted (fun a b => go_less a b = false) (sort l)) ->
    forall (cvalid : string -> bool) (sat : string -> version -> bool),
    (forall v, sat "*" v = is_stable v) ->
    forall api es idx, load_index sort (IFParsed api es) = LOk idx ->
    forall name ver,
      match assoc name idx with
      | None => get cvalid sat idx name ver = GErrNoName
      | Some vs =>
          (vs = [] -> get cvalid sat idx name ver = GErrNoVersion) /\
          (vs <> [] ->
             (ver = "" ->
                (exists e, get cvalid sat idx name ver = GOk e /\ best_entry is_stable vs e) \/
                (get cvalid sat idx name ver = GErrNotFound /\ none_entry is_stable vs)) /\
             (ver <> "" -> cvalid ver = false -> get cvalid sat idx name ver = GErrConstraint) /\
             (ver <> "" -> cvalid ver = true ->
                (forall e0, In e0 vs -> eversion e0 = ver ->
                   exists e, get cvalid sat idx name ver = GOk e /\ In e vs /\ eversion e = ver) /\
                ((forall e0, In e0 vs -> eversion e0 <> ver) ->
                   (exists e, get cvalid sat idx name ver = GOk e /\ best_entry (sat ver) vs e) \/
                   (get cvalid sat idx name ver = GErrNotFound /\ none_entry (sat ver) vs))))
      end.
Proof.
  intros sort Hp Hs cvalid sat Hstar api es idx HL name ver.
  destruct (assoc name idx) as [vs|] eqn:A.
  - destruct (loaded_assoc_wf sort Hp Hs api es idx name vs HL A) as (HS & _ & _).
    destruct (get_best cvalid sat idx name ver vs A HS) as (G1 & G2).
    split; auto. intros Hne. destruct (G2 Hne) as (G3 & G4 & G5). repeat split; auto.
    + intros Hv. destruct (G3 Hv) as [(e & Ge & Be)|(Ge & Ne)].
      * left. exists e. split; auto. eapply best_entry_ext; eauto.
      * right. split; auto. eapply none_entry_ext; eauto.
    + apply G5; auto.
    + apply G5; auto.
  - unfold get. now rewrite A.
Qed.

Lemma tag_match_thm :
  forall (cvalid : string -> bool) (sat : string -> version -> bool),
    (forall v, sat "*" v = is_stable v) ->
    forall tags ver,
      StronglySorted tge (filter is_valid_version tags) ->
      (ver = "" ->
         (exists t, tag_match cvalid sat tags ver = TOk t /\ best_tag is_stable tags t) \/
         (tag_match cvalid sat tags ver = TErrNotFound /\ none_tag is_stable tags)) /\
      (ver <> "" -> In ver tags -> tag_match cvalid sat tags ver = TOk ver) /\
      (ver <> "" -> ~ In ver tags -> cvalid ver = false ->
         tag_match cvalid sat tags ver = TErrConstraint) /\
      (ver <> "" -> ~ In ver tags -> cvalid ver = true ->
         (exists t, tag_match cvalid sat tags ver = TOk t /\ best_tag (sat ver) tags t) \/
         (tag_match cvalid sat tags ver = TErrNotFound /\ none_tag (sat ver) tags)).
Proof.
  intros cvalid sat Hstar tags ver HS.
  destruct (tag_match_best cvalid sat tags ver HS) as (T1 & T2 & T3 & T4).
  repeat split; auto.
  intros Hv. destruct (T1 Hv) as [(t & Gt & Bt)|(Gt & Nt)].
  - left. exists t. split; auto. eapply best_tag_ext; eauto.
  - right. split; auto. eapply none_tag_ext; eauto.
Qed.

Lemma resolve_thm :
  forall sort : list entry -> list entry,
    (forall l, Permutation l (sort l)) ->
    (forall l, Forall (fun e => parse_version (eversion e) <> None) l ->
               StronglySorted (fun a b => go_less a b = false) (sort l)) ->
    forall (cvalid : string -> bool) (sat : string -> version -> bool),
    forall api es idx, load_index sort (IFParsed api es) = LOk idx ->
    forall ds,
      match resolve cvalid sat (LOk idx) ds with
      | Some locks =>
          Forall2 (fun d v =>
                     cvalid (dconstraint d) = true /\
                     exists vs e, assoc (dname d) idx = Some vs /\ eversion e = v /\
                                  best_entry (sat (dconstraint d)) (filter has_urls vs) e)
                  ds locks
      | None =>
          exists d, In d ds /\
                    (cvalid (dconstraint d) = false \/ assoc (dname d) idx = None \/
                     exists vs, assoc (dname d) idx = Some vs /\
                                none_entry (sat (dconstraint d)) (filter has_urls vs))
      end.
Proof.
  intros sort Hp Hs cvalid sat api es idx HL ds.
  apply resolve_spec. intros name vs A.
  now destruct (loaded_assoc_wf sort Hp Hs api es idx name vs HL A) as (HS & _ & _).
Qed.

Lemma sort_hypotheses_satisfiable :
  (forall l, Permutation l (isort l)) /\
  (forall l, Forall (fun e => parse_version (eversion e) <> None) l ->
             StronglySorted (fun a b => go_less a b = false) (isort l)).
Proof. split; [apply isort_perm|apply isort_sorted]. Qed.

(* ---------- F3: the loader before fix 161cdc1 ---------- *)

(* the same loop with the old nil branch: `continue` without removing the element *)
Fixpoint load_loop_prefix (k : nat) (cvs : list cv) : list cv :=
  match k with
  | O => cvs
  | S idx =>
      match nth_error cvs idx with
      | None => cvs
      | Some c =>
          match with_defaults c with
          | None => load_loop_prefix idx cvs
          | Some e =>
              match validate e with
              | Some e' => load_loop_prefix idx (set_at idx (CFull e') cvs)
              | None => load_loop_prefix idx (remove_at idx cvs)
              end
          end
      end
  end.

Definition load_versions_prefix (sort : list entry -> list entry) (cvs : list cv) : option (list entry) :=
  option_map sort (all_full (load_loop_prefix (List.length cvs) cvs)).

Definition f3_witness : list cv :=
  [CNull; CFull (mkEntry "a" "1.0.0" "v1" "" ["http://example.com/a-1.0.0.tgz"] "d1");
   CFull (mkEntry "a" "2.0.0" "v1" "" ["http://example.com/a-2.0.0.tgz"] "d2")].

(* None = the nil element reaches the sort's Less: nil-pointer panic; the repaired loop loads it *)
Lemma nil_entry_refuted :
  exists cvs, load_versions_prefix isort cvs = None /\
              exists vs, load_versions isort cvs = Some vs /\ List.length vs = 2.
Proof. exists f3_witness. vm_compute. split; auto. eexists. split; reflexivity. Qed.

(* ---------- concrete instances (non-vacuity) ---------- *)

Definition ex_sat (c : string) (v : version) : bool :=
  if String.eqb c "*" then is_stable v
  else if String.eqb c "^1" then N.eqb (vmajor v) 1 && is_stable v
  else false.

Definition ex_entry (v d : string) (u : list string) : entry := mkEntry "app" v "v1" "" u d.

Definition ex_file : index_file :=
  IFParsed "v1"
    [("app", [CFull (ex_entry "1.0.0" "d1" ["u1"]); CNull; CFull (ex_entry "2.0.0-rc.1" "d2" ["u2"]);
              CFull (ex_entry "latest" "d3" ["u3"]); CNoMeta ["u4"] "d4";
              CFull (ex_entry "v1.2" "d5" []); CFull (ex_entry "1.1.0+b1" "d6" ["u6"])]);
     ("pre", [CFull (mkEntry "pre" "0.1.0-alpha" "" "" ["u7"] "d7")])].

Definition ex_idx : list (string * list entry) :=
  [("app", [ex_entry "2.0.0-rc.1" "d2" ["u2"]; ex_entry "v1.2" "d5" []; ex_entry "1.1.0+b1" "d6" ["u6"];
            ex_entry "1.0.0" "d1" ["u1"]]);
   ("pre", [mkEntry "pre" "0.1.0-alpha" "v1" "" ["u7"] "d7"])].

Lemma example_load : load_index isort ex_file = LOk ex_idx.
Proof. vm_compute. reflexivity. Qed.

Lemma example_star : forall v, ex_sat "*" v = is_stable v.
Proof. reflexivity. Qed.

Lemma example_queries :
  get (fun _ => true) ex_sat ex_idx "app" "" = GOk (ex_entry "v1.2" "d5" []) /\
  get (fun _ => true) ex_sat ex_idx "app" "1.1.0+b1" = GOk (ex_entry "1.1.0+b1" "d6" ["u6"]) /\
  get (fun _ => true) ex_sat ex_idx "app" "^1" = GOk (ex_entry "v1.2" "d5" []) /\
  get (fun _ => true) ex_sat ex_idx "pre" "" = GErrNotFound /\
  get (fun _ => true) ex_sat ex_idx "none" "" = GErrNoName /\
  resolve (fun _ => true) ex_sat (LOk ex_idx) [mkDep "app" "^1"] = Some ["1.1.0+b1"] /\
  resolve (fun _ => true) ex_sat (LOk ex_idx) [mkDep "app" "^1"; mkDep "pre" "*"] = None.
Proof. vm_compute. repeat split; reflexivity. Qed.

Definition ex_tags : list string := ["2.0.0-rc.1"; "v1.2"; "nightly"; "1.1.0+b1"; "1.0.0"].

Lemma example_tags_sorted : StronglySorted tge (filter is_valid_version ex_tags).
Proof.
  assert (G : forall a b va vb, parse_version a = Some va -> parse_version b = Some vb ->
                                vgeb va vb = true -> tge a b).
  { intros a b va vb Ha Hb H. exists va, vb. repeat split; auto. now apply vgeb_true. }
  vm_compute filter.
  repeat (constructor; [|repeat (constructor; [eapply G; vm_compute; reflexivity|])]); constructor.
Qed.

Lemma example_tag_match :
  tag_match (fun _ => true) ex_sat ex_tags "" = TOk "v1.2" /\
  tag_match (fun _ => false) ex_sat ex_tags "nightly" = TOk "nightly" /\
  tag_match (fun _ => false) ex_sat ex_tags "weekly" = TErrConstraint.
Proof. vm_compute. repeat split; reflexivity. Qed.

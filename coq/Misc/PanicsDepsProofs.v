(* Proofs for Misc/PanicsDeps.v *)
From Coq Require Import List String Ascii Bool ZArith Lia.
From Helm Require Import Values.Tree Misc.Panics Misc.PanicsDeps.
Import ListNotations.
Local Open Scope string_scope.

(* ---------- generic facts about the monad ---------- *)
Definition post {A : Type} (P : A -> Prop) (r : res A) : Prop :=
  match r with Ok a => P a | Err => True | Panic _ => False end.

Lemma post_bind {A B : Type} (P : A -> Prop) (Q : B -> Prop) (r : res A) (f : A -> res B) :
  post P r -> (forall a, P a -> post Q (f a)) -> post Q (bind r f).
Proof. destruct r; simpl; auto. Qed.

Lemma post_no_panic {A : Type} (P : A -> Prop) (r : res A) : post P r -> no_panic r.
Proof. destruct r; simpl; auto. Qed.

Lemma post_weaken {A : Type} (P Q : A -> Prop) (r : res A) :
  (forall a, P a -> Q a) -> post P r -> post Q r.
Proof. destruct r; simpl; auto. Qed.

(* ---------- induction on charts ---------- *)
Section ChartInd.
  Variable P : chart -> Prop.
  Hypothesis H : forall md vals subs, Forall P subs -> P (Chart md vals subs).
  Fixpoint chart_ind' (c : chart) : P c :=
    match c with
    | Chart md vals subs =>
        H md vals subs ((fix go (l : list chart) : Forall P l :=
                           match l with
                           | [] => Forall_nil _
                           | x :: t => Forall_cons _ (chart_ind' x) (go t)
                           end) subs)
    end.
End ChartInd.

(* ---------- strings.Split never returns an empty slice ---------- *)
Lemma split_dot_aux_nonempty s : forall cur, split_dot_aux cur s <> [].
Proof.
  induction s as [|c t IH]; intros cur; simpl; [discriminate|].
  destruct (Ascii.eqb c "."%char); [discriminate|apply IH].
Qed.

Lemma split_dot_nonempty s : split_dot s <> [].
Proof. apply split_dot_aux_nonempty. Qed.

(* ---------- values.go ---------- *)
Lemma index_in_range {A : Type} (l : list A) (i : Z) :
  (0 <= i < Z.of_nat (List.length l))%Z -> exists a, index l i = Ok a.
Proof.
  intros [H0 H1]. unfold index.
  destruct (Z.ltb i 0) eqn:E; [apply Z.ltb_lt in E; lia|].
  destruct (nth_error l (Z.to_nat i)) eqn:N; [eauto|].
  apply nth_error_None in N. lia.
Qed.

Lemma path_value_l_no_panic v path : path <> [] -> no_panic (path_value_l v path).
Proof.
  intros Hne. unfold path_value_l.
  assert (Hlen : (1 <= Z.of_nat (List.length path))%Z) by (destruct path; simpl in *; [congruence|lia]).
  destruct (Z.eqb (Z.of_nat (List.length path)) 1) eqn:E.
  - destruct (index_in_range path 0) as [a Ha]; [lia|]. rewrite Ha. simpl. auto.
  - apply Z.eqb_neq in E.
    destruct (index_in_range path (Z.of_nat (List.length path) - 1)) as [a Ha]; [lia|].
    rewrite Ha. simpl. unfold slice_to.
    destruct (Z.ltb (Z.of_nat (List.length path) - 1) 0) eqn:E1; [apply Z.ltb_lt in E1; lia|].
    destruct (Z.ltb (Z.of_nat (List.length path)) (Z.of_nat (List.length path) - 1)) eqn:E2;
      [apply Z.ltb_lt in E2; lia|].
    simpl. destruct (table v _); simpl; auto.
Qed.

Lemma path_value_no_panic v p : no_panic (path_value v p).
Proof.
  unfold path_value. destruct (String.eqb p EmptyString); simpl; auto.
  apply path_value_l_no_panic, split_dot_nonempty.
Qed.

(* the branch that would panic on an empty slice exists in the model *)
Lemma path_value_l_empty_panics v : is_panic (path_value_l v []) = true.
Proof. reflexivity. Qed.

(* ---------- well-formed charts: what the load-time gate establishes ---------- *)
Definition nonnil (d : option dep) : Prop := d <> None.

Definition deps_nonnil (m : meta) : Prop :=
  match m_deps m with None => True | Some ds => Forall nonnil ds end.

Inductive wf : chart -> Prop :=
| wf_intro m vals subs : deps_nonnil m -> Forall wf subs -> wf (Chart (Some m) vals subs).

Lemma validate_deps_nonnil alias_ok ds : forall seen,
  validate_deps alias_ok seen ds = true -> Forall nonnil ds.
Proof.
  induction ds as [|[d|] t IH]; intros seen H; simpl in *; [constructor| |discriminate].
  destruct (negb (String.eqb (d_alias d) EmptyString) && negb (alias_ok (d_alias d))); [discriminate|].
  destruct (existsb (String.eqb (dep_key d)) seen); [discriminate|].
  constructor; [unfold nonnil; discriminate|eauto].
Qed.

Lemma load_ok_wf scal alias_ok c : load_ok scal alias_ok c = true -> wf c.
Proof.
  induction c as [md vals subs IH] using chart_ind'. simpl.
  intros H. apply andb_prop in H. destruct H as [Hm Hs].
  destruct md as [m|]; [|discriminate]. simpl in Hm.
  apply andb_prop in Hm. destruct Hm as [_ Hd].
  constructor.
  - unfold deps_nonnil. destruct (m_deps m); auto. eapply validate_deps_nonnil; eauto.
  - induction subs as [|x t IHt]; [constructor|].
    inversion IH; subst. apply andb_prop in Hs. destruct Hs. constructor; auto.
Qed.

Lemma wf_md c : wf c -> exists m, c_md c = Some m /\ deps_nonnil m.
Proof. intros H. inversion H; subst. simpl. eauto. Qed.

Lemma depth_sub_le x subs :
  In x subs ->
  chart_depth x <= (fix go (l : list chart) : nat :=
                      match l with [] => 0 | x :: t => Nat.max (chart_depth x) (go t) end) subs.
Proof.
  induction subs as [|y t IH]; simpl; [tauto|].
  intros [->|H]; [lia|]. specialize (IH H). lia.
Qed.

Lemma depth_pos c : 1 <= chart_depth c.
Proof. destruct c; simpl; lia. Qed.

Lemma depth_remeta c m : chart_depth (Chart m (c_vals c) (c_subs c)) = chart_depth c.
Proof. destruct c; reflexivity. Qed.

Section D.
  Variable compat : string -> string -> bool.
  Variable coalesce_values : chart -> vmap -> option vmap.
  Variable merge_values : chart -> option vmap.
  Variable merge_tables : vmap -> vmap -> vmap.
  Variable trim : string -> string.

  Variable n : nat.
  Let Q (c : chart) : Prop := wf c /\ chart_depth c <= n.

  Lemma Q_md c : Q c -> exists m, c_md c = Some m /\ deps_nonnil m.
  Proof. intros [H _]. now apply wf_md. Qed.

  Lemma listed_ok e reqs : Q e -> Forall nonnil reqs -> post (fun _ => True) (listed compat e reqs).
  Proof.
    intros He Hr. induction Hr as [|r t Hn Ht IH]; simpl; auto.
    destruct r as [r|]; [|exfalso; now apply Hn]. simpl.
    destruct (String.eqb (chart_name e) (d_name r)); auto.
    destruct (Q_md e He) as [m [-> _]]. simpl.
    destruct (compat (d_version r) (m_version m)); simpl; auto.
  Qed.

  Lemma unlisted_ok subs reqs :
    Forall Q subs -> Forall nonnil reqs -> post (Forall Q) (unlisted compat subs reqs).
  Proof.
    intros Hs Hr. induction Hs as [|e t He Ht IH]; simpl; [constructor|].
    eapply post_bind; [apply listed_ok; eauto|]. intros b _.
    eapply post_bind; [apply IH|]. intros r Hrr. simpl.
    destruct b; auto.
  Qed.

  Lemma get_alias_ok subs d :
    Forall Q subs ->
    post (fun o => match o with Some c => Q c | None => True end) (get_alias compat subs d).
  Proof.
    intros Hs. induction Hs as [|c t Hc Ht IH]; simpl; auto.
    destruct (negb (String.eqb (chart_name c) (d_name d))); auto.
    destruct (Q_md c Hc) as [m [Em Hm]]. rewrite Em. simpl.
    destruct (negb (compat (d_version d) (m_version m))); auto.
    simpl. destruct Hc as [Hw Hd]. split.
    - inversion Hw; subst. simpl in *. inversion Em; subst.
      constructor; auto.
      unfold deps_nonnil in *. destruct (String.eqb (d_alias d) EmptyString); simpl; auto.
    - rewrite depth_remeta. exact Hd.
  Qed.

  Lemma alias_pass_ok subs reqs :
    Forall Q subs -> Forall nonnil reqs ->
    post (fun r => Forall Q (fst r) /\ Forall nonnil (snd r)) (alias_pass compat subs reqs).
  Proof.
    intros Hs Hr. induction Hr as [|r t Hn Ht IH]; simpl; [split; constructor|].
    destruct r as [d|]; [|exfalso; now apply Hn].
    eapply post_bind; [apply get_alias_ok; eauto|]. intros a Ha.
    eapply post_bind; [apply IH|]. intros [cs rs] [H1 H2]. simpl in *. split.
    - destruct a; simpl; auto.
    - constructor; auto. unfold nonnil. discriminate.
  Qed.

  Lemma enable_all_ok reqs : Forall nonnil reqs -> post (fun _ => True) (enable_all reqs).
  Proof.
    intros Hr. induction Hr as [|r t Hn Ht IH]; simpl; auto.
    destruct r as [d|]; [|exfalso; now apply Hn]. simpl.
    destruct (enable_all t); simpl in *; auto.
  Qed.

  Lemma cond_loop_ok cvals cpath cs cur : post (fun _ => True) (cond_loop cvals cpath cs cur).
  Proof.
    induction cs as [|c t IH]; simpl; auto.
    destruct (String.eqb c EmptyString); auto.
    pose proof (path_value_no_panic cvals (cpath ++ c)) as H.
    destruct (path_value cvals (cpath ++ c)) as [pv| |]; simpl in *; auto; try tauto.
    destruct pv as [[]|]; auto.
  Qed.

  Lemma conditions_pass_ok cvals cpath reqs : post (fun _ => True) (conditions_pass trim cvals cpath reqs).
  Proof.
    induction reqs as [|r t IH]; simpl; auto.
    eapply post_bind; [apply cond_loop_ok|]. intros b _.
    destruct (conditions_pass trim cvals cpath t); simpl in *; auto.
  Qed.

  Lemma keep_charts_ok rm cs : Forall Q cs -> post (Forall Q) (keep_charts rm cs).
  Proof.
    intros Hs. induction Hs as [|c t Hc Ht IH]; simpl; [constructor|].
    destruct (Q_md c Hc) as [m [-> _]]. simpl.
    eapply post_bind; [apply IH|]. intros r Hr. simpl.
    destruct (mem (m_name m) rm); auto.
  Qed.
End D.

Section E.
  Variable compat : string -> string -> bool.
  Variable coalesce_values : chart -> vmap -> option vmap.
  Variable merge_values : chart -> option vmap.
  Variable merge_tables : vmap -> vmap -> vmap.
  Variable trim : string -> string.

  Lemma Forall_map_Some (l : list dep) : Forall nonnil (map Some l).
  Proof. induction l; simpl; constructor; auto. unfold nonnil. discriminate. Qed.

  Theorem process_enabled_ok : forall fuel c v path,
    wf c -> chart_depth c <= fuel ->
    post wf (process_enabled compat coalesce_values trim fuel c v path).
  Proof.
    induction fuel as [|fuel IH]; intros c v path Hw Hd.
    - pose proof (depth_pos c). lia.
    - inversion Hw as [m vals subs Hm Hsubs]; subst. simpl.
      match goal with |- context [if ?b then _ else _] => destruct b end; [simpl; exact Hw|].
      set (reqs := match m_deps m with Some r => r | None => [] end).
      assert (Hreqs : Forall nonnil reqs).
      { unfold reqs, deps_nonnil in *. destruct (m_deps m); [exact Hm|constructor]. }
      assert (HQ : Forall (fun x => wf x /\ chart_depth x <= fuel) subs).
      { rewrite Forall_forall in *. intros x Hx. split; [auto|].
        simpl in Hd. pose proof (depth_sub_le x subs Hx). lia. }
      eapply post_bind; [apply (unlisted_ok compat fuel); eauto|]. intros extra Hextra.
      eapply post_bind; [apply (alias_pass_ok compat fuel); eauto|]. intros [acs areqs] [Hacs Hareqs].
      simpl fst. simpl snd.
      eapply post_bind; [apply enable_all_ok; eauto|]. intros reqs2 _.
      destruct (coalesce_values _ v) as [cvals|]; [|simpl; auto].
      eapply post_bind; [apply conditions_pass_ok|]. intros reqs4 _.
      eapply post_bind; [apply (keep_charts_ok fuel); apply Forall_app; split; eauto|]. intros cd Hcd.
      eapply post_bind with (P := Forall wf).
      + clear - IH Hcd. induction Hcd as [|t rest [Htw Htd] Hrest IHr]; simpl; [constructor|].
        destruct (wf_md t Htw) as [tm [-> _]]. simpl.
        eapply post_bind; [apply IH; eauto|]. intros t' Ht'.
        eapply post_bind; [apply IHr|]. intros rest' Hrest'. simpl. constructor; auto.
      + intros cd' Hcd'. simpl. constructor; auto.
        unfold deps_nonnil. simpl.
        destruct (filter _ reqs4) eqn:Ef; auto. rewrite <- Ef. apply Forall_map_Some.
  Qed.

  Section IV.
    Variable loop : vmap -> string -> list val -> vmap -> res (list val * vmap).
    Hypothesis loop_ok : forall cvals rname ivs b, no_panic (loop cvals rname ivs b).

    Lemma import_deps_ok cvals reqs : forall b,
      Forall nonnil reqs -> no_panic (import_deps loop cvals reqs b).
    Proof.
      induction reqs as [|r t IH]; intros b Hr; simpl; auto.
      inversion Hr as [|? ? Hn Ht]; subst.
      destruct r as [d|]; [|exfalso; now apply Hn]. simpl.
      pose proof (loop_ok cvals (d_name d) (d_imports d) b) as Hl.
      destruct (loop cvals (d_name d) (d_imports d) b) as [o| |]; simpl in *; auto.
      specialize (IH (snd o) Ht).
      destruct (import_deps loop cvals t (snd o)); simpl in *; auto.
    Qed.

    Lemma process_import_values_ok m vals subs :
      deps_nonnil m -> no_panic (process_import_values merge_values merge_tables loop (Chart (Some m) vals subs)).
    Proof.
      intros Hm. unfold process_import_values. simpl.
      destruct (m_deps m) as [reqs|] eqn:E; simpl; auto.
      destruct (merge_values _); simpl; auto.
      unfold deps_nonnil in Hm. rewrite E in Hm.
      pose proof (import_deps_ok v reqs [] Hm) as H.
      destruct (import_deps loop v reqs []); simpl in *; auto.
    Qed.

    Lemma pdiv_ok c : wf c -> no_panic (process_dependency_import_values merge_values merge_tables loop c).
    Proof.
      induction c as [md vals subs IH] using chart_ind'. intros Hw.
      inversion Hw as [m ? ? Hm Hsubs]; subst. simpl.
      match goal with |- no_panic (bind ?r _) => assert (Hr : no_panic r) end.
      { clear Hw Hm. induction subs as [|d t IHt]; simpl; auto.
        inversion IH; subst. inversion Hsubs; subst.
        match goal with H : wf d -> _ |- _ => specialize (H ltac:(assumption)) end.
        destruct (process_dependency_import_values merge_values merge_tables loop d); simpl in *; auto.
        specialize (IHt ltac:(assumption) ltac:(assumption)).
        match goal with |- no_panic (bind ?r _) => destruct r end; simpl in *; auto. }
      match goal with |- no_panic (bind ?r _) => destruct r as [subs'| |] end; simpl in *; auto.
      apply process_import_values_ok. exact Hm.
    Qed.
  End IV.

  (* the repaired loop never panics, whatever the YAML type of each import-values item *)
  Lemma import_loop_no_panic cvals rname ivs : forall b,
    no_panic (import_loop merge_tables cvals rname ivs b).
  Proof.
    induction ivs as [|riv t IH]; intros b; simpl; auto.
    destruct riv; try apply IH.
    - match goal with |- no_panic (bind ?r _) => pose proof (IH ltac:(match r with import_loop _ _ _ _ ?b' => exact b' end)) as H; destruct r end; simpl in *; auto.
    - destruct (as_string (mget "child" m)); simpl; auto.
      destruct (as_string (mget "parent" m)); simpl; auto.
      match goal with |- no_panic (bind ?r _) => pose proof (IH ltac:(match r with import_loop _ _ _ _ ?b' => exact b' end)) as H; destruct r end; simpl in *; auto.
  Qed.

  Theorem process_dependencies_ok c v :
    wf c -> no_panic (process_dependencies compat coalesce_values merge_values merge_tables trim c v).
  Proof.
    intros Hw. unfold process_dependencies.
    pose proof (process_enabled_ok (chart_depth c) c v EmptyString Hw (le_n _)) as H.
    destruct (process_enabled _ _ _ _ _ _ _); simpl in *; auto.
    apply pdiv_ok; auto. intros. apply import_loop_no_panic.
  Qed.

  Theorem load_and_process_no_panic scal alias_ok c v :
    no_panic (load_and_process compat coalesce_values merge_values merge_tables trim scal alias_ok c v).
  Proof.
    unfold load_and_process. destruct (load_ok scal alias_ok c) eqn:E; simpl; auto.
    apply process_dependencies_ok. eapply load_ok_wf; eauto.
  Qed.
End E.

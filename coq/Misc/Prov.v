(* C17 — model of provenance verification.

   Transcribed from (pin 879d158 + fix commits):
     pkg/provenance/sign.go        Signatory.Verify, decodeSignature, verifySignature,
                                   parseMessageBlock, DigestFile (file I/O errors left out:
                                   archive and provenance file are given as byte strings)
     pkg/downloader/chart_downloader.go   VerifyChart, isTar, DownloadTo (verification part)
     pkg/action/install.go         ChartPathOptions.LocateChart (Verify flag)
     pkg/action/pull.go            Pull.Run (Verify / VerifyLater -> strategy)

   Third-party code is a Section variable, never an axiom:
     clearsign_decode  golang.org/x/crypto/openpgp/clearsign.Decode: the block's Plaintext and
                       the armored signature body (None = no block / broken armor)
     check_sig         openpgp.CheckDetachedSignature(keyring, bytes, signature)
     sha256            hex(SHA-256(bytes))
     yaml_meta_ok      sigs.k8s.io/yaml.Unmarshal(part 0, &chart.Metadata{}) == nil
     yaml_sums         the Files map of yaml.Unmarshal(part 1, &SumCollection{}) (None = error)
   [canon] — how clearsign derives the signed Bytes from the Plaintext it returns — and the
   split at "\n...\n" ARE modelled (and compared with the library's results on every run). *)
From Coq Require Import List String Ascii Bool.
From Helm Require Import Common.Assoc.
Import ListNotations.
Local Open Scope string_scope.

Definition LF : ascii := "010"%char.
Definition CR : ascii := "013"%char.

(* clearsign.Decode builds both from the same (dash-unescaped, right-trimmed) lines:
     Plaintext = line1 LF line2 LF ... lineN LF        Bytes = line1 CRLF line2 ... CRLF lineN
   so Bytes = canon Plaintext *)
Fixpoint canon (s : string) : string :=
  match s with
  | EmptyString => EmptyString
  | String c t =>
      if Ascii.eqb c LF then
        match t with
        | EmptyString => EmptyString
        | _ => String CR (String LF (canon t))
        end
      else String c (canon t)
  end.

(* bytes.Split(s, sep) for a non-empty sep: leftmost, non-overlapping.
   [skip] counts the remaining bytes of a separator that has just been matched. *)
Fixpoint split_go (sep s : string) (skip : nat) : string * list string :=
  match s with
  | EmptyString => (EmptyString, [])
  | String c t =>
      match skip with
      | S k => split_go sep t k
      | O =>
          if String.prefix sep s
          then (EmptyString, let '(p, ps) := split_go sep t (String.length sep - 1) in p :: ps)
          else let '(p, ps) := split_go sep t 0 in (String c p, ps)
      end
  end.

Definition split_sep (sep s : string) : list string :=
  let '(p, ps) := split_go sep s 0 in p :: ps.

(* "\n...\n" *)
Definition DOTS : string := String LF ("..." ++ String LF EmptyString).

Inductive verr := EDecode | ESig | EParts | EYaml | ENoSum | EMismatch
                | EIsDir | ENotTgz | ENoProv | EKeyring.

Section Prov.
  Variables keyring sigbody signer : Type.
  Variable clearsign_decode : string -> option (string * sigbody).
  Variable check_sig : keyring -> string -> sigbody -> option signer.
  Variable sha256 : string -> string.
  Variable yaml_meta_ok : string -> bool.
  Variable yaml_sums : string -> option (list (string * string)).

  (* Verification{SignedBy, FileHash, FileName} or an error *)
  Inductive vres := VOk (by_ : signer) (hash : string) | VErr (e : verr).

  (* Signatory.Verify(chartpath, sigpath); name = filepath.Base(chartpath) *)
  Definition verify (kr : keyring) (prov name archive : string) : vres :=
    match clearsign_decode prov with
    | None => VErr EDecode
    | Some (msg, sg) =>
        match check_sig kr (canon msg) sg with
        | None => VErr ESig
        | Some by_ =>
            let sum := "sha256:" ++ sha256 archive in
            match split_sep DOTS msg with
            | p0 :: p1 :: _ =>
                if yaml_meta_ok p0 then
                  match yaml_sums p1 with
                  | None => VErr EYaml
                  | Some files =>
                      match aget name files with
                      | None => VErr ENoSum
                      | Some sha => if String.eqb sha sum then VOk by_ sum else VErr EMismatch
                      end
                  end
                else VErr EYaml
            | _ => VErr EParts
            end
        end
    end.

  (* ---------------------------------------------------------------- downloader.VerifyChart *)
  (* filepath.Ext of a base name: from the last '.', "" if none *)
  Fixpoint ext_go (s : string) : option string :=
    match s with
    | EmptyString => None
    | String c t =>
        match ext_go t with
        | Some e => Some e
        | None => if Ascii.eqb c "."%char then Some s else None
        end
    end.
  Definition ext (s : string) : string := match ext_go s with Some e => e | None => EmptyString end.

  Definition lower (c : ascii) : ascii :=
    let n := nat_of_ascii c in
    if Nat.leb 65 n && Nat.leb n 90 then ascii_of_nat (n + 32) else c.
  Fixpoint lower_s (s : string) : string :=
    match s with EmptyString => EmptyString | String c t => String (lower c) (lower_s t) end.

  (* isTar: strings.EqualFold(filepath.Ext(name), ".tgz") (ASCII folding is all ".tgz" admits) *)
  Definition is_tgz (name : string) : bool := String.eqb (lower_s (ext name)) ".tgz".

  (* VerifyChart(path, keyringfile): [prov] = content of path+".prov" if that file exists,
     [kr] = the keyring if the keyring file loads *)
  Definition verify_chart (is_dir : bool) (kr : option keyring) (prov : option string) (name archive : string) : vres :=
    if is_dir then VErr EIsDir
    else if negb (is_tgz name) then VErr ENotTgz
    else match prov with
         | None => VErr ENoProv
         | Some pv =>
             match kr with
             | None => VErr EKeyring
             | Some k => verify k pv name archive
             end
         end.

  (* ---------------------------------------------------------------- DownloadTo, verification part *)
  Inductive strategy := VerifyNever | VerifyIfPossible | VerifyAlways | VerifyLater.

  (* DownloadTo's outcome: error, or success with the FileHash of the Verification it returns
     (None = empty Verification: nothing was verified) *)
  Inductive dres := DErr | DOk (hash : option string).

  Definition hash_of (v : vres) : dres :=
    match v with VOk _ h => DOk (Some h) | VErr _ => DErr end.

  (* [chart] = body of the archive request (None = request failed), [provf] = body of the
     request for <url>.prov (None = failed); the archive is written as <dest>/<name>, the
     provenance file next to it, then VerifyChart(destfile, keyring) *)
  Definition download_to (st : strategy) (kr : option keyring) (chart provf : option string) (name : string) : dres :=
    match chart with
    | None => DErr
    | Some archive =>
        match st with
        | VerifyNever => DOk None
        | _ =>
            match provf with
            | None => match st with VerifyAlways => DErr | _ => DOk None end
            | Some pv =>
                match st with
                | VerifyLater => DOk None
                | _ => hash_of (verify_chart false kr (Some pv) name archive)
                end
            end
        end
    end.

  (* ---------------------------------------------------------------- LocateChart / Pull *)
  (* LocateChart on an existing local file: VerifyChart iff the Verify flag is set *)
  Definition locate_local (verify_flag is_dir : bool) (kr : option keyring) (prov : option string) (name archive : string) : bool :=
    if verify_flag then
      match verify_chart is_dir kr prov name archive with VOk _ _ => true | VErr _ => false end
    else true.

  (* LocateChart on a remote reference: dl.Verify = VerifyAlways iff the flag is set *)
  Definition locate_strategy (verify_flag : bool) : strategy :=
    if verify_flag then VerifyAlways else VerifyNever.

  Definition locate_remote (verify_flag : bool) (kr : option keyring) (chart provf : option string) (name : string) : bool :=
    match download_to (locate_strategy verify_flag) kr chart provf name with DErr => false | DOk _ => true end.

  (* Pull.Run: Verify -> VerifyAlways, else VerifyLater -> VerifyLater, else VerifyNever *)
  Definition pull_strategy (verify_flag verify_later : bool) : strategy :=
    if verify_flag then VerifyAlways else if verify_later then VerifyLater else VerifyNever.

  (* ---------------------------------------------------------------- dependency manager *)
  (* Manager.downloadAll hands m.Verify to the ChartDownloader of every dependency: per
     dependency the outcome is DownloadTo's.  `helm dependency update --verify` sets
     VerifyAlways; `helm dependency build --verify` set VerifyIfPossible before repair ec82a5f
     and sets VerifyAlways since. *)
  Definition manager_dep_ok (st : strategy) (kr : option keyring) (chart provf : option string) (name : string) : bool :=
    match download_to st kr chart provf name with DErr => false | DOk _ => true end.

  Definition dep_update_strategy (verify_flag : bool) : strategy := if verify_flag then VerifyAlways else VerifyNever.
  Definition dep_build_strategy (verify_flag : bool) : strategy := if verify_flag then VerifyAlways else VerifyNever.
  Definition dep_build_strategy_unrepaired (verify_flag : bool) : strategy :=
    if verify_flag then VerifyIfPossible else VerifyNever.
End Prov.

Arguments VOk {signer}.
Arguments VErr {signer}.

(* ------------------------------------------------------------------ signing *)
(* Text that clearsign returns unchanged as Plaintext: no blank, tab or CR right before a line
   feed (Decode trims them, getLine drops the CR) and the text is empty or ends with a line
   feed (Decode appends one to every line). *)
Definition is_blank (c : ascii) : bool :=
  Ascii.eqb c " "%char || Ascii.eqb c "009"%char || Ascii.eqb c CR.

Inductive lstate := LStart | LBlank | LText.

Fixpoint clean_go (st : lstate) (s : string) : bool :=
  match s with
  | EmptyString => match st with LStart => true | _ => false end
  | String c t =>
      if Ascii.eqb c LF then match st with LBlank => false | _ => clean_go LStart t end
      else clean_go (if is_blank c then LBlank else LText) t
  end.

Definition clean (s : string) : bool := clean_go LStart s.

(* the separator starts nowhere inside m, not even straddling the separator that follows m *)
Fixpoint nosep_before (m : string) : bool :=
  match m with
  | EmptyString => true
  | String _ t => negb (String.prefix DOTS (m ++ DOTS)) && nosep_before t
  end.

(* the separator does not occur in s *)
Fixpoint nosep (s : string) : bool :=
  match s with
  | EmptyString => true
  | String _ t => negb (String.prefix DOTS s) && nosep t
  end.

Section Sign.
  Variables sigbody key : Type.
  Variable sha256 : string -> string.
  Variable sign : key -> string -> sigbody.                  (* the signature clearsign.Encode makes, over canon text *)
  Variable clearsign_encode : string -> sigbody -> string.   (* the armored clear-signed file *)
  Variable sums_yaml : string -> string -> string.           (* yaml.Marshal(SumCollection{Files: {name: value}}) *)

  (* provenance.messageBlock: yaml(metadata) "\n...\n" yaml(sums); [meta] = yaml.Marshal(chart.Metadata) *)
  Definition message_block (meta name archive : string) : string :=
    meta ++ DOTS ++ sums_yaml name ("sha256:" ++ sha256 archive).

  (* Signatory.ClearSign(chartpath), as action.Package.Clearsign writes it to <chart>.prov *)
  Definition clear_sign (k : key) (meta name archive : string) : string :=
    let m := message_block meta name archive in clearsign_encode m (sign k m).
End Sign.

(* Proofs about the depth accounting of includeFun / tplFun (Misc/PanicsRec.v): for EVERY
   sequence of enter / leave events — whatever names and texts the templates pass —
     * every counter equals the number of frames on the stack that hold it, and never
       exceeds recursionMaxNums + 1 (each increment is preceded by the check of that key);
     * so: at most max+1 nested tpl frames when the tpl key does not depend on the text; at
       most max+1 nested include frames when the total counter exists (55109f6); at most
       (max+1) * N include frames from per-name counting alone when the names come from a set
       of N; and the whole stack, `template` frames included, is at most
       tmax + (tmax+1) * (include frames + tpl frames);
     * with a tpl key that depends on the text (seeded change C20-7), and with per-name
       counting alone (before 55109f6), the depth is NOT bounded by a constant. *)
From Coq Require Import List String Ascii Bool ZArith Lia.
From Helm Require Import Common.Assoc Misc.PanicsRec.
Import ListNotations.
Local Open Scope string_scope.
Local Open Scope Z_scope.

(* ---------- counters ---------- *)
Definition occ (k : string) (l : list string) : Z := Z.of_nat (count_occ string_dec l k).

Lemma occ_nil k : occ k [] = 0.
Proof. reflexivity. Qed.

Lemma occ_app k l1 l2 : occ k (l1 ++ l2)%list = occ k l1 + occ k l2.
Proof. unfold occ. rewrite count_occ_app. lia. Qed.

Lemma occ_cons k a l : occ k (a :: l) = (if string_dec a k then 1 else 0) + occ k l.
Proof. unfold occ. simpl. destruct (string_dec a k); lia. Qed.

Lemma occ_nonneg k l : 0 <= occ k l.
Proof. unfold occ. lia. Qed.

Lemma occ_In k l : In k l -> 1 <= occ k l.
Proof. intro H. unfold occ. apply (count_occ_In string_dec) in H. lia. Qed.

Lemma cget_aset_eq k v m : cget k (aset k v m) = v.
Proof. unfold cget. rewrite aget_aset_eq. reflexivity. Qed.

Lemma cget_aset_neq k k' v m : k <> k' -> cget k' (aset k v m) = cget k' m.
Proof. intro H. unfold cget. rewrite aget_aset_neq by assumption. reflexivity. Qed.

Lemma cget_cinc k k' m : cget k' (cinc k m) = cget k' m + occ k' [k].
Proof.
  unfold cinc. rewrite occ_cons, occ_nil. destruct (string_dec k k') as [->|H].
  - rewrite cget_aset_eq. lia.
  - rewrite cget_aset_neq by assumption. lia.
Qed.

Lemma cget_cdec k k' m : cget k' (cdec k m) = cget k' m - occ k' [k].
Proof.
  unfold cdec. rewrite occ_cons, occ_nil. destruct (string_dec k k') as [->|H].
  - rewrite cget_aset_eq. lia.
  - rewrite cget_aset_neq by assumption. lia.
Qed.

Lemma cget_fold_cdec ks : forall k' m,
  cget k' (fold_left (fun m k => cdec k m) ks m) = cget k' m - occ k' ks.
Proof.
  induction ks as [|k ks IH]; intros k' m; simpl.
  - rewrite occ_nil. lia.
  - rewrite IH, cget_cdec. change (k :: ks) with ([k] ++ ks)%list. rewrite occ_app. lia.
Qed.

Lemma aget_cget k m v : aget k m = Some v -> cget k m = v.
Proof. unfold cget. intros ->. reflexivity. Qed.

Lemma aget_none_cget k (m : list (string * Z)) : aget k m = None -> cget k m = 0.
Proof. unfold cget. intros ->. reflexivity. Qed.

(* ---------- the invariant ---------- *)
Definition keys_of (st : list frame) : list string := flat_map f_keys st.

Definition total_keys (c : rcfg) : list string :=
  match rc_total c with Some tk => [tk] | None => [] end.

Definition frame_ok (c : rcfg) (f : frame) : Prop :=
  match f_kind f with
  | KInclude => f_keys f = (total_keys c ++ [rc_inc_key c (f_arg f)])%list
  | KTpl => f_keys f = if rc_tpl_on c then [rc_tpl_key c (f_arg f)] else []
  | KTemplate => f_keys f = []
  end.

(* the `template` depth of the running state = the run of template frames on top; each
   include / tpl frame remembers the depth of the state it suspended *)
Inductive tchain (c : rcfg) : list frame -> Z -> Prop :=
| tc_nil : tchain c [] 0
| tc_tmpl f st d : f_kind f = KTemplate -> f_saved f = d -> tchain c st d -> d < rc_tmax c ->
                   tchain c (f :: st) (d + 1)
| tc_call f st d : f_kind f <> KTemplate -> f_saved f = d -> tchain c st d -> tchain c (f :: st) 0.

Record inv (c : rcfg) (s : rst) : Prop := mkInv {
  inv_cnt : forall k, cget k (s_cnt s) = occ k (keys_of (s_stack s));
  inv_le : forall k, cget k (s_cnt s) <= rc_max c + 1;
  inv_frames : Forall (frame_ok c) (s_stack s);
  inv_t : tchain c (s_stack s) (s_tdepth s)
}.

Lemma tchain_range c st d : 0 <= rc_tmax c -> tchain c st d -> 0 <= d <= rc_tmax c.
Proof. intros H T. induction T; lia. Qed.

Lemma inv_init c : 0 <= rc_max c -> inv c rinit.
Proof.
  intro H. constructor; simpl.
  - intro k. reflexivity.
  - intro k. unfold cget. simpl. lia.
  - constructor.
  - constructor.
Qed.

Lemma inv_leave c s : inv c s -> inv c (leave s).
Proof.
  intros [Hc Hl Hf Ht]. unfold leave. destruct (s_stack s) as [|f st] eqn:E; [constructor; rewrite ?E; assumption|].
  constructor; simpl.
  - intro k. rewrite cget_fold_cdec, Hc. simpl. rewrite occ_app. lia.
  - intro k. rewrite cget_fold_cdec. specialize (Hl k). pose proof (occ_nonneg k (f_keys f)). lia.
  - inversion Hf; assumption.
  - inversion Ht; subst; assumption.
Qed.

Lemma inv_enter c s k arg s' :
  0 <= rc_max c -> 0 <= rc_tmax c -> inv c s -> enter c s k arg = Some s' -> inv c s'.
Proof.
  intros Hmax Htmax [Hc Hl Hf Ht] E. destruct k; simpl in E.
  - (* include *)
    set (m := s_cnt s) in *.
    assert (Hstep : forall m1 ks, (forall k, cget k m1 = cget k m + occ k ks) ->
              (forall k, cget k m1 <= rc_max c + 1) -> ks = total_keys c ->
              match aget (rc_inc_key c arg) m1 with
              | Some v => if v >? rc_max c then None
                          else Some (push s KInclude arg (ks ++ [rc_inc_key c arg])%list (aset (rc_inc_key c arg) (v + 1) m1) 0)
              | None => Some (push s KInclude arg (ks ++ [rc_inc_key c arg])%list (aset (rc_inc_key c arg) 1 m1) 0)
              end = Some s' -> inv c s').
    { intros m1 ks Hm1 Hl1 Hks E1. set (nk := rc_inc_key c arg) in *.
      destruct (aget nk m1) as [v|] eqn:G.
      - destruct (v >? rc_max c) eqn:Gt; [discriminate|]. injection E1 as <-.
        apply aget_cget in G. constructor; simpl.
        + intro k. rewrite occ_app, occ_app, <- Hc. fold m. destruct (string_dec nk k) as [->|N].
          * rewrite cget_aset_eq. rewrite occ_cons, occ_nil. destruct (string_dec k k); [|congruence].
            rewrite <- G, Hm1. lia.
          * rewrite cget_aset_neq by assumption. rewrite occ_cons, occ_nil.
            destruct (string_dec nk k); [congruence|]. rewrite Hm1. lia.
        + intro k. destruct (string_dec nk k) as [->|N].
          * rewrite cget_aset_eq. lia.
          * rewrite cget_aset_neq by assumption. apply Hl1.
        + constructor; [|assumption]. unfold frame_ok. simpl. rewrite Hks. reflexivity.
        + apply tc_call with (d := s_tdepth s); simpl; [discriminate|reflexivity|assumption].
      - injection E1 as <-. apply aget_none_cget in G. constructor; simpl.
        + intro k. rewrite occ_app, occ_app, <- Hc. fold m. destruct (string_dec nk k) as [->|N].
          * rewrite cget_aset_eq. rewrite occ_cons, occ_nil. destruct (string_dec k k); [|congruence].
            pose proof (Hm1 k). lia.
          * rewrite cget_aset_neq by assumption. rewrite occ_cons, occ_nil.
            destruct (string_dec nk k); [congruence|]. rewrite Hm1. lia.
        + intro k. destruct (string_dec nk k) as [->|N].
          * rewrite cget_aset_eq. lia.
          * rewrite cget_aset_neq by assumption. apply Hl1.
        + constructor; [|assumption]. unfold frame_ok. simpl. rewrite Hks. reflexivity.
        + apply tc_call with (d := s_tdepth s); simpl; [discriminate|reflexivity|assumption]. }
    unfold total_keys in Hstep. destruct (rc_total c) as [tk|].
    + destruct (cget tk m >? rc_max c) eqn:Gt; [discriminate|].
      apply (Hstep (cinc tk m) [tk]); try assumption; try reflexivity.
      * intro k. apply cget_cinc.
      * intro k. rewrite cget_cinc, occ_cons, occ_nil. destruct (string_dec tk k) as [->|N].
        -- lia.
        -- specialize (Hl k). fold m in Hl. lia.
    + apply (Hstep m []); try assumption; try reflexivity.
      intro k. rewrite occ_nil. lia.
  - (* tpl *)
    destruct (rc_tpl_on c) eqn:On.
    + set (tk := rc_tpl_key c arg) in *. destruct (cget tk (s_cnt s) >? rc_max c) eqn:Gt; [discriminate|].
      injection E as <-. constructor; simpl.
      * intro k. rewrite cget_cinc, Hc, !occ_cons, occ_nil. lia.
      * intro k. rewrite cget_cinc, occ_cons, occ_nil. destruct (string_dec tk k) as [->|N].
        -- lia.
        -- specialize (Hl k). lia.
      * constructor; [|assumption]. unfold frame_ok. simpl. rewrite On. reflexivity.
      * apply tc_call with (d := s_tdepth s); simpl; [discriminate|reflexivity|assumption].
    + injection E as <-. constructor; simpl.
      * intro k. apply Hc.
      * assumption.
      * constructor; [|assumption]. unfold frame_ok. simpl. rewrite On. reflexivity.
      * apply tc_call with (d := s_tdepth s); simpl; [discriminate|reflexivity|assumption].
  - (* template *)
    destruct (s_tdepth s =? rc_tmax c) eqn:Eq; [discriminate|]. injection E as <-.
    pose proof (tchain_range c _ _ Htmax Ht). constructor; simpl.
    + intro k. apply Hc.
    + assumption.
    + constructor; [|assumption]. reflexivity.
    + apply tc_tmpl; simpl; try reflexivity; try assumption. lia.
Qed.

Lemma inv_step c s e : 0 <= rc_max c -> 0 <= rc_tmax c -> inv c s -> inv c (step c s e).
Proof.
  intros H1 H2 I. destruct e as [k arg|]; simpl.
  - destruct (enter c s k arg) eqn:E; [eapply inv_enter; eassumption|assumption].
  - apply inv_leave. assumption.
Qed.

Lemma inv_run c t : forall s, 0 <= rc_max c -> 0 <= rc_tmax c -> inv c s -> inv c (run_trace c s t).
Proof.
  induction t as [|e t IH]; intros s H1 H2 I; simpl; [assumption|].
  apply IH; try assumption. apply inv_step; assumption.
Qed.

Theorem reachable_inv c t : 0 <= rc_max c -> 0 <= rc_tmax c -> inv c (run_trace c rinit t).
Proof. intros H1 H2. apply inv_run; try assumption. apply inv_init. assumption. Qed.

(* ---------- counting frames ---------- *)
Lemma filter_le_occ (P : frame -> bool) k st :
  Forall (fun f => P f = true -> In k (f_keys f)) st ->
  Z.of_nat (List.length (filter P st)) <= occ k (keys_of st).
Proof.
  induction 1 as [|f st Hf _ IH]; simpl; [rewrite occ_nil; lia|].
  rewrite occ_app. destruct (P f) eqn:E; simpl.
  - pose proof (occ_In _ _ (Hf eq_refl)). lia.
  - pose proof (occ_nonneg k (f_keys f)). lia.
Qed.

Lemma kind_eqb_eq a b : kind_eqb a b = true <-> a = b.
Proof. destruct a, b; simpl; split; intro H; try reflexivity; try discriminate. Qed.

(* tpl: the key is the same for every text => at most max+1 tpl frames *)
Theorem tpl_depth_bounded c t :
  0 <= rc_max c -> 0 <= rc_tmax c -> rc_tpl_on c = true ->
  (forall x y, rc_tpl_key c x = rc_tpl_key c y) ->
  Z.of_nat (count_kind KTpl (s_stack (run_trace c rinit t))) <= rc_max c + 1.
Proof.
  intros H1 H2 On Const. destruct (reachable_inv c t H1 H2) as [Hc Hl Hf _].
  set (s := run_trace c rinit t) in *. set (k0 := rc_tpl_key c "").
  apply Z.le_trans with (occ k0 (keys_of (s_stack s))); [|rewrite <- Hc; apply Hl].
  apply filter_le_occ. eapply Forall_impl; [|exact Hf].
  intros f Fk E. apply kind_eqb_eq in E. unfold frame_ok in Fk. rewrite E, On in Fk.
  rewrite Fk. left. apply Const.
Qed.

(* include: with the total counter (55109f6) at most max+1 include frames, whatever the names *)
Theorem include_depth_bounded c t tk :
  0 <= rc_max c -> 0 <= rc_tmax c -> rc_total c = Some tk ->
  Z.of_nat (count_kind KInclude (s_stack (run_trace c rinit t))) <= rc_max c + 1.
Proof.
  intros H1 H2 Tot. destruct (reachable_inv c t H1 H2) as [Hc Hl Hf _].
  set (s := run_trace c rinit t) in *.
  apply Z.le_trans with (occ tk (keys_of (s_stack s))); [|rewrite <- Hc; apply Hl].
  apply filter_le_occ. eapply Forall_impl; [|exact Hf].
  intros f Fk E. apply kind_eqb_eq in E. unfold frame_ok, total_keys in Fk. rewrite E, Tot in Fk.
  rewrite Fk. left. reflexivity.
Qed.

(* include, per name (all the code had before 55109f6): at most max+1 frames per counter key *)
Definition inc_with (c : rcfg) (k : string) (f : frame) : bool :=
  kind_eqb (f_kind f) KInclude && String.eqb (rc_inc_key c (f_arg f)) k.

Theorem include_per_name_bounded c t k :
  0 <= rc_max c -> 0 <= rc_tmax c ->
  Z.of_nat (List.length (filter (inc_with c k) (s_stack (run_trace c rinit t)))) <= rc_max c + 1.
Proof.
  intros H1 H2. destruct (reachable_inv c t H1 H2) as [Hc Hl Hf _].
  set (s := run_trace c rinit t) in *.
  apply Z.le_trans with (occ k (keys_of (s_stack s))); [|rewrite <- Hc; apply Hl].
  apply filter_le_occ. eapply Forall_impl; [|exact Hf].
  intros f Fk E. unfold inc_with in E. apply andb_true_iff in E as [E1 E2].
  apply kind_eqb_eq in E1. apply String.eqb_eq in E2. unfold frame_ok in Fk. rewrite E1 in Fk.
  rewrite Fk. apply in_or_app. right. left. assumption.
Qed.

(* ... hence (max+1) * N when every included name's key is one of N: the chain a -> b -> c ...
   is bounded by the number of defined templates times max+1, not by a constant *)
Definition mem_s (s : string) (l : list string) : bool := existsb (String.eqb s) l.

Definition inc_in (c : rcfg) (names : list string) (f : frame) : bool :=
  kind_eqb (f_kind f) KInclude && mem_s (rc_inc_key c (f_arg f)) names.

Lemma inc_in_split c n ns f : inc_in c (n :: ns) f = inc_with c n f || inc_in c ns f.
Proof. unfold inc_in, inc_with, mem_s. simpl. apply andb_orb_distrib_r. Qed.

Lemma inc_in_cons c n ns st :
  (List.length (filter (inc_in c (n :: ns)) st) <=
   List.length (filter (inc_with c n) st) + List.length (filter (inc_in c ns) st))%nat.
Proof.
  induction st as [|f st IH]; simpl; [lia|].
  rewrite inc_in_split. destruct (inc_with c n f), (inc_in c ns f); simpl; lia.
Qed.

Theorem include_names_bounded c t names :
  0 <= rc_max c -> 0 <= rc_tmax c ->
  (forall f, In f (s_stack (run_trace c rinit t)) -> f_kind f = KInclude ->
             In (rc_inc_key c (f_arg f)) names) ->
  Z.of_nat (count_kind KInclude (s_stack (run_trace c rinit t))) <=
  Z.of_nat (List.length names) * (rc_max c + 1).
Proof.
  intros H1 H2 Hn. set (st := s_stack (run_trace c rinit t)) in *.
  assert (E : count_kind KInclude st = List.length (filter (inc_in c names) st)).
  { unfold count_kind. f_equal. apply filter_ext_in. intros f Hin. unfold inc_in.
    destruct (kind_eqb (f_kind f) KInclude) eqn:K; [|reflexivity]. simpl. symmetry.
    apply kind_eqb_eq in K. specialize (Hn f Hin K). unfold mem_s. apply existsb_exists.
    exists (rc_inc_key c (f_arg f)). split; [assumption|apply String.eqb_refl]. }
  rewrite E. clear E Hn. induction names as [|n ns IH].
  - assert (N : filter (inc_in c []) st = []).
    { clear. induction st as [|f st' IHs]; [reflexivity|]. simpl. unfold inc_in at 1. simpl.
      rewrite andb_false_r. exact IHs. }
    rewrite N. simpl. lia.
  - pose proof (inc_in_cons c n ns st). pose proof (include_per_name_bounded c t n H1 H2).
    fold st in H0. simpl List.length. lia.
Qed.

(* the whole stack, `template` frames included *)
Lemma count_kind_cons k f st :
  count_kind k (f :: st) = if kind_eqb (f_kind f) k then S (count_kind k st) else count_kind k st.
Proof. unfold count_kind. simpl. destruct (kind_eqb (f_kind f) k); reflexivity. Qed.

Lemma tchain_length c st d :
  0 <= rc_tmax c -> tchain c st d ->
  Z.of_nat (List.length st) <=
  d + (rc_tmax c + 1) * (Z.of_nat (count_kind KInclude st) + Z.of_nat (count_kind KTpl st)).
Proof.
  intros H T. induction T.
  - simpl. lia.
  - rewrite !count_kind_cons, H0. cbn [kind_eqb List.length]. rewrite Nat2Z.inj_succ. lia.
  - pose proof (tchain_range c _ _ H T). rewrite !count_kind_cons. cbn [List.length].
    rewrite Nat2Z.inj_succ.
    destruct (f_kind f); try congruence; cbn [kind_eqb]; rewrite Nat2Z.inj_succ; lia.
Qed.

Theorem stack_depth_bounded c t tk :
  0 <= rc_max c -> 0 <= rc_tmax c -> rc_total c = Some tk -> rc_tpl_on c = true ->
  (forall x y, rc_tpl_key c x = rc_tpl_key c y) ->
  Z.of_nat (List.length (s_stack (run_trace c rinit t))) <=
  rc_tmax c + (rc_tmax c + 1) * (2 * (rc_max c + 1)).
Proof.
  intros H1 H2 Tot On Const.
  pose proof (tpl_depth_bounded c t H1 H2 On Const).
  pose proof (include_depth_bounded c t tk H1 H2 Tot).
  destruct (reachable_inv c t H1 H2) as [_ _ _ Ht].
  pose proof (tchain_length c _ _ H2 Ht). pose proof (tchain_range c _ _ H2 Ht). nia.
Qed.

(* ---------- the engine as it stands meets the hypotheses ---------- *)
Lemma engine_cfg_ok :
  0 <= rc_max engine_cfg /\ 0 <= rc_tmax engine_cfg /\ rc_total engine_cfg = Some include_depth_key /\
  rc_tpl_on engine_cfg = true /\ (forall x y, rc_tpl_key engine_cfg x = rc_tpl_key engine_cfg y).
Proof. repeat split; try reflexivity; simpl; lia. Qed.

(* ---------- unbounded without them ---------- *)
(* seeded change C20-7: tpl counted per text.  n tpl calls with n different texts nest n deep,
   for EVERY n *)
Definition tpl_trace (n : nat) : list ev := map (fun i => EEnter KTpl (nat_str i)) (seq 0 n).

Lemma pos_str_inj p : forall q, pos_str p = pos_str q -> p = q.
Proof.
  induction p as [p IH|p IH|]; intros [q|q|] E; simpl in E; try discriminate; try reflexivity.
  - injection E as E. f_equal. apply IH. assumption.
  - injection E as E. destruct p; discriminate.
  - injection E as E. f_equal. apply IH. assumption.
  - injection E as E. destruct q; discriminate.
Qed.

Lemma nat_str_inj a b : nat_str a = nat_str b -> a = b.
Proof. unfold nat_str. intro E. apply pos_str_inj in E. lia. Qed.

Lemma append_inj_l p : forall a b, (p ++ a)%string = (p ++ b)%string -> a = b.
Proof. induction p; simpl; intros a0 b E; [assumption|]. injection E as E. apply IHp. assumption. Qed.

Lemma run_trace_app c s t1 t2 : run_trace c s (t1 ++ t2)%list = run_trace c (run_trace c s t1) t2.
Proof. unfold run_trace. apply fold_left_app. Qed.

Lemma enter_tpl_fresh s arg :
  cget (tpl_depth_key ++ arg)%string (s_cnt s) = 0 ->
  enter engine_cfg_tpl_per_text s KTpl arg =
  Some (push s KTpl arg [(tpl_depth_key ++ arg)%string] (cinc (tpl_depth_key ++ arg)%string (s_cnt s)) 0).
Proof.
  intro H. unfold enter. change (rc_tpl_on engine_cfg_tpl_per_text) with true. cbv iota.
  change (rc_tpl_key engine_cfg_tpl_per_text arg) with (tpl_depth_key ++ arg)%string.
  cbv zeta. rewrite H. reflexivity.
Qed.

Theorem tpl_per_text_unbounded : forall n,
  let s := run_trace engine_cfg_tpl_per_text rinit (tpl_trace n) in
  List.length (s_stack s) = n /\ count_kind KTpl (s_stack s) = n /\
  (forall f, In f (s_stack s) -> exists i, (i < n)%nat /\ f_keys f = [(tpl_depth_key ++ nat_str i)%string]).
Proof.
  induction n as [|n IH]; [simpl; repeat split; try reflexivity; intros f []|].
  unfold tpl_trace in *. rewrite seq_S, map_app, run_trace_app. cbv zeta in *.
  set (s := run_trace engine_cfg_tpl_per_text rinit (map (fun i => EEnter KTpl (nat_str i)) (seq 0 n))) in *.
  destruct IH as (L & K & Fr).
  assert (I : inv engine_cfg_tpl_per_text s) by (apply reachable_inv; simpl; lia).
  assert (Z0 : cget (tpl_depth_key ++ nat_str n)%string (s_cnt s) = 0).
  { rewrite (inv_cnt _ _ I). unfold occ. replace (count_occ _ _ _) with 0%nat; [reflexivity|].
    symmetry. apply count_occ_not_In. intro Hin. unfold keys_of in Hin. apply in_flat_map in Hin.
    destruct Hin as (f & Hf & Hk). destruct (Fr f Hf) as (i & Hi & Ek). rewrite Ek in Hk.
    destruct Hk as [Hk|[]]. apply append_inj_l in Hk. apply nat_str_inj in Hk. lia. }
  change (map (fun i => EEnter KTpl (nat_str i)) [(0 + n)%nat]) with [EEnter KTpl (nat_str n)].
  change (run_trace engine_cfg_tpl_per_text s [EEnter KTpl (nat_str n)])
    with (step engine_cfg_tpl_per_text s (EEnter KTpl (nat_str n))).
  unfold step. rewrite (enter_tpl_fresh s (nat_str n) Z0). unfold push. cbn [s_stack].
  repeat split.
  - cbn [List.length]. rewrite L. reflexivity.
  - rewrite count_kind_cons. cbn [f_kind kind_eqb]. rewrite K. reflexivity.
  - intros f [<-|Hf].
    + exists n. split; [lia|reflexivity].
    + destruct (Fr f Hf) as (i & Hi & Ek). exists i. split; [lia|assumption].
Qed.

(* before 55109f6: three templates that include each other in a cycle nest 3 * (max+1) deep
   (here with max = 4 to keep the term small; the real engine with 200 templates and
   max = 1000 ran out of stack); with the total counter the same calls stop at max+1 *)
Definition small_cfg (total : option string) : rcfg :=
  mkRcfg 4 100000 total (fun n => n) true (fun _ => tpl_depth_key).

Definition cycle_trace (names : list string) (rounds : nat) : list ev :=
  flat_map (fun _ => map (EEnter KInclude) names) (seq 0 rounds).

Lemma include_cycle_depth :
  count_kind KInclude (s_stack (run_trace (small_cfg None) rinit (cycle_trace ["a"; "b"; "c"] 9))) = 15%nat /\
  count_kind KInclude (s_stack (run_trace (small_cfg (Some include_depth_key)) rinit (cycle_trace ["a"; "b"; "c"] 9))) = 5%nat.
Proof. split; vm_compute; reflexivity. Qed.

(* the same on the real constants: per-name counting admits 3003 nested includes over three
   names, the total counter stops at 1001 *)
Lemma include_cycle_depth_real :
  count_kind KInclude (s_stack (run_trace engine_cfg_per_name rinit (cycle_trace ["a"; "b"; "c"] 1100))) = 3003%nat /\
  count_kind KInclude (s_stack (run_trace engine_cfg rinit (cycle_trace ["a"; "b"; "c"] 1100))) = 1001%nat.
Proof. split; vm_compute; reflexivity. Qed.

(* the two bounds multiply: `template` nests tmax deep inside every include frame (the known
   finding K10); shown on small constants *)
Definition tiny_cfg : rcfg := mkRcfg 2 3 (Some include_depth_key) (fun n => n) true (fun _ => tpl_depth_key).

Definition inc_tmpl_trace (rounds per : nat) : list ev :=
  flat_map (fun _ => EEnter KInclude "a" :: map (fun _ => EEnter KTemplate "b") (seq 0 per)) (seq 0 rounds).

Lemma include_times_template_depth :
  List.length (s_stack (run_trace tiny_cfg rinit (inc_tmpl_trace 10 10))) = 12%nat.
Proof. vm_compute. reflexivity. Qed.

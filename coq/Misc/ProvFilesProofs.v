(* Proofs about the file layer (Misc/ProvFiles.v). *)
From Coq Require Import List String Ascii Bool.
From Helm Require Import Common.Assoc Misc.Prov Misc.ProvProofs Misc.ProvFiles.
Import ListNotations.
Local Open Scope string_scope.

Section FilesProofs.
  Variables keyring sigbody signer : Type.
  Variable clearsign_decode : string -> option (string * sigbody).
  Variable check_sig : keyring -> string -> sigbody -> option signer.
  Variable sha256 : string -> string.
  Variable yaml_meta_ok : string -> bool.
  Variable yaml_sums : string -> option (list (string * string)).

  Notation verify := (verify keyring sigbody signer clearsign_decode check_sig sha256 yaml_meta_ok yaml_sums).
  Notation verify_chart := (verify_chart keyring sigbody signer clearsign_decode check_sig sha256 yaml_meta_ok yaml_sums).
  Notation verify_files := (verify_files keyring sigbody signer clearsign_decode check_sig sha256 yaml_meta_ok yaml_sums).
  Notation verify_chart_files := (verify_chart_files keyring sigbody signer clearsign_decode check_sig sha256 yaml_meta_ok yaml_sums).
  Notation lift := (lift signer).

  Lemma lift_ok v by_ h : lift v = FOk by_ h <-> v = VOk by_ h.
  Proof. destruct v; simpl; split; intro H; try discriminate; injection H as <- <-; reflexivity. Qed.

  (* Signatory.Verify accepts only two readable regular files, and then exactly when the
     verification proper accepts their contents *)
  Lemma files_verify_iff kr chart prov name by_ h :
    verify_files kr chart prov name = FOk by_ h <->
    exists a pv, chart = FFile a /\ prov = FFile pv /\ verify kr pv name a = VOk by_ h.
  Proof.
    unfold ProvFiles.verify_files, verify_files_with. split.
    - destruct chart as [| | |a]; simpl; try discriminate.
      + destruct prov as [| | |pv]; simpl; try discriminate.
        destruct (clearsign_decode pv) as [[msg sg]|]; [|discriminate].
        destruct (check_sig kr (canon msg) sg); discriminate.
      + destruct prov as [| | |pv]; simpl; try discriminate.
        intro H. apply lift_ok in H. exists a, pv. auto.
    - intros (a & pv & -> & -> & H). simpl. apply lift_ok. exact H.
  Qed.

  (* an archive that cannot be read is never accepted (this is what fix fda75d8 restored) *)
  Lemma unreadable_archive_rejected kr prov name by_ h :
    verify_files kr FUnreadable prov name <> FOk by_ h.
  Proof. intro H. apply files_verify_iff in H as (a & pv & E & _). discriminate. Qed.

  (* VerifyChart: readable archive with a .tgz name, readable <path>.prov, keyring loads *)
  Lemma verify_chart_files_iff kr chart prov name by_ h :
    verify_chart_files kr chart prov name = FOk by_ h <->
    exists a pv k, chart = FFile a /\ prov = FFile pv /\ kr = Some k /\ is_tgz name = true /\
                   verify k pv name a = VOk by_ h.
  Proof.
    unfold ProvFiles.verify_chart_files. split.
    - destruct chart as [| | |a]; try discriminate.
      + destruct (is_tgz name); simpl; [|discriminate].
        destruct prov as [| | |pv]; try discriminate; destruct kr as [k|]; try discriminate;
          intro H; apply files_verify_iff in H as (a & pv' & E & _); discriminate.
      + destruct (is_tgz name) eqn:Et; simpl; [|discriminate].
        destruct prov as [| | |pv]; try discriminate; destruct kr as [k|]; try discriminate;
          intro H; apply files_verify_iff in H as (a' & pv' & Ea & Ep & Hv); try discriminate.
        injection Ea as <-. injection Ep as <-. exists a, pv, k. auto.
    - intros (a & pv & k & -> & -> & -> & Et & H). rewrite Et. simpl.
      apply files_verify_iff. exists a, pv. auto.
  Qed.

  (* on two regular files the file layer is Prov.verify_chart *)
  Lemma verify_chart_files_regular kr a pv name :
    verify_chart_files kr (FFile a) (FFile pv) name = lift (verify_chart false kr (Some pv) name a).
  Proof.
    unfold ProvFiles.verify_chart_files, Prov.verify_chart. simpl.
    destruct (is_tgz name); simpl; [|reflexivity]. destruct kr; reflexivity.
  Qed.

  Lemma verify_chart_files_no_prov kr a name :
    verify_chart_files kr (FFile a) FMissing name = lift (verify_chart false kr None name a).
  Proof.
    unfold ProvFiles.verify_chart_files, Prov.verify_chart. simpl.
    destruct (is_tgz name); reflexivity.
  Qed.

  Lemma verify_chart_files_dir kr prov name :
    verify_chart_files kr FDir prov name = FErr (FECore EIsDir).
  Proof. reflexivity. Qed.
End FilesProofs.

(* ------------------------------------------------------------------ the unrepaired Digest *)
(* concrete instance (as ex_verify of ProvProofs.v) whose signed sums list NO digest for the
   name: "sha256:" and nothing.  With Digest answering "" and no error for a file it cannot read
   the pair was accepted with FileHash "sha256:"; the code as repaired rejects it. *)
Definition tf_sums (p : string) : option (list (string * string)) :=
  if String.eqb p "files: x" then Some [("a-1.tgz", "sha256:")] else None.

Lemma digest_unrepaired_refuted :
  verify_files_unrepaired (list nat) nat nat ex_decode ex_check (fun a => a) (fun _ => true) tf_sums
                          [7] FUnreadable (FFile "PROV") "a-1.tgz" = FOk 7 "sha256:" /\
  verify_files (list nat) nat nat ex_decode ex_check (fun a => a) (fun _ => true) tf_sums
               [7] FUnreadable (FFile "PROV") "a-1.tgz" = FErr FEDigest.
Proof. vm_compute. split; reflexivity. Qed.

Example files_example :
  verify_files (list nat) nat nat ex_decode ex_check (fun a => a) (fun _ => true) ex_sums
               [7] (FFile "d1") (FFile "PROV") "a-1.tgz" = FOk 7 "sha256:d1" /\
  verify_chart_files (list nat) nat nat ex_decode ex_check (fun a => a) (fun _ => true) ex_sums
               (Some [7]) (FFile "d1") (FFile "PROV") "a-1.tgz" = FOk 7 "sha256:d1" /\
  verify_chart_files (list nat) nat nat ex_decode ex_check (fun a => a) (fun _ => true) ex_sums
               (Some [7]) (FFile "d1") FDir "a-1.tgz" = FErr FEIsDirectory /\
  verify_chart_files (list nat) nat nat ex_decode ex_check (fun a => a) (fun _ => true) ex_sums
               (Some [7]) (FFile "d1") FMissing "a-1.tgz" = FErr (FECore ENoProv).
Proof. vm_compute. repeat split. Qed.

(* Proofs for Misc/PanicsStrvals.v *)
From Coq Require Import List String Ascii Bool Arith ZArith Lia.
From Helm Require Import Values.Tree Misc.PanicsStrvalsLex Misc.Panics Misc.PanicsStrvals.
Import ListNotations.
Local Open Scope string_scope.

(* ---------- the lexical helpers of Values/Strvals.v never give back more than they got ---------- *)
Lemma runes_until_le esc stop : forall n s k l rest,
  String.length s <= n -> runes_until esc stop s = (k, l, rest) -> String.length rest <= String.length s.
Proof.
  induction n as [|n IH]; intros s k l rest Hn H.
  - destruct s; simpl in *; [inversion H; simpl; lia|lia].
  - destruct s as [|c t]; simpl in *; [inversion H; simpl; lia|].
    destruct (stop c); [inversion H; subst; lia|].
    destruct (esc && ch_eq c c_bsl).
    + destruct t as [|c2 t']; [inversion H; simpl; lia|].
      destruct (runes_until esc stop t') as [[v l'] r] eqn:E. inversion H; subst.
      apply IH in E; [simpl in *; lia|simpl in *; lia].
    + destruct (runes_until esc stop t) as [[v l'] r] eqn:E. inversion H; subst.
      apply IH in E; [simpl in *; lia|simpl in *; lia].
Qed.

Lemma runes_until_lt esc stop : forall n s k ch rest,
  String.length s <= n -> runes_until esc stop s = (k, Some ch, rest) -> String.length rest < String.length s.
Proof.
  induction n as [|n IH]; intros s k ch rest Hn H.
  - destruct s; simpl in *; [inversion H|lia].
  - destruct s as [|c t]; simpl in *; [inversion H|].
    destruct (stop c); [inversion H; subst; lia|].
    destruct (esc && ch_eq c c_bsl).
    + destruct t as [|c2 t']; [inversion H|].
      destruct (runes_until esc stop t') as [[v l'] r] eqn:E. inversion H; subst.
      apply IH in E; [simpl in *; lia|simpl in *; lia].
    + destruct (runes_until esc stop t) as [[v l'] r] eqn:E. inversion H; subst.
      apply IH in E; [simpl in *; lia|simpl in *; lia].
Qed.

Lemma ru_lt esc stop s k ch rest :
  runes_until esc stop s = (k, Some ch, rest) -> String.length rest < String.length s.
Proof. apply (runes_until_lt esc stop (String.length s)). lia. Qed.

Lemma ru_le esc stop s k l rest :
  runes_until esc stop s = (k, l, rest) -> String.length rest <= String.length s.
Proof. apply (runes_until_le esc stop (String.length s)). lia. Qed.

Lemma key_index_lt esc s i rest :
  key_index esc s = Some (i, rest) -> String.length rest < String.length s.
Proof.
  unfold key_index. destruct (runes_until esc stop_rbr s) as [[v l] r] eqn:E.
  destruct l; [|discriminate]. destruct (parse_int v); [|discriminate].
  intros H. inversion H; subst. eapply ru_lt; eauto.
Qed.

Lemma empty_val_le s : String.length (snd (empty_val s)) <= String.length s.
Proof.
  induction s as [|c t IH]; simpl; [lia|].
  destruct (ch_eq c c_comma); simpl; [lia|]. destruct (is_space c); simpl; lia.
Qed.

Lemma drop_le n : forall s, String.length (drop n s) <= String.length s.
Proof. induction n; intros [|c t]; simpl; try lia. specialize (IHn t). lia. Qed.

Lemma val_list_loop_le c : forall n s cur acc l rest,
  String.length s <= n -> val_list_loop c cur acc s = VLOk l rest -> String.length rest <= String.length s.
Proof.
  induction n as [|n IH]; intros s cur acc l rest Hn H.
  - destruct s; simpl in *; [discriminate|lia].
  - destruct s as [|ch t]; simpl in *; [discriminate|].
    destruct (ch_eq ch c_rbrace).
    + destruct (reader c cur); [|discriminate]. inversion H; subst.
      destruct t as [|c2 t2]; simpl; [lia|]. destruct (ch_eq c2 c_comma); simpl; lia.
    + destruct (ch_eq ch c_comma).
      * destruct (reader c cur); [|discriminate]. apply IH in H; lia.
      * destruct (ch_eq ch c_bsl).
        -- destruct t as [|n0 t']; [discriminate|]. apply IH in H; simpl in *; lia.
        -- apply IH in H; lia.
Qed.

Lemma val_list_le c s l rest : val_list c s = VLOk l rest -> String.length rest <= String.length s.
Proof.
  unfold val_list. destruct s as [|ch t]; [discriminate|].
  destruct (ch_eq ch c_lbrace); [|discriminate].
  intros H. apply (val_list_loop_le c (String.length t)) in H; simpl; lia.
Qed.

Lemma value_after_eq_le c s v rest :
  value_after_eq c s = VOk v rest -> String.length rest <= String.length s.
Proof.
  unfold value_after_eq. destruct (pmode_of c).
  1,2,3: destruct (val_list c s) eqn:E; try discriminate;
    [intros H; inversion H; subst; eapply val_list_le; eauto|
     destruct (runes_until true stop_comma s) as [[rs l] r] eqn:E2;
     destruct (reader c rs); [|discriminate]; intros H; inversion H; subst; eapply ru_le; eauto].
  - destruct (empty_val s) as [emp r] eqn:E. pose proof (empty_val_le s) as Hl. rewrite E in Hl. simpl in Hl.
    destruct emp; [intros H; inversion H; subst; lia|].
    destruct (assoc_nat (String.length r) (pjdec c)) as [[v0 used]|]; [|discriminate].
    intros H. inversion H; subst.
    pose proof (empty_val_le (drop used r)). pose proof (drop_le used r). lia.
  - intros H. inversion H; subst. simpl. lia.
Qed.

(* ---------- recursion depth and progress ---------- *)
Definition good_k (s : string) (x : fres kout) : Prop :=
  x <> Fatal /\ forall d rest, x = Ret (Ok (KOk d rest)) -> String.length rest < String.length s.
Definition good_l (s : string) (x : fres lout) : Prop :=
  x <> Fatal /\ forall l rest, x = Ret (Ok (LOk l rest)) -> String.length rest < String.length s.

Ltac triv := unfold good_k, good_l; simpl; split; [discriminate|intros; discriminate].
Ltac okk := unfold good_k, good_l; simpl; split; [discriminate|let H := fresh in intros ? ? H; inversion H; subst; simpl; lia].

Section M.
  Variable cfg : pcfg.
  Variable rec_on : bool.
  Variables max_idx alloc : Z.
  Variable max_lvl : nat.
  Variable cnt : bool.

  Lemma set_index_then_l s l i v (mk : list val -> lout) :
    (forall l', good_l s (Ret (Ok (mk l')))) ->
    good_l s (lift (l' <- set_index_r rec_on max_idx alloc l i v ;; Ok (mk l'))).
  Proof.
    intros H. destruct (set_index_r rec_on max_idx alloc l i v); simpl; [apply H|triv|triv].
  Qed.

  Section Steps.
    Variable rk : vmap -> nat -> string -> fres kout.
    Variable ri : list val -> Z -> nat -> string -> fres lout.
    Variable s : string.
    Hypothesis Hrk : forall inner lvl rest, String.length rest < String.length s -> good_k rest (rk inner lvl rest).
    Hypothesis Hri : forall l i lvl rest, String.length rest < String.length s -> good_l rest (ri l i lvl rest).

    Lemma key_step_good d lvl : good_k s (key_step cfg max_lvl rk ri d lvl s).
    Proof.
      unfold key_step.
      destruct (runes_until (negb (lit cfg)) (if lit cfg then stop_key_lit else stop_key) s) as [[k last] rest] eqn:E.
      destruct last as [ch|]; [|destruct k; triv].
      pose proof (ru_lt _ _ _ _ _ _ E) as Hlt.
      destruct (ch_eq ch c_lbr).
      { destruct (key_index (negb (lit cfg)) rest) as [[i rest1]|] eqn:Ei; [|triv].
        pose proof (key_index_lt _ _ _ _ Ei) as Hlt1.
        assert (HL : forall l, good_k s
                  match ri l i lvl rest1 with
                  | Fatal => Fatal
                  | Ret (Ok (LOk l' rest2)) => Ret (Ok (KOk (set k (VList l') d) rest2))
                  | Ret (Ok (LEof l')) => Ret (Ok (KEof (set k (VList l') d)))
                  | Ret Err => Ret Err
                  | Ret (Panic w) => Ret (Panic w)
                  end).
        { intros l. destruct (Hri l i lvl rest1 ltac:(lia)) as [Hnf Hsh].
          destruct (ri l i lvl rest1) as [|[[l' rest2|l']| |w]].
          - congruence.
          - unfold good_k. split; [discriminate|]. intros d0 r0 H. inversion H; subst.
            specialize (Hsh l' r0 eq_refl). lia.
          - triv.
          - triv.
          - triv. }
        destruct (mget k d) as [x|]; [|simpl; apply HL].
        destruct x; simpl; try triv. apply HL. }
      destruct (ch_eq ch c_eq).
      { unfold value_r. destruct (value_after_eq cfg rest) as [v rest1| |] eqn:Ev; [|triv|triv].
        apply value_after_eq_le in Ev. okk. }
      destruct (ch_eq ch c_comma); [triv|].
      destruct (Nat.ltb max_lvl (S lvl)); [triv|].
      assert (HK : forall (inner : vmap) (existed : bool), good_k s
                (let writeback (inner' : vmap) :=
                   if existed then mset k (VMap inner') d
                   else match inner' with [] => d | _ => set k (VMap inner') d end in
                 match rk inner (S lvl) rest with
                 | Fatal => Fatal
                 | Ret (Ok (KOk inner' rest1)) =>
                     match inner' with
                     | [] => Ret Err
                     | _ => Ret (Ok (KOk (writeback inner') rest1))
                     end
                 | Ret (Ok (KEof inner')) => Ret (Ok (KEof (writeback inner')))
                 | Ret Err => Ret Err
                 | Ret (Panic w) => Ret (Panic w)
                 end)).
      { intros inner existed. destruct (Hrk inner (S lvl) rest ltac:(lia)) as [Hnf Hsh].
        destruct (rk inner (S lvl) rest) as [|[[inner' rest1|inner']| |w]]; simpl.
        - congruence.
        - specialize (Hsh inner' rest1 eq_refl). destruct inner'; [triv|].
          unfold good_k. split; [discriminate|]. intros d0 r0 H. inversion H; subst. lia.
        - triv.
        - triv.
        - triv. }
      destruct (mget k d) as [x|]; [|simpl; apply (HK [] false)].
      destruct x; simpl; try triv. apply (HK m true).
    Qed.

    Lemma item_step_good l i lvl : good_l s (item_step cfg rec_on max_idx max_lvl alloc cnt rk ri l i lvl s).
    Proof.
      unfold item_step.
      destruct (Z.ltb i 0); [triv|].
      destruct (runes_until (negb (lit cfg)) stop_item s) as [[k last] rest] eqn:E.
      destruct k; [|triv].
      destruct last as [ch|]; [|triv].
      pose proof (ru_lt _ _ _ _ _ _ E) as Hlt.
      destruct (ch_eq ch c_eq).
      { unfold value_r. destruct (value_after_eq cfg rest) as [v rest1| |] eqn:Ev; [| |triv].
        - apply value_after_eq_le in Ev. apply set_index_then_l. intros l'. okk.
        - apply set_index_then_l. intros l'. okk. }
      destruct (ch_eq ch c_lbr).
      { destruct (cnt && Nat.ltb max_lvl (S lvl)); [triv|]. cbv zeta.
        generalize (if cnt then S lvl else lvl). intros lv.
        destruct (key_index (negb (lit cfg)) rest) as [[nexti rest1]|] eqn:Ei; [|triv].
        pose proof (key_index_lt _ _ _ _ Ei) as Hlt1.
        assert (HL : forall (crt : list val) (existed : bool), good_l s
                  match ri crt nexti lv rest1 with
                  | Fatal => Fatal
                  | Ret (Ok (LOk l2 rest2)) => lift (l' <- set_index_r rec_on max_idx alloc l i (VList l2) ;; Ok (LOk l' rest2))
                  | Ret (Ok (LEof l2)) =>
                      match l2 with
                      | _ :: _ => lift (l' <- set_index_r rec_on max_idx alloc l i (VList l2) ;; Ok (LEof l'))
                      | [] => Ret (Ok (LEof (if existed then set_nth (Z.to_nat i) (VList l2) l else l)))
                      end
                  | Ret Err => Ret Err
                  | Ret (Panic w) => Ret (Panic w)
                  end).
        { intros crt existed. destruct (Hri crt nexti lv rest1 ltac:(lia)) as [Hnf Hsh].
          destruct (ri crt nexti lv rest1) as [|[[l2 rest2|l2]| |w]].
          - congruence.
          - specialize (Hsh l2 rest2 eq_refl). apply set_index_then_l. intros l'. okk.
          - destruct l2; [triv|]. apply set_index_then_l. intros l'. triv.
          - triv.
          - triv. }
        destruct (Z.ltb i (Z.of_nat (List.length l))); [|simpl; apply (HL [] false)].
        destruct (index l i) as [x| |w]; simpl; [|triv|triv].
        destruct x; simpl; try triv; try (apply (HL [] false)). apply (HL l0 true). }
      (* '.' *)
      destruct (cnt && Nat.ltb max_lvl (S lvl)); [triv|]. cbv zeta.
      generalize (if cnt then S lvl else lvl). intros lv.
      assert (HK : forall (l1 : list val) (inner : vmap) (inplace : bool), good_l s
                match rk inner lv rest with
                | Fatal => Fatal
                | Ret (Ok (KOk inner' rest1)) => lift (l' <- set_index_r rec_on max_idx alloc l1 i (VMap inner') ;; Ok (LOk l' rest1))
                | Ret (Ok (KEof inner')) =>
                    match inner' with
                    | _ :: _ => lift (l' <- set_index_r rec_on max_idx alloc l1 i (VMap inner') ;; Ok (LEof l'))
                    | [] => Ret (Ok (LEof (if inplace then set_nth (Z.to_nat i) (VMap inner') l1 else l1)))
                    end
                | Ret Err => Ret Err
                | Ret (Panic w) => Ret (Panic w)
                end).
      { intros l1 inner inplace. destruct (Hrk inner lv rest ltac:(lia)) as [Hnf Hsh].
        destruct (rk inner lv rest) as [|[[inner' rest1|inner']| |w]].
        - congruence.
        - specialize (Hsh inner' rest1 eq_refl). apply set_index_then_l. intros l'. okk.
        - destruct inner'; [triv|]. apply set_index_then_l. intros l'. triv.
        - triv.
        - triv. }
      destruct (Z.ltb i (Z.of_nat (List.length l))); [|simpl; apply (HK l [] false)].
      destruct (index l i) as [x| |w]; simpl; [|triv|triv].
      destruct x; simpl;
        try (destruct (write_at l i (VMap [])) as [l1| |w]; simpl; [apply (HK l1 [] true)|triv|triv]).
      apply (HK l m true).
    Qed.
  End Steps.

  Lemma key_S f d lvl s :
    key cfg rec_on max_idx max_lvl alloc cnt (S f) d lvl s =
    frecover rec_on (key_body cfg rec_on max_idx max_lvl alloc cnt f d lvl s).
  Proof. reflexivity. Qed.
  Lemma key_body_S f d lvl s :
    key_body cfg rec_on max_idx max_lvl alloc cnt (S f) d lvl s =
    key_step cfg max_lvl (key cfg rec_on max_idx max_lvl alloc cnt f) (list_item cfg rec_on max_idx max_lvl alloc cnt f) d lvl s.
  Proof. reflexivity. Qed.
  Lemma list_item_S f l i lvl s :
    list_item cfg rec_on max_idx max_lvl alloc cnt (S f) l i lvl s =
    item_step cfg rec_on max_idx max_lvl alloc cnt (key cfg rec_on max_idx max_lvl alloc cnt f) (list_item cfg rec_on max_idx max_lvl alloc cnt f) l i lvl s.
  Proof. reflexivity. Qed.

  (* the recursion depth of key / listItem is bounded by twice the length of the remaining
     input (+2), and a successful key consumes input *)
  Theorem fuel_enough : forall f,
    (forall d lvl s, 2 * String.length s + 2 <= f -> good_k s (key cfg rec_on max_idx max_lvl alloc cnt f d lvl s)) /\
    (forall d lvl s, 2 * String.length s + 1 <= f -> good_k s (key_body cfg rec_on max_idx max_lvl alloc cnt f d lvl s)) /\
    (forall l i lvl s, 2 * String.length s + 1 <= f -> good_l s (list_item cfg rec_on max_idx max_lvl alloc cnt f l i lvl s)).
  Proof.
    induction f as [|f [IHk [IHb IHl]]].
    - split; [|split]; intros; exfalso; lia.
    - split; [|split].
      + intros d lvl s Hf. rewrite key_S.
        destruct (IHb d lvl s ltac:(lia)) as [Hnf Hsh].
        destruct (key_body cfg rec_on max_idx max_lvl alloc cnt f d lvl s) as [|[a| |w]]; simpl.
        * congruence.
        * unfold good_k; simpl. split; [discriminate|]. intros d0 r0 H. apply (Hsh d0 r0). exact H.
        * triv.
        * destruct rec_on; triv.
      + intros d lvl s Hf. rewrite key_body_S. apply key_step_good.
        * intros inner lvl' rest Hr. apply IHk. lia.
        * intros l i lvl' rest Hr. apply IHl. lia.
      + intros l i lvl s Hf. rewrite list_item_S. apply item_step_good.
        * intros inner lvl' rest Hr. apply IHk. lia.
        * intros l' i' lvl' rest Hr. apply IHl. lia.
  Qed.

  (* parse never runs out of recursion budget, and every round of its loop consumes input *)
  Lemma parse_loop_not_fatal : forall n d s,
    String.length s < n -> parse_loop cfg rec_on max_idx max_lvl alloc cnt n d s <> Fatal.
  Proof.
    induction n as [|n IH]; intros d s Hn; [lia|]. simpl.
    destruct (fuel_enough (2 * String.length s + 2)) as [Hk _].
    destruct (Hk d 0 s (le_n _)) as [Hnf Hsh].
    replace (String.length s + (String.length s + 0) + 2) with (2 * String.length s + 2) by lia.
    destruct (key cfg rec_on max_idx max_lvl alloc cnt (2 * String.length s + 2) d 0 s) as [|[[d' rest|d']| |w]];
      try discriminate; try congruence.
    apply IH. specialize (Hsh d' rest eq_refl). lia.
  Qed.

  Theorem parse_not_fatal d s : parse cfg rec_on max_idx max_lvl alloc cnt d s <> Fatal.
  Proof. unfold parse. apply parse_loop_not_fatal. lia. Qed.
End M.

(* with the recover() of key in place no panic leaves the parser *)
Lemma key_recovers cfg max_idx max_lvl alloc cnt f d lvl s w :
  key cfg true max_idx max_lvl alloc cnt f d lvl s <> Ret (Panic w).
Proof.
  destruct f; [simpl; discriminate|]. rewrite key_S.
  destruct (key_body cfg true max_idx max_lvl alloc cnt f d lvl s) as [|[| |]]; simpl; discriminate.
Qed.

Lemma parse_loop_no_panic cfg max_idx max_lvl alloc cnt : forall n d s w,
  parse_loop cfg true max_idx max_lvl alloc cnt n d s <> Ret (Panic w).
Proof.
  induction n as [|n IH]; intros d s w; simpl; [discriminate|].
  pose proof (key_recovers cfg max_idx max_lvl alloc cnt (String.length s + (String.length s + 0) + 2) d 0 s) as Hk.
  destruct (key cfg true max_idx max_lvl alloc cnt _ d 0 s) as [|[[d' rest|d']| |w']]; try discriminate.
  - apply IH.
  - exfalso. apply (Hk w'). reflexivity.
Qed.

Theorem parse_safe cfg max_idx max_lvl alloc cnt d s :
  safe (parse cfg true max_idx max_lvl alloc cnt d s).
Proof.
  pose proof (parse_not_fatal cfg true max_idx alloc max_lvl cnt d s) as Hf.
  pose proof (parse_loop_no_panic cfg max_idx max_lvl alloc cnt (S (String.length s)) d s) as Hp.
  unfold parse in *. destruct (parse_loop cfg true max_idx max_lvl alloc cnt (S (String.length s)) d s) as [|[| |w]];
    simpl; auto. apply (Hp w). reflexivity.
Qed.

(* ---------- after f627983 the recursion depth is bounded by a constant ---------- *)
Ltac split_matches :=
  repeat (simpl in *; try discriminate;
          match goal with
          | |- context [match ?x with _ => _ end] => destruct x eqn:?
          end).

Section Const.
  Variable cfg : pcfg.
  Variable rec_on : bool.
  Variables max_idx alloc : Z.
  Variable M : nat.                       (* MaxNestedNameLevel *)

  Lemma key_step_nf rk ri d lvl s :
    (S lvl <= M -> forall inner rest, rk inner (S lvl) rest <> Fatal) ->
    (forall l i rest, ri l i lvl rest <> Fatal) ->
    key_step cfg M rk ri d lvl s <> Fatal.
  Proof.
    intros Hk Hi. unfold key_step, fbind, lift, value_r.
    split_matches;
      try (match goal with E : ri _ _ _ _ = Fatal |- _ => exfalso; eapply Hi; exact E end);
      try (match goal with E : rk _ _ _ = Fatal, L : Nat.ltb M (S lvl) = false |- _ =>
             exfalso; apply Nat.ltb_ge in L; eapply (Hk L); exact E end).
  Qed.

  Lemma item_step_nf rk ri l i lvl s :
    (S lvl <= M -> forall inner rest, rk inner (S lvl) rest <> Fatal) ->
    (S lvl <= M -> forall l i rest, ri l i (S lvl) rest <> Fatal) ->
    item_step cfg rec_on max_idx M alloc true rk ri l i lvl s <> Fatal.
  Proof.
    intros Hk Hi. unfold item_step, fbind, lift, value_r.
    split_matches;
      try (match goal with E : ri _ _ _ _ = Fatal, L : Nat.ltb M (S lvl) = false |- _ =>
             exfalso; apply Nat.ltb_ge in L; eapply (Hi L); exact E end);
      try (match goal with E : rk _ _ _ = Fatal, L : Nat.ltb M (S lvl) = false |- _ =>
             exfalso; apply Nat.ltb_ge in L; eapply (Hk L); exact E end).
  Qed.

  Theorem depth_const : forall f lvl,
    (3 * (M - lvl) + 3 <= f -> forall d s, key cfg rec_on max_idx M alloc true f d lvl s <> Fatal) /\
    (3 * (M - lvl) + 2 <= f -> forall d s, key_body cfg rec_on max_idx M alloc true f d lvl s <> Fatal) /\
    (3 * (M - lvl) + 1 <= f -> forall l i s, list_item cfg rec_on max_idx M alloc true f l i lvl s <> Fatal).
  Proof.
    induction f as [|f IH]; intros lvl.
    - split; [|split]; intros; exfalso; lia.
    - split; [|split]; intros Hf.
      + intros d s. rewrite key_S.
        destruct (IH lvl) as [_ [Hb _]]. specialize (Hb ltac:(lia) d s).
        destruct (key_body cfg rec_on max_idx M alloc true f d lvl s) as [|[| |]]; simpl; try congruence; try discriminate.
        destruct rec_on; discriminate.
      + intros d s. rewrite key_body_S. apply key_step_nf.
        * intros Hl inner rest. destruct (IH (S lvl)) as [Hk _]. apply Hk. lia.
        * intros l i rest. destruct (IH lvl) as [_ [_ Hl]]. apply Hl. lia.
      + intros l i s. rewrite list_item_S. apply item_step_nf.
        * intros Hl inner rest. destruct (IH (S lvl)) as [Hk _]. apply Hk. lia.
        * intros Hl l' i' rest. destruct (IH (S lvl)) as [_ [_ Hl']]. apply Hl'. lia.
  Qed.
End Const.

(* ---------- setIndex: what it allocates stays within MaxIndex + 1 ---------- *)
Lemma set_nth_length : forall i v l, List.length (set_nth i v l) = Nat.max (S i) (List.length l).
Proof.
  induction i as [|i IH]; intros v l; destruct l as [|x t]; simpl; try reflexivity.
  - rewrite IH. simpl. reflexivity.
  - rewrite IH. reflexivity.
Qed.

Lemma set_index_body_no_panic max_idx alloc l i v :
  (max_idx + 1 <= alloc)%Z -> no_panic (set_index_body max_idx alloc l i v).
Proof.
  intros Ha. unfold set_index_body.
  destruct (Z.ltb i 0) eqn:E0; simpl; auto.
  destruct (Z.ltb max_idx i) eqn:E1; simpl; auto.
  apply Z.ltb_ge in E0. apply Z.ltb_ge in E1.
  destruct (Z.leb (Z.of_nat (List.length l)) i) eqn:E2.
  - unfold make_slice.
    destruct (Z.ltb (i + 1) 0) eqn:E3; [apply Z.ltb_lt in E3; lia|].
    destruct (Z.ltb alloc (i + 1)) eqn:E4; [apply Z.ltb_lt in E4; lia|].
    simpl. unfold write_at, in_range. rewrite set_nth_length.
    destruct (Z.ltb i (Z.of_nat (Nat.max (S (Z.to_nat i)) (List.length l)))) eqn:E5; [|apply Z.ltb_ge in E5; lia].
    destruct (Z.leb 0 i) eqn:E6; [simpl; auto|apply Z.leb_gt in E6; lia].
  - apply Z.leb_gt in E2. simpl. unfold write_at, in_range.
    destruct (Z.ltb i (Z.of_nat (List.length l))) eqn:E5; [|apply Z.ltb_ge in E5; lia].
    destruct (Z.leb 0 i) eqn:E6; [simpl; auto|apply Z.leb_gt in E6; lia].
Qed.

(* ---------- refutations ---------- *)
Definition cfg_typed : pcfg := mkCfg MTyped [] [].

(* without the recover() of key, an input that re-types a key panics:
   a=x makes a string, a[0]=y asserts it to be a list *)
Lemma parse_without_recover_panics :
  exists w, parse cfg_typed false 65536 30 1000000 true [] "a=x,a[0]=y" = Ret (Panic w).
Proof. eexists. vm_compute. reflexivity. Qed.

Lemma parse_with_recover_errors :
  parse cfg_typed true 65536 30 1000000 true [] "a=x,a[0]=y" = Ret Err.
Proof. vm_compute. reflexivity. Qed.

(* before f627983 list items did not count as nesting levels: a recursion budget that is
   enough for ANY input afterwards (3 * 30 + 3) is exhausted by 32 levels of "[0].a" ... *)
Definition deep_items : string :=
  "a[0].a[0].a[0].a[0].a[0].a[0].a[0].a[0].a[0].a[0].a[0].a[0].a[0].a[0].a[0].a[0].a[0].a[0].a[0].a[0].a[0].a[0].a[0].a[0].a[0].a[0].a[0].a[0].a[0].a[0].a[0].a[0].a=1".

Lemma depth_unbounded_before_fix :
  key cfg_typed true 65536 30 1000000 false 93 [] 0 deep_items = Fatal.
Proof. vm_compute. reflexivity. Qed.

(* ... and is an error (nesting level) afterwards *)
Lemma depth_bounded_after_fix :
  key cfg_typed true 65536 30 1000000 true 93 [] 0 deep_items = Ret Err.
Proof. vm_compute. reflexivity. Qed.

(* without the MaxIndex bound setIndex asks make() for more than it can provide *)
Lemma set_index_unbounded_panics :
  is_panic (set_index_body (2 ^ 62) (2 ^ 40) [] (2 ^ 41) VNull) = true.
Proof. vm_compute. reflexivity. Qed.

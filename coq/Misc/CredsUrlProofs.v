(* Proofs about the url.Parse transcription (Misc/CredsUrl.v) and what the getter's
   same-origin test means on URL strings. *)
From Coq Require Import List String Ascii Bool Arith NArith Lia.
From Helm Require Import Misc.Creds Misc.CredsProofs Misc.CredsUrl.
Import ListNotations.
Local Open Scope string_scope.

(* ------------------------------------------------------------------ byte / string lemmas *)
Lemma all_bytes_app p a b : all_bytes p (a ++ b) = all_bytes p a && all_bytes p b.
Proof. induction a as [|c a IH]; simpl; [reflexivity|]. rewrite IH, andb_assoc. reflexivity. Qed.

Lemma mem_byte_app c a b : mem_byte c (a ++ b) = mem_byte c a || mem_byte c b.
Proof. induction a as [|x a IH]; simpl; [reflexivity|]. rewrite IH, orb_assoc. reflexivity. Qed.

Lemma all_bytes_mem p s c : all_bytes p s = true -> mem_byte c s = true -> p c = true.
Proof.
  induction s as [|a s IH]; simpl; [discriminate|].
  intros H M. apply andb_true_iff in H as [Ha Hs].
  apply orb_true_iff in M as [M|M]; [apply Ascii.eqb_eq in M; subst; exact Ha|auto].
Qed.

Lemma all_bytes_not_mem p s c : all_bytes p s = true -> p c = false -> mem_byte c s = false.
Proof.
  intros H Hc. destruct (mem_byte c s) eqn:M; [|reflexivity].
  rewrite (all_bytes_mem _ _ _ H M) in Hc. discriminate.
Qed.

Lemma all_bytes_impl (p q : ascii -> bool) s :
  (forall c, p c = true -> q c = true) -> all_bytes p s = true -> all_bytes q s = true.
Proof.
  intro Hpq. induction s as [|a s IH]; simpl; [reflexivity|].
  intro H. apply andb_true_iff in H as [Ha Hs]. rewrite (Hpq _ Ha), (IH Hs). reflexivity.
Qed.

Lemma app_assoc_s (a b c : string) : (a ++ b) ++ c = a ++ (b ++ c).
Proof. induction a as [|x a IH]; simpl; [reflexivity|]. rewrite IH. reflexivity. Qed.

Lemma app_nil_r_s (a : string) : a ++ "" = a.
Proof. induction a as [|x a IH]; simpl; [reflexivity|]. rewrite IH. reflexivity. Qed.

(* Cut at the first c when the prefix has none *)
Lemma cut_app_nomem c a b :
  mem_byte c a = false -> cut c (a ++ b) = (a ++ fst (cut c b), snd (cut c b)).
Proof.
  induction a as [|x a IH]; simpl.
  - intros _. destruct (cut c b). reflexivity.
  - intro H. apply orb_false_iff in H as [Hx Ha]. rewrite Hx, (IH Ha). reflexivity.
Qed.

Lemma cut_nomem c a : mem_byte c a = false -> cut c a = (a, None).
Proof.
  induction a as [|x a IH]; simpl; [reflexivity|].
  intro H. apply orb_false_iff in H as [Hx Ha]. rewrite Hx, (IH Ha). reflexivity.
Qed.

Lemma cut_fst_nomem c s : mem_byte c (fst (cut c s)) = false.
Proof.
  induction s as [|x s IH]; simpl; [reflexivity|].
  destruct (Ascii.eqb x c) eqn:E; [reflexivity|].
  destruct (cut c s) as [u v]. simpl in *. rewrite E, IH. reflexivity.
Qed.

Lemma cut_last_nomem c a : mem_byte c a = false -> cut_last c a = None.
Proof.
  induction a as [|x a IH]; simpl; [reflexivity|].
  intro H. apply orb_false_iff in H as [Hx Ha]. rewrite (IH Ha), Hx. reflexivity.
Qed.

(* LastIndex: the last c of a ++ c ++ b, b without c *)
Lemma cut_last_app c a b :
  mem_byte c b = false -> cut_last c (a ++ String c b) = Some (a, b).
Proof.
  intro Hb. induction a as [|x a IH]; simpl.
  - rewrite (cut_last_nomem _ _ Hb), Ascii.eqb_refl. reflexivity.
  - rewrite IH. reflexivity.
Qed.

Lemma cut_last_some_mem c s x y : cut_last c s = Some (x, y) -> s = x ++ String c y /\ mem_byte c y = false.
Proof.
  revert x y. induction s as [|a s IH]; simpl; [discriminate|].
  intros x y. destruct (cut_last c s) as [[x0 y0]|] eqn:E.
  - intro H. injection H as <- <-. destruct (IH _ _ eq_refl) as [-> Hm]. split; [reflexivity|exact Hm].
  - destruct (Ascii.eqb a c) eqn:Ea; [|discriminate].
    intro H. injection H as <- <-. apply Ascii.eqb_eq in Ea. subst a. split; [reflexivity|].
    clear IH. induction s as [|b s IHs]; [reflexivity|]. simpl in E.
    destruct (cut_last c s) as [[? ?]|]; [discriminate|].
    destruct (Ascii.eqb b c) eqn:Eb; [discriminate|]. simpl. rewrite Eb. apply IHs. reflexivity.
Qed.

Lemma prefix_app p s : String.prefix p (p ++ s) = true.
Proof. induction p as [|c p IH]; simpl; [destruct s; reflexivity|]. destruct (ascii_dec c c); [exact IH|congruence]. Qed.

Lemma substring_skip2 a b s : substring 2 (String.length (String a (String b s)) - 2) (String a (String b s)) = s.
Proof.
  simpl. rewrite Nat.sub_0_r.
  induction s as [|c s IH]; simpl; [reflexivity|]. rewrite IH. reflexivity.
Qed.

Lemma lower_app a b : lower (a ++ b) = lower a ++ lower b.
Proof. induction a as [|x a IH]; simpl; [reflexivity|]. rewrite IH. reflexivity. Qed.

(* ------------------------------------------------------------------ what a parsed host cannot contain *)
Lemma parse_host_some h h' : parse_host h = Some h' -> h' = h /\ all_bytes host_byte_ok h = true.
Proof.
  unfold parse_host.
  match goal with |- context [if ?b && _ then _ else _] => destruct b end; simpl; [|discriminate].
  destruct (all_bytes host_byte_ok h); [|discriminate]. intro H. injection H as <-. auto.
Qed.

Lemma parse_authority_host a us h :
  parse_authority a = Some (us, h) -> all_bytes host_byte_ok h = true.
Proof.
  unfold parse_authority. destruct (cut_last "@" a) as [[ui h0]|].
  - destruct (parse_host h0) as [h1|] eqn:E; [|discriminate].
    destruct (all_bytes userinfo_byte_ok ui); [|discriminate].
    intro H. injection H as _ <-. apply parse_host_some in E as [-> E]. exact E.
  - destruct (parse_host a) as [h1|] eqn:E; [|discriminate].
    intro H. injection H as _ <-. apply parse_host_some in E as [-> E]. exact E.
Qed.

(* for EVERY string: the host url.Parse reports consists of host bytes only — no '/', '?',
   '#', '@', '\', blank or control byte; in particular it is the whole authority after the
   last '@' and cannot hide a second authority *)
Lemma go_split_host_bytes s sc us h p :
  go_split s = SOk sc us h p -> all_bytes host_byte_ok h = true.
Proof.
  unfold go_split.
  destruct (has_ctl (fst (cut "#" s))); [discriminate|].
  destruct (String.eqb (fst (cut "#" s)) "*"); [intro H; injection H as _ _ <- _; reflexivity|].
  destruct (get_scheme_from true (fst (cut "#" s))) as [| |sc0 r] eqn:Eg; [discriminate| |].
  all: cbv zeta; cbv beta iota.
  all: match goal with |- context [fst (cut "?" ?r)] => set (rest := fst (cut "?" r)) end.
  all: repeat match goal with
         | |- (if ?b then _ else _) = _ -> _ => destruct b
         end; try discriminate; try (intro H; injection H as _ _ <- _; reflexivity).
  all: destruct (cut "/" _) as [authority after];
       destruct (parse_authority authority) as [[us0 h0]|] eqn:Ea; [|discriminate];
       intro H; injection H as _ _ <- _; eapply parse_authority_host; eauto.
Qed.

Lemma host_byte_ok_excludes :
  host_byte_ok "/" = false /\ host_byte_ok "?" = false /\ host_byte_ok "#" = false /\
  host_byte_ok "@" = false /\ host_byte_ok "\" = false /\ host_byte_ok " " = false /\ host_byte_ok "%" = false.
Proof. vm_compute. repeat split. Qed.

Lemma go_split_host_clean s sc us h p :
  go_split s = SOk sc us h p ->
  mem_byte "/" h = false /\ mem_byte "?" h = false /\ mem_byte "#" h = false /\
  mem_byte "@" h = false /\ mem_byte "\" h = false /\ mem_byte " " h = false.
Proof.
  intro H. apply go_split_host_bytes in H.
  destruct host_byte_ok_excludes as (A & B & C & D & E & F & _).
  repeat split; eapply all_bytes_not_mem; eauto.
Qed.

(* ------------------------------------------------------------------ the grammar, generatively: build then split *)
Ltac ascii_cases c := destruct c as [[|] [|] [|] [|] [|] [|] [|] [|]]; vm_compute; try discriminate; intros; repeat split; try reflexivity.

Lemma scheme_byte_facts c : scheme_byte c = true ->
  is_ctl c = false /\ Ascii.eqb c "#" = false /\ Ascii.eqb c "?" = false /\ Ascii.eqb c "%" = false.
Proof. ascii_cases c. Qed.

Lemma alpha_not_star c : is_alpha c = true -> Ascii.eqb c "*" = false.
Proof. ascii_cases c. Qed.

Lemma alpha_scheme_byte c : is_alpha c = true -> scheme_byte c = true.
Proof. unfold scheme_byte. intros ->. reflexivity. Qed.

Lemma userinfo_byte_facts c : userinfo_byte_ok c = true ->
  is_ctl c = false /\ Ascii.eqb c "#" = false /\ Ascii.eqb c "?" = false /\ Ascii.eqb c "/" = false.
Proof. ascii_cases c. Qed.

Lemma host_byte_facts c : host_byte_ok c = true ->
  is_ctl c = false /\ Ascii.eqb c "#" = false /\ Ascii.eqb c "?" = false /\ Ascii.eqb c "/" = false /\
  Ascii.eqb c "@" = false /\ Ascii.eqb c "%" = false.
Proof. ascii_cases c. Qed.

Lemma get_scheme_tail t X :
  all_bytes scheme_byte t = true -> get_scheme_from false (t ++ String ":" X) = GsSome t X.
Proof.
  induction t as [|c t IH]; simpl.
  - intros _. reflexivity.
  - intro H. apply andb_true_iff in H as [Hc Ht]. rewrite (IH Ht).
    unfold scheme_byte in Hc. destruct (is_alpha c); simpl; [reflexivity|].
    simpl in Hc. rewrite Hc. reflexivity.
Qed.

Lemma get_scheme_valid sch X :
  valid_scheme sch = true -> get_scheme_from true (sch ++ String ":" X) = GsSome sch X.
Proof.
  destruct sch as [|c t]; simpl; [discriminate|].
  intro H. apply andb_true_iff in H as [Hc Ht]. rewrite Hc. simpl. rewrite (get_scheme_tail _ _ Ht). reflexivity.
Qed.

Lemma no_ctl_all p s : (forall c, p c = true -> is_ctl c = false) -> all_bytes p s = true ->
  all_bytes (fun c => negb (is_ctl c)) s = true.
Proof. intros Hp. apply all_bytes_impl. intros c Hc. rewrite (Hp _ Hc). reflexivity. Qed.

Lemma valid_scheme_bytes sch : valid_scheme sch = true -> all_bytes scheme_byte sch = true.
Proof.
  destruct sch as [|c t]; simpl; [discriminate|]. intro H. apply andb_true_iff in H as [Hc Ht].
  rewrite (alpha_scheme_byte _ Hc), Ht. reflexivity.
Qed.

(* the userinfo part "u@" (or nothing): its bytes *)
Definition ui_at (ui : option string) : string := match ui with Some u => u ++ "@" | None => "" end.

Lemma ui_at_bytes ui : valid_userinfo ui = true ->
  all_bytes userinfo_byte_ok (ui_at ui) = true.
Proof.
  destruct ui as [u|]; simpl; [|reflexivity]. intro H. apply andb_true_iff in H as [H _].
  rewrite all_bytes_app, H. reflexivity.
Qed.

Lemma valid_host_bytes h : valid_host h = true -> all_bytes host_byte_ok h = true /\ parse_host h = Some h.
Proof.
  unfold valid_host. destruct (parse_host h) as [h'|] eqn:E; [|discriminate]. intros _.
  apply parse_host_some in E as [-> E]. auto.
Qed.

Lemma rest_shape r : valid_rest r = true ->
  path_of_rest r = "" \/ exists p, path_of_rest r = String "/" p.
Proof.
  unfold valid_rest, path_of_rest. destruct r as [|c r]; [left; reflexivity|].
  intro H. apply andb_true_iff in H as [H _]. apply andb_true_iff in H as [H _].
  change (mem_byte c "/?#") with (Ascii.eqb "/" c || (Ascii.eqb "?" c || (Ascii.eqb "#" c || false))) in H.
  destruct (Ascii.eqb_spec "/" c) as [<-|N1].
  - simpl. destruct (cut "#" r) as [a b]; simpl. destruct (cut "?" a) as [x y]. right. eexists. reflexivity.
  - destruct (Ascii.eqb_spec "?" c) as [<-|N2].
    + simpl. destruct (cut "#" r); simpl. left. reflexivity.
    + destruct (Ascii.eqb_spec "#" c) as [<-|N3]; [simpl; left; reflexivity|discriminate H].
Qed.

Lemma cut_hash_shape a r : mem_byte "#" a = false -> fst (cut "#" (a ++ r)) = a ++ fst (cut "#" r).
Proof. intro H. rewrite (cut_app_nomem _ _ _ H). reflexivity. Qed.

Theorem go_split_build sch ui h rest :
  valid_scheme sch = true -> valid_userinfo ui = true -> valid_host h = true -> valid_rest rest = true ->
  go_split (build_url sch ui h rest) = SOk (lower sch) ui h (path_of_rest rest)
  /\ in_grammar (build_url sch ui h rest) = true.
Proof.
  intros Hs Hu Hh Hr.
  pose proof (valid_scheme_bytes _ Hs) as Hsb.
  pose proof (ui_at_bytes _ Hu) as Hub.
  destruct (valid_host_bytes _ Hh) as [Hhb Hph].
  assert (Hr' := Hr). unfold valid_rest in Hr'. apply andb_true_iff in Hr' as [Hr1 Hr3]. apply andb_true_iff in Hr1 as [Hr1 Hr2].
  apply negb_true_iff in Hr2. apply negb_true_iff in Hr3.
  (* no '#', '?', '/', '%' in the parts before rest *)
  assert (Ns : forall c, (c = "#" \/ c = "?" \/ c = "%")%char -> mem_byte c sch = false).
  { intros c Hc. eapply all_bytes_not_mem; [exact Hsb|]. destruct Hc as [->|[->| ->]]; reflexivity. }
  assert (Nu : forall c, (c = "#" \/ c = "?" \/ c = "/")%char -> mem_byte c (ui_at ui) = false).
  { intros c Hc. eapply all_bytes_not_mem; [exact Hub|]. destruct Hc as [->|[->| ->]]; reflexivity. }
  assert (Nh : forall c, (c = "#" \/ c = "?" \/ c = "/" \/ c = "@" \/ c = "%")%char -> mem_byte c h = false).
  { intros c Hc. eapply all_bytes_not_mem; [exact Hhb|]. destruct Hc as [->|[->|[->|[->| ->]]]]; reflexivity. }
  set (B := ui_at ui ++ h).
  assert (EB : build_url sch ui h rest = sch ++ String ":" (String "/" (String "/" (B ++ rest)))).
  { unfold build_url, B, ui_at. simpl. rewrite app_assoc_s. reflexivity. }
  split.
  2:{ unfold in_grammar. rewrite EB. rewrite mem_byte_app. simpl. unfold B. rewrite !mem_byte_app.
      rewrite (Ns "%"%char) by auto. rewrite (Nh "%"%char) by auto. rewrite Hr3.
      destruct ui as [u|]; simpl; [|reflexivity].
      unfold valid_userinfo in Hu. apply andb_true_iff in Hu as [_ Hu]. apply negb_true_iff in Hu.
      rewrite mem_byte_app, Hu. reflexivity. }
  unfold go_split. rewrite EB.
  (* cut at '#' *)
  assert (E1 : fst (cut "#" (sch ++ String ":" (String "/" (String "/" (B ++ rest))))) =
               sch ++ String ":" (String "/" (String "/" (B ++ fst (cut "#" rest))))).
  { rewrite cut_hash_shape by (apply Ns; auto). simpl.
    change (String "/" (String "/" (B ++ rest))) with ("//" ++ (B ++ rest)).
    assert (mem_byte "#" B = false) as HB.
    { unfold B. rewrite mem_byte_app, (Nu "#"%char), (Nh "#"%char) by auto. reflexivity. }
    simpl. destruct (cut "#" (B ++ rest)) as [x y] eqn:Ec. simpl.
    rewrite (cut_app_nomem _ _ _ HB) in Ec. injection Ec as <- _. reflexivity. }
  rewrite E1. set (r1 := fst (cut "#" rest)).
  (* no control byte *)
  assert (Hctl : has_ctl (sch ++ String ":" (String "/" (String "/" (B ++ r1)))) = false).
  { unfold has_ctl. apply negb_false_iff. rewrite all_bytes_app. simpl. unfold B. rewrite !all_bytes_app.
    rewrite (no_ctl_all scheme_byte sch) by (auto; intros c Hc; apply scheme_byte_facts in Hc; tauto).
    rewrite (no_ctl_all userinfo_byte_ok (ui_at ui)) by (auto; intros c Hc; apply userinfo_byte_facts in Hc; tauto).
    rewrite (no_ctl_all host_byte_ok h) by (auto; intros c Hc; apply host_byte_facts in Hc; tauto).
    unfold has_ctl in Hr2. apply negb_false_iff in Hr2. fold r1 in Hr2. rewrite Hr2. reflexivity. }
  rewrite Hctl.
  (* not "*" *)
  destruct sch as [|c0 t0] eqn:Esch; [discriminate|].
  assert (Hstar : String.eqb ((String c0 t0) ++ String ":" (String "/" (String "/" (B ++ r1)))) "*" = false).
  { simpl. simpl in Hs. apply andb_true_iff in Hs as [Hc0 _]. rewrite (alpha_not_star _ Hc0). reflexivity. }
  rewrite Hstar. rewrite <- Esch in *.
  rewrite (get_scheme_valid sch _ Hs).
  cbv zeta. cbv beta iota.
  (* cut at '?' *)
  assert (E2 : fst (cut "?" (String "/" (String "/" (B ++ r1)))) = String "/" (String "/" (B ++ path_of_rest rest))).
  { simpl. assert (mem_byte "?" B = false) as HB.
    { unfold B. rewrite mem_byte_app, (Nu "?"%char), (Nh "?"%char) by auto. reflexivity. }
    rewrite (cut_app_nomem _ _ _ HB). reflexivity. }
  rewrite E2. set (r2 := path_of_rest rest).
  assert (Hne : String.eqb (lower sch) "" = false) by (rewrite Esch; reflexivity).
  rewrite Hne. simpl negb. rewrite !andb_false_r. simpl orb.
  change (starts_with "//" (String "/" (String "/" (B ++ r2)))) with (String.prefix "//" ("//" ++ (B ++ r2))).
  rewrite prefix_app. cbv iota.
  rewrite substring_skip2.
  (* the authority ends at the first '/' *)
  assert (HBs : mem_byte "/" B = false).
  { unfold B. rewrite mem_byte_app, (Nu "/"%char), (Nh "/"%char) by auto. reflexivity. }
  assert (E3 : cut "/" (B ++ r2) = (B, match r2 with EmptyString => None | String _ p => Some p end)).
  { destruct (rest_shape _ Hr) as [E|[p E]]; fold r2 in E; rewrite E.
    - rewrite app_nil_r_s. apply cut_nomem. exact HBs.
    - rewrite (cut_app_nomem _ _ _ HBs). simpl. rewrite app_nil_r_s. reflexivity. }
  rewrite E3.
  (* parseAuthority *)
  assert (E4 : parse_authority B = Some (ui, h)).
  { unfold parse_authority, B, ui_at. destruct ui as [u|].
    - rewrite app_assoc_s. simpl. rewrite (cut_last_app "@" u h) by (apply Nh; auto).
      rewrite Hph. unfold valid_userinfo in Hu. apply andb_true_iff in Hu as [Hu _]. rewrite Hu. reflexivity.
    - simpl. rewrite (cut_last_nomem "@" h) by (apply Nh; auto). rewrite Hph. reflexivity. }
  rewrite E4.
  destruct (rest_shape _ Hr) as [E|[p E]]; fold r2 in E; rewrite E; reflexivity.
Qed.

(* ------------------------------------------------------------------ the getter's test on URL strings *)
Section Strings.
  Variable str_of : string -> string.      (* URL.String(), not modelled *)

  Lemma go_parse_build sch ui h rest :
    valid_scheme sch = true -> valid_userinfo ui = true -> valid_host h = true -> valid_rest rest = true ->
    go_parse str_of (build_url sch ui h rest)
    = Some (mkUrl (lower sch) h (path_of_rest rest) ui (str_of (build_url sch ui h rest))).
  Proof.
    intros Hs Hu Hh Hr. destruct (go_split_build _ _ _ _ Hs Hu Hh Hr) as [E G].
    unfold go_parse. rewrite G, E. reflexivity.
  Qed.

  (* For ALL URL strings of the grammar: the configured pair is attached iff pass-credentials
     is on or the two schemes are equal up to case and the two host[:port] parts are equal
     byte for byte (and user name and password are non-empty); a request is always made. *)
  Theorem getter_strings_iff o sch1 ui1 h1 r1 sch2 ui2 h2 r2 :
    valid_scheme sch1 = true -> valid_userinfo ui1 = true -> valid_host h1 = true -> valid_rest r1 = true ->
    valid_scheme sch2 = true -> valid_userinfo ui2 = true -> valid_host h2 = true -> valid_rest r2 = true ->
    g_url o = build_url sch1 ui1 h1 r1 ->
    (exists a, getter_get (go_parse str_of) o (build_url sch2 ui2 h2 r2) = GReq a) /\
    forall c,
    getter_get (go_parse str_of) o (build_url sch2 ui2 h2 r2) = GReq (Some c) <->
    ((g_pass_all o = true \/ (lower sch1 = lower sch2 /\ h1 = h2)) /\
     g_user o <> "" /\ g_pass o <> "" /\ c = Cred (g_user o) (g_pass o) (g_src o)).
  Proof.
    intros A1 A2 A3 A4 B1 B2 B3 B4 Eu.
    pose proof (go_parse_build _ _ _ _ A1 A2 A3 A4) as P1.
    pose proof (go_parse_build _ _ _ _ B1 B2 B3 B4) as P2.
    split.
    - unfold getter_get. rewrite Eu, P1, P2. destruct (_ && _); eauto.
    - intro c. rewrite getter_get_auth_iff. rewrite Eu, P1, P2. split.
      + intros (u1 & u2 & E1 & E2 & Ho & Hu & Hp & Hc). injection E1 as <-. injection E2 as <-. simpl in Ho. auto.
      + intros (Ho & Hu & Hp & Hc). eexists. eexists. split; [reflexivity|]. split; [reflexivity|]. simpl. auto.
  Qed.
End Strings.

(* ------------------------------------------------------------------ the origin the property means *)
Lemma same_origin_origin_of u1 u2 : same_origin u1 u2 = true -> origin_of u1 = origin_of u2.
Proof. intro H. apply same_origin_true in H as [Hs Hh]. unfold origin_of. rewrite Hs, Hh. reflexivity. Qed.

(* forward direction, full strength, for any parser: a pair is attached only when
   pass-credentials is on or scheme, host name (case-insensitively) and effective port of the
   two URLs are equal *)
Theorem getter_attached_property_origin (parse : string -> option url) o href c :
  getter_get parse o href = GReq (Some c) ->
  g_pass_all o = true \/
  exists u1 u2, parse (g_url o) = Some u1 /\ parse href = Some u2 /\ origin_of u1 = origin_of u2.
Proof.
  intro H. apply getter_get_auth_iff in H as (u1 & u2 & E1 & E2 & Ho & _).
  destruct Ho as [Ho|Ho]; [left; exact Ho|right]. exists u1, u2. repeat split; auto.
  apply same_origin_origin_of. apply same_origin_true. exact Ho.
Qed.

(* The converse does NOT hold: the code compares url.Host byte for byte, so it withholds the
   pair from some requests to the repository's own origin (the safe direction).  One witness
   per normalisation the code does not do: default port spelled out, host-name case, empty
   port, leading zero, bracketed IPv6 with the default port. *)
Definition converse_witnesses : list (string * string) :=
  [ ("http://h.test/charts", "http://h.test:80/charts/a.tgz");
    ("https://h.test:443/charts", "https://h.test/charts/a.tgz");
    ("http://h.test/charts", "http://H.test/charts/a.tgz");
    ("http://h.test/charts", "http://h.test:/charts/a.tgz");
    ("http://h.test:80/charts", "http://h.test:080/charts/a.tgz");
    ("http://[::1]/charts", "http://[::1]:80/charts/a.tgz") ].

Definition converse_witness_ok (w : string * string) : bool :=
  let parse := go_parse (fun s => s) in
  match parse (fst w), parse (snd w) with
  | Some u1, Some u2 =>
      origin_eqb (origin_of u1) (origin_of u2)
      && match getter_get parse (mkOpts (fst w) "user" "pw" (fst w) false) (snd w) with GReq None => true | _ => false end
  | _, _ => false
  end.

Lemma origin_converse_refuted : forallb converse_witness_ok converse_witnesses = true.
Proof. vm_compute. reflexivity. Qed.

(* and the property-level origin does tell the default port of the OTHER protocol apart
   (http://host:443 is not http://host — the normalisation seeded as C19-7 is wrong) *)
Lemma origin_other_default_port_differs :
  origin_eqb (origin_of (mkUrl "http" "h.test:443" "" None "")) (origin_of (mkUrl "http" "h.test" "" None "")) = false /\
  origin_eqb (origin_of (mkUrl "https" "h.test:80" "" None "")) (origin_of (mkUrl "https" "h.test" "" None "")) = false /\
  origin_eqb (origin_of (mkUrl "http" "h.test:80" "" None "")) (origin_of (mkUrl "http" "H.TEST" "" None "")) = true.
Proof. vm_compute. repeat split. Qed.

(* ------------------------------------------------------------------ appending a plain suffix (".prov") *)
Definition plain_byte (c : ascii) : bool := is_alpha c || is_digit c || mem_byte c ".-_".

Lemma plain_byte_facts c : plain_byte c = true ->
  is_ctl c = false /\ Ascii.eqb c "#" = false /\ Ascii.eqb c "?" = false /\ Ascii.eqb c "/" = false /\
  Ascii.eqb c ":" = false /\ Ascii.eqb c "%" = false /\ Ascii.eqb c "*" = false.
Proof. ascii_cases c. Qed.

Lemma plain_not_mem t c : all_bytes plain_byte t = true ->
  (c = "#" \/ c = "?" \/ c = "/" \/ c = ":" \/ c = "%" \/ c = "*")%char -> mem_byte c t = false.
Proof.
  intros Ht Hc. eapply all_bytes_not_mem; [exact Ht|].
  destruct Hc as [->|[->|[->|[->|[->| ->]]]]]; reflexivity.
Qed.

(* the stages of go_split *)
Definition split_rest (scheme rest : string) : split_res :=
  if negb (starts_with "/" rest) && negb (String.eqb scheme "") then SOk scheme None "" ""
  else if negb (starts_with "/" rest) && mem_byte ":" (fst (cut "/" rest)) then SErr
  else if (negb (String.eqb scheme "") || negb (starts_with "///" rest)) && starts_with "//" rest then
    let a := substring 2 (String.length rest - 2) rest in
    let '(authority, after) := cut "/" a in
    let path := match after with Some p => String "/" p | None => EmptyString end in
    match parse_authority authority with
    | None => SErr
    | Some (us, h) => SOk scheme us h path
    end
  else SOk scheme None "" rest.

Definition split_u (u : string) : split_res :=
  if has_ctl u then SErr
  else if String.eqb u "*" then SOk "" None "" "*"
  else match get_scheme_from true u with
       | GsErr => SErr
       | GsSome sc r => split_rest (lower sc) (fst (cut "?" r))
       | GsNone => split_rest "" (fst (cut "?" u))
       end.

Lemma go_split_stages raw : go_split raw = split_u (fst (cut "#" raw)).
Proof.
  unfold go_split, split_u. destruct (has_ctl _); [reflexivity|]. destruct (String.eqb _ "*"); [reflexivity|].
  destruct (get_scheme_from true _); reflexivity.
Qed.

Lemma cut_app_mem c a b : mem_byte c a = true -> fst (cut c (a ++ b)) = fst (cut c a).
Proof.
  induction a as [|x a IH]; simpl; [discriminate|].
  destruct (Ascii.eqb x c) eqn:E; [reflexivity|]. simpl. intro H.
  specialize (IH H). destruct (cut c (a ++ b)) as [p q], (cut c a) as [p' q']. simpl in *. rewrite IH. reflexivity.
Qed.

Lemma cut_app_mem_snd c a b x y : cut c a = (x, Some y) -> cut c (a ++ b) = (x, Some (y ++ b)).
Proof.
  revert x y. induction a as [|z a IH]; simpl; [discriminate|].
  intros x y. destruct (Ascii.eqb z c); [intro H; injection H as <- <-; reflexivity|].
  destruct (cut c a) as [p q]. intro H. injection H as <- ->. rewrite (IH p y eq_refl). reflexivity.
Qed.

Lemma cut_snd_none_nomem c a x : cut c a = (x, None) -> mem_byte c a = false /\ x = a.
Proof.
  revert x. induction a as [|z a IH]; simpl; [intros x H; injection H as <-; auto|].
  intro x. destruct (Ascii.eqb z c); [discriminate|]. destruct (cut c a) as [p q].
  intro H. injection H as <- ->. destruct (IH p eq_refl) as [H1 H2]. subst. auto.
Qed.

(* getScheme and a suffix without ':' *)
Lemma gs_no_colon f x : mem_byte ":" x = false -> get_scheme_from f x = GsNone.
Proof.
  revert f. induction x as [|c x IH]; intro f; simpl; [reflexivity|].
  intro H. apply orb_false_iff in H as [Hc Hx].
  rewrite (IH false Hx). rewrite Hc.
  destruct (is_alpha c || scheme_tail_byte c && negb f); [reflexivity|].
  destruct (scheme_tail_byte c); reflexivity.
Qed.

Lemma gs_app_some f s t sc r : get_scheme_from f s = GsSome sc r -> get_scheme_from f (s ++ t) = GsSome sc (r ++ t).
Proof.
  revert f sc r. induction s as [|c s IH]; intros f sc r; simpl; [discriminate|].
  destruct (is_alpha c || scheme_tail_byte c && negb f).
  - destruct (get_scheme_from false s) as [| |sc0 r0] eqn:E; try discriminate.
    intro H. injection H as <- <-. rewrite (IH false sc0 r0 E). reflexivity.
  - destruct (scheme_tail_byte c); [discriminate|].
    destruct (Ascii.eqb c ":"); [|discriminate]. destruct f; [discriminate|].
    intro H. injection H as <- <-. reflexivity.
Qed.

Lemma gs_false_not_err s : get_scheme_from false s <> GsErr.
Proof.
  induction s as [|c s IH]; simpl; [discriminate|].
  destruct (is_alpha c || scheme_tail_byte c && true).
  - destruct (get_scheme_from false s); try discriminate. exact IH.
  - destruct (scheme_tail_byte c); [discriminate|]. destruct (Ascii.eqb c ":"); discriminate.
Qed.

Lemma gs_app_none f s t : get_scheme_from f s = GsNone -> mem_byte ":" t = false -> get_scheme_from f (s ++ t) = GsNone.
Proof.
  revert f. induction s as [|c s IH]; intros f; simpl; [intros _ H; apply gs_no_colon; exact H|].
  destruct (is_alpha c || scheme_tail_byte c && negb f).
  - destruct (get_scheme_from false s) as [| |sc0 r0] eqn:E; try discriminate.
    intros _ Ht. rewrite (IH false E Ht). reflexivity.
  - destruct (scheme_tail_byte c); [reflexivity|].
    destruct (Ascii.eqb c ":"); [destruct f; discriminate|reflexivity].
Qed.

Lemma prefix_cons a p b s : String.prefix (String a p) (String b s) = if Ascii.eqb a b then String.prefix p s else false.
Proof.
  change (String.prefix (String a p) (String b s)) with (if ascii_dec a b then String.prefix p s else false).
  destruct (ascii_dec a b) as [->|N]; [rewrite Ascii.eqb_refl; reflexivity|].
  apply Ascii.eqb_neq in N. rewrite N. reflexivity.
Qed.

Lemma prefix_nil s : String.prefix "" s = true.
Proof. destruct s; reflexivity. Qed.

Lemma prefix_cons_nil a p : String.prefix (String a p) "" = false.
Proof. reflexivity. Qed.

Lemma starts_slash_app c r t : String.prefix "/" (String c r ++ t) = String.prefix "/" (String c r).
Proof.
  change (String c r ++ t) with (String c (r ++ t)).
  rewrite !prefix_cons, !prefix_nil. reflexivity.
Qed.

(* a prefix made of slashes and a suffix without slash *)
Lemma slashes_prefix_app p r t :
  all_bytes (fun c => Ascii.eqb c "/") p = true -> mem_byte "/" t = false ->
  String.prefix p (r ++ t) = String.prefix p r.
Proof.
  revert r. induction p as [|x p IH]; intros r Hp Ht.
  - rewrite !prefix_nil. reflexivity.
  - cbn [all_bytes] in Hp. apply andb_true_iff in Hp as [Hx Hp]. apply Ascii.eqb_eq in Hx. subst x.
    destruct r as [|c r].
    + cbn [append]. rewrite prefix_cons_nil. destruct t as [|y t]; [reflexivity|].
      rewrite prefix_cons. cbn [mem_byte] in Ht. apply orb_false_iff in Ht as [Hy _].
      rewrite Ascii.eqb_sym, Hy. reflexivity.
    + change (String c r ++ t) with (String c (r ++ t)). rewrite !prefix_cons.
      destruct (Ascii.eqb "/" c); [apply IH; assumption|reflexivity].
Qed.

Lemma split_rest_append scheme rest t sc us h p :
  all_bytes plain_byte t = true ->
  split_rest scheme rest = SOk sc us h p -> p <> "" ->
  exists p', split_rest scheme (rest ++ t) = SOk sc us h p' /\ p' <> "".
Proof.
  intros Ht H Hp.
  assert (Tslash : mem_byte "/" t = false) by (apply plain_not_mem; auto).
  assert (Tcolon : mem_byte ":" t = false) by (apply plain_not_mem; auto 6).
  destruct rest as [|c r].
  { (* empty rest: the path would be empty *)
    unfold split_rest in H. simpl in H. destruct (String.eqb scheme ""); simpl in H; injection H as _ _ _ <-; congruence. }
  unfold split_rest, starts_with in *. rewrite starts_slash_app.
  destruct (String.prefix "/" (String c r)) eqn:Es; cbn [negb andb] in *.
  - (* rest starts with "/" *)
    rewrite !(slashes_prefix_app _ (String c r) t) by (auto; reflexivity).
    destruct ((negb (String.eqb scheme "") || negb (String.prefix "///" (String c r))) && String.prefix "//" (String c r)) eqn:EA.
    + pose proof EA as EA0. apply andb_true_iff in EA as [_ E2].
      destruct r as [|c2 r2]; [rewrite prefix_cons, prefix_cons_nil in E2; destruct (Ascii.eqb "/" c); discriminate|].
      assert (c = "/"%char /\ c2 = "/"%char) as [-> ->].
      { rewrite !prefix_cons in E2. destruct (Ascii.eqb_spec "/" c) as [<-|]; [|discriminate].
        destruct (Ascii.eqb_spec "/" c2) as [<-|]; [auto|discriminate]. }
      change (String "/" (String "/" r2) ++ t) with (String "/" (String "/" (r2 ++ t))).
      rewrite substring_skip2 in *.
      destruct (cut "/" r2) as [authority after] eqn:Ec.
      destruct after as [aft|].
      * rewrite (cut_app_mem_snd _ _ t _ _ Ec).
        destruct (parse_authority authority) as [[us0 h0]|]; [|discriminate].
        injection H as <- <- <- <-. eexists. split; [reflexivity|discriminate].
      * destruct (parse_authority authority) as [[us0 h0]|]; [|discriminate].
        injection H as _ _ _ <-. congruence.
    + injection H as <- <- <- <-. eexists. split; [reflexivity|discriminate].
  - (* relative reference *)
    destruct (negb (String.eqb scheme "")) eqn:En; cbn [andb] in *.
    { injection H as _ _ _ <-. congruence. }
    assert (Hs2 : forall x, String.prefix "//" (String c x) = false).
    { intro x. rewrite prefix_cons in *. rewrite prefix_nil in Es.
      destruct (Ascii.eqb "/" c); [discriminate|reflexivity]. }
    destruct (mem_byte ":" (fst (cut "/" (String c r)))) eqn:Ecol; [discriminate|].
    assert (Ecol' : mem_byte ":" (fst (cut "/" (String c r ++ t))) = false).
    { destruct (mem_byte "/" (String c r)) eqn:Em.
      - rewrite (cut_app_mem _ _ _ Em). exact Ecol.
      - rewrite (cut_app_nomem _ _ _ Em). cbn [fst]. rewrite (cut_nomem _ _ Tslash). cbn [fst].
        rewrite (cut_nomem _ _ Em) in Ecol. cbn [fst] in Ecol.
        rewrite mem_byte_app, Ecol, Tcolon. reflexivity. }
    rewrite Ecol'.
    change (String c r ++ t) with (String c (r ++ t)). rewrite !Hs2 in *. rewrite !andb_false_r in *.
    injection H as <- <- <- <-. eexists. split; [reflexivity|discriminate].
Qed.

Lemma has_ctl_app a b : has_ctl (a ++ b) = has_ctl a || has_ctl b.
Proof. unfold has_ctl. rewrite all_bytes_app, negb_andb. reflexivity. Qed.

Lemma plain_no_ctl t : all_bytes plain_byte t = true -> has_ctl t = false.
Proof.
  intro H. unfold has_ctl. apply negb_false_iff. eapply all_bytes_impl; [|exact H].
  intros c Hc. apply plain_byte_facts in Hc as [-> _]. reflexivity.
Qed.

Lemma split_u_append u t sc us h p :
  all_bytes plain_byte t = true ->
  split_u u = SOk sc us h p -> p <> "" ->
  exists p', split_u (u ++ t) = SOk sc us h p' /\ p' <> "".
Proof.
  intros Ht H Hp.
  destruct t as [|t0 tt] eqn:Et; [rewrite app_nil_r_s; eauto|]. rewrite <- Et in *.
  assert (Tq : mem_byte "?" t = false) by (apply plain_not_mem; auto).
  assert (Tcolon : mem_byte ":" t = false) by (apply plain_not_mem; auto 6).
  unfold split_u in *. rewrite has_ctl_app, (plain_no_ctl _ Ht), orb_false_r.
  destruct (has_ctl u); [discriminate|].
  destruct (String.eqb u "*") eqn:Estar.
  - apply String.eqb_eq in Estar. subst u. injection H as <- <- <- <-.
    assert (Es : String.eqb ("*" ++ t) "*" = false) by (rewrite Et; simpl; reflexivity).
    rewrite Es.
    assert (Eg : get_scheme_from true ("*" ++ t) = GsNone) by reflexivity. rewrite Eg.
    rewrite (cut_nomem "?" ("*" ++ t)) by (simpl; exact Tq). cbn [fst].
    unfold split_rest. simpl starts_with. cbn [negb andb String.eqb].
    assert (Ec : mem_byte ":" (fst (cut "/" ("*" ++ t))) = false).
    { rewrite (cut_nomem "/" ("*" ++ t)) by (simpl; apply plain_not_mem; auto). simpl. exact Tcolon. }
    rewrite Ec. simpl. eexists. split; [reflexivity|discriminate].
  - assert (Es : String.eqb (u ++ t) "*" = false).
    { destruct u as [|c u]; [simpl in H; injection H as _ _ _ <-; congruence|].
      simpl. simpl in Estar. destruct (Ascii.eqb c "*"); [|reflexivity].
      destruct u; [discriminate|reflexivity]. }
    rewrite Es.
    destruct (get_scheme_from true u) as [| |sc0 r0] eqn:Eg; [discriminate| |].
    + rewrite (gs_app_none _ _ _ Eg Tcolon).
      destruct (mem_byte "?" u) eqn:Em.
      * rewrite (cut_app_mem _ _ _ Em). eauto.
      * rewrite (cut_app_nomem _ _ _ Em). cbn [fst]. rewrite (cut_nomem _ _ Tq). cbn [fst].
        rewrite (cut_nomem _ _ Em) in H. cbn [fst] in H.
        eapply split_rest_append; eauto.
    + rewrite (gs_app_some _ _ t _ _ Eg).
      destruct (mem_byte "?" r0) eqn:Em.
      * rewrite (cut_app_mem _ _ _ Em). eauto.
      * rewrite (cut_app_nomem _ _ _ Em). cbn [fst]. rewrite (cut_nomem _ _ Tq). cbn [fst].
        rewrite (cut_nomem _ _ Em) in H. cbn [fst] in H.
        eapply split_rest_append; eauto.
Qed.

(* For EVERY URL string with a non-empty path: appending ".prov" (any suffix of letters,
   digits, '.', '-', '_') leaves scheme, userinfo and host as they are - the provenance file
   of a chart is on the chart's origin. *)
Theorem go_split_append_plain s t sc us h p :
  all_bytes plain_byte t = true ->
  go_split s = SOk sc us h p -> p <> "" ->
  exists p', go_split (s ++ t) = SOk sc us h p' /\ p' <> "".
Proof.
  intros Ht H Hp. rewrite go_split_stages in *.
  destruct (mem_byte "#" s) eqn:Em.
  - rewrite (cut_app_mem _ _ _ Em). eauto.
  - rewrite (cut_app_nomem _ _ _ Em). cbn [fst].
    rewrite (cut_nomem "#" t) by (apply plain_not_mem; auto). cbn [fst].
    rewrite (cut_nomem _ _ Em) in H. cbn [fst] in H.
    eapply split_u_append; eauto.
Qed.

Lemma prov_plain : all_bytes plain_byte ".prov" = true.
Proof. reflexivity. Qed.

Corollary go_split_prov s sc us h p :
  go_split s = SOk sc us h p -> p <> "" ->
  exists p', go_split (s ++ ".prov") = SOk sc us h p' /\ p' <> "".
Proof. apply go_split_append_plain. reflexivity. Qed.

Lemma go_split_prov_needs_path :
  go_split "http://host" = SOk "http" None "host" "" /\ go_split ("http://host" ++ ".prov") = SOk "http" None "host.prov" "".
Proof. split; vm_compute; reflexivity. Qed.

(* ------------------------------------------------------------------ the converse on normal forms *)
(* a host[:port] in normal form for a scheme: lower-case name, brackets exactly around a name
   that contains ':', and either no port or a port that is spelled without leading zero and is
   not the scheme's default *)
Definition nf_host (name port : string) : string :=
  (if mem_byte ":" name then "[" ++ name ++ "]" else name) ++ (if String.eqb port "" then "" else ":" ++ port).

Definition nf_ok (scheme name port : string) : bool :=
  String.eqb (lower name) name
  && (mem_byte ":" name || negb (starts_with "[" name))
  && all_bytes is_digit port
  && (String.eqb port "" || (negb (String.eqb port (default_port scheme)) && String.eqb (strip_zeros port) port)).

Lemma digits_no_colon p : all_bytes is_digit p = true -> mem_byte ":" p = false.
Proof. intro H. eapply all_bytes_not_mem; [exact H|reflexivity]. Qed.

Lemma not_digits_bracket y : all_bytes is_digit (y ++ "]") = false.
Proof. rewrite all_bytes_app. simpl. rewrite andb_false_r. reflexivity. Qed.

Lemma cut_last_app_nomem c a b x y :
  cut_last c a = Some (x, y) -> mem_byte c b = false -> cut_last c (a ++ b) = Some (x, y ++ b).
Proof.
  revert x y. induction a as [|d a IH]; simpl; [discriminate|].
  intros x y. destruct (cut_last c a) as [[x0 y0]|] eqn:E.
  - intros H Hb. injection H as <- <-. rewrite (IH _ _ eq_refl Hb). reflexivity.
  - destruct (Ascii.eqb d c) eqn:Ed; [|discriminate].
    intros H Hb. injection H as <- <-.
    assert (cut_last c (a ++ b) = None) as ->.
    { apply cut_last_nomem. rewrite mem_byte_app, Hb, orb_false_r.
      clear -E. induction a as [|z a IHa]; [reflexivity|]. simpl in *.
      destruct (cut_last c a) as [[? ?]|]; [discriminate|]. destruct (Ascii.eqb z c); [discriminate|]. simpl. auto. }
    reflexivity.
Qed.

Lemma mem_cut_last_some c s : mem_byte c s = true -> exists x y, cut_last c s = Some (x, y).
Proof.
  induction s as [|d s IH]; simpl; [discriminate|].
  destruct (cut_last c s) as [[x y]|] eqn:E; [eauto|].
  destruct (Ascii.eqb d c) eqn:Ed; [eauto|]. simpl. intro H. destruct (IH H) as (x & y & E'). discriminate.
Qed.

Lemma substring_all n s : substring 0 (String.length s) (s ++ n) = s.
Proof. induction s as [|c s IH]; simpl; [destruct n; reflexivity|]. rewrite IH. reflexivity. Qed.

Lemma length_app_s a b : String.length (a ++ b) = String.length a + String.length b.
Proof. induction a as [|c a IH]; simpl; [reflexivity|]. rewrite IH. reflexivity. Qed.

Lemma drop_brackets_wrapped name : drop_brackets ("[" ++ name ++ "]") = name.
Proof.
  unfold drop_brackets.
  assert (E : cut_last "]" ("[" ++ name ++ "]") = Some ("[" ++ name, "")).
  { change ("[" ++ name ++ "]") with (("[" ++ name) ++ String "]" ""). apply cut_last_app. reflexivity. }
  rewrite E. change (starts_with "[" ("[" ++ name ++ "]")) with (String.prefix "[" ("[" ++ (name ++ "]"))).
  rewrite prefix_app. cbn [andb].
  change ("[" ++ name ++ "]") with (String "[" (name ++ "]")).
  cbn [String.length substring]. rewrite length_app_s. simpl String.length.
  replace (S (String.length name + 1) - 2) with (String.length name) by lia.
  apply substring_all.
Qed.

Lemma drop_brackets_plain name : starts_with "[" name = false -> drop_brackets name = name.
Proof. unfold drop_brackets. intros ->. reflexivity. Qed.

(* URL.Hostname() / URL.Port() of a host in normal form *)
Lemma split_nf scheme name port :
  nf_ok scheme name port = true ->
  hostname (nf_host name port) = name /\ port_of (nf_host name port) = port.
Proof.
  unfold nf_ok. intro H. apply andb_true_iff in H as [H Hp]. apply andb_true_iff in H as [H Hd].
  apply andb_true_iff in H as [_ Hb].
  unfold hostname, port_of, split_host_port, nf_host.
  destruct (String.eqb port "") eqn:Ep.
  - apply String.eqb_eq in Ep. subst port. rewrite app_nil_r_s.
    destruct (mem_byte ":" name) eqn:Em.
    + destruct (mem_cut_last_some _ _ Em) as (x & y & E).
      assert (E' : cut_last ":" ("[" ++ name ++ "]") = Some (String "[" x, y ++ "]")).
      { change ("[" ++ name ++ "]") with (String "[" (name ++ "]")). simpl.
        rewrite (cut_last_app_nomem _ _ "]" _ _ E eq_refl). reflexivity. }
      rewrite E', not_digits_bracket. cbn [fst snd]. rewrite drop_brackets_wrapped. auto.
    + rewrite (cut_last_nomem _ _ Em). cbn [fst snd]. simpl in Hb. rewrite drop_brackets_plain by (apply negb_true_iff; exact Hb). auto.
  - assert (Hc : mem_byte ":" port = false) by (apply digits_no_colon; exact Hd).
    change (":" ++ port) with (String ":" port).
    destruct (mem_byte ":" name) eqn:Em.
    + rewrite (cut_last_app ":" ("[" ++ name ++ "]") port Hc), Hd. cbn [fst snd]. rewrite drop_brackets_wrapped. auto.
    + rewrite (cut_last_app ":" name port Hc), Hd. cbn [fst snd]. simpl in Hb.
      rewrite drop_brackets_plain by (apply negb_true_iff; exact Hb). auto.
Qed.

(* on normal forms the property's origin determines the Host string: equal origin implies the
   byte-for-byte equality the code tests *)
Theorem origin_nf_converse scheme sc2 n1 p1 n2 p2 path1 path2 us1 us2 s1 s2 :
  nf_ok scheme n1 p1 = true -> nf_ok sc2 n2 p2 = true ->
  origin_of (mkUrl scheme (nf_host n1 p1) path1 us1 s1) = origin_of (mkUrl sc2 (nf_host n2 p2) path2 us2 s2) ->
  same_origin (mkUrl scheme (nf_host n1 p1) path1 us1 s1) (mkUrl sc2 (nf_host n2 p2) path2 us2 s2) = true.
Proof.
  intros H1 H2 Ho.
  assert (sc2 = scheme) as -> by (unfold origin_of in Ho; cbn [u_scheme] in Ho; congruence).
  destruct (split_nf _ _ _ H1) as [Hn1 Hp1]. destruct (split_nf _ _ _ H2) as [Hn2 Hp2].
  unfold origin_of in Ho. cbn [u_scheme u_host] in Ho. rewrite Hn1, Hn2, Hp1, Hp2 in Ho.
  injection Ho as Hname Hport.
  unfold nf_ok in H1, H2.
  apply andb_true_iff in H1 as [H1 Hq1]. apply andb_true_iff in H1 as [H1 _]. apply andb_true_iff in H1 as [Hl1 _].
  apply andb_true_iff in H2 as [H2 Hq2]. apply andb_true_iff in H2 as [H2 _]. apply andb_true_iff in H2 as [Hl2 _].
  apply String.eqb_eq in Hl1, Hl2. rewrite Hl1, Hl2 in Hname. subst n2.
  assert (p1 = p2) as ->.
  { destruct (String.eqb p1 "") eqn:E1; destruct (String.eqb p2 "") eqn:E2; cbn [orb] in Hq1, Hq2.
    - apply String.eqb_eq in E1, E2. congruence.
    - apply String.eqb_eq in E1. subst p1. simpl in Hport.
      apply andb_true_iff in Hq2 as [Hnd Hz]. apply String.eqb_eq in Hz. rewrite Hz, E2 in Hport.
      apply negb_true_iff, String.eqb_neq in Hnd. congruence.
    - apply String.eqb_eq in E2. subst p2. simpl in Hport.
      apply andb_true_iff in Hq1 as [Hnd Hz]. apply String.eqb_eq in Hz. rewrite Hz, E1 in Hport.
      apply negb_true_iff, String.eqb_neq in Hnd. congruence.
    - apply andb_true_iff in Hq1 as [_ Hz1]. apply andb_true_iff in Hq2 as [_ Hz2].
      apply String.eqb_eq in Hz1, Hz2. rewrite Hz1, Hz2, E1, E2 in Hport. exact Hport. }
  unfold same_origin. cbn [u_scheme u_host]. rewrite !String.eqb_refl. reflexivity.
Qed.

(* with credentials configured, a request to the repository's origin spelled in normal form
   does get the pair *)
Theorem getter_same_origin_attached_nf (parse : string -> option url) o href sc1 sc2 n1 p1 n2 p2 path1 path2 us1 us2 s1 s2 :
  parse (g_url o) = Some (mkUrl sc1 (nf_host n1 p1) path1 us1 s1) ->
  parse href = Some (mkUrl sc2 (nf_host n2 p2) path2 us2 s2) ->
  nf_ok sc1 n1 p1 = true -> nf_ok sc2 n2 p2 = true ->
  origin_of (mkUrl sc1 (nf_host n1 p1) path1 us1 s1) = origin_of (mkUrl sc2 (nf_host n2 p2) path2 us2 s2) ->
  g_user o <> "" -> g_pass o <> "" ->
  getter_get parse o href = GReq (Some (Cred (g_user o) (g_pass o) (g_src o))).
Proof.
  intros E1 E2 N1 N2 Ho Hu Hp. apply getter_get_auth_iff.
  eexists. eexists. split; [exact E1|]. split; [exact E2|].
  pose proof (origin_nf_converse _ _ _ _ _ _ path1 path2 us1 us2 s1 s2 N1 N2 Ho) as Hs.
  apply same_origin_true in Hs. auto.
Qed.

Example nf_examples :
  nf_ok "https" "repo.example" "8443" = true /\ nf_ok "http" "repo.example" "" = true /\ nf_ok "http" "::1" "8080" = true /\
  nf_ok "http" "repo.example" "80" = false /\ nf_ok "http" "Repo.example" "" = false /\ nf_ok "http" "repo.example" "080" = false /\
  valid_host (nf_host "repo.example" "8443") = true /\ valid_host (nf_host "::1" "8080") = true /\
  nf_host "::1" "8080" = "[::1]:8080".
Proof. vm_compute. repeat split. Qed.

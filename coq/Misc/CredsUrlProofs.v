(* Proofs about the url.Parse transcription (Misc/CredsUrl.v) and what the getter's
   same-origin test means on URL strings. *)
From Coq Require Import List String Ascii Bool Arith NArith Lia.
From Helm Require Import Misc.Creds Misc.CredsProofs Misc.CredsUrl.
Import ListNotations.
Local Open Scope string_scope.

(* ------------------------------------------------------------------ byte / string lemmas *)
Lemma all_bytes_app p a b : all_bytes p (a ++ b) = all_bytes p a && all_bytes p b.
Proof. induction a as [|c a IH]; simpl; [reflexivity|]. rewrite IH, andb_assoc. reflexivity. Qed.

Lemma mem_byte_app c a b : mem_byte c (a ++ b) = mem_byte c a || mem_byte c b.
Proof. induction a as [|x a IH]; simpl; [reflexivity|]. rewrite IH, orb_assoc. reflexivity. Qed.

Lemma all_bytes_mem p s c : all_bytes p s = true -> mem_byte c s = true -> p c = true.
Proof.
  induction s as [|a s IH]; simpl; [discriminate|].
  intros H M. apply andb_true_iff in H as [Ha Hs].
  apply orb_true_iff in M as [M|M]; [apply Ascii.eqb_eq in M; subst; exact Ha|auto].
Qed.

Lemma all_bytes_not_mem p s c : all_bytes p s = true -> p c = false -> mem_byte c s = false.
Proof.
  intros H Hc. destruct (mem_byte c s) eqn:M; [|reflexivity].
  rewrite (all_bytes_mem _ _ _ H M) in Hc. discriminate.
Qed.

Lemma all_bytes_impl (p q : ascii -> bool) s :
  (forall c, p c = true -> q c = true) -> all_bytes p s = true -> all_bytes q s = true.
Proof.
  intro Hpq. induction s as [|a s IH]; simpl; [reflexivity|].
  intro H. apply andb_true_iff in H as [Ha Hs]. rewrite (Hpq _ Ha), (IH Hs). reflexivity.
Qed.

Lemma app_assoc_s (a b c : string) : (a ++ b) ++ c = a ++ (b ++ c).
Proof. induction a as [|x a IH]; simpl; [reflexivity|]. rewrite IH. reflexivity. Qed.

Lemma app_nil_r_s (a : string) : a ++ "" = a.
Proof. induction a as [|x a IH]; simpl; [reflexivity|]. rewrite IH. reflexivity. Qed.

(* Cut at the first c when the prefix has none *)
Lemma cut_app_nomem c a b :
  mem_byte c a = false -> cut c (a ++ b) = (a ++ fst (cut c b), snd (cut c b)).
Proof.
  induction a as [|x a IH]; simpl.
  - intros _. destruct (cut c b). reflexivity.
  - intro H. apply orb_false_iff in H as [Hx Ha]. rewrite Hx, (IH Ha). reflexivity.
Qed.

Lemma cut_nomem c a : mem_byte c a = false -> cut c a = (a, None).
Proof.
  induction a as [|x a IH]; simpl; [reflexivity|].
  intro H. apply orb_false_iff in H as [Hx Ha]. rewrite Hx, (IH Ha). reflexivity.
Qed.

Lemma cut_fst_nomem c s : mem_byte c (fst (cut c s)) = false.
Proof.
  induction s as [|x s IH]; simpl; [reflexivity|].
  destruct (Ascii.eqb x c) eqn:E; [reflexivity|].
  destruct (cut c s) as [u v]. simpl in *. rewrite E, IH. reflexivity.
Qed.

Lemma cut_last_nomem c a : mem_byte c a = false -> cut_last c a = None.
Proof.
  induction a as [|x a IH]; simpl; [reflexivity|].
  intro H. apply orb_false_iff in H as [Hx Ha]. rewrite (IH Ha), Hx. reflexivity.
Qed.

(* LastIndex: the last c of a ++ c ++ b, b without c *)
Lemma cut_last_app c a b :
  mem_byte c b = false -> cut_last c (a ++ String c b) = Some (a, b).
Proof.
  intro Hb. induction a as [|x a IH]; simpl.
  - rewrite (cut_last_nomem _ _ Hb), Ascii.eqb_refl. reflexivity.
  - rewrite IH. reflexivity.
Qed.

Lemma cut_last_some_mem c s x y : cut_last c s = Some (x, y) -> s = x ++ String c y /\ mem_byte c y = false.
Proof.
  revert x y. induction s as [|a s IH]; simpl; [discriminate|].
  intros x y. destruct (cut_last c s) as [[x0 y0]|] eqn:E.
  - intro H. injection H as <- <-. destruct (IH _ _ eq_refl) as [-> Hm]. split; [reflexivity|exact Hm].
  - destruct (Ascii.eqb a c) eqn:Ea; [|discriminate].
    intro H. injection H as <- <-. apply Ascii.eqb_eq in Ea. subst a. split; [reflexivity|].
    clear IH. induction s as [|b s IHs]; [reflexivity|]. simpl in E.
    destruct (cut_last c s) as [[? ?]|]; [discriminate|].
    destruct (Ascii.eqb b c) eqn:Eb; [discriminate|]. simpl. rewrite Eb. apply IHs. reflexivity.
Qed.

Lemma prefix_app p s : String.prefix p (p ++ s) = true.
Proof. induction p as [|c p IH]; simpl; [destruct s; reflexivity|]. destruct (ascii_dec c c); [exact IH|congruence]. Qed.

Lemma substring_skip2 a b s : substring 2 (String.length (String a (String b s)) - 2) (String a (String b s)) = s.
Proof.
  simpl. rewrite Nat.sub_0_r.
  induction s as [|c s IH]; simpl; [reflexivity|]. rewrite IH. reflexivity.
Qed.

Lemma lower_app a b : lower (a ++ b) = lower a ++ lower b.
Proof. induction a as [|x a IH]; simpl; [reflexivity|]. rewrite IH. reflexivity. Qed.

(* ------------------------------------------------------------------ what a parsed host cannot contain *)
Lemma parse_host_some h h' : parse_host h = Some h' -> h' = h /\ all_bytes host_byte_ok h = true.
Proof.
  unfold parse_host.
  match goal with |- context [if ?b && _ then _ else _] => destruct b end; simpl; [|discriminate].
  destruct (all_bytes host_byte_ok h); [|discriminate]. intro H. injection H as <-. auto.
Qed.

Lemma parse_authority_host a us h :
  parse_authority a = Some (us, h) -> all_bytes host_byte_ok h = true.
Proof.
  unfold parse_authority. destruct (cut_last "@" a) as [[ui h0]|].
  - destruct (parse_host h0) as [h1|] eqn:E; [|discriminate].
    destruct (all_bytes userinfo_byte_ok ui); [|discriminate].
    intro H. injection H as _ <-. apply parse_host_some in E as [-> E]. exact E.
  - destruct (parse_host a) as [h1|] eqn:E; [|discriminate].
    intro H. injection H as _ <-. apply parse_host_some in E as [-> E]. exact E.
Qed.

(* for EVERY string: the host url.Parse reports consists of host bytes only — no '/', '?',
   '#', '@', '\', blank or control byte; in particular it is the whole authority after the
   last '@' and cannot hide a second authority *)
Lemma go_split_host_bytes s sc us h p :
  go_split s = SOk sc us h p -> all_bytes host_byte_ok h = true.
Proof.
  unfold go_split.
  destruct (has_ctl (fst (cut "#" s))); [discriminate|].
  destruct (String.eqb (fst (cut "#" s)) "*"); [intro H; injection H as _ _ <- _; reflexivity|].
  destruct (get_scheme_from true (fst (cut "#" s))) as [| |sc0 r] eqn:Eg; [discriminate| |].
  all: cbv zeta; cbv beta iota.
  all: match goal with |- context [fst (cut "?" ?r)] => set (rest := fst (cut "?" r)) end.
  all: repeat match goal with
         | |- (if ?b then _ else _) = _ -> _ => destruct b
         end; try discriminate; try (intro H; injection H as _ _ <- _; reflexivity).
  all: destruct (cut "/" _) as [authority after];
       destruct (parse_authority authority) as [[us0 h0]|] eqn:Ea; [|discriminate];
       intro H; injection H as _ _ <- _; eapply parse_authority_host; eauto.
Qed.

Lemma host_byte_ok_excludes :
  host_byte_ok "/" = false /\ host_byte_ok "?" = false /\ host_byte_ok "#" = false /\
  host_byte_ok "@" = false /\ host_byte_ok "\" = false /\ host_byte_ok " " = false /\ host_byte_ok "%" = false.
Proof. vm_compute. repeat split. Qed.

Lemma go_split_host_clean s sc us h p :
  go_split s = SOk sc us h p ->
  mem_byte "/" h = false /\ mem_byte "?" h = false /\ mem_byte "#" h = false /\
  mem_byte "@" h = false /\ mem_byte "\" h = false /\ mem_byte " " h = false.
Proof.
  intro H. apply go_split_host_bytes in H.
  destruct host_byte_ok_excludes as (A & B & C & D & E & F & _).
  repeat split; eapply all_bytes_not_mem; eauto.
Qed.

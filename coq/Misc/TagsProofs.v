(* Proofs about Misc/Tags.v:
   - the rendering of a strict version is read back by NewVersion (Semver.parse_version) as
     the same version exactly when it has no empty identifier, and is refused otherwise;
   - Compare on strict versions (keys) is a total preorder and agrees with vcompare on the
     versions NewVersion reads back; the literal comparePrerelease loop equals the key order;
   - Client.Tags followed by the tag match: the answer is a best match over the tags of ALL
     pages, whatever the split into pages and the order inside / between pages. *)
From Coq Require Import List String Ascii Bool Arith NArith Lia Sorting.Permutation Sorting.Sorted.
From Helm Require Import Misc.Semver Misc.SemverProofs Misc.Constraint Misc.ConstraintProofs
     Misc.Index Misc.IndexProofs Misc.Tags.
Import ListNotations.
Local Open Scope string_scope.

(* ---------- strings ---------- *)

Lemma str_forall_app p a b : str_forall p (a ++ b) = str_forall p a && str_forall p b.
Proof. induction a as [|c a IH]; simpl; auto. rewrite IH. now rewrite andb_assoc. Qed.

Lemma str_is_empty_true s : str_is_empty s = true <-> s = "".
Proof. destruct s; simpl; split; congruence. Qed.

Lemma str_is_empty_false s : str_is_empty s = false <-> s <> "".
Proof. destruct s; simpl; split; congruence. Qed.

Definition not_char (c : ascii) (x : ascii) : bool := negb (Ascii.eqb x c).

(* cut_at: the text before the first separator has no separator; the pieces give the text back *)
Lemma cut_at_some sep s a b :
  cut_at sep s = (a, Some b) -> s = a ++ String sep b /\ str_forall (not_char sep) a = true.
Proof.
  revert a b. induction s as [|c s IH]; simpl; intros a b H; [discriminate|].
  destruct (Ascii.eqb c sep) eqn:E.
  - inversion H; subst. apply Ascii.eqb_eq in E. subst. auto.
  - destruct (cut_at sep s) as [a' b'] eqn:C. inversion H; subst.
    destruct (IH a' b eq_refl) as [-> Hn]. split; auto. simpl. unfold not_char at 1. now rewrite E.
Qed.

Lemma cut_at_none sep s a :
  cut_at sep s = (a, None) -> s = a /\ str_forall (not_char sep) a = true.
Proof.
  revert a. induction s as [|c s IH]; simpl; intros a H.
  - inversion H. auto.
  - destruct (Ascii.eqb c sep) eqn:E; [discriminate|].
    destruct (cut_at sep s) as [a' b'] eqn:C. inversion H; subst.
    destruct (IH a' eq_refl) as [-> Hn]. split; auto. simpl. unfold not_char at 1. now rewrite E.
Qed.

Lemma cut_at_app_sep sep a b :
  str_forall (not_char sep) a = true -> cut_at sep (a ++ String sep b) = (a, Some b).
Proof.
  induction a as [|c a IH]; simpl; intros H.
  - now rewrite Ascii.eqb_refl.
  - apply andb_true_iff in H. destruct H as [Hc Ha]. unfold not_char in Hc.
    apply negb_true_iff in Hc. rewrite Hc, (IH Ha). reflexivity.
Qed.

Lemma cut_at_no_sep sep a :
  str_forall (not_char sep) a = true -> cut_at sep a = (a, None).
Proof.
  induction a as [|c a IH]; simpl; intros H; auto.
  apply andb_true_iff in H. destruct H as [Hc Ha]. unfold not_char in Hc.
  apply negb_true_iff in Hc. rewrite Hc, (IH Ha). reflexivity.
Qed.

Lemma str_forall_impl (p q : ascii -> bool) s :
  (forall c, p c = true -> q c = true) -> str_forall p s = true -> str_forall q s = true.
Proof.
  intros H. induction s as [|c s IH]; simpl; auto.
  intros E. apply andb_true_iff in E. destruct E as [E1 E2]. rewrite (H _ E1), (IH E2). reflexivity.
Qed.

(* span_digits stops at the first byte that is not a digit *)
Lemma span_digits_app d r :
  str_forall is_digit d = true ->
  match r with String c _ => is_digit c = false | EmptyString => True end ->
  span_digits (d ++ r) = (d, r).
Proof.
  intros Hd Hr. induction d as [|c d IH]; simpl.
  - destruct r as [|c r]; simpl; auto. now rewrite Hr.
  - simpl in Hd. apply andb_true_iff in Hd. destruct Hd as [Hc Hd]. rewrite Hc, (IH Hd). reflexivity.
Qed.

Lemma is_digit_allowed c : is_digit c = true -> is_allowed c = true.
Proof. unfold is_allowed. intros ->. reflexivity. Qed.

(* the characters of identifiers *)
Lemma allowed_not_plus c : is_allowed c = true -> not_char "+" c = true.
Proof.
  unfold not_char. destruct (Ascii.eqb c "+") eqn:E; auto.
  apply Ascii.eqb_eq in E. subst. vm_compute. discriminate.
Qed.

Lemma digit_first_not_v d : str_forall is_digit d = true -> strip_v d = d.
Proof.
  destruct d as [|c d]; simpl; auto. intros H. apply andb_true_iff in H. destruct H as [Hc _].
  destruct (Ascii.eqb c "v") eqn:E.
  - apply Ascii.eqb_eq in E. subst. vm_compute in Hc. discriminate.
  - unfold strip_v. destruct c as [[] [] [] [] [] [] [] []]; try reflexivity; vm_compute in E; discriminate.
Qed.

(* ---------- pre-release / metadata text: strict validation vs NewVersion's ---------- *)

Lemma pre_ident_ok_strict p : pre_ident_ok p = negb (str_is_empty p) && strict_pre_part_ok p.
Proof.
  unfold pre_ident_ok, ident_ok, strict_pre_part_ok, leading_zero.
  destruct (str_forall is_digit p) eqn:D; simpl.
  - rewrite (str_forall_impl _ _ _ is_digit_allowed D). now rewrite andb_true_r.
  - now rewrite andb_true_r.
Qed.

Lemma valid_pre_strict p : valid_pre p = all_nonempty p && strict_valid_pre p.
Proof.
  unfold valid_pre, all_nonempty, strict_valid_pre.
  induction (split_on "." p) as [|a l IH]; simpl; auto.
  rewrite IH, pre_ident_ok_strict.
  generalize (forallb (fun p0 => negb (str_is_empty p0)) l) as X.
  generalize (forallb strict_pre_part_ok l) as Y. intros Y X.
  destruct (str_is_empty a), (strict_pre_part_ok a), X, Y; reflexivity.
Qed.

Lemma valid_meta_strict m : valid_meta m = all_nonempty m && strict_valid_meta m.
Proof.
  unfold valid_meta, all_nonempty, strict_valid_meta, ident_ok.
  induction (split_on "." m) as [|a l IH]; simpl; auto.
  rewrite IH.
  generalize (forallb (fun p0 => negb (str_is_empty p0)) l) as X.
  generalize (forallb (str_forall is_allowed) l) as Y. intros Y X.
  destruct (str_is_empty a), (str_forall is_allowed a), X, Y; reflexivity.
Qed.

(* a validated text has only identifier characters and dots: in particular no "+" *)
Lemma split_on_forall (q : ascii -> bool) sep s :
  forallb (str_forall q) (split_on sep s) = true ->
  str_forall (fun c => q c || Ascii.eqb c sep) s = true.
Proof.
  induction s as [|c s IH]; simpl; auto.
  destruct (Ascii.eqb c sep) eqn:E; simpl.
  - intros H. rewrite orb_true_r. simpl. apply IH. exact H.
  - destruct (split_on sep s) as [|h r] eqn:S; simpl.
    + rewrite andb_true_r. intros H. apply andb_true_iff in H. destruct H as [H _].
      rewrite H. simpl. apply IH. reflexivity.
    + intros H. apply andb_true_iff in H. destruct H as [H1 H2].
      simpl in H1. apply andb_true_iff in H1. destruct H1 as [Hc Hh]. rewrite Hc. simpl.
      apply IH. simpl. now rewrite Hh, H2.
Qed.

Lemma strict_pre_part_allowed p : strict_pre_part_ok p = true -> str_forall is_allowed p = true.
Proof.
  unfold strict_pre_part_ok. destruct (str_forall is_digit p) eqn:D; auto.
  intros _. exact (str_forall_impl _ _ _ is_digit_allowed D).
Qed.

Lemma strict_valid_pre_no_plus p : strict_valid_pre p = true -> str_forall (not_char "+") p = true.
Proof.
  unfold strict_valid_pre. intros H.
  assert (H' : forallb (str_forall is_allowed) (split_on "." p) = true).
  { rewrite forallb_forall in *. intros x Hx. apply strict_pre_part_allowed. auto. }
  apply split_on_forall in H'. revert H'. apply str_forall_impl.
  intros c Hc. apply orb_true_iff in Hc. destruct Hc as [Hc|Hc].
  - now apply allowed_not_plus.
  - apply Ascii.eqb_eq in Hc. subst. reflexivity.
Qed.

(* ---------- StrictNewVersion: what a success means ---------- *)

Lemma num_segment_digits p : num_segment_ok p = true -> str_forall is_digit p = true.
Proof. unfold num_segment_ok. intros H. apply andb_true_iff in H. tauto. Qed.

Lemma strict_parse_some t s :
  strict_parse t = Some s ->
  str_forall is_digit (s_d1 s) = true /\ str_forall is_digit (s_d2 s) = true /\
  str_forall is_digit (s_d3 s) = true /\
  parse_uint (s_d1 s) = Some (s_major s) /\ parse_uint (s_d2 s) = Some (s_minor s) /\
  parse_uint (s_d3 s) = Some (s_patch s) /\
  strict_valid_pre (s_pre s) = true /\ strict_valid_meta (s_meta s) = true.
Proof.
  unfold strict_parse. destruct (str_is_empty t); [discriminate|].
  destruct (cut_at "." t) as [p0 [r1|]]; [|discriminate].
  destruct (cut_at "." r1) as [p1 [p2|]]; [|discriminate].
  destruct (cut_at "+" p2) as [x [m|]].
  - destruct (strict_valid_meta m) eqn:VM; simpl; [|discriminate].
    destruct (cut_at "-" x) as [n2 [p|]].
    + destruct (strict_valid_pre p) eqn:VP; simpl; [|discriminate].
      destruct (num_segment_ok p0) eqn:N0; simpl; [|discriminate].
      destruct (num_segment_ok p1) eqn:N1; simpl; [|discriminate].
      destruct (num_segment_ok n2) eqn:N2; simpl; [|discriminate].
      destruct (parse_uint p0) eqn:U0; [|discriminate].
      destruct (parse_uint p1) eqn:U1; [|discriminate].
      destruct (parse_uint n2) eqn:U2; [|discriminate].
      intros H. inversion H; subst; simpl. repeat split; auto using num_segment_digits.
    + simpl.
      destruct (num_segment_ok p0) eqn:N0; simpl; [|discriminate].
      destruct (num_segment_ok p1) eqn:N1; simpl; [|discriminate].
      destruct (num_segment_ok n2) eqn:N2; simpl; [|discriminate].
      destruct (parse_uint p0) eqn:U0; [|discriminate].
      destruct (parse_uint p1) eqn:U1; [|discriminate].
      destruct (parse_uint n2) eqn:U2; [|discriminate].
      intros H. inversion H; subst; simpl. repeat split; auto using num_segment_digits.
  - simpl.
    destruct (cut_at "-" x) as [n2 [p|]].
    + destruct (strict_valid_pre p) eqn:VP; simpl; [|discriminate].
      destruct (num_segment_ok p0) eqn:N0; simpl; [|discriminate].
      destruct (num_segment_ok p1) eqn:N1; simpl; [|discriminate].
      destruct (num_segment_ok n2) eqn:N2; simpl; [|discriminate].
      destruct (parse_uint p0) eqn:U0; [|discriminate].
      destruct (parse_uint p1) eqn:U1; [|discriminate].
      destruct (parse_uint n2) eqn:U2; [|discriminate].
      intros H. inversion H; subst; simpl. repeat split; auto using num_segment_digits.
    + simpl.
      destruct (num_segment_ok p0) eqn:N0; simpl; [|discriminate].
      destruct (num_segment_ok p1) eqn:N1; simpl; [|discriminate].
      destruct (num_segment_ok n2) eqn:N2; simpl; [|discriminate].
      destruct (parse_uint p0) eqn:U0; [|discriminate].
      destruct (parse_uint p1) eqn:U1; [|discriminate].
      destruct (parse_uint n2) eqn:U2; [|discriminate].
      intros H. inversion H; subst; simpl. repeat split; auto using num_segment_digits.
Qed.

Definition tail_text (s : sversion) : string :=
  (if str_is_empty (s_pre s) then "" else "-" ++ s_pre s) ++
  (if str_is_empty (s_meta s) then "" else "+" ++ s_meta s).

Lemma parse_tail_render s :
  strict_valid_pre (s_pre s) = true -> strict_valid_meta (s_meta s) = true ->
  parse_tail (tail_text s) =
  if sregular s then Some (if str_is_empty (s_pre s) then [] else idents (s_pre s), s_meta s) else None.
Proof.
  intros VP VM. unfold tail_text, sregular.
  destruct (s_pre s) as [|pc pt] eqn:EP; destruct (s_meta s) as [|mc mt] eqn:EM; simpl str_is_empty; cbn [orb andb].
  - reflexivity.
  - (* "+meta" *)
    change ("" ++ "+" ++ String mc mt) with (String "+" (String mc mt)).
    unfold parse_tail. rewrite valid_meta_strict, VM, andb_true_r.
    destruct (all_nonempty (String mc mt)); reflexivity.
  - (* "-pre" *)
    change (("-" ++ String pc pt) ++ "") with (String "-" (String pc pt ++ "")).
    replace (String pc pt ++ "") with (String pc pt)
      by (clear; generalize (String pc pt); intro x; induction x; simpl; congruence).
    unfold parse_tail. rewrite (cut_at_no_sep "+" _ (strict_valid_pre_no_plus _ VP)).
    rewrite valid_pre_strict, VP, andb_true_r.
    destruct (all_nonempty (String pc pt)); reflexivity.
  - (* "-pre+meta" *)
    change (("-" ++ String pc pt) ++ "+" ++ String mc mt)
      with (String "-" (String pc pt ++ String "+" (String mc mt))).
    unfold parse_tail. rewrite (cut_at_app_sep "+" _ _ (strict_valid_pre_no_plus _ VP)).
    rewrite valid_pre_strict, VP, andb_true_r, valid_meta_strict, VM, andb_true_r.
    destruct (all_nonempty (String pc pt)); simpl; [|reflexivity].
    destruct (all_nonempty (String mc mt)); reflexivity.
Qed.

Lemma tail_text_start s :
  match tail_text s with String c _ => is_digit c = false | EmptyString => True end.
Proof.
  unfold tail_text. destruct (str_is_empty (s_pre s)); simpl.
  - destruct (str_is_empty (s_meta s)); simpl; auto.
  - reflexivity.
Qed.

Lemma span_digits_dot d r :
  str_forall is_digit d = true -> span_digits (d ++ String "." r) = (d, String "." r).
Proof. intros H. apply span_digits_app; auto. Qed.

Lemma sstring_shape s :
  sstring s = s_d1 s ++ String "." (s_d2 s ++ String "." (s_d3 s ++ tail_text s)).
Proof.
  unfold sstring, tail_text.
  generalize (if str_is_empty (s_pre s) then "" else "-" ++ s_pre s) as P.
  generalize (if str_is_empty (s_meta s) then "" else "+" ++ s_meta s) as M.
  intros M P.
  assert (A : forall a b c : string, (a ++ b) ++ c = a ++ (b ++ c)).
  { intros a b c. induction a; simpl; congruence. }
  change ("." ++ s_d2 s ++ "." ++ s_d3 s ++ P ++ M) with (String "." (s_d2 s ++ String "." (s_d3 s ++ P ++ M))).
  reflexivity.
Qed.

(* NewVersion on the rendering of a strict version *)
Lemma strict_render_parse t s :
  strict_parse t = Some s ->
  parse_version (sstring s) = if sregular s then Some (to_version s) else None.
Proof.
  intros H. destruct (strict_parse_some t s H) as (D1 & D2 & D3 & U1 & U2 & U3 & VP & VM).
  unfold parse_version. rewrite sstring_shape at 1.
  assert (SV : strip_v (s_d1 s ++ String "." (s_d2 s ++ String "." (s_d3 s ++ tail_text s)))
               = s_d1 s ++ String "." (s_d2 s ++ String "." (s_d3 s ++ tail_text s))).
  { destruct (s_d1 s) as [|c d] eqn:E.
    - vm_compute in U1. discriminate.
    - simpl. simpl in D1. apply andb_true_iff in D1. destruct D1 as [Hc _].
      destruct (Ascii.eqb c "v") eqn:Ev.
      + apply Ascii.eqb_eq in Ev. subst. vm_compute in Hc. discriminate.
      + destruct c as [[] [] [] [] [] [] [] []]; try reflexivity; vm_compute in Ev; discriminate. }
  rewrite SV, (span_digits_dot _ _ D1), U1.
  unfold opt_segment at 1. rewrite (span_digits_dot _ _ D2), U2.
  unfold opt_segment at 1. rewrite (span_digits_app _ _ D3 (tail_text_start s)), U3.
  rewrite (parse_tail_render s VP VM).
  destruct (sregular s); reflexivity.
Qed.

(* ---------- Compare on strict versions is a total preorder ---------- *)

Lemma good_opre : good_cmp opre_compare.
Proof.
  constructor.
  - intros [x|] [y|]; simpl; split; try discriminate; auto.
    + intros H. apply (gc_eq _ good_pre_lex) in H. congruence.
    + intros H. injection H as ->. apply (gc_refl _ good_pre_lex).
  - intros [x|] [y|]; simpl; auto. apply (gc_sym _ good_pre_lex).
  - intros [x|] [y|] [z|]; simpl; try discriminate; auto. apply (gc_trans _ good_pre_lex).
Qed.

Lemma good_skey : good_cmp skey_compare.
Proof.
  constructor.
  - intros [[[a1 a2] a3] ap] [[[b1 b2] b3] bp]. unfold skey_compare.
    rewrite (lex_eq _ good_N), (lex_eq _ good_N), (lex_eq _ good_N), (gc_eq _ good_opre).
    split.
    + intros (-> & -> & -> & ->). reflexivity.
    + intros H. injection H as -> -> -> ->. auto.
  - intros [[[a1 a2] a3] ap] [[[b1 b2] b3] bp]. unfold skey_compare.
    apply (lex_sym _ good_N). apply (lex_sym _ good_N). apply (lex_sym _ good_N).
    apply (gc_sym _ good_opre).
  - intros [[[a1 a2] a3] ap] [[[b1 b2] b3] bp] [[[d1 d2] d3] dp]. unfold skey_compare.
    apply (lex_trans _ good_N). apply (lex_trans _ good_N). apply (lex_trans _ good_N).
    apply (gc_trans _ good_opre).
Qed.

Lemma scompare_total_preorder :
  (forall a, scompare a a = Eq) /\
  (forall a b c, scompare a b <> Gt -> scompare b c <> Gt -> scompare a c <> Gt) /\
  (forall a b, scompare a b <> Gt \/ scompare b a <> Gt) /\
  (forall a b, scompare b a = CompOpp (scompare a b)) /\
  (forall a b, scompare a b = Eq <-> skey a = skey b).
Proof.
  unfold scompare. repeat split.
  - intros. apply (gc_refl _ good_skey).
  - intros a b c. apply (gc_le_trans _ good_skey).
  - intros. apply (gc_total _ good_skey).
  - intros. apply (gc_sym _ good_skey).
  - apply (gc_eq _ good_skey).
  - apply (gc_eq _ good_skey).
Qed.

Lemma sless_false_ge a b : sless a b = false <-> scompare a b <> Lt.
Proof. unfold sless. destruct (scompare a b); split; congruence. Qed.

Lemma sless_ge_trans a b c : sless a b = false -> sless b c = false -> sless a c = false.
Proof. rewrite !sless_false_ge. unfold scompare. apply (gc_ge_trans _ good_skey). Qed.

Lemma sless_asym a b : sless a b = true -> sless b a = false.
Proof.
  unfold sless, scompare. rewrite (gc_sym _ good_skey (skey a) (skey b)).
  destruct (skey_compare (skey a) (skey b)); simpl; congruence.
Qed.

(* ---------- ... and agrees with vcompare on the versions NewVersion reads back ---------- *)

Definition shift (i : ident) : ident :=
  match i with INum n => INum (n + 1) | IStr s => IStr s end.

Lemma ident_compare_shift a b : ident_compare (shift a) (shift b) = ident_compare a b.
Proof.
  destruct a as [x|s], b as [y|t]; simpl; auto.
  destruct (N.compare_spec x y) as [->|H|H].
  - apply N.compare_refl.
  - apply N.compare_lt_iff. lia.
  - apply N.compare_gt_iff. lia.
Qed.

Lemma pre_lex_shift l1 l2 : pre_lex (map shift l1) (map shift l2) = pre_lex l1 l2.
Proof.
  revert l2. induction l1 as [|a l1 IH]; intros [|b l2]; simpl; auto.
  now rewrite ident_compare_shift, IH.
Qed.

Lemma embed_nonempty p : str_is_empty p = false -> embed p = shift (classify p).
Proof. unfold embed, classify. intros ->. destruct (parse_uint p); reflexivity. Qed.

Lemma strip_nonempty l :
  forallb (fun p => negb (str_is_empty p)) l = true -> strip_trailing_empty l = l.
Proof.
  induction l as [|a l IH]; simpl; auto.
  intros H. apply andb_true_iff in H. destruct H as [Ha Hl]. rewrite (IH Hl).
  apply negb_true_iff in Ha. rewrite Ha. destruct l; reflexivity.
Qed.

Lemma map_embed_nonempty l :
  forallb (fun p => negb (str_is_empty p)) l = true -> map embed l = map shift (map classify l).
Proof.
  induction l as [|a l IH]; simpl; auto.
  intros H. apply andb_true_iff in H. destruct H as [Ha Hl]. apply negb_true_iff in Ha.
  now rewrite (embed_nonempty _ Ha), (IH Hl).
Qed.

Lemma split_on_nonnil sep s : split_on sep s <> [].
Proof.
  induction s as [|c s IH]; simpl; [discriminate|].
  destruct (Ascii.eqb c sep); [discriminate|]. destruct (split_on sep s); discriminate.
Qed.

Lemma sregular_compare a b :
  sregular a = true -> sregular b = true ->
  scompare a b = vcompare (to_version a) (to_version b).
Proof.
  unfold sregular, scompare, vcompare, skey, vkey, to_version, skey_compare, key_compare, spre_key.
  cbn [vmajor vminor vpatch vpre].
  intros Ha Hb. apply andb_true_iff in Ha. apply andb_true_iff in Hb.
  destruct Ha as [Ha _], Hb as [Hb _].
  f_equal. f_equal. f_equal.
  destruct (str_is_empty (s_pre a)) eqn:Ea; destruct (str_is_empty (s_pre b)) eqn:Eb; simpl in *.
  - reflexivity.
  - unfold idents. destruct (split_on "." (s_pre b)) eqn:S; [now apply split_on_nonnil in S|reflexivity].
  - unfold idents. destruct (split_on "." (s_pre a)) eqn:S; [now apply split_on_nonnil in S|reflexivity].
  - unfold all_nonempty in *. unfold idents.
    rewrite (strip_nonempty _ Ha), (strip_nonempty _ Hb).
    rewrite (map_embed_nonempty _ Ha), (map_embed_nonempty _ Hb), pre_lex_shift.
    destruct (split_on "." (s_pre a)) eqn:Sa; [now apply split_on_nonnil in Sa|].
    destruct (split_on "." (s_pre b)) eqn:Sb; [now apply split_on_nonnil in Sb|].
    reflexivity.
Qed.

(* ---------- the insertion sort meets the two hypotheses on sort.Sort ---------- *)

Lemma sinsert_desc_perm e l : Permutation (e :: l) (sinsert_desc e l).
Proof.
  induction l as [|x l IH]; simpl; auto.
  destruct (sless e x); auto.
  eapply perm_trans; [apply perm_swap|]. now constructor.
Qed.

Lemma sisort_perm l : Permutation l (sisort l).
Proof.
  induction l as [|e l IH]; simpl; auto.
  eapply perm_trans; [|apply sinsert_desc_perm]. now constructor.
Qed.

Lemma sinsert_desc_sorted e l :
  StronglySorted (fun a b => sless a b = false) l ->
  StronglySorted (fun a b => sless a b = false) (sinsert_desc e l).
Proof.
  intros HS. induction HS as [|x l HS IH Hall]; simpl.
  - repeat constructor.
  - destruct (sless e x) eqn:E.
    + constructor; auto.
      apply Forall_forall. intros y Hy.
      apply (Permutation_in _ (Permutation_sym (sinsert_desc_perm e l))) in Hy.
      destruct Hy as [<-|Hy].
      * now apply sless_asym.
      * rewrite Forall_forall in Hall. auto.
    + constructor; [constructor; auto|].
      constructor; auto.
      apply Forall_forall. intros y Hy. rewrite Forall_forall in Hall.
      apply sless_ge_trans with x; auto.
Qed.

Lemma sisort_sorted l : StronglySorted (fun a b => sless a b = false) (sisort l).
Proof. induction l as [|e l IH]; simpl; [constructor|]. now apply sinsert_desc_sorted. Qed.

Lemma ssort_hypotheses_satisfiable :
  (forall l, Permutation l (sisort l)) /\
  (forall l, StronglySorted (fun a b => sless a b = false) (sisort l)).
Proof. split; [apply sisort_perm|apply sisort_sorted]. Qed.

(* ---------- Client.Tags: the list the queries scan ---------- *)

Lemma collected_strict pages s : In s (collected pages) -> exists t, strict_parse t = Some s.
Proof.
  unfold collected. rewrite in_flat_map. intros (t & _ & H). unfold tag_version in H.
  destruct (strict_parse (replace_underscore t)) as [s'|] eqn:E; [|destruct H].
  destruct H as [<-|[]]. eauto.
Qed.

Lemma filter_map_sorted {A B} (R : A -> A -> Prop) (R' : B -> B -> Prop) (f : A -> B) (q : B -> bool) l :
  (forall a b, In a l -> In b l -> q (f a) = true -> q (f b) = true -> R a b -> R' (f a) (f b)) ->
  StronglySorted R l -> StronglySorted R' (filter q (map f l)).
Proof.
  intros H HS. induction HS as [|a l HS IH Hall]; simpl; [constructor|].
  assert (IH' : StronglySorted R' (filter q (map f l))).
  { apply IH. intros x y Hx Hy. apply H; simpl; auto. }
  destruct (q (f a)) eqn:Q; auto.
  constructor; auto.
  apply Forall_forall. intros y Hy. apply filter_In in Hy. destruct Hy as [Hy Qy].
  apply in_map_iff in Hy. destruct Hy as (b & <- & Hb).
  rewrite Forall_forall in Hall. apply H; simpl; auto.
Qed.

Section Composition.
  Variable sort : list sversion -> list sversion.
  Hypothesis sort_perm : forall l, Permutation l (sort l).
  Hypothesis sort_sorted : forall l, StronglySorted (fun a b => sless a b = false) (sort l).

  Lemma client_tags_perm pages : Permutation (client_tags sort pages) (all_tags pages).
  Proof. unfold client_tags, all_tags. apply Permutation_map, Permutation_sym, sort_perm. Qed.

  (* the tags NewVersion can read are newest first, whatever the pages were *)
  Lemma client_tags_sorted pages :
    StronglySorted tge (filter is_valid_version (client_tags sort pages)).
  Proof.
    unfold client_tags.
    apply filter_map_sorted with (R := fun a b => sless a b = false); [|apply sort_sorted].
    intros a b Ha Hb Qa Qb Hab.
    apply (Permutation_in _ (Permutation_sym (sort_perm _))) in Ha, Hb.
    destruct (collected_strict _ _ Ha) as (ta & Sa). destruct (collected_strict _ _ Hb) as (tb & Sb).
    pose proof (strict_render_parse _ _ Sa) as Pa. pose proof (strict_render_parse _ _ Sb) as Pb.
    unfold is_valid_version in Qa, Qb.
    destruct (sregular a) eqn:Ra; [|rewrite Pa in Qa; discriminate].
    destruct (sregular b) eqn:Rb; [|rewrite Pb in Qb; discriminate].
    exists (to_version a), (to_version b). repeat split; auto.
    rewrite <- (sregular_compare a b Ra Rb). now apply sless_false_ge.
  Qed.
End Composition.

Lemma best_tag_perm p l l' t : Permutation l l' -> best_tag p l t -> best_tag p l' t.
Proof.
  intros P (Hin & Hv & Hmax). split; [eapply Permutation_in; eauto|]. split; auto.
  intros x v Hx. apply Hmax. eapply Permutation_in; [apply Permutation_sym|]; eauto.
Qed.

Lemma none_tag_perm p l l' : Permutation l l' -> none_tag p l -> none_tag p l'.
Proof. intros P H x v Hx. apply H. eapply Permutation_in; [apply Permutation_sym|]; eauto. Qed.

(* Client.Tags + GetTagMatchingVersionOrConstraint: the answer is the identical string if some
   page lists it, else a best match over the tags of ALL pages, else an error *)
Lemma oci_tag_match_thm :
  forall sort : list sversion -> list sversion,
    (forall l, Permutation l (sort l)) ->
    (forall l, StronglySorted (fun a b => sless a b = false) (sort l)) ->
    forall pages ver,
      Permutation (client_tags sort pages) (all_tags pages) /\
      (ver = "" ->
         (exists t, tag_match cvalid sat (client_tags sort pages) ver = TOk t /\
                    best_tag is_stable (all_tags pages) t) \/
         (tag_match cvalid sat (client_tags sort pages) ver = TErrNotFound /\
          none_tag is_stable (all_tags pages))) /\
      (ver <> "" -> In ver (all_tags pages) ->
         tag_match cvalid sat (client_tags sort pages) ver = TOk ver) /\
      (ver <> "" -> ~ In ver (all_tags pages) ->
         match new_constraint ver with
         | None => tag_match cvalid sat (client_tags sort pages) ver = TErrConstraint
         | Some cs =>
             (exists t, tag_match cvalid sat (client_tags sort pages) ver = TOk t /\
                        best_tag (constraints_check cs) (all_tags pages) t) \/
             (tag_match cvalid sat (client_tags sort pages) ver = TErrNotFound /\
              none_tag (constraints_check cs) (all_tags pages))
         end).
Proof.
  intros sort Hp Hs pages ver.
  pose proof (client_tags_perm sort Hp pages) as P.
  destruct (tag_match_concrete_thm (client_tags sort pages) ver (client_tags_sorted sort Hp Hs pages))
    as (T1 & T2 & T3).
  split; auto. split; [|split].
  - intros Hv. destruct (T1 Hv) as [(t & E & B)|(E & N)].
    + left. exists t. split; auto. eapply best_tag_perm; eauto.
    + right. split; auto. eapply none_tag_perm; eauto.
  - intros Hv Hin. apply T2; auto. eapply Permutation_in; [apply Permutation_sym|]; eauto.
  - intros Hv Hn.
    assert (Hn' : ~ In ver (client_tags sort pages)).
    { intros H. apply Hn. eapply Permutation_in; eauto. }
    specialize (T3 Hv Hn'). destruct (new_constraint ver) as [cs|]; auto.
    destruct T3 as [(t & E & B)|(E & N)].
    + left. exists t. split; auto. eapply best_tag_perm; eauto.
    + right. split; auto. eapply none_tag_perm; eauto.
Qed.

(* ValidateReference for a reference without tag and digest *)
Lemma validate_reference_thm :
  forall sort : list sversion -> list sversion,
    (forall l, Permutation l (sort l)) ->
    forall pages ver,
      validate_reference cvalid sat sort pages ver =
      if is_valid_version ver then VROk ver
      else match all_tags pages with
           | [] => VRErrNoTags
           | _ => match tag_match cvalid sat (client_tags sort pages) ver with
                  | TOk t => VROk t
                  | TErrConstraint => VRErrConstraint
                  | TErrNotFound => VRErrNotFound
                  end
           end.
Proof.
  intros sort Hp pages ver. unfold validate_reference, validate_reference_tags.
  destruct (is_valid_version ver); auto.
  pose proof (client_tags_perm sort Hp pages) as P.
  destruct (client_tags sort pages) eqn:E1; destruct (all_tags pages) eqn:E2; auto.
  - apply Permutation_nil in P. discriminate.
  - apply Permutation_sym, Permutation_nil in P. discriminate.
Qed.

(* Resolve, OCI branch: locked to a best match over the tags of ALL pages, or reported missing *)
Lemma resolve_oci_thm :
  forall sort : list sversion -> list sversion,
    (forall l, Permutation l (sort l)) ->
    (forall l, StronglySorted (fun a b => sless a b = false) (sort l)) ->
    forall pages ver,
      match new_constraint ver with
      | None => resolve_oci cvalid sat sort pages ver = DFail
      | Some cs =>
          if is_valid_version ver then resolve_oci cvalid sat sort pages ver = DLocked ver
          else
            (exists t, resolve_oci cvalid sat sort pages ver = DLocked t /\
                       best_tag (constraints_check cs) (all_tags pages) t) \/
            (resolve_oci cvalid sat sort pages ver = DMissing /\
             none_tag (constraints_check cs) (all_tags pages))
      end.
Proof.
  intros sort Hp Hs pages ver. unfold resolve_oci, resolve_oci_tags.
  destruct (new_constraint ver) as [cs|] eqn:E.
  - assert (Hc : cvalid ver = true) by (unfold cvalid; now rewrite E). rewrite Hc. simpl negb. cbv iota.
    destruct (is_valid_version ver) eqn:V.
    + simpl find. destruct (tag_sat sat ver ver); reflexivity.
    + pose proof (first_tag_best sat ver (client_tags sort pages) (client_tags_sorted sort Hp Hs pages)) as H.
      pose proof (client_tags_perm sort Hp pages) as P.
      destruct (find (tag_sat sat ver) (client_tags sort pages)) as [t|].
      * left. exists t. split; auto.
        eapply best_tag_perm; [exact P|]. eapply best_tag_ext; [|exact H]. apply sat_parsed; auto.
      * right. split; auto.
        eapply none_tag_perm; [exact P|]. eapply none_tag_ext; [|exact H]. apply sat_parsed; auto.
  - assert (Hc : cvalid ver = false) by (unfold cvalid; now rewrite E). now rewrite Hc.
Qed.

(* before fix ac0e5ef: no tag of the listing is in range, and the dependency was locked all the
   same, to the text of the range; the repaired branch reports it as missing *)
Lemma resolve_oci_unrepaired_refuted :
  exists pages ver cs,
    new_constraint ver = Some cs /\ is_valid_version ver = false /\
    none_tag (constraints_check cs) (all_tags pages) /\
    resolve_oci_unrepaired cvalid sat sisort pages ver = DLocked ver /\
    resolve_oci cvalid sat sisort pages ver = DMissing.
Proof.
  exists [["0.9.0"; "1.0.0"]; ["2.1.0"; "latest"]], ">=3.0.0".
  destruct (new_constraint ">=3.0.0") as [cs|] eqn:E; [|vm_compute in E; discriminate].
  exists cs. split; auto. split; [reflexivity|].
  pose proof (resolve_oci_thm sisort sisort_perm sisort_sorted [["0.9.0"; "1.0.0"]; ["2.1.0"; "latest"]] ">=3.0.0") as H.
  rewrite E in H. change (is_valid_version ">=3.0.0") with false in H. cbv iota in H.
  assert (R : resolve_oci cvalid sat sisort [["0.9.0"; "1.0.0"]; ["2.1.0"; "latest"]] ">=3.0.0" = DMissing)
    by (vm_compute; reflexivity).
  split; [|split; [vm_compute; reflexivity|exact R]].
  destruct H as [(t & Ht & _)|(_ & N)]; auto.
  rewrite R in Ht. discriminate.
Qed.

(* ---------- independence of the paging ---------- *)

Lemma all_tags_perm pages pages' :
  Permutation (List.concat pages) (List.concat pages') -> Permutation (all_tags pages) (all_tags pages').
Proof.
  intros P. unfold all_tags, collected. apply Permutation_map.
  induction P; simpl.
  - constructor.
  - now apply Permutation_app_head.
  - rewrite !app_assoc. apply Permutation_app_tail. apply Permutation_app_comm.
  - eapply perm_trans; eauto.
Qed.

Lemma best_tag_both p l t t' : best_tag p l t -> best_tag p l t' -> tge t t' /\ tge t' t.
Proof.
  intros (I1 & (v1 & P1 & Q1) & M1) (I2 & (v2 & P2 & Q2) & M2). split.
  - eapply M1; eauto.
  - eapply M2; eauto.
Qed.

Lemma best_none_absurd p l t : best_tag p l t -> none_tag p l -> False.
Proof. intros (I & (v & P & Q) & _) N. rewrite (N t v I P) in Q. discriminate. Qed.

Lemma oci_page_invariant_thm :
  forall sort sort' : list sversion -> list sversion,
    (forall l, Permutation l (sort l)) ->
    (forall l, StronglySorted (fun a b => sless a b = false) (sort l)) ->
    (forall l, Permutation l (sort' l)) ->
    (forall l, StronglySorted (fun a b => sless a b = false) (sort' l)) ->
    forall pages pages',
      Permutation (List.concat pages) (List.concat pages') ->
      forall ver,
        tag_equiv (tag_match cvalid sat (client_tags sort pages) ver)
                  (tag_match cvalid sat (client_tags sort' pages') ver).
Proof.
  intros sort sort' Hp Hs Hp' Hs' pages pages' P ver.
  pose proof (all_tags_perm _ _ P) as PA.
  destruct (oci_tag_match_thm sort Hp Hs pages ver) as (_ & A1 & A2 & A3).
  destruct (oci_tag_match_thm sort' Hp' Hs' pages' ver) as (_ & B1 & B2 & B3).
  destruct (String.eqb ver "") eqn:Ev.
  - apply String.eqb_eq in Ev.
    destruct (A1 Ev) as [(t & E & B)|(E & N)]; destruct (B1 Ev) as [(t' & E' & B')|(E' & N')];
      rewrite E, E'; simpl; auto.
    + right. eapply best_tag_both; eauto. eapply best_tag_perm; [apply Permutation_sym|]; eauto.
    + eapply best_none_absurd; eauto. eapply none_tag_perm; [apply Permutation_sym|]; eauto.
    + eapply best_none_absurd; eauto. eapply none_tag_perm; eauto.
  - apply String.eqb_neq in Ev.
    destruct (in_dec string_dec ver (all_tags pages)) as [Hin|Hn].
    + rewrite (A2 Ev Hin), (B2 Ev (Permutation_in _ PA Hin)). simpl. auto.
    + assert (Hn' : ~ In ver (all_tags pages')).
      { intros H. apply Hn. eapply Permutation_in; [apply Permutation_sym|]; eauto. }
      specialize (A3 Ev Hn). specialize (B3 Ev Hn').
      destruct (new_constraint ver) as [cs|].
      * destruct A3 as [(t & E & B)|(E & N)]; destruct B3 as [(t' & E' & B')|(E' & N')];
          rewrite E, E'; simpl; auto.
        -- right. eapply best_tag_both; eauto. eapply best_tag_perm; [apply Permutation_sym|]; eauto.
        -- eapply best_none_absurd; eauto. eapply none_tag_perm; [apply Permutation_sym|]; eauto.
        -- eapply best_none_absurd; eauto. eapply none_tag_perm; eauto.
      * rewrite A3, B3. simpl. auto.
Qed.

(* non-vacuity: the listing of seeded change C18-7, three pages in the registry's order *)
Definition ex_pages : list (list string) :=
  [["0.9.0"; "1.0.0"; "1.1.0"]; ["1.10.0"; "1.2.0"; "1.3.0-rc.1"]; ["2.0.0"; "2.1.0_b1"; "latest"; "1.2.3-a..b"]].

Lemma example_oci :
  client_tags sisort ex_pages =
    ["2.1.0+b1"; "2.0.0"; "1.10.0"; "1.3.0-rc.1"; "1.2.3-a..b"; "1.2.0"; "1.1.0"; "1.0.0"; "0.9.0"] /\
  validate_reference cvalid sat sisort ex_pages "" = VROk "2.1.0+b1" /\
  validate_reference cvalid sat sisort ex_pages "^1.0.0" = VROk "1.10.0" /\
  validate_reference cvalid sat sisort ex_pages ">=1.0.0 <2.0.0-0" = VROk "1.10.0" /\
  validate_reference cvalid sat sisort ex_pages "1.2.3-a..b" = VROk "1.2.3-a..b" /\
  validate_reference cvalid sat sisort ex_pages ">=1.2.1-0 <1.3.0-0" = VRErrNotFound /\
  validate_reference cvalid sat sisort ex_pages ">=3" = VRErrNotFound /\
  validate_reference cvalid sat sisort ex_pages "7.7.7" = VROk "7.7.7" /\
  validate_reference cvalid sat sisort [["latest"]; []] "" = VRErrNoTags /\
  resolve_oci cvalid sat sisort ex_pages "^1.0.0" = DLocked "1.10.0" /\
  resolve_oci cvalid sat sisort ex_pages "2.x" = DLocked "2.1.0+b1" /\
  resolve_oci cvalid sat sisort ex_pages "1.2.3" = DLocked "1.2.3" /\
  resolve_oci cvalid sat sisort ex_pages ">=3" = DMissing /\
  resolve_oci cvalid sat sisort ex_pages "latest" = DFail.
Proof. vm_compute. repeat split; reflexivity. Qed.

(* ---------- the literal comparePrerelease loop is the key order ---------- *)

(* decimal numerals without leading zeros denote different numbers *)
Lemma digits_val_acc acc s :
  digits_val acc s = (acc * 10 ^ N.of_nat (String.length s) + digits_val 0 s)%N.
Proof.
  revert acc. induction s as [|c s IH]; intros acc.
  - simpl. lia.
  - cbn [digits_val String.length]. rewrite (IH (acc * 10 + _)%N), (IH (0 * 10 + _)%N).
    rewrite Nat2N.inj_succ, N.pow_succ_r'. lia.
Qed.

Lemma digit_val_small c : is_digit c = true -> (N_of_ascii c - 48 < 10)%N.
Proof. unfold is_digit. intros H. apply andb_true_iff in H. destruct H as [H1 H2]. lia. Qed.

Lemma digits_val_bound s :
  str_forall is_digit s = true -> (digits_val 0 s < 10 ^ N.of_nat (String.length s))%N.
Proof.
  induction s as [|c s IH]; intros H.
  - simpl. lia.
  - simpl in H. apply andb_true_iff in H. destruct H as [Hc Hs].
    cbn [digits_val String.length]. rewrite digits_val_acc, Nat2N.inj_succ, N.pow_succ_r'.
    pose proof (digit_val_small c Hc). specialize (IH Hs). nia.
Qed.

Lemma digit_char_inj c d :
  is_digit c = true -> is_digit d = true -> (N_of_ascii c - 48 = N_of_ascii d - 48)%N -> c = d.
Proof.
  unfold is_digit. intros Hc Hd E. apply andb_true_iff in Hc, Hd.
  assert (N_of_ascii c = N_of_ascii d) by lia.
  rewrite <- (ascii_N_embedding c), <- (ascii_N_embedding d). congruence.
Qed.

Lemma digits_val_inj_len a b :
  String.length a = String.length b ->
  str_forall is_digit a = true -> str_forall is_digit b = true ->
  digits_val 0 a = digits_val 0 b -> a = b.
Proof.
  revert b. induction a as [|c a IH]; intros [|d b] L Ha Hb E; simpl in L; try discriminate; auto.
  simpl in Ha, Hb. apply andb_true_iff in Ha, Hb. destruct Ha as [Hc Ha], Hb as [Hd Hb].
  cbn [digits_val] in E. rewrite (digits_val_acc _ a), (digits_val_acc _ b) in E.
  injection L as L. rewrite L in E.
  pose proof (digits_val_bound a Ha) as Ba. pose proof (digits_val_bound b Hb) as Bb. rewrite L in Ba.
  pose proof (digit_val_small c Hc). pose proof (digit_val_small d Hd).
  assert (N_of_ascii c - 48 = N_of_ascii d - 48 /\ digits_val 0 a = digits_val 0 b)%N as [E1 E2].
  { clear IH H H0. revert E Ba Bb.
    generalize (N_of_ascii c - 48)%N as x. generalize (N_of_ascii d - 48)%N as y.
    generalize (10 ^ N.of_nat (String.length b))%N as P.
    generalize (digits_val 0 a) as va. generalize (digits_val 0 b) as vb.
    intros vb va P y x E Ba Bb.
    destruct (N.lt_trichotomy x y) as [Hlt|[Heq|Hgt]].
    - exfalso. assert ((x + 1) * P <= y * P)%N by (apply N.mul_le_mono_r; lia). lia.
    - subst. lia.
    - exfalso. assert ((y + 1) * P <= x * P)%N by (apply N.mul_le_mono_r; lia). lia. }
  f_equal; [now apply digit_char_inj|now apply IH].
Qed.

Lemma digits_val_lower s :
  str_forall is_digit s = true -> leading_zero s = false -> (2 <= String.length s)%nat ->
  (10 ^ N.of_nat (String.length s - 1) <= digits_val 0 s)%N.
Proof.
  destruct s as [|c s]; simpl; [lia|]. intros H LZ L.
  apply andb_true_iff in H. destruct H as [Hc Hs].
  rewrite digits_val_acc. rewrite Nat.sub_0_r.
  assert (1 <= N_of_ascii c - 48)%N.
  { destruct s as [|c' s']; [simpl in L; lia|].
    assert (c <> "0"%char) by (intros ->; simpl in LZ; discriminate).
    unfold is_digit in Hc. apply andb_true_iff in Hc.
    assert (N_of_ascii c <> 48%N).
    { intros E. apply H. rewrite <- (ascii_N_embedding c), E. reflexivity. }
    lia. }
  nia.
Qed.

Lemma canonical_numeral_inj a b :
  str_forall is_digit a = true -> str_forall is_digit b = true ->
  a <> "" -> b <> "" -> leading_zero a = false -> leading_zero b = false ->
  digits_val 0 a = digits_val 0 b -> a = b.
Proof.
  intros Ha Hb Na Nb Za Zb E.
  destruct (Nat.eq_dec (String.length a) (String.length b)) as [L|L].
  - now apply digits_val_inj_len.
  - exfalso.
    assert (G : forall x y, str_forall is_digit x = true -> str_forall is_digit y = true ->
                            x <> "" -> leading_zero y = false ->
                            (String.length x < String.length y)%nat ->
                            (digits_val 0 x < digits_val 0 y)%N).
    { intros x y Hx Hy Nx Zy Lt.
      pose proof (digits_val_bound x Hx) as Bx.
      assert (2 <= String.length y)%nat by (destruct x; [congruence|simpl in Lt; lia]).
      pose proof (digits_val_lower y Hy Zy H) as Ly.
      assert (10 ^ N.of_nat (String.length x) <= 10 ^ N.of_nat (String.length y - 1))%N.
      { apply N.pow_le_mono_r; lia. }
      lia. }
    destruct (Nat.lt_ge_cases (String.length a) (String.length b)) as [Lt|Ge].
    + pose proof (G a b Ha Hb Na Zb Lt). lia.
    + assert (Lt : (String.length b < String.length a)%nat) by lia.
      pose proof (G b a Hb Ha Nb Za Lt). lia.
Qed.

Lemma parse_uint_digits s n : parse_uint s = Some n ->
  str_forall is_digit s = true /\ s <> "" /\ n = digits_val 0 s.
Proof.
  unfold parse_uint. destruct (str_is_empty s) eqn:E; [discriminate|].
  destruct (str_forall is_digit s); [|discriminate].
  destruct (digits_val 0 s <=? uint64_max)%N; [|discriminate].
  intros H. inversion H. apply str_is_empty_false in E. auto.
Qed.

(* comparePrePart on validated identifiers (the empty one included) *)
Lemma go_pre_part_embed a b :
  strict_pre_part_ok a = true -> strict_pre_part_ok b = true ->
  go_pre_part a b = ident_compare (embed a) (embed b).
Proof.
  intros Va Vb. unfold go_pre_part.
  destruct (String.eqb a b) eqn:E.
  { apply String.eqb_eq in E. subst. symmetry. apply (gc_refl _ good_ident). }
  apply String.eqb_neq in E.
  unfold embed.
  destruct (str_is_empty a) eqn:Ea.
  { apply str_is_empty_true in Ea. subst a.
    destruct (str_is_empty b) eqn:Eb.
    - apply str_is_empty_true in Eb. congruence.
    - destruct (parse_uint b); cbn [ident_compare]; auto. symmetry. apply N.compare_lt_iff. lia. }
  destruct (str_is_empty b) eqn:Eb.
  { destruct (parse_uint a); cbn [ident_compare]; auto. symmetry. apply N.compare_gt_iff. lia. }
  destruct (parse_uint b) as [y|] eqn:Ub; destruct (parse_uint a) as [x|] eqn:Ua; cbn [ident_compare]; auto.
  - (* two numbers *)
    destruct (parse_uint_digits _ _ Ua) as (Da & Na & ->). destruct (parse_uint_digits _ _ Ub) as (Db & Nb & ->).
    unfold strict_pre_part_ok in Va, Vb. rewrite Da in Va. rewrite Db in Vb.
    apply negb_true_iff in Va, Vb.
    assert (digits_val 0 a <> digits_val 0 b).
    { intros H. apply E. now apply canonical_numeral_inj. }
    destruct (N.ltb_spec (digits_val 0 b) (digits_val 0 a)); symmetry.
    + apply N.compare_gt_iff. lia.
    + apply N.compare_lt_iff. lia.
  - (* two strings *)
    destruct (String.compare a b) eqn:C; auto.
    apply (gc_eq _ good_string) in C. congruence.
Qed.

Definition all_empty (l : list string) : bool := forallb str_is_empty l.

Lemma strip_all_empty l : all_empty l = true -> strip_trailing_empty l = [].
Proof.
  induction l as [|a l IH]; simpl; auto. intros H. apply andb_true_iff in H. destruct H as [Ha Hl].
  now rewrite (IH Hl), Ha.
Qed.

Lemma strip_not_all_empty l : all_empty l = false -> strip_trailing_empty l <> [].
Proof.
  induction l as [|a l IH]; simpl; [discriminate|]. intros H.
  destruct (all_empty l) eqn:Al.
  - rewrite andb_true_r in H. rewrite (strip_all_empty _ Al), H. discriminate.
  - specialize (IH eq_refl). destruct (strip_trailing_empty l); [congruence|discriminate].
Qed.

Lemma embed_empty : embed "" = INum 0.
Proof. reflexivity. Qed.

Lemma embed_pos p : str_is_empty p = false -> ident_compare (INum 0) (embed p) = Lt.
Proof.
  intros E. unfold embed. rewrite E. destruct (parse_uint p); cbn [ident_compare]; auto.
  apply N.compare_lt_iff. lia.
Qed.

(* the rest of the loop once one side is exhausted *)
Lemma go_pre_loop_nil_l o :
  go_pre_loop [] o = if all_empty o then Eq else Lt.
Proof.
  simpl. induction o as [|b o IH]; simpl; auto.
  unfold go_pre_part. destruct (str_is_empty b) eqn:Eb; simpl.
  - apply str_is_empty_true in Eb. subst. simpl. exact IH.
  - destruct b; [discriminate|]. reflexivity.
Qed.

Lemma go_pre_loop_nil_r s :
  go_pre_loop s [] = if all_empty s then Eq else Gt.
Proof.
  induction s as [|a s IH]; simpl; auto.
  unfold go_pre_part. destruct (str_is_empty a) eqn:Ea; simpl.
  - apply str_is_empty_true in Ea. subst. simpl. exact IH.
  - destruct a; [discriminate|]. reflexivity.
Qed.

Lemma pre_lex_nil_l l : pre_lex [] l = match l with [] => Eq | _ => Lt end.
Proof. destruct l; reflexivity. Qed.

Lemma pre_lex_nil_r l : pre_lex l [] = match l with [] => Eq | _ => Gt end.
Proof. destruct l; reflexivity. Qed.

Lemma go_pre_loop_key s o :
  forallb strict_pre_part_ok s = true -> forallb strict_pre_part_ok o = true ->
  go_pre_loop s o = pre_lex (map embed (strip_trailing_empty s)) (map embed (strip_trailing_empty o)).
Proof.
  revert o. induction s as [|a s IH]; intros o Vs Vo.
  - rewrite go_pre_loop_nil_l. cbn [strip_trailing_empty map]. rewrite pre_lex_nil_l.
    destruct (all_empty o) eqn:Ao.
    + now rewrite (strip_all_empty _ Ao).
    + apply strip_not_all_empty in Ao. destruct (strip_trailing_empty o); [congruence|reflexivity].
  - destruct o as [|b o].
    + rewrite go_pre_loop_nil_r. simpl (strip_trailing_empty []). simpl (map embed []). rewrite pre_lex_nil_r.
      destruct (all_empty (a :: s)) eqn:As.
      * now rewrite (strip_all_empty _ As).
      * apply strip_not_all_empty in As. destruct (strip_trailing_empty (a :: s)); [congruence|reflexivity].
    + simpl in Vs, Vo. apply andb_true_iff in Vs, Vo. destruct Vs as [Va Vs], Vo as [Vb Vo].
      cbn [go_pre_loop]. rewrite (go_pre_part_embed a b Va Vb), (IH o Vs Vo).
      cbn [strip_trailing_empty].
      destruct (strip_trailing_empty s) as [|s1 sr] eqn:Ss; destruct (strip_trailing_empty o) as [|o1 or] eqn:So;
        cbn [map pre_lex].
      * destruct (str_is_empty a) eqn:Ea; destruct (str_is_empty b) eqn:Eb; cbn [map pre_lex].
        -- apply str_is_empty_true in Ea, Eb. subst. reflexivity.
        -- apply str_is_empty_true in Ea. subst. rewrite embed_empty, (embed_pos _ Eb). reflexivity.
        -- apply str_is_empty_true in Eb. subst. rewrite embed_empty.
           rewrite (gc_sym _ good_ident (INum 0) (embed a)), (embed_pos _ Ea). reflexivity.
        -- unfold lex. destruct (ident_compare (embed a) (embed b)); reflexivity.
      * destruct (str_is_empty a) eqn:Ea; cbn [map pre_lex].
        -- apply str_is_empty_true in Ea. subst. rewrite embed_empty.
           destruct (str_is_empty b) eqn:Eb.
           ++ apply str_is_empty_true in Eb. subst. reflexivity.
           ++ rewrite (embed_pos _ Eb). reflexivity.
        -- reflexivity.
      * destruct (str_is_empty b) eqn:Eb; cbn [map pre_lex].
        -- apply str_is_empty_true in Eb. subst. rewrite embed_empty.
           destruct (str_is_empty a) eqn:Ea.
           ++ apply str_is_empty_true in Ea. subst. reflexivity.
           ++ rewrite (gc_sym _ good_ident (INum 0) (embed a)), (embed_pos _ Ea). reflexivity.
        -- reflexivity.
      * reflexivity.
Qed.

Lemma go_scompare_key ta tb a b :
  strict_parse ta = Some a -> strict_parse tb = Some b -> go_scompare a b = scompare a b.
Proof.
  intros Ha Hb.
  destruct (strict_parse_some _ _ Ha) as (_ & _ & _ & _ & _ & _ & Va & _).
  destruct (strict_parse_some _ _ Hb) as (_ & _ & _ & _ & _ & _ & Vb & _).
  unfold go_scompare, scompare, skey, skey_compare, spre_key.
  f_equal. f_equal. f_equal.
  destruct (str_is_empty (s_pre a)); destruct (str_is_empty (s_pre b)); simpl; auto.
  unfold go_compare_prerelease. now apply go_pre_loop_key.
Qed.

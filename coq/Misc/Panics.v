(* C20 — "malformed input produces an error, never a crash".
   A Gallina function is total, so a Go panic has to be made an explicit outcome: the
   Helm-owned glue of every entry point is transcribed into this three-valued monad, and
   every Go operation that can panic (nil dereference, unchecked type assertion, slice
   index, write to a nil map) is written with one of the primitives below, guarded by
   exactly the check the Go code makes before it.  [recover] models a deferred recover()
   that turns the panic into an error return.  Definitions only; proofs in PanicsProofs.v
   and in the per-entry-point files. *)
From Coq Require Import List String Ascii Bool ZArith.
From Helm Require Import Values.Tree.
Import ListNotations.
Local Open Scope string_scope.

Inductive res (A : Type) : Type :=
| Ok (a : A)
| Err
| Panic (why : string).
Arguments Ok {A} a.
Arguments Err {A}.
Arguments Panic {A} why.

Definition bind {A B : Type} (r : res A) (f : A -> res B) : res B :=
  match r with
  | Ok a => f a
  | Err => Err
  | Panic w => Panic w
  end.

Notation "x <- r ;; k" := (bind r (fun x => k)) (at level 61, r at next level, right associativity).

Definition no_panic {A : Type} (r : res A) : Prop :=
  match r with Panic _ => False | _ => True end.

Definition is_panic {A : Type} (r : res A) : bool :=
  match r with Panic _ => true | _ => false end.

(* the three-way classification that is compared with the implementation *)
Inductive cls := COk | CErr | CPanic.

Definition classify {A : Type} (r : res A) : cls :=
  match r with Ok _ => COk | Err => CErr | Panic _ => CPanic end.

Definition cls_eqb (a b : cls) : bool :=
  match a, b with COk, COk | CErr, CErr | CPanic, CPanic => true | _, _ => false end.

(* p.f / *p on a pointer that may be nil *)
Definition deref {A : Type} (what : string) (p : option A) : res A :=
  match p with
  | Some a => Ok a
  | None => Panic ("nil pointer dereference: " ++ what)
  end.

(* defer func() { if r := recover(); r != nil { err = ... } }() *)
Definition recover {A : Type} (r : res A) : res A :=
  match r with Panic _ => Err | x => x end.

(* l[i] with a Go int index *)
Definition index {A : Type} (l : list A) (i : Z) : res A :=
  if Z.ltb i 0 then Panic "index out of range (negative)"
  else match nth_error l (Z.to_nat i) with
       | Some a => Ok a
       | None => Panic "index out of range"
       end.

(* unchecked x.(string) / x.(map[string]interface{}) / x.([]interface{}) on an interface
   value; None is the nil interface (e.g. a missing map key) *)
Definition cast_string (x : option val) : res string :=
  match x with
  | Some (VStr s) => Ok s
  | _ => Panic "interface conversion: not a string"
  end.

Definition cast_map (x : option val) : res vmap :=
  match x with
  | Some (VMap m) => Ok m
  | _ => Panic "interface conversion: not a map[string]interface {}"
  end.

Definition cast_list (x : option val) : res (list val) :=
  match x with
  | Some (VList l) => Ok l
  | _ => Panic "interface conversion: not a []interface {}"
  end.

(* the checked forms  v, ok := x.(T) *)
Definition as_string (x : option val) : option string :=
  match x with Some (VStr s) => Some s | _ => None end.

Definition as_map (x : option val) : option vmap :=
  match x with Some (VMap m) => Some m | _ => None end.

(* strings.Split(s, ".") — never returns an empty slice *)
Fixpoint split_dot_aux (cur : string) (s : string) : list string :=
  match s with
  | EmptyString => [cur]
  | String c t =>
      if Ascii.eqb c "."%char then cur :: split_dot_aux EmptyString t
      else split_dot_aux (cur ++ String c EmptyString) t
  end.

Definition split_dot (s : string) : list string := split_dot_aux EmptyString s.

(* strings.Split(s, ",") *)
Fixpoint split_comma_aux (cur : string) (s : string) : list string :=
  match s with
  | EmptyString => [cur]
  | String c t =>
      if Ascii.eqb c ","%char then cur :: split_comma_aux EmptyString t
      else split_comma_aux (cur ++ String c EmptyString) t
  end.

Definition split_comma (s : string) : list string := split_comma_aux EmptyString s.

Fixpoint join_dot (l : list string) : string :=
  match l with
  | [] => EmptyString
  | [a] => a
  | a :: t => a ++ "." ++ join_dot t
  end.

(* Proofs for Misc/PanicsSchema.v *)
From Coq Require Import List String Bool.
From Helm Require Import Values.Tree Misc.Panics Misc.PanicsDepsProofs Misc.PanicsSchema.
Import ListNotations.
Local Open Scope string_scope.

Section P.
  Variable S : Type.
  Variable lib_validate : S -> vmap -> res bool.

  Lemma validate_single_no_panic s values : no_panic (validate_single S lib_validate s values).
  Proof. unfold validate_single. destruct (lib_validate s values); simpl; auto. Qed.

  Section SInd.
    Variable P : schart S -> Prop.
    Hypothesis H : forall name schema subs, Forall P subs -> P (SChart S name schema subs).
    Fixpoint schart_ind' (c : schart S) : P c :=
      match c with
      | SChart _ name schema subs =>
          H name schema subs ((fix go (l : list (schart S)) : Forall P l :=
                                 match l with
                                 | [] => Forall_nil _
                                 | x :: t => Forall_cons _ (schart_ind' x) (go t)
                                 end) subs)
      end.
  End SInd.

  Theorem validate_schema_no_panic c : forall values,
    no_panic (validate_schema S lib_validate true c values).
  Proof.
    induction c as [name schema subs IH] using schart_ind'. intros values. simpl.
    match goal with |- no_panic (bind ?r _) => assert (Hown : no_panic r) end.
    { destruct schema; simpl; auto. apply validate_single_no_panic. }
    match goal with |- no_panic (bind ?r _) => destruct r as [own| |] end; simpl in *; auto.
    match goal with |- no_panic (bind ?r _) => assert (Hr : no_panic r) end.
    { induction IH as [|sub t Hsub Ht IHt]; simpl; auto.
      destruct sub as [sname sschema ssubs].
      match goal with |- no_panic (bind ?r _) => assert (Hx : no_panic r) end.
      { destruct (mget sname values) as [[]|]; simpl; auto. apply Hsub. }
      match goal with |- no_panic (bind ?r _) => destruct r end; simpl in *; auto.
      match goal with |- no_panic (bind ?r _) => destruct r end; simpl in *; auto. }
    match goal with |- no_panic (bind ?r _) => destruct r end; simpl in *; auto.
  Qed.
End P.

(* the walk before a1cf667 panics when the values have no table for a subchart *)
Lemma validate_schema_unchecked_panics :
  is_panic (validate_schema unit (fun _ _ => Ok true) false
              (SChart unit "top" None [SChart unit "sub" None []]) [("a", VStr "x")]) = true.
Proof. vm_compute. reflexivity. Qed.

(* ... and the library panicking inside ValidateAgainstSingleSchema is an error, not a crash *)
Lemma validate_single_recovers :
  validate_single unit (fun _ _ => Panic "boom") tt [] = Ok false.
Proof. reflexivity. Qed.

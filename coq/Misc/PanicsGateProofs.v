(* Proofs about the file-type gate of LoadDir (Misc/PanicsGate.v): exhaustive over the finite
   domains (7 type bits = 128 modes; 15 kinds of directory entry; the flags). *)
From Coq Require Import List String Bool.
From Helm Require Import Misc.PanicsGate.
Import ListNotations.
Local Open Scope string_scope.

Lemma in_bools : forall b : bool, In b bools.
Proof. intros []; simpl; auto. Qed.

Lemma all_modes_complete : forall m : fmode, In m all_modes.
Proof.
  intros [a b c d e f g]. unfold all_modes.
  apply in_flat_map. exists a. split; [apply in_bools|].
  apply in_flat_map. exists b. split; [apply in_bools|].
  apply in_flat_map. exists c. split; [apply in_bools|].
  apply in_flat_map. exists d. split; [apply in_bools|].
  apply in_flat_map. exists e. split; [apply in_bools|].
  apply in_flat_map. exists f. split; [apply in_bools|].
  apply in_map. apply in_bools.
Qed.

(* the gate as it stands refuses exactly the modes that are not regular — over all 128
   combinations of type bits, not only those a file system produces *)
Lemma gate_is_not_regular : forall m, gate_not_regular m = negb (is_regular m).
Proof. reflexivity. Qed.

(* only what resolves to a regular file is ever opened *)
Theorem only_regular_opened : forall (top : bool) (e : etype) (ignored size_ok : bool),
  entry_action gate_not_regular top e ignored size_ok = AOpen -> resolved e = Some FRegular.
Proof.
  intros top e ign sz. destruct top, ign, sz, e as [[]|[[]|]]; simpl; intro H;
    try discriminate; reflexivity.
Qed.

(* what happens to every kind of entry (below the top directory) *)
Theorem entry_table : forall (e : etype) (ignored size_ok : bool),
  entry_action gate_not_regular false e ignored size_ok =
  match resolved e with
  | None => AErr
  | Some FDir => if ignored then ASkipDir else ADescend
  | Some FRegular => if ignored then ASkipFile else if size_ok then AOpen else AErr
  | Some _ => if ignored then ASkipFile else AErr
  end.
Proof. intros e ign sz. destruct ign, sz, e as [[]|[[]|]]; reflexivity. Qed.

(* the same over raw mode bits: the callback opens a file only if no type bit is set *)
Theorem walk_fn_opens_regular_only : forall (top lerr : bool) (m : fmode) (ignored size_ok : bool),
  walk_fn gate_not_regular top lerr m ignored size_ok = AOpen -> is_regular m = true.
Proof.
  intros top lerr m ign sz. unfold walk_fn, gate_not_regular.
  destruct top, lerr, (is_dir m), ign, (is_regular m), sz; simpl; intro H;
    try discriminate; reflexivity.
Qed.

(* over a whole directory tree: everything the walk opens resolves to a regular file *)
Theorem walk_opens_regular_only : forall n : node,
  Forall (fun e => resolved e = Some FRegular) (opened gate_not_regular n).
Proof.
  fix IH 1. intros [name e ign kids]. simpl.
  destruct (entry_action gate_not_regular false e ign true) eqn:A; try constructor.
  - induction kids as [|x t IHt]; [constructor|]. apply Forall_app. split; [apply IH|exact IHt].
  - eapply only_regular_opened. exact A.
  - constructor.
Qed.

(* a walk that succeeds read exactly the opened entries *)
Lemma walk_node_length gate : forall n prefix names,
  walk_node gate prefix n = Some names -> List.length names = List.length (opened gate n).
Proof.
  fix IH 1. intros [name e ign kids] prefix names. simpl.
  destruct (entry_action gate false e ign true); intro H; try discriminate;
    try (injection H as <-; reflexivity).
  revert names H. induction kids as [|x t IHt]; intros names H.
  - injection H as <-. reflexivity.
  - destruct (walk_node gate ((prefix ++ name) ++ "/") x) as [a|] eqn:W; [|discriminate].
    match type of H with match ?g with _ => _ end = _ => destruct g as [b|] eqn:G; [|discriminate] end.
    injection H as <-. rewrite !app_length. rewrite (IH _ _ _ W). f_equal. apply IHt. reflexivity.
Qed.

(* the seeded change C20-8 (refuse only device / char device / socket bits): a named pipe,
   directly or behind a symbolic link, and a file with ModeIrregular reach os.ReadFile *)
Lemma gate_c20_8_opens_pipe :
  entry_action gate_c20_8 false (TPlain FPipe) false true = AOpen /\
  entry_action gate_c20_8 false (TSymlink (Some FPipe)) false true = AOpen /\
  entry_action gate_c20_8 false (TPlain FIrregular) false true = AOpen /\
  existsb (fun m => negb (Bool.eqb (gate_c20_8 m) (negb (is_regular m)))) all_modes = true.
Proof. repeat split; vm_compute; reflexivity. Qed.

Lemma gate_c20_8_walk :
  walk_node gate_c20_8 "" (Node "templates" (TPlain FDir) false [Node "p.fifo" (TPlain FPipe) false []])
    = Some ["templates/p.fifo"] /\
  walk_node gate_not_regular "" (Node "templates" (TPlain FDir) false [Node "p.fifo" (TPlain FPipe) false []])
    = None.
Proof. split; reflexivity. Qed.

Lemma bool_lists_complete : forall o : list bool, In o (bool_lists (List.length o)).
Proof.
  induction o as [|a o IH]; simpl; [left; reflexivity|].
  apply in_flat_map. exists o. split; [exact IH|]. destruct a; simpl; auto.
Qed.

(* C19 — model of how repository credentials reach the HTTP getter.

   Transcribed from (pin 879d158 + fix commits):
     pkg/getter/getter.go        options, WithURL / WithBasicAuth / WithPassCredentialsAll
     pkg/getter/httpgetter.go    HTTPGetter.Get (options are applied to the PERSISTENT g.opts), get
     pkg/downloader/chart_downloader.go   ResolveChartVersion (three branches), DownloadTo
     pkg/repo/chartrepo.go       DownloadIndexFile (option list), FindChartInRepoURL
     pkg/action/install.go       ChartPathOptions.LocateChart (remote part)
     pkg/action/pull.go          Pull.Run (option list, --repo lookup)
     pkg/downloader/manager.go   findChartURL, downloadAll (per-dependency option list)

   A URL is the record net/url produces; parsing is a Section variable [parse] (the harness
   supplies Go's url.Parse results as a table).  Every [OBasicAuth] carries a GHOST tag [src]:
   the URL of the repository the credentials were configured for.  The tag has no influence
   on any decision; it only lets the theorems say whose credentials were attached. *)
From Coq Require Import List String Ascii Bool.
Import ListNotations.
Local Open Scope string_scope.

(* u_str is URL.String() (what DownloadTo passes to the getter after re-serialising) *)
Record url := mkUrl { u_scheme : string; u_host : string; u_path : string; u_user : option string;
                      u_str : string }.

Inductive opt :=
| OUrl (s : string)                                  (* getter.WithURL *)
| OBasicAuth (user pass : string) (src : string)     (* getter.WithBasicAuth; src is ghost *)
| OPassAll (b : bool)                                (* getter.WithPassCredentialsAll *)
| OOther.                                            (* TLS / accept header / timeout / transport ... *)

(* getter.options, the fields that matter *)
Record gopts := mkOpts { g_url : string; g_user : string; g_pass : string; g_src : string; g_pass_all : bool }.

Definition gopts0 : gopts := mkOpts "" "" "" "" false.

Definition apply_opt (o : gopts) (x : opt) : gopts :=
  match x with
  | OUrl s => mkOpts s (g_user o) (g_pass o) (g_src o) (g_pass_all o)
  | OBasicAuth u p src => mkOpts (g_url o) u p src (g_pass_all o)
  | OPassAll b => mkOpts (g_url o) (g_user o) (g_pass o) (g_src o) b
  | OOther => o
  end.

(* for _, opt := range options { opt(&g.opts) }  — later options win *)
Definition apply_opts (o : gopts) (l : list opt) : gopts := fold_left apply_opt l o.

Definition nonempty (s : string) : bool := negb (String.eqb s "").

(* u1.Scheme == u2.Scheme && u1.Host == u2.Host  (Host includes the port as spelled) *)
Definition same_origin (u1 u2 : url) : bool :=
  String.eqb (u_scheme u1) (u_scheme u2) && String.eqb (u_host u1) (u_host u2).

(* what one call of the getter does with respect to credentials *)
Inductive cred := Cred (user pass src : string).
Inductive gres :=
| GErr                          (* error before any request is made *)
| GReq (auth : option cred).    (* a request is made; auth = Some c iff SetBasicAuth was called *)

Section Getter.
  Variable parse : string -> option url.      (* net/url.Parse *)

  (* HTTPGetter.get *)
  Definition getter_get (o : gopts) (href : string) : gres :=
    match parse (g_url o) with
    | None => GErr
    | Some u1 =>
        match parse href with
        | None => GErr
        | Some u2 =>
            if (g_pass_all o || same_origin u1 u2) && (nonempty (g_user o) && nonempty (g_pass o))
            then GReq (Some (Cred (g_user o) (g_pass o) (g_src o)))
            else GReq None
        end
    end.

  (* HTTPGetter.Get(href, options...): the options stay in the getter *)
  Definition http_get (st : gopts) (href : string) (os : list opt) : gopts * gres :=
    let st' := apply_opts st os in (st', getter_get st' href).

  (* ---------------------------------------------------------------- repository entries *)

  (* repo.Entry plus the URLs its cached index file lists: (chart name, version, urls) *)
  Record entry := mkEntry { e_name : string; e_url : string; e_user : string; e_pass : string;
                            e_pass_all : bool; e_index : list (string * string * list string) }.

  Definition has_creds (e : entry) : bool := nonempty (e_user e) && nonempty (e_pass e).

  (* the credential options appended for a repository entry *)
  Definition entry_cred_opts (e : entry) : list opt :=
    if has_creds e then [OBasicAuth (e_user e) (e_pass e) (e_url e); OPassAll (e_pass_all e)] else [].

  Variable url_equal : string -> string -> bool.    (* internal/urlutil.Equal *)

  Definition index_urls (e : entry) : list string := flat_map (fun x => snd x) (e_index e).

  (* scanReposForURL: the first repository whose cached index lists the URL *)
  Fixpoint scan (u : string) (repos : list entry) : option entry :=
    match repos with
    | [] => None
    | rc :: t => if existsb (url_equal u) (index_urls rc) then Some rc else scan u t
    end.

  Fixpoint pick_by_name (n : string) (repos : list entry) : option entry :=
    match repos with
    | [] => None
    | rc :: t => if String.eqb (e_name rc) n then (if nonempty (e_url rc) then Some rc else None) else pick_by_name n t
    end.

  (* i.Get(chartName, version) followed by repo.ResolveReferenceURL(rc.URL, cv.URLs[0]);
     version selection and reference resolution are the library's: a Section variable,
     supplied as a table.  None = not found / no URLs / unparsable. *)
  Variable lookup : entry -> string -> string -> option string.

  (* strings.SplitN(u.Path, "/", 2) *)
  Fixpoint split_slash (s : string) : option (string * string) :=
    match s with
    | EmptyString => None
    | String c t =>
        if Ascii.eqb c "/"%char then Some (EmptyString, t)
        else match split_slash t with
             | Some (a, b) => Some (String c a, b)
             | None => None
             end
    end.

  Inductive rres := RErr | ROk (u : url) (opts : list opt).

  (* ChartDownloader.ResolveChartVersion, non-OCI part.  [copts] = c.Options on entry;
     the result is the URL to fetch and c.Options on exit. *)
  Definition resolve (copts : list opt) (ref version : string) (repos : list entry) : rres :=
    match parse ref with
    | None => RErr
    | Some u =>
        if nonempty (u_scheme u) && nonempty (u_host u) && nonempty (u_path u) then
          match scan ref repos with
          | None => ROk u (copts ++ [OUrl ref])
          | Some rc => ROk u (copts ++ [OUrl (e_url rc); OOther] ++ entry_cred_opts rc)
          end
        else
          match split_slash (u_path u) with
          | None => RErr
          | Some (repo_name, chart_name) =>
              match pick_by_name repo_name repos with
              | None => RErr
              | Some rc =>
                  match parse (e_url rc) with       (* repo.NewChartRepository *)
                  | None => RErr
                  | Some _ =>
                      match lookup rc chart_name version with
                      | None => RErr
                      | Some resolved =>
                          match parse resolved with
                          | None => RErr
                          | Some ru => ROk ru (copts ++ [OUrl (e_url rc); OOther] ++ entry_cred_opts rc)
                          end
                      end
                  end
              end
          end
    end.

  (* Getters.ByScheme: only the HTTP getter is in the model *)
  Definition http_scheme (s : string) : bool := String.eqb s "http" || String.eqb s "https".

  (* ChartDownloader.DownloadTo: the Get calls it makes, in order, with what each carries.
     [with_prov] = c.Verify > VerifyNever; [first_ok] = the archive request was answered
     200 (otherwise DownloadTo returns before fetching the provenance file).  A fresh getter
     is obtained per call (ByScheme -> New()), the archive is fetched with c.Options..., the
     provenance file with NO options: it relies on the options persisted in the getter. *)
  Definition download_to (copts : list opt) (ref version : string) (repos : list entry)
             (with_prov first_ok : bool) : list (string * gres) :=
    match resolve copts ref version repos with
    | RErr => []
    | ROk u opts =>
        if http_scheme (u_scheme u) then
          let href := u_str u in
          let '(st, r1) := http_get gopts0 href (opts ++ [OOther]) in
          match r1 with
          | GErr => [(href, r1)]
          | GReq _ =>
              if with_prov && first_ok then
                let '(_, r2) := http_get st (href ++ ".prov") [] in [(href, r1); (href ++ ".prov", r2)]
              else [(href, r1)]
          end
        else []
    end.

  (* ChartRepository.DownloadIndexFile: one Get of <repo>/index.yaml *)
  Variable index_url : string -> option string.   (* ResolveReferenceURL(url, "index.yaml") *)

  Definition download_index (e : entry) : list (string * gres) :=
    match index_url (e_url e) with
    | None => []
    | Some iu =>
        [(iu, snd (http_get gopts0 iu [OUrl (e_url e); OOther; OOther;
                                       OBasicAuth (e_user e) (e_pass e) (e_url e); OPassAll (e_pass_all e)]))]
    end.

  (* repo.FindChartInRepoURL(repoURL, name, version, user, pass, passAll): index fetch, then
     the absolute chart URL (a table: [find_in]) *)
  Variable find_in : string -> string -> string -> option string.

  Definition adhoc_entry (repo_url user pass : string) (pa : bool) : entry :=
    mkEntry "" repo_url user pass pa [].

  (* ---------------------------------------------------------------- LocateChart (remote part) *)
  Record cpo := mkCpo { c_repo_url : string; c_user : string; c_pass : string; c_pass_all : bool;
                        c_version : string; c_verify : bool }.

  (* ghost: which repository command-line credentials are meant for *)
  Definition cmdline_src (c : cpo) (name : string) (repos : list entry) : string :=
    if nonempty (c_repo_url c) then c_repo_url c else
      match parse name with
      | Some u =>
          if nonempty (u_scheme u) && nonempty (u_host u) && nonempty (u_path u) then name
          else match split_slash (u_path u) with
               | Some (rn, _) => match pick_by_name rn repos with Some rc => e_url rc | None => "" end
               | None => ""
               end
      | None => ""
      end.

  Definition locate_chart (c : cpo) (name : string) (repos : list entry) (first_ok : bool) : list (string * gres) :=
    let src := cmdline_src c name repos in
    let base := [OPassAll (c_pass_all c); OOther; OOther; OOther; OBasicAuth (c_user c) (c_pass c) src] in
    if nonempty (c_repo_url c) then
      let idx := download_index (adhoc_entry (c_repo_url c) (c_user c) (c_pass c) (c_pass_all c)) in
      match find_in (c_repo_url c) name (c_version c) with
      | None => idx
      | Some chart_url =>
          match parse (c_repo_url c), parse chart_url with
          | Some u1, Some u2 =>
              let last := if c_pass_all c || same_origin u1 u2
                          then OBasicAuth (c_user c) (c_pass c) src else OBasicAuth "" "" "" in
              (idx ++ download_to (base ++ [last]) chart_url (c_version c) repos (c_verify c) first_ok)%list
          | _, _ => idx
          end
      end
    else
      download_to (base ++ [OBasicAuth (c_user c) (c_pass c) src]) name (c_version c) repos (c_verify c) first_ok.

  (* ---------------------------------------------------------------- Pull.Run *)
  (* with the repair 6d7787e: after a --repo lookup the credentials are blanked unless
     pass-credentials is on or the chart URL is on the repository's scheme and host *)
  Definition pull (c : cpo) (name : string) (repos : list entry) (with_prov first_ok : bool) : list (string * gres) :=
    let src := cmdline_src c name repos in
    let base := [OBasicAuth (c_user c) (c_pass c) src; OPassAll (c_pass_all c); OOther; OOther; OOther] in
    if nonempty (c_repo_url c) then
      let idx := download_index (adhoc_entry (c_repo_url c) (c_user c) (c_pass c) (c_pass_all c)) in
      match find_in (c_repo_url c) name (c_version c) with
      | None => idx
      | Some chart_url =>
          match parse (c_repo_url c), parse chart_url with
          | Some u1, Some u2 =>
              let blank := if negb (c_pass_all c) && negb (same_origin u1 u2) then [OBasicAuth "" "" ""] else [] in
              (idx ++ download_to (base ++ blank) chart_url (c_version c) repos with_prov first_ok)%list
          | _, _ => idx
          end
      end
    else download_to base name (c_version c) repos with_prov first_ok.

  (* Pull.Run before the repair (kept for the refutation lemma) *)
  Definition pull_unrepaired (c : cpo) (name : string) (repos : list entry) (with_prov first_ok : bool) : list (string * gres) :=
    let src := cmdline_src c name repos in
    let base := [OBasicAuth (c_user c) (c_pass c) src; OPassAll (c_pass_all c); OOther; OOther; OOther] in
    if nonempty (c_repo_url c) then
      let idx := download_index (adhoc_entry (c_repo_url c) (c_user c) (c_pass c) (c_pass_all c)) in
      match find_in (c_repo_url c) name (c_version c) with
      | None => idx
      | Some chart_url => (idx ++ download_to base chart_url (c_version c) repos with_prov first_ok)%list
      end
    else download_to base name (c_version c) repos with_prov first_ok.

  (* ---------------------------------------------------------------- Manager.downloadAll, one dependency *)
  (* findChartURL: the repository entry whose URL equals the dependency's repository *)
  Fixpoint find_repo (repo_url : string) (repos : list entry) : option entry :=
    match repos with
    | [] => None
    | cr :: t => if url_equal repo_url (e_url cr) then Some cr else find_repo repo_url t
    end.

  (* findEntryByName + findVersionedEntry + normalizeURL(repoURL, ve.URLs[0]): a table *)
  Variable dep_url : entry -> string -> string -> string -> option string.

  (* with the repair 0ca3ebf: the repository's credentials are dropped unless pass-credentials
     is on or the chart URL is on the dependency repository's scheme and host *)
  Definition scoped_creds (dep_repo churl user pass : string) (pa : bool) : string * string :=
    if negb pa && (nonempty user || nonempty pass) then
      match parse dep_repo, parse churl with
      | Some u1, Some u2 => if same_origin u1 u2 then (user, pass) else ("", "")
      | _, _ => ("", "")
      end
    else (user, pass).

  Definition manager_dep_gen (repaired : bool) (dep_repo name version : string) (repos : list entry)
             (with_prov first_ok : bool) : list (string * gres) :=
    match find_repo dep_repo repos with
    | Some cr =>
        match dep_url cr dep_repo name version with
        | None => []
        | Some churl =>
            let '(us, pw) := if repaired then scoped_creds dep_repo churl (e_user cr) (e_pass cr) (e_pass_all cr)
                             else (e_user cr, e_pass cr) in
            download_to [OBasicAuth us pw (e_url cr); OPassAll (e_pass_all cr); OOther; OOther]
                        churl "" repos with_prov first_ok
        end
    | None =>
        (* not a configured repository: ad-hoc index fetch without credentials *)
        let idx := download_index (adhoc_entry dep_repo "" "" false) in
        match find_in dep_repo name version with
        | None => idx
        | Some churl =>
            (idx ++ download_to [OBasicAuth "" "" ""; OPassAll false; OOther; OOther] churl "" repos with_prov first_ok)%list
        end
    end.

  Definition manager_dep := manager_dep_gen true.
  Definition manager_dep_unrepaired := manager_dep_gen false.

  (* Manager.downloadAll over all remote dependencies of a chart, in order: (repository, name,
     version, the archive request was answered 200).  Every iteration builds a FRESH
     ChartDownloader whose option list comes from that dependency's repository alone; the loop
     stops at the first download that fails. *)
  Fixpoint download_all (deps : list (string * string * string * bool)) (repos : list entry) (with_prov : bool)
    : list (string * gres) :=
    match deps with
    | [] => []
    | (dep_repo, name, version, ok) :: t =>
        (manager_dep dep_repo name version repos with_prov ok ++ (if ok then download_all t repos with_prov else []))%list
    end.
End Getter.

(* Proofs for Misc/PanicsSort.v *)
From Coq Require Import List String Bool ZArith Lia.
From Helm Require Import Common.Assoc Misc.Panics Misc.PanicsDepsProofs Misc.PanicsSort.
Import ListNotations.
Local Open Scope string_scope.

Definition headed (m : manifest) : Prop := mn_head m <> None.

Section S.
  Variable atoi : string -> option Z.
  Variable norm_item : string -> string.
  Variable event_of : string -> option string.
  Variable kind_sort_m : list manifest -> list manifest.
  Variable kind_sort_h : list hook -> list hook.

  Lemma has_any_guarded e :
    exists b, has_any_annotation true e = Ok b /\ (b = true -> exists m, h_meta e = Some m).
  Proof.
    unfold has_any_annotation. destruct (h_meta e) as [m|]; [|exists false; split; [reflexivity|discriminate]].
    destruct (hm_ann m); eexists; split; try reflexivity; eauto.
  Qed.

  Lemma sort_entry_ok path d :
    post (fun r => Forall headed (snd r)) (sort_entry atoi norm_item event_of true path d).
  Proof.
    destruct d as [|entry]; [simpl; auto|]. unfold sort_entry.
    destruct (has_any_guarded entry) as [b [-> Hb]]. cbn [bind].
    destruct b; simpl; [|repeat constructor; unfold headed; simpl; discriminate].
    destruct (Hb eq_refl) as [m Hm].
    unfold annotation, hook_weight, annotation_values, annotation. rewrite Hm. simpl.
    destruct (match hm_ann m with Some a => aget hook_annotation a | None => None end); simpl;
      [|repeat constructor; unfold headed; simpl; discriminate].
    destruct (events_of norm_item event_of (split_comma s)); simpl; constructor.
  Qed.

  Lemma sort_docs_ok path ds :
    post (fun r => Forall headed (snd r)) (sort_docs atoi norm_item event_of true path ds).
  Proof.
    induction ds as [|d t IH]; simpl; [constructor|].
    eapply post_bind; [apply sort_entry_ok|]. intros a Ha.
    eapply post_bind; [apply IH|]. intros b Hb. simpl. apply Forall_app; auto.
  Qed.

  Lemma sort_files_ok fs :
    post (fun r => Forall headed (snd r)) (sort_files atoi norm_item event_of true fs).
  Proof.
    induction fs as [|f t IH]; simpl; [constructor|].
    destruct (mf_partial f || mf_blank f); auto.
    eapply post_bind; [apply sort_docs_ok|]. intros a Ha.
    eapply post_bind; [apply IH|]. intros b Hb. simpl. apply Forall_app; auto.
  Qed.

  Lemma all_kinds_ok ms : Forall headed ms -> exists ks, all_kinds ms = Ok ks.
  Proof.
    induction 1 as [|m t Hm Ht [ks IH]]; simpl; [eauto|].
    unfold headed in Hm. destruct (mn_head m); [|congruence]. simpl. rewrite IH. simpl. eauto.
  Qed.

  Theorem sort_manifests_no_panic fs :
    no_panic (sort_manifests atoi norm_item event_of kind_sort_m kind_sort_h true fs).
  Proof.
    unfold sort_manifests.
    pose proof (sort_files_ok fs) as H.
    destruct (sort_files atoi norm_item event_of true fs) as [r| |]; simpl in *; auto.
    unfold sort_manifests_by_kind. destruct (Nat.ltb (List.length (snd r)) 2); simpl; auto.
    destruct (all_kinds_ok _ H) as [ks ->]. simpl. auto.
  Qed.

  (* a parse error in any document that is reached is an error of the whole call *)
  Lemma sort_docs_bad path ds1 ds2 :
    (forall d, In d ds1 -> d <> DBad) ->
    sort_docs atoi norm_item event_of true path (ds1 ++ DBad :: ds2) = Err.
  Proof.
    induction ds1 as [|d t IH]; intros H; simpl; auto.
    pose proof (sort_entry_ok path d) as Hd.
    destruct (sort_entry atoi norm_item event_of true path d) eqn:E; cbn [bind]; auto.
    - rewrite IH; [reflexivity|]. intros d' Hd'. apply H. now right.
    - simpl in Hd. tauto.
  Qed.
End S.

(* the mutant without the Metadata != nil guard panics on the plainest document *)
Lemma sort_unguarded_panics :
  is_panic (sort_manifests (fun _ => None) (fun s => s) (fun e => Some e) (fun l => l) (fun l => l) false
              [mkMFile "t/a.yaml" false false [DHead (mkHead "ConfigMap" None)]]) = true.
Proof. vm_compute. reflexivity. Qed.
